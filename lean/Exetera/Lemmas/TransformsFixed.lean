import Exetera.Lemmas.TransformsBasic
/-! C06: `fixed_string_transform` keeps the first `strlen` bytes of every cell, zero padded; `cellsE` reads the cells. -/
namespace Exetera.Transforms
open Exetera Exetera.Spec.Transforms

theorem copyBytes_spec (vals : Bytes) (n p a k : Nat) (d : Bytes) (hp : p + n ≤ vals.length) (hk : n ≤ k)
    (ha : d.length = a) :
    copyBytes vals n p a (d ++ List.replicate k 0) = .ok (d ++ slice vals p (p + n) ++ List.replicate (k - n) 0) := by
  induction n generalizing p a k d with
  | zero => simp [copyBytes, slice_nil_of_eq]
  | succ n ih =>
    have hp' : p < vals.length := by omega
    obtain ⟨k', rfl⟩ : ∃ k', k = k' + 1 := ⟨k - 1, by omega⟩
    rw [copyBytes, getE_of_lt _ hp']
    simp only
    have hs := setE_prefix d k' 0 vals[p] "memory[a]"
    rw [ha] at hs
    rw [hs]
    simp only
    rw [ih (p + 1) (a + 1) k' (d ++ [vals[p]]) (by omega) (by omega) (by simp [ha])]
    rw [slice_succ vals p n hp']
    simp

theorem slice_min_take {α} (xs : List α) (a l n : Nat) : slice xs a (a + min l n) = (slice xs a (a + l)).take n := by
  simp only [slice, Nat.add_sub_cancel_left, List.take_take]
  rw [Nat.min_comm]

theorem fixedRows_spec (c : Chunk) (strlen : Nat) (rest : List Bytes) (i s : Nat) (done : Bytes)
    (h : EncFrom c i s rest) (hd : done.length = i * strlen) :
    fixedRows c strlen rest.length i (done ++ List.replicate (rest.length * strlen) 0)
      = .ok (done ++ (rest.map (fixedCell strlen)).flatten) := by
  induction rest generalizing i s done with
  | nil => simp [fixedRows]
  | cons cell rest ih =>
    have h0 := h.start
    have h1 := h.next
    have hrest := h.2.2.2
    obtain ⟨_, hlen, hsl, _⟩ := h
    simp only [List.length_cons]
    rw [fixedRows]
    simp only [getE, h0, h1]
    have e1 : min (s + cell.length + c.off) (s + c.off + strlen) - (s + c.off) = min cell.length strlen := by omega
    have e2 : (rest.length + 1) * strlen = rest.length * strlen + strlen := by rw [Nat.succ_mul]
    rw [e1, e2]
    rw [copyBytes_spec c.vals (min cell.length strlen) (s + c.off) (i * strlen) (rest.length * strlen + strlen) done
      (by have := Nat.min_le_left cell.length strlen; omega) (by have := Nat.min_le_right cell.length strlen; omega) hd]
    simp only
    have e3 : s + c.off = c.off + s := by omega
    rw [e3, slice_min_take, hsl]
    have e4 : rest.length * strlen + strlen - min cell.length strlen
        = (strlen - cell.length) + rest.length * strlen := by omega
    rw [e4, ← List.replicate_append_replicate]
    have := ih (i + 1) (s + cell.length) (done ++ fixedCell strlen cell) hrest (by
      simp only [List.length_append, fixedCell, List.length_take, List.length_replicate, hd, Nat.succ_mul]; omega)
    simp only [fixedCell, List.append_assoc] at this ⊢
    rw [this]
    simp [fixedCell]

theorem fixedStringTransform_spec (c : Chunk) (strlen : Nat) (cells : List Bytes) (h : Encodes c cells) :
    fixedStringTransform c strlen = .ok ((cells.map (fixedCell strlen)).flatten) := by
  obtain ⟨hr, ⟨s0, he, _⟩, hcol⟩ := h
  have := fixedRows_spec c strlen cells 0 s0 [] he (by simp)
  rw [fixedStringTransform, withCol_ok c _ _ _ hcol]
  simpa [hr] using this

/-! ### transform_to_values -/

theorem cellsFrom_spec (c : Chunk) (rest : List Bytes) (i s : Nat) (h : EncFrom c i s rest) :
    cellsFrom c rest.length i = .ok rest := by
  induction rest generalizing i s with
  | nil => simp [cellsFrom]
  | cons cell rest ih =>
    have h0 := h.start
    have h1 := h.next
    have hrest := h.2.2.2
    obtain ⟨_, hlen, hsl, _⟩ := h
    simp only [List.length_cons]
    rw [cellsFrom]
    have e : c.off + (s + cell.length) = c.off + s + cell.length := by omega
    simp only [getE, h0, h1, sliceE, e, hlen, if_true, hsl, ih (i + 1) (s + cell.length) hrest]

theorem cellsE_spec (c : Chunk) (cells : List Bytes) (h : Encodes c cells) : cellsE c = .ok cells := by
  obtain ⟨hr, ⟨s0, he, _⟩, hcol⟩ := h
  rw [cellsE, withCol_ok c _ _ _ hcol, hr]; exact cellsFrom_spec c cells 0 s0 he

end Exetera.Transforms
