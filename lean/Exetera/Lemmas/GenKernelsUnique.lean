import Exetera.Gen.Kernels
import Exetera.Model.Unique
import Exetera.Lemmas.GenKernels
import Exetera.Lemmas.GenKernelsCompareArrays
/-!
  The TRANSLATED `get_indexed_string_unique` (a set of lengths, a typed list of byte arrays the kernel appends to, three optional
  typed lists tested with `is not None`, `for j, unique_v in enumerate(unique_result)` with `break`, `unique_counts[j] += 1`,
  `continue`) against `Unique.getIndexedStringUnique` — transfer: every `.ok` run of the model is a run of the translated kernel
  with the same four lists.
-/
namespace Exetera.GenK

open Exetera Exetera.PyRt Exetera.Unique Exetera.Gen.Kernels

namespace GU

open get_indexed_string_unique

abbrev St := get_indexed_string_unique.St

/-- an int64 typed list as the kernel receives it -/
def natsI (xs : List Nat) : List Int := xs.map Int.ofNat

/-- an optional typed list as the translated kernel carries it: a presence flag and a value -/
def optOf (f : Bool) (xs : List Int) : Option (List Int) := if f then some xs else none

theorem optOf_none {f : Bool} {xs : List Int} (h : optOf f xs = none) : f = false := by
  cases f <;> simp_all [optOf]

theorem optOf_some {f : Bool} {xs l : List Int} (h : optOf f xs = some l) : f = true ∧ xs = l := by
  cases f <;> simp_all [optOf]

theorem optOf_cases {f : Bool} {q : List Int} {o : Option (List Nat)} (h : optOf f q = o.map natsI) :
    (o = none ∧ f = false) ∨ (∃ l, o = some l ∧ f = true ∧ q = natsI l) := by
  cases o with
  | none => exact .inl ⟨rfl, optOf_none h⟩
  | some l => exact .inr ⟨l, rfl, optOf_some h⟩

theorem ints8_inj : ∀ {a b : List UInt8}, ints8 a = ints8 b → a = b
  | [], [], _ => rfl
  | [], _ :: _, h => by simp [ints8] at h
  | _ :: _, [], h => by simp [ints8] at h
  | x :: a, y :: b, h => by
    simp only [ints8, List.map_cons, List.cons.injEq] at h
    have h1 : x.toNat = y.toNat := by omega
    rw [UInt8.toNat_inj.mp h1, ints8_inj (a := a) (b := b) h.2]

theorem ints8_beq (a b : List UInt8) : (ints8 a == ints8 b) = (a == b) := by
  by_cases h : a = b
  · subst h; simp
  · have : ints8 a ≠ ints8 b := fun h' => h (ints8_inj h')
    exact (beq_eq_false_iff_ne.mpr this).trans (beq_eq_false_iff_ne.mpr h).symm

theorem pySlice_nat {α} (xs : List α) (a b : Nat) : pySlice xs (some (a : Int)) (some (b : Int)) = slice xs a b := by
  have ha : ¬ ((a : Int) < 0) := by omega
  have hb : ¬ ((b : Int) < 0) := by omega
  simp only [pySlice, normBound, ha, hb, if_false, Int.toNat_natCast, slice]
  by_cases h : a ≤ xs.length
  · rw [Nat.min_eq_left h, List.take_eq_take_iff]
    simp only [List.length_drop]
    omega
  · have h1 : min a xs.length = xs.length := by omega
    rw [h1, List.drop_eq_nil_of_le (Nat.le_refl _), List.drop_eq_nil_of_le (by omega)]
    simp

theorem ints8_slice (v : List UInt8) (a b : Nat) : slice (ints8 v) a b = ints8 (slice v a b) := by
  simp [slice, ints8, List.map_take, List.map_drop]

theorem getE_natsI (sp : List Nat) (i : Nat) (site : String) {x : Nat} (h : sp[i]? = some x) :
    getE (natsI sp) i site = .ok (x : Int) := getE_map_ofNat sp i site h

/-! ### the scan `for j, unique_v in enumerate(unique_result)` -/

abbrev scanLoop (l : List (List Int × Nat)) (S : St) : Except Err St :=
  forEachAux (fun s : St => s.brk2) (fun k s => body_L2 { s with v5 := (k.2 : Int), v6 := k.1 }) l S

theorem miss (X : St) (hx : (X.v3 == X.v6) = false) : body_L2 X = .ok X := by
  simp only [body_L2, hx, Bool.false_eq_true, if_false]

theorem hit_brk (X s' : St) (hx : (X.v3 == X.v6) = true) (h : body_L2 X = .ok s') : s'.brk2 = true := by
  obtain ⟨q0, q1, q2, q3, f3, q4, f4, q5, f5, w0, w1, w2, w3, w4, w5, w6, bk⟩ := X
  simp only at hx
  cases f4 <;> cases f5 <;>
    simp only [body_L2, hx, if_true, Bool.false_eq_true, if_false, bindE_ok, readOptE, bindE_eq_ok, Except.ok.injEq] at h
  · subst h; rfl
  · obtain ⟨a, _, h⟩ := h; subst h; rfl
  · subst h; rfl
  · obtain ⟨a, _, h⟩ := h; subst h; rfl

theorem scan (v : Bytes) : ∀ (us : List Bytes) (j : Nat) (S : St), S.brk2 = false → S.v3 = ints8 v →
    match scanEq v us j with
    | none => ∃ a b, scanLoop (List.zipIdx (us.map ints8) j) S = .ok { S with v5 := a, v6 := b }
    | some j' => scanLoop (List.zipIdx (us.map ints8) j) S = body_L2 { S with v5 := (j' : Int), v6 := S.v3 } := by
  intro us
  induction us with
  | nil =>
    intro j S _ _
    simp only [scanEq, List.map_nil, List.zipIdx_nil, scanLoop, forEachAux]
    exact ⟨S.v5, S.v6, rfl⟩
  | cons u us ih =>
    intro j S hb hv
    obtain ⟨q0, q1, q2, q3, f3, q4, f4, q5, f5, w0, w1, w2, w3, w4, w5, w6, bk⟩ := S
    simp only at hb hv
    subst hb hv
    simp only [scanEq, List.map_cons, List.zipIdx_cons, scanLoop, forEachAux]
    by_cases hvu : v = u
    · subst hvu
      simp only [beq_self_eq_true, if_true]
      cases hbody : body_L2 ⟨q0, q1, q2, q3, f3, q4, f4, q5, f5, w0, w1, w2, ints8 v, w4, (j : Int), ints8 v, false⟩ with
      | error e => rfl
      | ok s' =>
        have := hit_brk _ s' (by simp) hbody
        simp only [this, if_true]
    · have hne : (v == u) = false := by simp [hvu]
      simp only [hne, Bool.false_eq_true, if_false]
      have hm := miss ⟨q0, q1, q2, q3, f3, q4, f4, q5, f5, w0, w1, w2, ints8 v, w4, (j : Int), ints8 u, false⟩
        (by simp only [ints8_beq, hne])
      rw [hm]
      simp only [Bool.false_eq_true, if_false]
      exact ih (j + 1) ⟨q0, q1, q2, q3, f3, q4, f4, q5, f5, w0, w1, w2, ints8 v, w4, (j : Int), ints8 u, false⟩ rfl rfl

/-! ### one row -/

structure R (indices : List Nat) (values : Bytes) (s : St) (t : UState) : Prop where
  h0 : s.p0 = natsI indices
  h1 : s.p1 = ints8 values
  h2 : s.p2 = t.out.result.map ints8
  h3 : optOf s.p3_some s.p3 = t.out.index.map natsI
  h4 : optOf s.p4_some s.p4 = t.out.inverse.map natsI
  h5 : optOf s.p5_some s.p5 = t.out.counts.map natsI
  hv0 : s.v0 = t.lengthsSeen
  hb : s.brk2 = false

theorem step (indices : List Nat) (values : Bytes) (i : Nat) (s : St) (t t' : UState)
    (hR : R indices values s t) (h : uniqueStep indices values t i = .ok t') :
    ∃ s', body_L1 { s with v1 := (i : Int) } = .ok s' ∧ R indices values s' t' := by
  obtain ⟨q0, q1, q2, q3, f3, q4, f4, q5, f5, w0, w1, w2, w3, w4, w5, w6, bk⟩ := s
  obtain ⟨ls, ⟨res, idx, inv, cnt⟩⟩ := t
  obtain ⟨h0, h1, h2, h3, h4, h5, hv0, hb⟩ := hR
  simp only at h0 h1 h2 h3 h4 h5 hv0 hb
  subst h0 h1 h2 hv0 hb
  simp only [uniqueStep] at h
  cases hhi : getE indices (i + 1) "unique:indices[i+1]" with
  | error e => simp [hhi] at h
  | ok hi =>
    cases hlo : getE indices i "unique:indices[i]" with
    | error e => simp [hhi, hlo] at h
    | ok lo =>
      simp only [hhi, hlo] at h
      have ghi := getE_eq_ok.mp hhi
      have glo := getE_eq_ok.mp hlo
      have e1 : (i : Int) + 1 = ((i + 1 : Nat) : Int) := by omega
      have r1 : ∀ site, idxE (natsI indices) ((i : Int) + 1) site = .ok (hi : Int) := fun site => by
        rw [e1, idxE_nat]; exact getE_natsI _ _ _ ghi
      have r2 : ∀ site, idxE (natsI indices) (i : Int) site = .ok (lo : Int) := fun site => by
        rw [idxE_nat]; exact getE_natsI _ _ _ glo
      simp only [body_L1, r1, r2, bindE_ok, pySlice_nat, ints8_slice]
      have hs := scan (slice values lo hi) res 0 ⟨natsI indices, ints8 values, res.map ints8, q3, f3, q4, f4, q5, f5, w0, (i : Int),
        (hi : Int) - (lo : Int), ints8 (slice values lo hi), true, w5, w6, false⟩ rfl rfl
      simp only [scanLoop] at hs
      by_cases hc : w0.contains ((hi : Int) - (lo : Int)) = true
      · simp only [hc, Bool.not_true, Bool.false_eq_true, if_false, forEachB] at h ⊢
        cases hsc : scanEq (slice values lo hi) res 0 with
        | none =>
          simp only [hsc] at hs h
          obtain ⟨a, b, hs⟩ := hs
          rw [hs]
          simp only [Except.ok.injEq] at h
          subst h
          rcases optOf_cases h3 with ⟨rfl, rfl⟩ | ⟨l3, rfl, rfl, rfl⟩ <;>
          rcases optOf_cases h4 with ⟨rfl, rfl⟩ | ⟨l4, rfl, rfl, rfl⟩ <;>
          rcases optOf_cases h5 with ⟨rfl, rfl⟩ | ⟨l5, rfl, rfl, rfl⟩ <;>
          simp only [bindE_ok, if_true, if_false, Bool.false_eq_true] <;>
          refine ⟨_, rfl, ?_⟩ <;>
          constructor <;> simp [optOf, natsI, UOut.addNew, pyLen]
        | some j =>
          simp only [hsc] at hs h
          rw [hs]
          rcases optOf_cases h5 with ⟨rfl, rfl⟩ | ⟨c, rfl, rfl, rfl⟩
          · simp only [Except.ok.injEq] at h
            subst h
            rcases optOf_cases h3 with ⟨rfl, rfl⟩ | ⟨l3, rfl, rfl, rfl⟩ <;>
            rcases optOf_cases h4 with ⟨rfl, rfl⟩ | ⟨l4, rfl, rfl, rfl⟩ <;>
            simp only [body_L2, beq_self_eq_true, bindE_ok, if_true, if_false, Bool.false_eq_true] <;>
            refine ⟨_, rfl, ?_⟩ <;>
            constructor <;> simp [optOf, natsI]
          · cases hg : getE c j "unique:unique_counts[j]" with
            | error e => simp [hg] at h
            | ok cj =>
              simp only [hg, Except.ok.injEq] at h
              subst h
              have gj := getE_eq_ok.mp hg
              have hjl : j < (natsI c).length := by
                have := (List.getElem?_eq_some_iff.mp gj).1
                simpa [natsI] using this
              rcases optOf_cases h3 with ⟨rfl, rfl⟩ | ⟨l3, rfl, rfl, rfl⟩ <;>
              rcases optOf_cases h4 with ⟨rfl, rfl⟩ | ⟨l4, rfl, rfl, rfl⟩ <;>
              simp only [body_L2, beq_self_eq_true, bindE_ok, if_true, if_false, Bool.false_eq_true, readOptE, idxE_nat,
                getE_natsI c j _ gj, setIdxE_nat, setE, hjl] <;>
              refine ⟨_, rfl, ?_⟩ <;>
              constructor <;> simp [optOf, natsI, List.map_set]
      · have hc' : w0.contains ((hi : Int) - (lo : Int)) = false := by simpa using hc
        simp only [hc', Bool.not_false, if_true, Except.ok.injEq] at h ⊢
        subst h
        rcases optOf_cases h3 with ⟨rfl, rfl⟩ | ⟨l3, rfl, rfl, rfl⟩ <;>
        rcases optOf_cases h4 with ⟨rfl, rfl⟩ | ⟨l4, rfl, rfl, rfl⟩ <;>
        rcases optOf_cases h5 with ⟨rfl, rfl⟩ | ⟨l5, rfl, rfl, rfl⟩ <;>
        simp only [bindE_ok, if_true, if_false, Bool.false_eq_true] <;>
        refine ⟨_, rfl, ?_⟩ <;>
        constructor <;> simp [optOf, natsI, UOut.addNew, pyLen]

/-! ### the row loop and the call -/

theorem rows (indices : List Nat) (values : Bytes) :
    ∀ (n i : Nat) (s : St) (t t' : UState), R indices values s t → uniqueLoop indices values n i t = .ok t' →
      ∃ s', forRangeAux (fun _ => false) (fun k s => body_L1 { s with v1 := k }) n (i : Int) s = .ok s' ∧
        R indices values s' t' := by
  intro n
  induction n with
  | zero =>
    intro i s t t' hR h
    simp only [uniqueLoop, Except.ok.injEq] at h
    subst h
    exact ⟨s, rfl, hR⟩
  | succ n ih =>
    intro i s t t' hR h
    simp only [uniqueLoop] at h
    cases hst : uniqueStep indices values t i with
    | error e => simp [hst] at h
    | ok t1 =>
      simp only [hst] at h
      obtain ⟨s1, hb, hR1⟩ := step indices values i s t t1 hR hst
      have e1 : (i : Int) + 1 = ((i + 1 : Nat) : Int) := by omega
      obtain ⟨s', hl, hR'⟩ := ih (i + 1) s1 t1 t' hR1 h
      refine ⟨s', ?_, hR'⟩
      simp only [forRangeAux, hb, Bool.false_eq_true, if_false, e1]
      exact hl

/-- an optional typed list that is empty at the call (the public caller's shape) -/
def optNil (b : Bool) : Option (List Int) := if b then some [] else none

end GU

open GU in
/-- every `.ok` run of the model is a run of the translated kernel (called, as `unique_for_indexed_string` does, with an empty
    `unique_result` and empty / absent companions) with the same four lists -/
theorem get_indexed_string_unique_ok (indices : List Nat) (values : Bytes) (ri rv rc : Bool) (o : UOut)
    (h : getIndexedStringUnique indices values ri rv rc = .ok o) :
    get_indexed_string_unique.run (natsI indices) (ints8 values) [] (optNil ri) (optNil rv) (optNil rc)
      = .ok (o.result.map ints8, o.index.map natsI, o.inverse.map natsI, o.counts.map natsI) := by
  unfold getIndexedStringUnique at h
  simp only at h
  cases hl : uniqueLoop indices values (indices.length - 1) 0
      ⟨[-1], ⟨[], if ri then some [] else none, if rv then some [] else none, if rc then some [] else none⟩⟩ with
  | error e => simp [hl] at h
  | ok t' =>
    simp only [hl, Except.ok.injEq] at h
    subst h
    obtain ⟨s', hrun, hR⟩ := rows indices values (indices.length - 1) 0
      ⟨natsI indices, ints8 values, [], (optNil ri).getD [], (optNil ri).isSome, (optNil rv).getD [], (optNil rv).isSome,
        (optNil rc).getD [], (optNil rc).isSome, [-1], 0, 0, [], false, 0, [], false⟩ _ t'
      ⟨rfl, rfl, rfl, by cases ri <;> rfl, by cases rv <;> rfl, by cases rc <;> rfl, rfl, rfl⟩ hl
    have hn : ((pyLen (natsI indices)) - 1 - 0).toNat = indices.length - 1 := by
      simp only [pyLen, natsI, List.length_map]; omega
    unfold get_indexed_string_unique.run
    simp only [forRangeE, hn]
    rw [show ((0 : Nat) : Int) = 0 from rfl] at hrun
    rw [hrun]
    simp only [bindE_ok]
    have h3 := hR.h3; have h4 := hR.h4; have h5 := hR.h5
    simp only [optOf] at h3 h4 h5
    rw [hR.h2, h3, h4, h5]

end Exetera.GenK
