import Exetera.Props.C19
import Exetera.Lemmas.GenKernelsJoinFlat
import Exetera.Lemmas.GenKernelsJoinSize
import Exetera.Lemmas.GenKernelsJoinInnerLU
import Exetera.Lemmas.GenKernelsJoinInnerG
/-!
  C19 over the TRANSLATED flat left-map kernels (`Gen/Kernels.lean`, regenerated from operations.py by tools/translate_njit.py on
  every run): `generate_ordered_map_to_left_both_unique`, `generate_ordered_map_to_left_right_unique`,
  `ordered_inner_map_both_unique`.

  * `gen_*_flat_ok` (transfer form): every `.ok` run of the guard/body model `generateLeft` is a run of the translated kernel
    (for every fuel ≥ len(first) + len(second)) with the same flag and the same `result` array. Transfer rather than `Sim`: the
    model keeps the written part of `result` as a list and checks capacity, the translation stores into the caller's array.
  * `gen_*_flat_eq`: the property statements `C19.left_both_unique_flat_eq` / `left_right_unique_flat_eq` for the translated
    kernels themselves.
-/
namespace Exetera.Props.C19Gen
open Exetera Exetera.Spec Exetera.Join Exetera.JoinFlat Exetera.GenK Exetera.Gen.Kernels

theorem gen_left_both_unique_flat_ok (first second result : List Int) (inv : Int) (r : Bool × List Int) (fuel : Nat)
    (hf : first.length + second.length ≤ fuel) (h : generateLeft true first second result inv = .ok r) :
    generate_ordered_map_to_left_both_unique.run first second result inv fuel = .ok r :=
  left_both_unique_flat_ok first second result inv r fuel hf h

theorem gen_left_right_unique_flat_ok (first second result : List Int) (inv : Int) (r : Bool × List Int) (fuel : Nat)
    (hf : first.length + second.length ≤ fuel) (h : generateLeft false first second result inv = .ok r) :
    generate_ordered_map_to_left_right_unique.run first second result inv fuel = .ok r :=
  left_right_unique_flat_ok first second result inv r fuel hf h

/-- both columns duplicate-free: the translated kernel returns normally (no subscript out of range or negative, both loops end
    within the fuel) and `result` is the right column of the relational left join -/
theorem gen_left_both_unique_flat_eq {L R : List Int} (result : List Int) (inv : Int) (hL : L.Pairwise (· < ·))
    (hR : R.Pairwise (· < ·)) (hres : result.length = L.length) (fuel : Nat) (hf : L.length + R.length ≤ fuel) :
    ∃ u, generate_ordered_map_to_left_both_unique.run L R result inv fuel = .ok (u, encR inv (leftJoin L R)) := by
  obtain ⟨u, hu⟩ := C19.left_both_unique_flat_eq result inv hL hR hres
  exact ⟨u, left_both_unique_flat_ok L R result inv _ fuel hf hu⟩

/-- sorted left keys, duplicate-free right column -/
theorem gen_left_right_unique_flat_eq {L R : List Int} (result : List Int) (inv : Int) (hL : Sorted L)
    (hR : R.Pairwise (· < ·)) (hres : result.length = L.length) (fuel : Nat) (hf : L.length + R.length ≤ fuel) :
    ∃ u, generate_ordered_map_to_left_right_unique.run L R result inv fuel = .ok (u, encR inv (leftJoin L R)) := by
  obtain ⟨u, hu⟩ := C19.left_right_unique_flat_eq result inv hL hR hres
  exact ⟨u, left_right_unique_flat_ok L R result inv _ fuel hf hu⟩

example : generate_ordered_map_to_left_both_unique.run [1, 3, 5] [3, 4, 5] [9, 9, 9] (-1) 6 = .ok (true, [-1, 0, 2]) := rfl
example : generate_ordered_map_to_left_right_unique.run [1, 3, 3, 5] [3, 4] [9, 9, 9, 9] (-1) 6 = .ok (true, [-1, 0, 0, -1]) := rfl
example : generateLeft false [1, 3, 3, 5] [3, 4] [9, 9, 9, 9] (-1) = .ok (true, [-1, 0, 0, -1]) := rfl
example : ([1, 3, 5] : List Int).Pairwise (· < ·) ∧ ([3, 4, 5] : List Int).Pairwise (· < ·) := by decide

/-! ## ordered_inner_map_both_unique (no `return`: the result is the pair of map arrays) -/

theorem gen_inner_map_both_unique_flat_ok (left right l2i r2i : List Int) (r : List Int × List Int) (fuel : Nat)
    (hf : left.length + right.length ≤ fuel) (h : orderedInnerMap false false left right l2i r2i = .ok r) :
    ordered_inner_map_both_unique.run left right l2i r2i fuel = .ok r :=
  inner_map_both_unique_flat_ok left right l2i r2i r fuel hf h

/-- both columns duplicate-free, arrays at least as long as the join: the translated kernel returns normally and the two arrays
    list exactly the matching pairs in (left, right) order, the rest of the arrays untouched -/
theorem gen_inner_map_both_unique_flat_eq {L R : List Int} (l2i r2i : List Int) (hL : L.Pairwise (· < ·))
    (hR : R.Pairwise (· < ·)) (hl : (innerJoin L R).length ≤ l2i.length) (hr : (innerJoin L R).length ≤ r2i.length)
    (fuel : Nat) (hf : L.length + R.length ≤ fuel) :
    ordered_inner_map_both_unique.run L R l2i r2i fuel =
      .ok ((encodeInner (innerJoin L R)).1 ++ l2i.drop (innerJoin L R).length,
           (encodeInner (innerJoin L R)).2 ++ r2i.drop (innerJoin L R).length) :=
  inner_map_both_unique_flat_ok L R l2i r2i _ fuel hf (C19.inner_map_both_unique_flat_eq l2i r2i hL hR hl hr)

example : ordered_inner_map_both_unique.run [1, 3, 5] [3, 4, 5] [9, 9, 9] [8, 8] 6 = .ok ([1, 2, 9], [0, 2]) := rfl

/-! ## ordered_inner_map_result_size (outer `while`, two run-counting `while` loops with subscripting conditions) -/

theorem gen_inner_result_size_ok (left right : List Int) (r fuel : Nat) (hfuel : left.length + right.length ≤ fuel)
    (h : innerResultSize left right = .ok r) :
    ordered_inner_map_result_size.run left right fuel = .ok (r : Int) :=
  ordered_inner_map_result_size_ok left right r fuel hfuel h

/-- the statement of `C19.inner_result_size_eq` for the translated kernel: on sorted keys it returns normally (no subscript out of
    range or negative, all three loops finish within `len(left) + len(right)` steps) the number of matching pairs -/
theorem gen_inner_result_size_eq {L R : List Int} (hL : Sorted L) (hR : Sorted R) (fuel : Nat) (hfuel : L.length + R.length ≤ fuel) :
    ordered_inner_map_result_size.run L R fuel = .ok (((innerJoin L R).length : Nat) : Int) :=
  ordered_inner_map_result_size_ok L R _ fuel hfuel (C19.inner_result_size_eq hL hR)

example : ordered_inner_map_result_size.run [1, 1, 2, 4, 4, 5] [1, 2, 2, 4, 6] 11 = .ok 6 := by decide

/-! ## ordered_inner_map_left_unique / ordered_inner_map (run-counting `while` loops, the block written by `for` loops) -/

theorem gen_inner_map_left_unique_flat_ok (left right l2i r2i : List Int) (r : List Int × List Int) (fuel : Nat)
    (hf : left.length + right.length ≤ fuel) (h : orderedInnerMap false true left right l2i r2i = .ok r) :
    ordered_inner_map_left_unique.run left right l2i r2i fuel = .ok r :=
  inner_map_left_unique_flat_ok left right l2i r2i r fuel hf h

theorem gen_inner_map_flat_ok (left right l2i r2i : List Int) (r : List Int × List Int) (fuel : Nat)
    (hf : left.length + right.length ≤ fuel) (h : orderedInnerMap true true left right l2i r2i = .ok r) :
    ordered_inner_map.run left right l2i r2i fuel = .ok r :=
  inner_map_flat_ok left right l2i r2i r fuel hf h

/-- duplicate-free left column, arrays at least as long as the join: the translated `ordered_inner_map_left_unique` returns normally
    and the two arrays list exactly the matching pairs in (left, right) order, the rest of the arrays untouched -/
theorem gen_inner_map_left_unique_flat_eq {L R : List Int} (l2i r2i : List Int) (hL : L.Pairwise (· < ·)) (hR : Sorted R)
    (hl : (innerJoin L R).length ≤ l2i.length) (hr : (innerJoin L R).length ≤ r2i.length)
    (fuel : Nat) (hf : L.length + R.length ≤ fuel) :
    ordered_inner_map_left_unique.run L R l2i r2i fuel =
      .ok ((encodeInner (innerJoin L R)).1 ++ l2i.drop (innerJoin L R).length,
           (encodeInner (innerJoin L R)).2 ++ r2i.drop (innerJoin L R).length) :=
  inner_map_left_unique_flat_ok L R l2i r2i _ fuel hf (C19.inner_map_left_unique_flat_eq l2i r2i hL hR hl hr)

/-- the general kernel (both columns may repeat), same statement -/
theorem gen_inner_map_flat_eq {L R : List Int} (l2i r2i : List Int) (hL : Sorted L) (hR : Sorted R)
    (hl : (innerJoin L R).length ≤ l2i.length) (hr : (innerJoin L R).length ≤ r2i.length)
    (fuel : Nat) (hf : L.length + R.length ≤ fuel) :
    ordered_inner_map.run L R l2i r2i fuel =
      .ok ((encodeInner (innerJoin L R)).1 ++ l2i.drop (innerJoin L R).length,
           (encodeInner (innerJoin L R)).2 ++ r2i.drop (innerJoin L R).length) :=
  inner_map_flat_ok L R l2i r2i _ fuel hf (C19.inner_map_flat_eq l2i r2i hL hR hl hr)

example : ordered_inner_map.run [1, 1, 2, 4, 4, 5] [1, 2, 2, 4, 6] [9, 9, 9, 9, 9, 9, 9] [8, 8, 8, 8, 8, 8] 11
    = .ok ([0, 1, 2, 2, 3, 4, 9], [0, 0, 1, 2, 3, 3]) := rfl
example : ordered_inner_map_left_unique.run [1, 2, 4] [1, 2, 2, 4, 6] [9, 9, 9, 9, 9] [8, 8, 8, 8] 8
    = .ok ([0, 1, 1, 2, 9], [0, 1, 2, 3]) := rfl

end Exetera.Props.C19Gen
