import Exetera.Lemmas.SortKeysRank
import Exetera.Lemmas.FilterIndexSortFrame
import Exetera.Lemmas.IndexedReader
/-! `sort_values` / `dataset_sort_index` with ANY mix of numeric and string key columns. -/
namespace Exetera.FilterIndex
open Exetera Exetera.Spec

/-- the integer column the model sorts for a key column: numbers as they are, strings by rank -/
def encCol : KeyCol → List Int
  | .nums xs => xs
  | .strs es => rankKeys es

theorem encCol_length (k : KeyCol) : (encCol k).length = k.length := by
  cases k <;> simp [encCol, KeyCol.length, rankKeys]

theorem numpyView_length (k : KeyCol) : k.numpyView.length = k.length := by
  cases k <;> simp [KeyCol.numpyView, KeyCol.length]

theorem keyRowK_cons (k : KeyCol) (ks : List KeyCol) (a : Nat) (v : KeyVal) (h : k.at? a = some v) :
    keyRowK (k :: ks) a = v :: keyRowK ks a := by simp [keyRowK, h]

theorem keyRow_cons' (c : List Int) (cs : List (List Int)) (a : Nat) (x : Int) (h : c[a]? = some x) :
    keyRow (c :: cs) a = x :: keyRow cs a := by simp [keyRow, h]

/-- on rows of the frame, comparing the encoded integer tuples IS comparing the key tuples -/
theorem lexLE_enc (n : Nat) (keys : List KeyCol) (hk : ∀ k ∈ keys, k.length = n) (a b : Nat) (ha : a < n) (hb : b < n) :
    lexLE (keyRow (keys.map encCol) a) (keyRow (keys.map encCol) b) = lexLEK (keyRowK keys a) (keyRowK keys b) := by
  induction keys with
  | nil => rfl
  | cons k ks ih =>
    have ih := ih (fun k' hk' => hk k' (by simp [hk']))
    have hl : k.length = n := hk k (by simp)
    cases k with
    | nums xs =>
      simp only [KeyCol.length] at hl
      have ha' : a < xs.length := by omega
      have hb' : b < xs.length := by omega
      rw [List.map_cons, keyRow_cons' _ _ a xs[a] (by simp [encCol]), keyRow_cons' _ _ b xs[b] (by simp [encCol]),
        keyRowK_cons _ _ a (.num xs[a]) (by simp [KeyCol.at?]), keyRowK_cons _ _ b (.num xs[b]) (by simp [KeyCol.at?])]
      simp only [lexLE, lexLEK, keyLt, ih]
      have e : (xs[a] == xs[b]) = (KeyVal.num xs[a] == KeyVal.num xs[b]) := by
        by_cases he : xs[a] = xs[b]
        · simp [he]
        · have h1 : (xs[a] == xs[b]) = false := by rw [beq_eq_false_iff_ne]; exact he
          have h2 : (KeyVal.num xs[a] == KeyVal.num xs[b]) = false := by
            rw [beq_eq_false_iff_ne]; intro h; injection h with h; exact he h
          rw [h1, h2]
      rw [e]
    | strs es =>
      simp only [KeyCol.length] at hl
      have ha' : a < es.length := by omega
      have hb' : b < es.length := by omega
      have ma : es[a] ∈ es := List.getElem_mem _
      have mb : es[b] ∈ es := List.getElem_mem _
      obtain ⟨hlt, heq⟩ := rankOf_lt_iff es es[a] es[b] ma mb
      rw [List.map_cons, keyRow_cons' _ _ a (rankOf es es[a] : Int) (by simp only [encCol]; exact rankKeys_getElem? es a ha'),
        keyRow_cons' _ _ b (rankOf es es[b] : Int) (by simp only [encCol]; exact rankKeys_getElem? es b hb'),
        keyRowK_cons _ _ a (.str es[a]) (by simp [KeyCol.at?]), keyRowK_cons _ _ b (.str es[b]) (by simp [KeyCol.at?])]
      have e1 : decide ((rankOf es es[a] : Int) < (rankOf es es[b] : Int)) = strLt es[a] es[b] := by
        cases hs : strLt es[a] es[b] with
        | true => simp; exact hlt.mpr hs
        | false =>
          simp
          have hn : ¬ rankOf es es[a] < rankOf es es[b] := fun hh => by
            have := hlt.mp hh
            rw [hs] at this; cases this
          omega
      have e2 : ((rankOf es es[a] : Int) == (rankOf es es[b] : Int)) = (KeyVal.str es[a] == KeyVal.str es[b]) := by
        by_cases he : es[a] = es[b]
        · simp [he]
        · have hn : rankOf es es[a] ≠ rankOf es es[b] := fun h => he (heq.mp h)
          have h1 : ((rankOf es es[a] : Int) == (rankOf es es[b] : Int)) = false := by
            rw [beq_eq_false_iff_ne]; omega
          have h2 : (KeyVal.str es[a] == KeyVal.str es[b]) = false := by
            rw [beq_eq_false_iff_ne]; intro h; injection h with h; exact he h
          rw [h1, h2]
      simp only [lexLE, lexLEK, keyLt, ih, e1, e2]

/-- the relation of `IsStableSortPermK` -/
def RefK (keys : List KeyCol) (i j : Nat) : Prop :=
  lexLEK (keyRowK keys i) (keyRowK keys j) = true ∧ (lexLEK (keyRowK keys j) (keyRowK keys i) = true → i < j)

/-- the permutation the model computes from the encoded columns is THE stable sort permutation of the mixed key tuples -/
theorem sortPerm_enc_stableK (n : Nat) (keys : List KeyCol) (hk : ∀ k ∈ keys, k.length = n) :
    IsStableSortPermK keys n (sortPerm (keys.map encCol) n) ∧
    ∀ q, IsStableSortPermK keys n q → q = sortPerm (keys.map encCol) n := by
  have hperm : (sortPerm (keys.map encCol) n).Perm (List.range n) := List.mergeSort_perm _ _
  have hmem : ∀ a ∈ sortPerm (keys.map encCol) n, a < n := fun a ha => List.mem_range.mp (hperm.subset ha)
  have hpw : (sortPerm (keys.map encCol) n).Pairwise (RefK keys) :=
    (sortPerm_refines (keys.map encCol) n).imp_of_mem (fun {a b} ha hb h => by
      have e1 := lexLE_enc n keys hk a b (hmem a ha) (hmem b hb)
      have e2 := lexLE_enc n keys hk b a (hmem b hb) (hmem a ha)
      simp only [Refine, lexRowLE] at h
      exact ⟨by rw [← e1]; exact h.1, fun h' => h.2 (by rw [e2]; exact h')⟩)
  refine ⟨⟨hperm, hpw⟩, ?_⟩
  intro q ⟨hq, hqpw⟩
  exact List.Perm.eq_of_pairwise (le := RefK keys)
    (fun a b _ _ h1 h2 => by
      have := h1.2 h2.1
      have := h2.2 h1.1
      omega)
    hqpw hpw (hq.trans hperm.symm)

/-! ### the key columns the model looks up -/

/-- cutting the stored bytes at the stored offsets gives the entries back -/
theorem entriesOf_wellformed (es : List (List Nat)) : entriesOf (offsetsF es) es.flatten = es := by
  apply List.ext_getElem
  · simp [entriesOf, offsetsF, offsetsFrom_length]
  · intro k h1 h2
    have hk : k < es.length := h2
    have g0 : (offsetsF es).getD k 0 = IndexedWriter.off es k := by
      simp [List.getD, offsetsF, offsetsFrom_getElem? 0 es k (by omega), IndexedWriter.off]
    have g1 : (offsetsF es).getD (k + 1) 0 = IndexedWriter.off es (k + 1) := by
      simp [List.getD, offsetsF, offsetsFrom_getElem? 0 es (k + 1) (by omega), IndexedWriter.off]
    simp only [entriesOf, List.getElem_map, List.getElem_range, g0, g1]
    have := IndexedWriter.slice_flatten_entry es k hk
    simpa [slice] using this

theorem entriesOf_nil (v : List Nat) : entriesOf [] v = [] := by simp [entriesOf]

/-- what `keyColumns` hands to the sort for the key columns `keys` of the frame: the integer encoding of each column as numpy
    sees it (strings without trailing NULs) -/
theorem keyColumns_eq_all (sf : Frame) (cols : List (ColSpec Meta)) (hh : Holds sf cols) (by_ : List String)
    (keys : List KeyCol) (hk : keyColsAll cols by_ = some keys) :
    keyColumns sf by_ = .ok ((keys.map KeyCol.numpyView).map encCol) ∧ keysExist sf by_ = true ∧
      (∀ k ∈ keys, ∃ c ∈ cols, c.content.length = k.length) := by
  induction by_ generalizing keys with
  | nil => simp [keyColsAll] at hk; subst hk; exact ⟨rfl, rfl, by simp⟩
  | cons b bs ih =>
    simp only [keyColsAll] at hk
    rcases Holds_lookup sf cols hh b with ⟨_, _, hf⟩ | ⟨f, c, hl, hhas, hf, he, hmem⟩
    · simp [hf] at hk
    · simp only [hf] at hk
      cases hr : keyColsAll cols bs with
      | none => simp [hr] at hk
      | some r =>
        obtain ⟨h1, h2, h3⟩ := ih r hr
        simp only [hr] at hk
        have hex : keysExist sf (b :: bs) = true := by
          simp only [keysExist, List.all_cons, hhas, Bool.true_and]; exact h2
        cases hc : c.content with
        | nums xs =>
          simp only [hc, Option.some.injEq] at hk; subst hk
          have hp : f.payload = .plain xs := by
            cases hpay : f.payload with
            | plain d => rw [hpay, hc] at he; simp only [Encodes] at he; rw [he]
            | indexed i v => rw [hpay, hc] at he; simp [Encodes] at he
          refine ⟨by simp only [keyColumns, hl, hp, h1, List.map_cons, KeyCol.numpyView, encCol], hex, ?_⟩
          intro k hk
          rcases List.mem_cons.mp hk with rfl | hk
          · exact ⟨c, hmem, by rw [hc]; rfl⟩
          · exact h3 k hk
        | strs es =>
          simp only [hc, Option.some.injEq] at hk; subst hk
          have hp : ∃ i v, f.payload = .indexed i v ∧ entriesOf i v = es := by
            cases hpay : f.payload with
            | plain d => rw [hpay, hc] at he; simp [Encodes] at he
            | indexed i v =>
              rw [hpay, hc] at he
              obtain ⟨hi, hv⟩ := he
              refine ⟨i, v, rfl, ?_⟩
              rcases hi with hi | ⟨he0, hi⟩
              · subst hi hv; exact entriesOf_wellformed es
              · subst he0 hi; exact entriesOf_nil v
          obtain ⟨i, v, hp, hent⟩ := hp
          refine ⟨by simp only [keyColumns, hl, hp, h1, hent, List.map_cons, KeyCol.numpyView, encCol]; rfl, hex, ?_⟩
          intro k hk
          rcases List.mem_cons.mp hk with rfl | hk
          · exact ⟨c, hmem, by rw [hc]; rfl⟩
          · exact h3 k hk

/-- `sort_values(by)` on a rectangular frame of `n` rows with ANY mix of key columns is `apply_index` with a permutation `p`
    that is THE stable ascending lexicographic sort permutation of the key tuples as numpy sees them -/
theorem dfSortValues_eq_all (v : Variant) (st : Store) (src : String) (sf : Frame) (cols : List (ColSpec Meta))
    (hs : st.lookup src = some sf) (hh : Holds sf cols) (n : Nat) (hrect : ∀ c ∈ cols, c.content.length = n)
    (by_ : List String) (hne : by_ ≠ []) (keys : List KeyCol) (hk : keyColsAll cols by_ = some keys)
    (ddf : Option String) :
    ∃ p, dfSortValues v st src by_ ddf = dfApplyIndex v st src (p.map (fun (k : Nat) => (k : Int))) ddf ∧
      IsStableSortPermK (keys.map KeyCol.numpyView) n p ∧
      ∀ q, IsStableSortPermK (keys.map KeyCol.numpyView) n q → q = p := by
  obtain ⟨hkc, hke, hkn⟩ := keyColumns_eq_all sf cols hh by_ keys hk
  have hklen : ∀ k ∈ keys.map KeyCol.numpyView, k.length = n := by
    intro k hk'
    obtain ⟨k0, hk0, rfl⟩ := List.mem_map.mp hk'
    obtain ⟨c, hc, hcc⟩ := hkn k0 hk0
    rw [numpyView_length, ← hcc]; exact hrect c hc
  have hklen' : ∀ k ∈ (keys.map KeyCol.numpyView).map encCol, k.length = n := by
    intro k hk'
    obtain ⟨k0, hk0, rfl⟩ := List.mem_map.mp hk'
    rw [encCol_length]; exact hklen k0 hk0
  obtain ⟨b, bs, rfl⟩ : ∃ b bs, by_ = b :: bs := by
    cases by_ with
    | nil => exact absurd rfl hne
    | cons b bs => exact ⟨b, bs, rfl⟩
  have hkne : (keys.map KeyCol.numpyView).map encCol ≠ [] := by
    intro h
    have : keys = [] := by simpa using h
    subst this
    simp only [keyColsAll] at hk
    split at hk
    · split at hk
      · split at hk <;> simp at hk
      · simp at hk
    · simp at hk
  have hfirst : ∃ f, sf.lookup b = some f ∧ f.payload.nrows = n := by
    rcases Holds_lookup sf cols hh b with ⟨_, hnone, _⟩ | ⟨f, c, hl, _, _, he, hmem⟩
    · simp [keysExist, hnone] at hke
    · exact ⟨f, hl, by rw [Encodes_nrows _ _ he]; exact hrect c hmem⟩
  obtain ⟨f, hl, hn⟩ := hfirst
  have hsort := (datasetSortIndex_eq _ n hkne hklen').2
  obtain ⟨hst, huniq⟩ := sortPerm_enc_stableK n (keys.map KeyCol.numpyView) hklen
  refine ⟨sortPerm ((keys.map KeyCol.numpyView).map encCol) n, ?_, hst, huniq⟩
  have hsort' := hsort
  simp only [List.map_map] at hsort'
  simp [dfSortValues, Store.frame_eq st src sf hs, hke, hl, hn, hkc, hsort', bind, Except.bind, pure, Except.pure]

/-! ### bytewise order when no key ends in NUL; stability; `dataset_sort_index` -/

theorem stripNul_of_no_trailing (e : List Nat) (h : e.getLast? ≠ some 0) : stripNul e = e := by
  unfold stripNul
  cases hr : e.reverse with
  | nil => have : e = [] := List.reverse_eq_nil_iff.mp hr
           subst this; rfl
  | cons x t =>
    have hx : e.getLast? = some x := by rw [List.getLast?_eq_head?_reverse, hr]; rfl
    have hx0 : x ≠ 0 := by intro h0; subst h0; exact h hx
    have : (x == 0) = false := by rw [beq_eq_false_iff_ne]; exact hx0
    rw [List.dropWhile_cons, this]
    simp only [Bool.false_eq_true, if_false]
    rw [← hr, List.reverse_reverse]

theorem map_stripNul_id (es : List (List Nat)) (h : ∀ e ∈ es, e.getLast? ≠ some 0) : es.map stripNul = es := by
  induction es with
  | nil => rfl
  | cons e es ih =>
    rw [List.map_cons, stripNul_of_no_trailing e (h e (by simp)), ih (fun e' he' => h e' (by simp [he']))]

theorem numpyView_of_noTrailingNul (keys : List KeyCol) (h : ∀ k ∈ keys, k.NoTrailingNul) :
    keys.map KeyCol.numpyView = keys := by
  induction keys with
  | nil => rfl
  | cons k ks ih =>
    rw [List.map_cons, ih (fun k' hk' => h k' (by simp [hk']))]
    congr 1
    have hk := h k (by simp)
    cases k with
    | nums xs => rfl
    | strs es =>
      simp only [KeyCol.NoTrailingNul] at hk
      simp only [KeyCol.numpyView, map_stripNul_id es hk]

theorem keyLt_irrefl (a : KeyVal) : keyLt a a = false := by
  cases a with
  | num x => simp [keyLt]
  | str s => simp [keyLt, strLt_irrefl]

theorem lexLEK_refl : ∀ (x : List KeyVal), lexLEK x x = true
  | [] => rfl
  | a :: as => by simp [lexLEK, lexLEK_refl as]

/-- stability: in a stable sort permutation, of two rows with EQUAL key tuples the one that was first stays first -/
theorem stableK_keeps_ties (keys : List KeyCol) (n : Nat) (p : List Nat) (hp : IsStableSortPermK keys n p)
    (i j : Nat) (hij : i < j) (hj : j < n) (heq : keyRowK keys i = keyRowK keys j) : [i, j].Sublist p := by
  obtain ⟨hperm, hpw⟩ := hp
  have hi : i ∈ p := hperm.symm.subset (List.mem_range.mpr (by omega))
  have hjm : j ∈ p := hperm.symm.subset (List.mem_range.mpr hj)
  rcases pair_sublist_of_mem hi hjm (by omega) with h | h
  · exact h
  · rw [List.pairwise_iff_forall_sublist] at hpw
    have := (hpw h).2 (by rw [heq]; exact lexLEK_refl _)
    omega

/-- `Session.dataset_sort_index` (what `sort_values` and `Session.sort_on` call) on the integer encodings of key columns of
    any kind returns THE stable sort permutation of the mixed key tuples, from `arange(n)` or from no index -/
theorem datasetSortIndex_all (keys : List KeyCol) (n : Nat) (hne : keys ≠ []) (hk : ∀ k ∈ keys, k.length = n) :
    ∃ p, datasetSortIndex (keys.map encCol) none = .ok p ∧ datasetSortIndex (keys.map encCol) (some (List.range n)) = .ok p ∧
      IsStableSortPermK keys n p ∧ ∀ q, IsStableSortPermK keys n q → q = p := by
  have h := datasetSortIndex_eq (keys.map encCol) n (by simpa using hne) (by
    intro k hk'
    obtain ⟨k0, hk0, rfl⟩ := List.mem_map.mp hk'
    rw [encCol_length]; exact hk k0 hk0)
  obtain ⟨hst, hu⟩ := sortPerm_enc_stableK n keys hk
  exact ⟨_, h.1, h.2, hst, hu⟩

end Exetera.FilterIndex
