import Exetera.Lemmas.CsvLoopThm
/-! Record boundaries of a file, the regrowth measure, and `column_offsets` after a regrowth (C05). -/
namespace Exetera.Csv
open Exetera Spec

/-- byte position of the end of the first `q` lines (`hrow :: rows`) -/
def bnd (hrow : List Cell) (rows : List (List Cell)) (q : Nat) : Nat := (render ((hrow :: rows).take q)).length

theorem bnd_zero (hrow : List Cell) (rows : List (List Cell)) : bnd hrow rows 0 = 0 := rfl

theorem bnd_add (hrow : List Cell) (rows : List (List Cell)) (q m : Nat) :
    bnd hrow rows (q + m) = bnd hrow rows q + (render (((hrow :: rows).drop q).take m)).length := by
  unfold bnd
  rw [List.take_add, render_append', List.length_append]

theorem bnd_mono (hrow : List Cell) (rows : List (List Cell)) {q e : Nat} (h : q ≤ e) : bnd hrow rows q ≤ bnd hrow rows e := by
  obtain ⟨m, rfl⟩ : ∃ m, e = q + m := ⟨e - q, by omega⟩
  rw [bnd_add]; omega

theorem bnd_total (hrow : List Cell) (rows : List (List Cell)) {q : Nat} (h : rows.length + 1 ≤ q) :
    bnd hrow rows q = (render (hrow :: rows)).length := by
  unfold bnd
  rw [List.take_of_length_le (by simpa using h)]

theorem bnd_le_total (hrow : List Cell) (rows : List (List Cell)) (q : Nat) :
    bnd hrow rows q ≤ (render (hrow :: rows)).length := by
  rw [← bnd_total hrow rows (Nat.le_refl _)]
  rcases Nat.le_total q (rows.length + 1) with h | h
  · exact bnd_mono hrow rows h
  · rw [bnd_total hrow rows h, bnd_total hrow rows (Nat.le_refl _)]; exact Nat.le_refl _

/-- the text behind a boundary is the text of the remaining lines -/
theorem render_drop_bnd (hrow : List Cell) (rows : List (List Cell)) (q : Nat) :
    (render (hrow :: rows)).drop (bnd hrow rows q) = render ((hrow :: rows).drop q) := by
  have h : render (hrow :: rows) = render ((hrow :: rows).take q) ++ render ((hrow :: rows).drop q) := by
    rw [← render_append', List.take_append_drop]
  rw [h]
  unfold bnd
  rw [List.drop_left]

/-- the lines from line `e` on: the header line if `e = 0`, then the records from `e - 1` on -/
theorem lines_drop (hrow : List Cell) (rows : List (List Cell)) (e : Nat) :
    (hrow :: rows).drop e = (if e = 0 then [hrow] else []) ++ rows.drop (e - 1) := by
  cases e with
  | zero => simp
  | succ e => simp

theorem render_lines_drop (hrow : List Cell) (rows : List (List Cell)) (e : Nat) :
    render ((hrow :: rows).drop e) = (if e = 0 then renderCells hrow else []) ++ render (rows.drop (e - 1)) := by
  rw [lines_drop, render_append']
  cases e <;> simp [render]

/-- lines consumed after a call that started with `e` lines consumed and reported `a` records -/
def nextE (e a : Nat) : Nat := (if e = 0 then 1 else e) + a

theorem nextE_pred (e a : Nat) : nextE e a - 1 = (e - 1) + a := by
  unfold nextE; split <;> omega

theorem bnd_nextE (hrow : List Cell) (rows : List (List Cell)) (e a : Nat) :
    bnd hrow rows (nextE e a) =
      bnd hrow rows e + ((if e = 0 then renderCells hrow else []) ++ render ((rows.drop (e - 1)).take a)).length := by
  have h : nextE e a = e + ((if e = 0 then 1 else 0) + a) := by unfold nextE; split <;> omega
  rw [h, bnd_add, lines_drop]
  congr 2
  cases e with
  | zero => simp [render, Nat.add_comm 1 a]
  | succ e => simp

theorem render_ne_nil_of {ncols : Nat} (hnc : 0 < ncols) (ls : List (List Cell)) (hne : ls ≠ [])
    (hl : ∀ l ∈ ls, l.length = ncols) : 0 < (render ls).length := by
  cases ls with
  | nil => exact absurd rfl hne
  | cons l rest =>
    have h1 := hl l (by simp)
    have := renderCells_ne_nil l (by intro h; rw [h] at h1; simp at h1; omega)
    have : 0 < (renderCells l).length := List.length_pos_iff.mpr this
    simp [render]; omega

/-! ### the regrowth measure -/

/-- the regrowth factor of the driver (`larger_factor`, regenerated from the source) is at least 2 -/
theorem larger_factor_ge : 2 ≤ Gen.Csv.LARGER_FACTOR := by decide

theorem grow_gt {b : Nat} (h : 0 < b) : 2 * b ≤ Gen.Csv.LARGER_FACTOR * b := Nat.mul_le_mul_right b larger_factor_ge

/-- number of regrowths (multiplications by `larger_factor`) after which `b` exceeds `t` -/
def need (b t : Nat) : Nat := if 0 < b ∧ b ≤ t then need (Gen.Csv.LARGER_FACTOR * b) t + 1 else 0
termination_by t + 1 - b
decreasing_by
  have := grow_gt (b := b) (by omega)
  omega

theorem need_double {b t : Nat} (h0 : 0 < b) (h : b ≤ t) : need (Gen.Csv.LARGER_FACTOR * b) t + 1 = need b t := by
  rw [need.eq_1 b t]; simp [h0, h]

theorem need_le (t : Nat) : ∀ (n b : Nat), t + 1 - b ≤ n → 0 < b → need b t ≤ t + 1 - b := by
  intro n
  induction n with
  | zero =>
    intro b hn hb
    rw [need.eq_1]
    have : ¬ (0 < b ∧ b ≤ t) := by omega
    simp [this]
  | succ n ih =>
    intro b hn hb
    rw [need.eq_1]
    by_cases h : 0 < b ∧ b ≤ t
    · simp only [h, and_self, if_true]
      have hg := grow_gt hb
      have := ih (Gen.Csv.LARGER_FACTOR * b) (by omega) (by omega)
      omega
    · simp [h]

def sumTo (f : Nat → Nat) : Nat → Nat
  | 0 => 0
  | n + 1 => sumTo f n + f n

theorem sumTo_congr {f g : Nat → Nat} : ∀ n, (∀ c, c < n → g c = f c) → sumTo g n = sumTo f n := by
  intro n
  induction n with
  | zero => intro _; rfl
  | succ n ih =>
    intro h
    simp only [sumTo]
    rw [ih (fun c hc => h c (by omega)), h n (by omega)]

theorem sumTo_update {f g : Nat → Nat} {j : Nat} : ∀ n, j < n → g j + 1 ≤ f j → (∀ c, c < n → c ≠ j → g c = f c) →
    sumTo g n + 1 ≤ sumTo f n := by
  intro n
  induction n with
  | zero => intro h; omega
  | succ n ih =>
    intro hj hlt hoth
    simp only [sumTo]
    by_cases hjn : j = n
    · subst hjn
      rw [sumTo_congr j (fun c hc => hoth c (by omega) (by omega))]
      omega
    · have := ih (by omega) hlt (fun c hc hne => hoth c (by omega) hne)
      rw [hoth n (by omega) (fun h => hjn h.symm)]
      omega

/-! ### `column_offsets` after the value budget of column `j` was doubled -/

theorem growOffs_length (offs : List Nat) (j δ : Nat) : (growOffs offs j δ).length = offs.length := by
  unfold growOffs
  simp
  omega

theorem growOffs_at {offs : List Nat} {n : Nat} (hl : offs.length = n + 1) (j δ c : Nat) (hc : c ≤ n) :
    offAt (growOffs offs j δ) c = offAt offs c + (if j < c then δ else 0) := by
  unfold offAt growOffs
  by_cases hjc : j < c
  · simp only [hjc, if_true]
    have h1 : (offs.take (j + 1)).length = j + 1 := by simp; omega
    have h2 : c = (offs.take (j + 1)).length + (c - (j + 1)) := by omega
    rw [List.getD_eq_getElem?_getD, List.getD_eq_getElem?_getD, h2, getElem?_append_len, List.getElem?_map,
      List.getElem?_drop, h1]
    have h3 : j + 1 + (c - (j + 1)) = c := by omega
    rw [h3]
    have hlt : c < offs.length := by omega
    simp [List.getElem?_eq_getElem hlt]
  · simp only [hjc, if_false, Nat.add_zero]
    rw [List.getD_eq_getElem?_getD, List.getD_eq_getElem?_getD,
      List.getElem?_append_left (by simp; omega), List.getElem?_take]
    have : c < j + 1 := by omega
    simp [this]

end Exetera.Csv
