import Exetera.Model.MapValid
import Exetera.Spec.MapValid
import Exetera.Lemmas.MapValidStream
/-!
  C04 — Mapping a column through a join map gives the mapped value or the empty value.

  The theorems are about the executable model `Exetera.MapValid.*` that the driver `Driver/C04.lean` runs
  (operations.py with fixes D5, D9, D10/D12, D11, NC04a applied) and the specification `Exetera.Spec.mapSpec`.
  They quantify over all sources, maps, marker values and chunk sizes; there is no size bound.
-/
namespace Exetera.Props.C04

open Exetera Exetera.MapValid Exetera.Spec

/-! ## the non-indexed stream -/

/-- **Functional correctness of `ordered_map_valid_stream`.** For every chunk size ≥ 1, every marker value `inv`, every
    source and every map whose non-marker entries are row numbers of the source in non-decreasing order (markers
    anywhere): the stream terminates within its fuel, performs no out-of-bounds access (`.ok`), and the destination is
    exactly the specified column: row `r` is `src[map[r]]`, or `empty` where `map[r] = inv`. -/
theorem map_stream_eq {α} (src : List α) (m : List Int) (inv : Int) (cs : Nat) (empty : α)
    (hcs : 1 ≤ cs) (hr : InRange src.length m inv) (hm : ValidMonotone m inv) :
    ∃ out, orderedMapValidStream src m inv cs empty = .ok out ∧ mapSpec src inv empty m = some out :=
  stream_spec src m inv cs empty hcs hr hm

/-- row-wise reading of `map_stream_eq`: the destination has the map's length and row `r` is the looked-up value -/
theorem map_stream_rows {α} (src : List α) (m : List Int) (inv : Int) (cs : Nat) (empty : α)
    (hcs : 1 ≤ cs) (hr : InRange src.length m inv) (hm : ValidMonotone m inv) :
    ∃ out, orderedMapValidStream src m inv cs empty = .ok out ∧ out.length = m.length ∧
      ∀ (r : Nat) (k : Int), m[r]? = some k →
        (k = inv → out[r]? = some empty) ∧ (k ≠ inv → out[r]? = src[k.toNat]?) := by
  obtain ⟨out, h1, h2⟩ := stream_spec src m inv cs empty hcs hr hm
  refine ⟨out, h1, mapSpec_length _ _ _ _ _ h2, ?_⟩
  intro r k hk
  have h3 := mapSpec_getElem? _ _ _ _ _ h2 r k hk
  constructor
  · intro hki; simp [h3, lookup, hki]
  · intro hki
    have := (hr r k hk hki).1
    simp [h3, lookup, hki, this]

/-- **Chunk size is unobservable.** -/
theorem chunk_unobservable {α} (src : List α) (m : List Int) (inv : Int) (cs cs' : Nat) (empty : α)
    (hcs : 1 ≤ cs) (hcs' : 1 ≤ cs') (hr : InRange src.length m inv) (hm : ValidMonotone m inv) :
    orderedMapValidStream src m inv cs empty = orderedMapValidStream src m inv cs' empty := by
  obtain ⟨out, h1, h2⟩ := stream_spec src m inv cs empty hcs hr hm
  obtain ⟨out', h1', h2'⟩ := stream_spec src m inv cs' empty hcs' hr hm
  rw [h1, h1']
  rw [h2] at h2'
  cases h2'
  rfl

/-- re-encode the marker of a map -/
def remark (inv inv' : Int) (m : List Int) : List Int := m.map (fun k => if k = inv then inv' else k)

theorem mapSpec_remark {α} (src : List α) (inv inv' : Int) (empty : α) :
    ∀ (m : List Int), (∀ (i : Nat) (k : Int), m[i]? = some k → k ≠ inv → k ≠ inv') →
      mapSpec src inv' empty (remark inv inv' m) = mapSpec src inv empty m := by
  intro m
  induction m with
  | nil => intro _; rfl
  | cons k ks ih =>
    intro h
    have hk := h 0 k (by simp)
    have htl := ih (fun i k' hk' => h (i + 1) k' (by simpa using hk'))
    have hl : lookup src inv' empty (if k = inv then inv' else k) = lookup src inv empty k := by
      by_cases hki : k = inv
      · simp [lookup, hki]
      · have := hk hki
        simp [lookup, hki, this]
    simp only [remark, List.map_cons, mapSpec] at htl ⊢
    rw [hl, htl]

/-- **Marker parametric.** The result is the same function of "which rows are unmatched" whatever value encodes
    "unmatched": replacing the marker `inv` by any `inv'` that is not a row number of the source (for instance `-1`,
    `INVALID_INDEX_32`, `INVALID_INDEX_64` for sources shorter than 2^31-1) leaves the destination unchanged — also
    across different chunk sizes. -/
theorem marker_parametric {α} (src : List α) (m : List Int) (inv inv' : Int) (cs cs' : Nat) (empty : α)
    (hcs : 1 ≤ cs) (hcs' : 1 ≤ cs') (hr : InRange src.length m inv) (hm : ValidMonotone m inv)
    (hinv' : inv' < 0 ∨ (src.length : Int) ≤ inv') :
    orderedMapValidStream src (remark inv inv' m) inv' cs' empty = orderedMapValidStream src m inv cs empty := by
  have hfresh : ∀ (i : Nat) (k : Int), m[i]? = some k → k ≠ inv → k ≠ inv' := by
    intro i k hk hki
    have := hr i k hk hki
    omega
  have hr' : InRange src.length (remark inv inv' m) inv' := by
    intro i k hk hki
    simp only [remark, List.getElem?_map] at hk
    cases hmi : m[i]? with
    | none => simp [hmi] at hk
    | some a =>
      simp only [hmi, Option.map_some, Option.some.injEq] at hk
      by_cases ha : a = inv
      · simp [ha] at hk; exact absurd hk.symm hki
      · simp [ha] at hk; subst hk; exact hr i a hmi ha
  have hm' : ValidMonotone (remark inv inv' m) inv' := by
    intro i j a b hij hi hj ha hb
    simp only [remark, List.getElem?_map] at hi hj
    cases hmi : m[i]? with
    | none => simp [hmi] at hi
    | some x =>
      cases hmj : m[j]? with
      | none => simp [hmj] at hj
      | some y =>
        simp only [hmi, hmj, Option.map_some, Option.some.injEq] at hi hj
        by_cases hx : x = inv
        · simp [hx] at hi; exact absurd hi.symm ha
        · by_cases hy : y = inv
          · simp [hy] at hj; exact absurd hj.symm hb
          · simp [hx] at hi; simp [hy] at hj; subst hi; subst hj
            exact hm i j x y hij hmi hmj hx hy
  obtain ⟨out, h1, h2⟩ := stream_spec src m inv cs empty hcs hr hm
  obtain ⟨out', h1', h2'⟩ := stream_spec src (remark inv inv' m) inv' cs' empty hcs' hr' hm'
  rw [mapSpec_remark src inv inv' empty m hfresh, h2] at h2'
  cases h2'
  rw [h1, h1']

/-! ### non-vacuity: the hypotheses are met by the trailing-unmatched-rows map that `DataFrame.merge` produces
    (the D9/D10 witness), and the model computes the specified column on it -/

theorem inRange_of_all {n : Nat} {m : List Int} {inv : Int}
    (h : m.all (fun k => k == inv || (decide (0 ≤ k) && decide (k < (n : Int)))) = true) : InRange n m inv := by
  intro i k hk hki
  have hmem : k ∈ m := List.mem_of_getElem? hk
  have := List.all_eq_true.mp h k hmem
  simp [hki] at this
  exact this

theorem validMonotone_of_pairwise {m : List Int} {inv : Int}
    (h : List.Pairwise (fun a b => a ≠ inv → b ≠ inv → a ≤ b) m) : ValidMonotone m inv := by
  intro i j a b hij hi hj ha hb
  obtain ⟨hil, hia⟩ := List.getElem?_eq_some_iff.mp hi
  obtain ⟨hjl, hjb⟩ := List.getElem?_eq_some_iff.mp hj
  by_cases heq : i = j
  · subst heq; rw [hia] at hjb; omega
  · have := List.pairwise_iff_getElem.mp h i j hil hjl (by omega)
    rw [hia, hjb] at this
    exact this ha hb

example : InRange 3 [0, 1, INVALID_INDEX_32, INVALID_INDEX_32] INVALID_INDEX_32 ∧
    ValidMonotone [0, 1, INVALID_INDEX_32, INVALID_INDEX_32] INVALID_INDEX_32 :=
  ⟨inRange_of_all (by decide), validMonotone_of_pairwise (by decide)⟩

example : orderedMapValidStream [10, 20, 30] [0, 1, INVALID_INDEX_32, INVALID_INDEX_32] INVALID_INDEX_32 4 (0 : Int)
    = .ok [10, 20, 0, 0] := by rfl

example : mapSpec [10, 20, 30] INVALID_INDEX_32 (0 : Int) [0, 1, INVALID_INDEX_32, INVALID_INDEX_32]
    = some [10, 20, 0, 0] := by decide

/-- markers leading, alternating and filling whole chunks; a gap larger than the chunk; chunk size 2 -/
example : InRange 9 [-1, -1, 0, -1, 0, 7, -1, -1, -1, 8] (-1) ∧ ValidMonotone [-1, -1, 0, -1, 0, 7, -1, -1, -1, 8] (-1) :=
  ⟨inRange_of_all (by decide), validMonotone_of_pairwise (by decide)⟩

example : orderedMapValidStream [1, 2, 3, 4, 5, 6, 7, 8, 9] [-1, -1, 0, -1, 0, 7, -1, -1, -1, 8] (-1) 2 (0 : Int)
    = .ok [0, 0, 1, 0, 1, 8, 0, 0, 0, 9] := by rfl

/-- `marker_parametric`: the -1 map above re-marked with the 64-bit sentinel -/
example : remark (-1) INVALID_INDEX_64 [-1, 0, 2] = [INVALID_INDEX_64, 0, 2] := by decide

end Exetera.Props.C04
