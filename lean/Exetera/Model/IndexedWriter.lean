import Exetera.Model.Storage
/-!
  Model of the indexed-string field array (exetera/core/fields.py):

    * `WriteableIndexedFieldArray.__init__ / write_part / complete`   (fields.py:553-570, 640-700)
    * `WriteableIndexedFieldArray.__getitem__` and `ReadOnlyIndexedFieldArray.__getitem__` for `slice(a, b)`, `[:]` and
      an `int`                                                          (fields.py:490-518, 591-623)
    * `__len__`

  State variables are the code's: the two staging buffers `_raw_values`, `_raw_indices` (fixed length `chunksize`,
  never cleared — only the fill levels `_value_index`, `_index_index` are reset), the running byte total `_accumulated`,
  and the two backing arrays `_indices`, `_values` (memory or HDF5, `Model/Storage.lean`). Every write into a staging
  buffer is a checked `setE`, every read of an offset a checked `getE`.

  An entry is the `bytes` that `s.encode()` returns; the UTF-8 codec itself is not modelled.
  Offsets are `Nat`: int64 wrap-around of `_accumulated` (2^63 stored bytes) is out of scope.
-/
namespace Exetera.IndexedWriter

open Exetera Exetera.Storage

abbrev Byte := UInt8
abbrev Bytes := List Byte

structure WState where
  c : Nat                      -- `_chunksize`
  rawValues : List Byte        -- `_raw_values`  (np.zeros(chunksize, uint8))
  rawIndices : List Nat        -- `_raw_indices` (np.zeros(chunksize, int64))
  accumulated : Nat            -- `_accumulated`
  indexIndex : Nat             -- `_index_index`
  valueIndex : Nat             -- `_value_index`
  indices : Arr Nat            -- `_indices`
  values : Arr Byte            -- `_values`
  deriving Repr, DecidableEq

/-- `WriteableIndexedFieldArray.__init__` -/
def WState.init (c : Nat) (indices : Arr Nat) (values : Arr Byte) : WState :=
  { c := c
    rawValues := List.replicate c 0
    rawIndices := List.replicate c 0
    accumulated := match indices.contents.getLast? with          -- `indices[-1] if len(indices) > 0 else 0`
      | some x => x
      | none => 0
    indexIndex := 0
    valueIndex := 0
    indices := indices
    values := values }

/-- body of `for v in evalue:` -/
def putByte (v : Variant) (s : WState) (b : Byte) : Except Err WState :=
  match setE s.rawValues s.valueIndex b "raw_values" with        -- self._raw_values[self._value_index] = v
  | .error e => .error e
  | .ok rv =>
    let vi := s.valueIndex + 1                                     -- self._value_index += 1
    if vi == s.c then
      match s.values.writePart v 0 (rv.take vi) with              -- self._values.write_part(self._raw_values[:vi])
      | .error e => .error e
      | .ok vals =>
        .ok { s with rawValues := rv, valueIndex := 0, values := vals, accumulated := s.accumulated + 1 }
    else
      .ok { s with rawValues := rv, valueIndex := vi, accumulated := s.accumulated + 1 }

/-- the first-index sentinel: `if len(self._indices) == 0: self._indices.write_part(np.array([0]))` -/
def sentinel (v : Variant) (ix : Arr Nat) : Except Err (Arr Nat) :=
  if ix.len == 0 then ix.writePart v 0 [0] else .ok ix

/-- the statements after the byte loop, once per entry -/
def endEntry (v : Variant) (s : WState) : Except Err WState :=
  match setE s.rawIndices s.indexIndex s.accumulated "raw_indices" with   -- self._raw_indices[self._index_index] = acc
  | .error e => .error e
  | .ok ri =>
    let ii := s.indexIndex + 1
    if ii == s.c then
      match sentinel v s.indices with
      | .error e => .error e
      | .ok ix0 =>
        match ix0.writePart v 0 (ri.take ii) with                -- self._indices.write_part(self._raw_indices[:ii])
        | .error e => .error e
        | .ok ix => .ok { s with rawIndices := ri, indexIndex := 0, indices := ix }
    else
      .ok { s with rawIndices := ri, indexIndex := ii }

/-- body of `for s in part:` -/
def putEntry (v : Variant) (s : WState) (e : Bytes) : Except Err WState :=
  match foldE (putByte v) s e with
  | .error err => .error err
  | .ok s1 => endEntry v s1

/-- `write_part(part)` -/
def writePart (v : Variant) (s : WState) (part : List Bytes) : Except Err WState :=
  foldE (putEntry v) s part

/-- first half of `complete()`: `if self._value_index != 0: self._values.write(raw[:vi]); self._value_index = 0` -/
def flushValues (v : Variant) (s : WState) : Except Err WState :=
  if s.valueIndex != 0 then
    match s.values.writePart v 0 (s.rawValues.take s.valueIndex) with
    | .error e => .error e
    | .ok vals => .ok { s with values := vals, valueIndex := 0 }
  else .ok s

/-- second half of `complete()`: flush the staged offsets (with the first-index sentinel).
    Repaired (D2): a field completed without any entry still gets its leading offset `0`. -/
def flushIndices (v : Variant) (s : WState) : Except Err WState :=
  if s.indexIndex != 0 then
    match sentinel v s.indices with
    | .error e => .error e
    | .ok ix0 =>
      match ix0.writePart v 0 (s.rawIndices.take s.indexIndex) with
      | .error e => .error e
      | .ok ix => .ok { s with indices := ix, indexIndex := 0 }
  else
    match v with
    | .asFound => .ok s
    | .repaired =>
      if s.indices.len == 0 then
        match s.indices.writePart v 0 [0] with
        | .error e => .error e
        | .ok ix => .ok { s with indices := ix }
      else .ok s

/-- `complete()` -/
def complete (v : Variant) (s : WState) : Except Err WState :=
  match flushValues v s with
  | .error e => .error e
  | .ok s1 => flushIndices v s1

/-- one round on a writer object: the parts written one `write_part` call each, then `complete()` -/
def writeRound (v : Variant) (s : WState) (parts : List (List Bytes)) : Except Err WState :=
  match foldE (writePart v) s parts with
  | .error e => .error e
  | .ok s1 => complete v s1

/-- a new `WriteableIndexedFieldArray` on the arrays `ix`, `vals` (what `field.data` creates), then one round -/
def writeOnto (v : Variant) (c : Nat) (ix : Arr Nat) (vals : Arr Byte) (parts : List (List Bytes)) : Except Err WState :=
  writeRound v (WState.init c ix vals) parts

/-- several rounds on a field fresh from its constructor. `rewrap = true`: every round uses a new writer object on the
    field's arrays (`field.writeable().data`, or the field of a reopened dataset); `false`: the same object goes on. -/
def writeRounds (v : Variant) (c : Nat) (h5 : Bool) (rewrap : Bool) (rounds : List (List (List Bytes))) : Except Err WState :=
  foldE (fun s parts => writeRound v (if rewrap then WState.init c s.indices s.values else s) parts)
    (WState.init c (Arr.fresh h5) (Arr.fresh h5)) rounds

/-- the same on a field fresh from its constructor, memory-backed or HDF5 -/
def writeField (v : Variant) (c : Nat) (h5 : Bool) (parts : List (List Bytes)) : Except Err WState :=
  writeOnto v c (Arr.fresh h5) (Arr.fresh h5) parts

/-! ### readers -/

/-- `for ir in range(k)` starting at `ir`: `bytestr[index[ir] - startindex : index[ir+1] - startindex]`.
    A negative bound (an offset below the first one) would be Python's count-from-the-end slicing: not modelled, flagged. -/
def cutFrom (index : List Nat) (bytestr : Bytes) (startindex : Nat) : Nat → Nat → Except Err (List Bytes)
  | _, 0 => .ok []
  | ir, k + 1 =>
    match getE index ir "index[ir]" with
    | .error e => .error e
    | .ok lo =>
      match getE index (ir + 1) "index[ir+1]" with
      | .error e => .error e
      | .ok hi =>
        if lo < startindex || hi < startindex then .error (.other "negative-slice-bound-not-modelled")
        else
          match cutFrom index bytestr startindex (ir + 1) k with
          | .error e => .error e
          | .ok rest => .ok (slice bytestr (lo - startindex) (hi - startindex) :: rest)

/-- `data[a:b]` (`writeable = true`: `WriteableIndexedFieldArray.__getitem__`, else `ReadOnlyIndexedFieldArray`).
    The result list is `[None] * (len(index) - 1)` with the first `rmax` places filled (`none` = a place left `None`). -/
def getSlice (writeable : Bool) (indices : List Nat) (values : Bytes) (a b : Nat) : Except Err (List (Option Bytes)) :=
  let index := slice indices a (b + 1)                           -- self._indices[start:stop + 1]
  if writeable && index.length == 0 then .ok []
  else
    match getE index 0 "index[0]" with
    | .error e => .error e
    | .ok first =>
      match getE index (index.length - 1) "index[-1]" with
      | .error e => .error e
      | .ok last =>
        let bytestr := slice values first last                   -- self._values[index[0]:index[-1]]
        let nres := index.length - 1
        match getE indices a "indices[start]" with              -- startindex = self._indices[start]
        | .error e => .error e
        | .ok startindex =>
          let rmax := if writeable then min nres (b - a) else nres
          match cutFrom index bytestr startindex 0 rmax with
          | .error e => .error e
          | .ok rs => .ok (rs.map some ++ List.replicate (nres - rmax) none)

/-- `data[:]`: `start = 0`, `stop = len(indices) - 1`. With no offsets at all `stop` is `-1` and `indices[0:0]` is
    empty: the writeable reader returns `[]`, the read-only one fails on `index[0]`. -/
def getAll (writeable : Bool) (indices : List Nat) (values : Bytes) : Except Err (List (Option Bytes)) :=
  if indices.length == 0 then
    if writeable then .ok [] else .error (.oob "index[0]")
  else getSlice writeable indices values 0 (indices.length - 1)

/-- `data[i]` for a Python `int` `i ≥ 0` (both readers have the same code) -/
def getItem (indices : List Nat) (values : Bytes) (i : Nat) : Except Err Bytes :=
  if (i : Int) ≥ (indices.length : Int) - 1 then .error (.valueError "Index is out of range")
  else
    match slice indices i (i + 2) with                           -- start, stop = self._indices[item:item + 2]
    | [start, stop] => if start == stop then .ok [] else .ok (slice values start stop)
    | _ => .error (.valueError "not enough values to unpack")

/-- `len(field.data)` -/
def fieldLen (indices : List Nat) : Nat := indices.length - 1     -- max(len(indices) - 1, 0)

end Exetera.IndexedWriter
