import Exetera.Lemmas.JoinKernel
/-! The general (`left` / `inner`) FSM kernel and its streamed driver: global invariant and one-iteration lemmas. -/
namespace Exetera.Join
open Exetera Exetera.Spec

/-- rows selected by the join kind: a left join keeps everything, an inner join only matched rows -/
def sel (emit : Bool) (rows : List (Nat × Option Nat)) : List (Nat × Option Nat) :=
  if emit then rows else rows.filter (fun p => p.2.isSome)

theorem sel_append (emit : Bool) (a b : List (Nat × Option Nat)) : sel emit (a ++ b) = sel emit a ++ sel emit b := by
  unfold sel; split <;> simp

theorem sel_blockRow (emit : Bool) (I J m : Nat) : sel emit (blockRow I J m) = blockRow I J m := by
  unfold sel; split
  · rfl
  · simp only [blockRow, List.filter_eq_self, List.mem_map]
    rintro ⟨a, b⟩ ⟨x, _, hx⟩
    cases hx; rfl

theorem sel_nil (emit : Bool) : sel emit [] = [] := by unfold sel; split <;> rfl

theorem sel_blockRows (emit : Bool) (J m : Nat) : ∀ n I, sel emit (blockRows I J m n) = blockRows I J m n
  | 0, _ => by simp [blockRows, sel_nil]
  | n + 1, I => by rw [blockRows, sel_append, sel_blockRow, sel_blockRows emit J m n (I + 1)]

theorem sel_pendInner (emit : Bool) (I J ii jj n m : Nat) : sel emit (pendInner I J ii jj n m) = pendInner I J ii jj n m := by
  unfold pendInner
  rw [sel_append, sel_blockRows]
  congr 1
  unfold sel; split
  · rfl
  · simp only [List.filter_eq_self, List.mem_map]
    rintro ⟨a, b⟩ ⟨x, _, hx⟩
    cases hx; rfl

def D.I (d : D) : Nat := d.lch.lo + d.k.i
def D.J (d : D) : Nat := d.rch.lo + d.k.j

/-- spec rows not yet emitted -/
def pendRows (L R : List Int) (d : D) : List (Nat × Option Nat) :=
  if d.k.inner then
    pendInner d.I d.J d.k.ii d.k.jj d.k.iiMax.toNat d.k.jjMax.toNat ++ rest L R (d.I + d.k.iiMax.toNat)
  else rest L R d.I

/-- facts about the cartesian block the FSM is inside -/
structure BlockInv (L R : List Int) (d : D) : Prop where
  n_pos : 0 < d.k.iiMax
  m_pos : 0 < d.k.jjMax
  ii_lt : (d.k.ii : Int) < d.k.iiMax
  jj_lt : (d.k.jj : Int) < d.k.jjMax
  i_in : d.k.i + d.k.iiMax.toNat ≤ d.lch.hi - d.lch.lo
  j_in : d.k.j + d.k.jjMax.toNat ≤ d.rch.hi - d.rch.lo
  key : ∃ a : Int,
    (∀ t, t < d.k.iiMax.toNat → L[d.I + t]? = some a) ∧
    (∀ u, u < d.k.jjMax.toNat → R[d.J + u]? = some a) ∧
    (∀ j b, j < d.J → R[j]? = some b → b < a) ∧
    (∀ b, R[d.J + d.k.jjMax.toNat]? = some b → a < b) ∧
    (∀ b, L[d.I + d.k.iiMax.toNat]? = some b → a < b)

structure GInv (emit : Bool) (L R : List Int) (cs : Nat) (inv : Int) (d : D) : Prop where
  lok : ChunkOK L d.lch
  rok : ChunkOK R d.rch
  lbd : Boundary L d.lch
  rbd : Boundary R d.rch
  ile : d.k.i ≤ d.lch.hi - d.lch.lo
  jle : d.k.j ≤ d.rch.hi - d.rch.lo
  blen : d.k.lb.length = d.k.rb.length
  bcap : d.k.rb.length ≤ cs
  outL : d.lout ++ d.k.lb ++ encL (sel emit (pendRows L R d)) = encL (sel emit (leftJoin L R))
  outR : d.rout ++ d.k.rb ++ encR inv (sel emit (pendRows L R d)) = encR inv (sel emit (leftJoin L R))
  h1 : d.k.inner = false → ∀ j b a, j < d.J → R[j]? = some b → L[d.I]? = some a → b < a
  blk : d.k.inner = true → BlockInv L R d

/-- kernel-local variant: decreases at every iteration of a `_partial` call -/
def kmu (cs : Nat) (d : D) : Nat :=
  (d.lch.hi - d.lch.lo - d.k.i) + (d.rch.hi - d.rch.lo - d.k.j) + 2 * (cs - d.k.rb.length) + (if d.k.inner then 0 else 1)

/-- global variant: decreases at every kernel iteration, never increases at refill/flush -/
def gmu (emit : Bool) (L R : List Int) (d : D) : Nat :=
  (L.length - d.I) + (R.length - d.J) + 2 * ((sel emit (leftJoin L R)).length - (d.lout ++ d.k.lb).length)
    + (if d.k.inner then 0 else 1)

end Exetera.Join

namespace Exetera.Join
open Exetera Exetera.Spec

theorem chunk_access {xs : List Int} {c : Chunk} (hc : ChunkOK xs c) {i : Nat} (hi : i < c.hi - c.lo) (site : String) :
    ∃ a, xs[c.lo + i]? = some a ∧ getE c.data i site = .ok a := by
  have h1 := hc.get i hi
  have h2 : c.lo + i < xs.length := by have := hc.hi_le; omega
  refine ⟨xs[c.lo + i], get?_some_of_lt h2, ?_⟩
  rw [getE_eq_ok, h1, get?_some_of_lt h2]

theorem sel_cons_none (emit : Bool) (I : Nat) (rows : List (Nat × Option Nat)) :
    sel emit ((I, none) :: rows) = if emit then (I, none) :: sel emit rows else sel emit rows := by
  unfold sel; cases emit <;> simp

theorem sel_cons_some (emit : Bool) (I j : Nat) (rows : List (Nat × Option Nat)) :
    sel emit ((I, some j) :: rows) = (I, some j) :: sel emit rows := by
  unfold sel; cases emit <;> simp

@[simp] theorem encL_cons (p : Nat × Option Nat) (rows) : encL (p :: rows) = (p.1 : Int) :: encL rows := rfl
@[simp] theorem encR_cons (inv : Int) (p : Nat × Option Nat) (rows) : encR inv (p :: rows) = encCell inv p.2 :: encR inv rows := rfl
@[simp] theorem encL_length (rows : List (Nat × Option Nat)) : (encL rows).length = rows.length := by simp [encL]
@[simp] theorem encR_length (inv : Int) (rows : List (Nat × Option Nat)) : (encR inv rows).length = rows.length := by simp [encR]

section step
variable {emit : Bool} {L R : List Int} {cs : Nat} {inv : Int} {d d' : D}

/-- `left[i] < right[j]`, not inside a block: the unmatched left row is emitted (left join) or skipped (inner join) -/
theorem step_lt (hL : Sorted L) (hR : Sorted R) (hinv : GInv emit L R cs inv d)
    (hni : d.k.inner = false) (hi : d.k.i < d.lch.hi - d.lch.lo)
    (hr : d.k.rb.length < cs) {a b : Int} (ha : L[d.I]? = some a) (hb : R[d.J]? = some b) (hab : a < b)
    (e_lch : d'.lch = d.lch) (e_rch : d'.rch = d.rch) (e_lout : d'.lout = d.lout) (e_rout : d'.rout = d.rout)
    (e_i : d'.k.i = d.k.i + 1) (e_j : d'.k.j = d.k.j) (e_inner : d'.k.inner = false)
    (e_lb : d'.k.lb = if emit then d.k.lb ++ [(d.I : Int)] else d.k.lb)
    (e_rb : d'.k.rb = if emit then d.k.rb ++ [inv] else d.k.rb) :
    GInv emit L R cs inv d' ∧ kmu cs d' < kmu cs d ∧ gmu emit L R d' < gmu emit L R d := by
  obtain ⟨hIlt, haL⟩ := List.getElem?_eq_some_iff.mp ha
  obtain ⟨hJlt, hbR⟩ := List.getElem?_eq_some_iff.mp hb
  have hI' : d'.I = d.I + 1 := by simp only [D.I, e_lch, e_i]; omega
  have hJ' : d'.J = d.J := by simp only [D.J, e_rch, e_j]
  have hrest : rest L R d.I = (d.I, none) :: rest L R (d.I + 1) := by
    apply rest_lt hR hIlt (J := d.J) (by omega)
    · intro j hjl
      rw [haL]
      exact hinv.h1 hni j _ a hjl (get?_some_of_lt (by omega)) ha
    · intro _; rw [haL, hbR]; exact hab
  have hpend : pendRows L R d = (d.I, none) :: rest L R (d.I + 1) := by simp [pendRows, hni, hrest]
  have hpend' : pendRows L R d' = rest L R (d.I + 1) := by simp [pendRows, e_inner, hI']
  have hoL := hinv.outL
  have hoR := hinv.outR
  rw [hpend, sel_cons_none] at hoL hoR
  have hlenO := congrArg List.length hoL
  have hblen := hinv.blen
  have hbcap := hinv.bcap
  have hile := hinv.ile
  refine ⟨⟨by rw [e_lch]; exact hinv.lok, by rw [e_rch]; exact hinv.rok, by rw [e_lch]; exact hinv.lbd,
      by rw [e_rch]; exact hinv.rbd, by rw [e_lch, e_i]; omega, by rw [e_rch, e_j]; exact hinv.jle, ?_, ?_, ?_, ?_, ?_, ?_⟩,
      ?_, ?_⟩
  · rw [e_lb, e_rb]; cases emit <;> simp [hblen]
  · rw [e_rb]; cases emit <;> simp <;> omega
  · rw [hpend', e_lout, e_lb, ← hoL]; cases emit <;> simp
  · rw [hpend', e_rout, e_rb, ← hoR]; cases emit <;> simp [encCell]
  · intro _ j b' a' hjl hb' ha'
    rw [hI'] at ha'; rw [hJ'] at hjl
    have := hinv.h1 hni j b' a hjl hb' ha
    have hle := Sorted.le_get? hL (i := d.I) (j := d.I + 1) (by omega) ha ha'
    omega
  · intro h; rw [e_inner] at h; cases h
  · simp only [kmu, e_lch, e_rch, e_i, e_j, e_inner, hni, e_rb]
    cases emit <;> simp <;> omega
  · simp only [gmu, hI', hJ', e_inner, hni, e_lout, e_lb]
    cases emit <;> simp at hlenO ⊢ <;> omega

/-- `left[i] > right[j]`, not inside a block: skip the right row -/
theorem step_gt (hinv : GInv emit L R cs inv d)
    (hni : d.k.inner = false) (hj : d.k.j < d.rch.hi - d.rch.lo)
    {a b : Int} (ha : L[d.I]? = some a) (hb : R[d.J]? = some b) (hab : b < a)
    (e_lch : d'.lch = d.lch) (e_rch : d'.rch = d.rch) (e_lout : d'.lout = d.lout) (e_rout : d'.rout = d.rout)
    (e_i : d'.k.i = d.k.i) (e_j : d'.k.j = d.k.j + 1) (e_inner : d'.k.inner = false)
    (e_lb : d'.k.lb = d.k.lb) (e_rb : d'.k.rb = d.k.rb) :
    GInv emit L R cs inv d' ∧ kmu cs d' < kmu cs d ∧ gmu emit L R d' < gmu emit L R d := by
  obtain ⟨hJlt, hbR⟩ := List.getElem?_eq_some_iff.mp hb
  have hI' : d'.I = d.I := by simp only [D.I, e_lch, e_i]
  have hJ' : d'.J = d.J + 1 := by simp only [D.J, e_rch, e_j]; omega
  have hpend' : pendRows L R d' = pendRows L R d := by simp [pendRows, e_inner, hni, hI']
  refine ⟨⟨by rw [e_lch]; exact hinv.lok, by rw [e_rch]; exact hinv.rok, by rw [e_lch]; exact hinv.lbd,
      by rw [e_rch]; exact hinv.rbd, by rw [e_lch, e_i]; exact hinv.ile, by rw [e_rch, e_j]; omega,
      by rw [e_lb, e_rb]; exact hinv.blen, by rw [e_rb]; exact hinv.bcap,
      by rw [hpend', e_lout, e_lb]; exact hinv.outL, by rw [hpend', e_rout, e_rb]; exact hinv.outR, ?_, ?_⟩, ?_, ?_⟩
  · intro _ j b' a' hjl hb' ha'
    rw [hI'] at ha'; rw [hJ'] at hjl
    have e : a' = a := by rw [ha] at ha'; exact (Option.some.inj ha').symm
    subst e
    by_cases hjJ : j < d.J
    · exact hinv.h1 hni j b' a' hjJ hb' ha
    · have : j = d.J := by omega
      subst this
      rw [hb] at hb'; cases hb'; exact hab
  · intro h; rw [e_inner] at h; cases h
  · simp only [kmu, e_lch, e_rch, e_i, e_j, e_inner, hni, e_rb]; simp; omega
  · simp only [gmu, hI', hJ', e_inner, hni, e_lout, e_lb]; simp; omega

theorem ChunkOK.len_ge {xs : List Int} {c : Chunk} (hc : ChunkOK xs c) : c.hi - c.lo ≤ c.data.length := by
  by_cases h : c.hi - c.lo = 0
  · omega
  · have h1 := hc.get (c.hi - c.lo - 1) (by omega)
    have h2 : c.lo + (c.hi - c.lo - 1) < xs.length := by have := hc.hi_le; omega
    rw [get?_some_of_lt h2] at h1
    obtain ⟨h3, _⟩ := List.getElem?_eq_some_iff.mp h1
    omega

/-- the maximal run of the key at window position `i`, as `runCount` finds it inside the logical chunk, is the
    maximal run in the whole column (because a trimmed chunk ends at a run boundary) -/
theorem run_global {xs : List Int} (hs : Sorted xs) {c : Chunk} (hc : ChunkOK xs c) (hb : Boundary xs c)
    {i : Nat} (hi : i < c.hi - c.lo) {a : Int} (ha : xs[c.lo + i]? = some a) :
    ∃ n, runCount c.data (c.hi - c.lo) (c.hi - c.lo) i 1 = .ok n ∧ 0 < n ∧ i + n ≤ c.hi - c.lo ∧
      (∀ t, t < n → xs[c.lo + i + t]? = some a) ∧ (∀ b, xs[c.lo + i + n]? = some b → a < b) := by
  obtain ⟨e, h1, h2, h3, h4⟩ := runCount_spec c.data (c.hi - c.lo) hc.len_ge (c.hi - c.lo) i 1 hi (by omega)
  refine ⟨1 + e, h1, by omega, by omega, ?_, ?_⟩
  · intro t ht
    have := h3 t (by omega)
    rw [hc.get (i + t) (by omega), hc.get i hi, ha] at this
    rw [Nat.add_assoc]; exact this
  · intro b hb'
    have hlast : xs[c.lo + i + e]? = some a := by
      have := h3 e (Nat.le_refl _)
      rw [hc.get (i + e) (by omega), hc.get i hi, ha] at this
      rw [Nat.add_assoc]; exact this
    have hle := Sorted.le_get? hs (i := c.lo + i + e) (j := c.lo + i + (1 + e)) (by omega) hlast hb'
    have hne : b ≠ a := by
      by_cases hin : i + e + 1 < c.hi - c.lo
      · have := h4 hin
        rw [hc.get (i + e + 1) hin, hc.get i hi, ha] at this
        have e1 : c.lo + (i + e + 1) = c.lo + i + (1 + e) := by omega
        rw [e1, hb'] at this
        intro h; apply this; rw [h]
      · have hend : c.lo + i + (1 + e) = c.hi := by have := hc.lo_le; omega
        rcases hb with hb | hb
        · rw [hend, hb] at hb'
          simp at hb'
        · rw [hend] at hb'
          have e1 : c.hi - 1 = c.lo + i + e := by omega
          rw [e1, hlast, hb'] at hb
          intro h; apply hb; rw [h]
    omega

/-- `left[i] == right[j]`: the FSM measures both runs and enters the cartesian block -/
theorem step_enter (hL : Sorted L) (hR : Sorted R) (hinv : GInv emit L R cs inv d)
    (hni : d.k.inner = false) {a : Int} (ha : L[d.I]? = some a) (hb : R[d.J]? = some a)
    {n m : Nat} (hn : 0 < n) (hm : 0 < m) (hni' : d.k.i + n ≤ d.lch.hi - d.lch.lo) (hmj : d.k.j + m ≤ d.rch.hi - d.rch.lo)
    (hLn : ∀ t, t < n → L[d.I + t]? = some a) (hLe : ∀ b, L[d.I + n]? = some b → a < b)
    (hRm : ∀ t, t < m → R[d.J + t]? = some a) (hRe : ∀ b, R[d.J + m]? = some b → a < b)
    (e_lch : d'.lch = d.lch) (e_rch : d'.rch = d.rch) (e_lout : d'.lout = d.lout) (e_rout : d'.rout = d.rout)
    (e_i : d'.k.i = d.k.i) (e_j : d'.k.j = d.k.j) (e_inner : d'.k.inner = true)
    (e_ii : d'.k.ii = 0) (e_jj : d'.k.jj = 0) (e_iiMax : d'.k.iiMax = (n : Int)) (e_jjMax : d'.k.jjMax = (m : Int))
    (e_lb : d'.k.lb = d.k.lb) (e_rb : d'.k.rb = d.k.rb) :
    GInv emit L R cs inv d' ∧ kmu cs d' < kmu cs d ∧ gmu emit L R d' < gmu emit L R d := by
  have hI' : d'.I = d.I := by simp only [D.I, e_lch, e_i]
  have hJ' : d'.J = d.J := by simp only [D.J, e_rch, e_j]
  have hJm : d.J + m ≤ R.length := by have := hinv.rok.hi_le; have := hinv.rok.lo_le; simp only [D.J]; omega
  have hIn : d.I + n ≤ L.length := by have := hinv.lok.hi_le; have := hinv.lok.lo_le; simp only [D.I]; omega
  have hrest : rest L R d.I = blockRows d.I d.J m n ++ rest L R (d.I + n) := by
    apply rest_block hR (a := a) hm hJm ?_ ?_ ?_ n d.I hIn
    · intro t ht
      have := hLn t ht
      rw [get?_some_of_lt (by omega)] at this; exact Option.some.inj this
    · intro j hjl
      exact hinv.h1 hni j _ a hjl (get?_some_of_lt (by omega)) ha
    · intro t ht
      have := hRm t ht
      rw [get?_some_of_lt (by omega)] at this; exact Option.some.inj this
    · intro hlt
      exact hRe _ (get?_some_of_lt hlt)
  have hpend' : pendRows L R d' = pendRows L R d := by
    simp only [pendRows, e_inner, hni, hI', hJ', e_ii, e_jj, e_iiMax, e_jjMax, Int.toNat_natCast, if_true]
    rw [pendInner_zero _ _ _ _ _ hn, hrest]; simp
  refine ⟨⟨by rw [e_lch]; exact hinv.lok, by rw [e_rch]; exact hinv.rok, by rw [e_lch]; exact hinv.lbd,
      by rw [e_rch]; exact hinv.rbd, by rw [e_lch, e_i]; exact hinv.ile, by rw [e_rch, e_j]; exact hinv.jle,
      by rw [e_lb, e_rb]; exact hinv.blen, by rw [e_rb]; exact hinv.bcap,
      by rw [hpend', e_lout, e_lb]; exact hinv.outL, by rw [hpend', e_rout, e_rb]; exact hinv.outR, ?_, ?_⟩, ?_, ?_⟩
  · intro h; rw [e_inner] at h; cases h
  · intro _
    refine ⟨by rw [e_iiMax]; omega, by rw [e_jjMax]; omega, by rw [e_ii, e_iiMax]; omega, by rw [e_jj, e_jjMax]; omega,
      by rw [e_i, e_iiMax, e_lch]; simpa using hni', by rw [e_j, e_jjMax, e_rch]; simpa using hmj, a, ?_, ?_, ?_, ?_, ?_⟩
    · rw [hI', e_iiMax]; simpa using hLn
    · rw [hJ', e_jjMax]; simpa using hRm
    · rw [hJ']; intro j b hjl hb'; exact hinv.h1 hni j b a hjl hb' ha
    · rw [hJ', e_jjMax]; simpa using hRe
    · rw [hI', e_iiMax]; simpa using hLe
  · simp only [kmu, e_lch, e_rch, e_i, e_j, e_inner, hni, e_rb]; simp
  · simp only [gmu, hI', hJ', e_inner, hni, e_lout, e_lb]; simp

/-- common part of an inside-block iteration: the row `(I+ii, J+jj)` is the next pending row -/
theorem inner_pend (hinv : GInv emit L R cs inv d) (hin : d.k.inner = true) :
    pendRows L R d = (d.I + d.k.ii, some (d.J + d.k.jj)) ::
      (pendInner d.I d.J d.k.ii (d.k.jj + 1) d.k.iiMax.toNat d.k.jjMax.toNat ++ rest L R (d.I + d.k.iiMax.toNat)) := by
  have hb := hinv.blk hin
  have : d.k.jj < d.k.jjMax.toNat := by have := hb.jj_lt; omega
  simp only [pendRows, hin, if_true]
  rw [pendInner_step _ _ _ _ _ _ this]; simp

/-- inside a block, not at the end of a row of the block: emit `(I+ii, J+jj)`, `jj += 1` -/
theorem step_inner_jj (hinv : GInv emit L R cs inv d) (hin : d.k.inner = true) (hr : d.k.rb.length < cs)
    (hjj : ((d.k.jj + 1 : Nat) : Int) ≠ d.k.jjMax)
    (e_lch : d'.lch = d.lch) (e_rch : d'.rch = d.rch) (e_lout : d'.lout = d.lout) (e_rout : d'.rout = d.rout)
    (e_i : d'.k.i = d.k.i) (e_j : d'.k.j = d.k.j) (e_inner : d'.k.inner = true)
    (e_ii : d'.k.ii = d.k.ii) (e_jj : d'.k.jj = d.k.jj + 1) (e_iiMax : d'.k.iiMax = d.k.iiMax) (e_jjMax : d'.k.jjMax = d.k.jjMax)
    (e_lb : d'.k.lb = d.k.lb ++ [((d.I + d.k.ii : Nat) : Int)]) (e_rb : d'.k.rb = d.k.rb ++ [((d.J + d.k.jj : Nat) : Int)]) :
    GInv emit L R cs inv d' ∧ kmu cs d' < kmu cs d ∧ gmu emit L R d' < gmu emit L R d := by
  have hb := hinv.blk hin
  have hI' : d'.I = d.I := by simp only [D.I, e_lch, e_i]
  have hJ' : d'.J = d.J := by simp only [D.J, e_rch, e_j]
  have hpend := inner_pend hinv hin
  have hpend' : pendRows L R d' = pendInner d.I d.J d.k.ii (d.k.jj + 1) d.k.iiMax.toNat d.k.jjMax.toNat ++
      rest L R (d.I + d.k.iiMax.toNat) := by
    simp only [pendRows, e_inner, hI', hJ', e_ii, e_jj, e_iiMax, e_jjMax, if_true]
  have hoL := hinv.outL
  have hoR := hinv.outR
  rw [hpend, sel_cons_some] at hoL hoR
  have hlenO := congrArg List.length hoL
  have hblen := hinv.blen
  have hjjlt := hb.jj_lt
  refine ⟨⟨by rw [e_lch]; exact hinv.lok, by rw [e_rch]; exact hinv.rok, by rw [e_lch]; exact hinv.lbd,
      by rw [e_rch]; exact hinv.rbd, by rw [e_lch, e_i]; exact hinv.ile, by rw [e_rch, e_j]; exact hinv.jle,
      by rw [e_lb, e_rb]; simp [hblen], by rw [e_rb]; simp; omega,
      by rw [hpend', e_lout, e_lb, ← hoL]; simp, by rw [hpend', e_rout, e_rb, ← hoR]; simp [encCell], ?_, ?_⟩, ?_, ?_⟩
  · intro h; rw [e_inner] at h; cases h
  · intro _
    obtain ⟨a, k1, k2, k3, k4, k5⟩ := hb.key
    refine ⟨by rw [e_iiMax]; exact hb.n_pos, by rw [e_jjMax]; exact hb.m_pos, by rw [e_ii, e_iiMax]; exact hb.ii_lt,
      by rw [e_jj, e_jjMax]; omega, by rw [e_i, e_iiMax, e_lch]; exact hb.i_in, by rw [e_j, e_jjMax, e_rch]; exact hb.j_in,
      a, ?_, ?_, ?_, ?_, ?_⟩
    · rw [hI', e_iiMax]; exact k1
    · rw [hJ', e_jjMax]; exact k2
    · rw [hJ']; exact k3
    · rw [hJ', e_jjMax]; exact k4
    · rw [hI', e_iiMax]; exact k5
  · simp only [kmu, e_lch, e_rch, e_i, e_j, e_inner, hin, e_rb]; simp; omega
  · simp only [gmu, hI', hJ', e_inner, hin, e_lout, e_lb]
    simp at hlenO ⊢; omega

/-- inside a block, at the end of a row but not of the block: emit, `jj = 0`, `ii += 1` -/
theorem step_inner_ii (hinv : GInv emit L R cs inv d) (hin : d.k.inner = true) (hr : d.k.rb.length < cs)
    (hjj : ((d.k.jj + 1 : Nat) : Int) = d.k.jjMax) (hii : ((d.k.ii + 1 : Nat) : Int) ≠ d.k.iiMax)
    (e_lch : d'.lch = d.lch) (e_rch : d'.rch = d.rch) (e_lout : d'.lout = d.lout) (e_rout : d'.rout = d.rout)
    (e_i : d'.k.i = d.k.i) (e_j : d'.k.j = d.k.j) (e_inner : d'.k.inner = true)
    (e_ii : d'.k.ii = d.k.ii + 1) (e_jj : d'.k.jj = 0) (e_iiMax : d'.k.iiMax = d.k.iiMax) (e_jjMax : d'.k.jjMax = d.k.jjMax)
    (e_lb : d'.k.lb = d.k.lb ++ [((d.I + d.k.ii : Nat) : Int)]) (e_rb : d'.k.rb = d.k.rb ++ [((d.J + d.k.jj : Nat) : Int)]) :
    GInv emit L R cs inv d' ∧ kmu cs d' < kmu cs d ∧ gmu emit L R d' < gmu emit L R d := by
  have hb := hinv.blk hin
  have hI' : d'.I = d.I := by simp only [D.I, e_lch, e_i]
  have hJ' : d'.J = d.J := by simp only [D.J, e_rch, e_j]
  have hpend := inner_pend hinv hin
  have hiilt := hb.ii_lt
  have hjm : d.k.jj + 1 = d.k.jjMax.toNat := by omega
  have hii2 : d.k.ii + 1 < d.k.iiMax.toNat := by omega
  have hpend' : pendRows L R d' = pendInner d.I d.J d.k.ii (d.k.jj + 1) d.k.iiMax.toNat d.k.jjMax.toNat ++
      rest L R (d.I + d.k.iiMax.toNat) := by
    simp only [pendRows, e_inner, hI', hJ', e_ii, e_jj, e_iiMax, e_jjMax, if_true]
    rw [hjm, pendInner_rowend _ _ _ _ _ hii2]
  have hoL := hinv.outL
  have hoR := hinv.outR
  rw [hpend, sel_cons_some] at hoL hoR
  have hlenO := congrArg List.length hoL
  have hblen := hinv.blen
  refine ⟨⟨by rw [e_lch]; exact hinv.lok, by rw [e_rch]; exact hinv.rok, by rw [e_lch]; exact hinv.lbd,
      by rw [e_rch]; exact hinv.rbd, by rw [e_lch, e_i]; exact hinv.ile, by rw [e_rch, e_j]; exact hinv.jle,
      by rw [e_lb, e_rb]; simp [hblen], by rw [e_rb]; simp; omega,
      by rw [hpend', e_lout, e_lb, ← hoL]; simp, by rw [hpend', e_rout, e_rb, ← hoR]; simp [encCell], ?_, ?_⟩, ?_, ?_⟩
  · intro h; rw [e_inner] at h; cases h
  · intro _
    obtain ⟨a, k1, k2, k3, k4, k5⟩ := hb.key
    refine ⟨by rw [e_iiMax]; exact hb.n_pos, by rw [e_jjMax]; exact hb.m_pos, by rw [e_ii, e_iiMax]; omega,
      by rw [e_jj, e_jjMax]; exact hb.m_pos, by rw [e_i, e_iiMax, e_lch]; exact hb.i_in, by rw [e_j, e_jjMax, e_rch]; exact hb.j_in,
      a, ?_, ?_, ?_, ?_, ?_⟩
    · rw [hI', e_iiMax]; exact k1
    · rw [hJ', e_jjMax]; exact k2
    · rw [hJ']; exact k3
    · rw [hJ', e_jjMax]; exact k4
    · rw [hI', e_iiMax]; exact k5
  · simp only [kmu, e_lch, e_rch, e_i, e_j, e_inner, hin, e_rb]; simp; omega
  · simp only [gmu, hI', hJ', e_inner, hin, e_lout, e_lb]
    simp at hlenO ⊢; omega

/-- inside a block, last cell of the block: emit, jump `i += ii_max`, `j += jj_max`, leave the block -/
theorem step_inner_end (hL : Sorted L) (hR : Sorted R) (hinv : GInv emit L R cs inv d) (hin : d.k.inner = true) (hr : d.k.rb.length < cs)
    (hjj : ((d.k.jj + 1 : Nat) : Int) = d.k.jjMax) (hii : ((d.k.ii + 1 : Nat) : Int) = d.k.iiMax)
    (e_lch : d'.lch = d.lch) (e_rch : d'.rch = d.rch) (e_lout : d'.lout = d.lout) (e_rout : d'.rout = d.rout)
    (e_i : d'.k.i = d.k.i + d.k.iiMax.toNat) (e_j : d'.k.j = d.k.j + d.k.jjMax.toNat) (e_inner : d'.k.inner = false)
    (e_lb : d'.k.lb = d.k.lb ++ [((d.I + d.k.ii : Nat) : Int)]) (e_rb : d'.k.rb = d.k.rb ++ [((d.J + d.k.jj : Nat) : Int)]) :
    GInv emit L R cs inv d' ∧ kmu cs d' < kmu cs d ∧ gmu emit L R d' < gmu emit L R d := by
  have hb := hinv.blk hin
  have hI' : d'.I = d.I + d.k.iiMax.toNat := by simp only [D.I, e_lch, e_i]; omega
  have hJ' : d'.J = d.J + d.k.jjMax.toNat := by simp only [D.J, e_rch, e_j]; omega
  have hpend := inner_pend hinv hin
  have hjm : d.k.jj + 1 = d.k.jjMax.toNat := by omega
  have hii2 : d.k.ii + 1 = d.k.iiMax.toNat := by omega
  have hpend' : pendRows L R d' = pendInner d.I d.J d.k.ii (d.k.jj + 1) d.k.iiMax.toNat d.k.jjMax.toNat ++
      rest L R (d.I + d.k.iiMax.toNat) := by
    simp only [pendRows, e_inner, hI', Bool.false_eq_true, if_false]
    rw [hjm, pendInner_end _ _ _ _ _ hii2]; simp
  have hoL := hinv.outL
  have hoR := hinv.outR
  rw [hpend, sel_cons_some] at hoL hoR
  have hlenO := congrArg List.length hoL
  have hblen := hinv.blen
  have hiin := hb.i_in
  have hjin := hb.j_in
  have hlo := hinv.lok.lo_le
  have hlh := hinv.lok.hi_le
  have hro := hinv.rok.lo_le
  have hrh := hinv.rok.hi_le
  obtain ⟨a, k1, k2, k3, k4, k5⟩ := hb.key
  refine ⟨⟨by rw [e_lch]; exact hinv.lok, by rw [e_rch]; exact hinv.rok, by rw [e_lch]; exact hinv.lbd,
      by rw [e_rch]; exact hinv.rbd, by rw [e_lch, e_i]; exact hiin, by rw [e_rch, e_j]; exact hjin,
      by rw [e_lb, e_rb]; simp [hblen], by rw [e_rb]; simp; omega,
      by rw [hpend', e_lout, e_lb, ← hoL]; simp, by rw [hpend', e_rout, e_rb, ← hoR]; simp [encCell], ?_, ?_⟩, ?_, ?_⟩
  · intro _ j b' a' hjl hb' ha'
    rw [hI'] at ha'; rw [hJ'] at hjl
    have haa' := k5 a' ha'
    by_cases hjJ : j < d.J
    · have := k3 j b' hjJ hb'; omega
    · have := k2 (j - d.J) (by omega)
      have e1 : d.J + (j - d.J) = j := by omega
      rw [e1, hb'] at this
      cases this; exact haa'
  · intro h; rw [e_inner] at h; cases h
  · simp only [kmu, e_lch, e_rch, e_i, e_j, e_inner, hin, e_rb]; simp; omega
  · simp only [gmu, hI', hJ', e_inner, hin, e_lout, e_lb]
    simp only [D.I, D.J] at *
    simp at hlenO ⊢; omega

end step
end Exetera.Join
