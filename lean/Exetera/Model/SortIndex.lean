import Exetera.Model.Basic
/-!
  Model of `Session.dataset_sort_index` (exetera/core/session.py:239-269): a multi-key sort index obtained by
  repeated *stable* argsort from the last key to the first (least-significant-key-first radix passes).

      r_readers = tuple(reversed(sort_indices))
      acc_index = raw_index
      for r in r_readers:                       # (the first pass is written out before the loop in the source)
          fdata = raw_data(r)[acc_index]
          index = np.argsort(fdata, kind='stable')
          acc_index = acc_index[index]

  `np.argsort(kind='stable')` is an external (trusted base 1.6); it is modelled by `List.mergeSort` on (value, position)
  pairs, whose sortedness/permutation/stability are core-library theorems.  Fancy indexing `a[idx]` is `gather`
  (IndexError when an index is out of range).
-/
namespace Exetera.SortIndex

open Exetera

/-- `v :: r` under `Except` -/
def consE {β} (v : β) : Except Err (List β) → Except Err (List β)
  | .ok l => .ok (v :: l)
  | .error e => .error e

@[simp] theorem consE_ok {β} (v : β) (l : List β) : consE v (.ok l) = .ok (v :: l) := rfl
@[simp] theorem consE_error {β} (v : β) (e : Err) : consE v (.error e : Except Err (List β)) = .error e := rfl

/-- numpy fancy indexing `src[idx]` with non-negative indices; IndexError when one is out of range -/
def gather {α} (src : List α) : List Nat → Except Err (List α)
  | [] => .ok []
  | i :: is =>
    match getE src i "src[index]" with
    | .ok v => consE v (gather src is)
    | .error e => .error e

/-- the comparison of a stable argsort: by value only -/
def leKey (a b : Int × Nat) : Bool := decide (a.1 ≤ b.1)

/-- `np.argsort(xs, kind='stable')`: positions of `xs` in non-decreasing value order, equal values in position order -/
def argsortStable (xs : List Int) : List Nat := (xs.zipIdx.mergeSort leKey).map (·.2)

/-- one pass: `fdata = raw[acc]; index = argsort(fdata); acc = acc[index]` -/
def sortPass (raw : List Int) (acc : List Nat) : Except Err (List Nat) :=
  match gather raw acc with
  | .error e => .error e
  | .ok fdata => gather acc (argsortStable fdata)

/-- the passes over `reversed(sort_indices)` -/
def sortLoop : List (List Int) → List Nat → Except Err (List Nat)
  | [], acc => .ok acc
  | r :: rs, acc =>
    match sortPass r acc with
    | .ok acc' => sortLoop rs acc'
    | .error e => .error e

/-- `Session.dataset_sort_index(sort_indices, index)`; an empty tuple of readers fails at `r_readers[0]` -/
def datasetSortIndex (readers : List (List Int)) (index : List Nat) : Except Err (List Nat) :=
  match readers.reverse with
  | [] => .error (.oob "r_readers[0]")
  | r :: rs => sortLoop (r :: rs) index

end Exetera.SortIndex
