import Exetera.Model.Transforms
/-!
# Specification of the schema-typed conversions (property C06)

Everything here is about *cells* (the byte strings of one CSV column, in row order), never about buffers or offsets:

* `Encodes c cells` : the chunk `c` handed to an importer holds exactly the cells `cells` (this is what the CSV reader
  guarantees, property C05) — the only place where offsets appear, so that the kernel theorems can speak about memory.
* categorical      : `lookup cats cell` = value of the key that equals the *whole* cell; a cell that equals no key makes the
                     import raise (`catColumn`; fix NC06d).
* leaky categorical: code `-1` and the cell text in the `_freetext` companion when no key equals the cell.
* bool             : blank-trimmed, case-insensitive membership in the documented spellings.
* numeric          : the validation-mode table `numericCell`.
* fixed string     : first `n` bytes, zero padded.
* timestamps       : `86400·(days since 1970-01-01) + 3600·h + 60·m + s − 60·offset`, in microseconds.
-/
namespace Exetera.Spec.Transforms
open Exetera Exetera.Transforms

/-! ## what a chunk holds -/

/-- rows `i, i+1, …` of the chunk hold `cells`, the first of them starting at offset `s` of the column's buffer -/
def EncFrom (c : Chunk) : Nat → Nat → List Bytes → Prop
  | i, s, [] => c.inds[i]? = some s
  | i, s, cell :: rest =>
    c.inds[i]? = some s ∧ c.off + s + cell.length ≤ c.vals.length ∧
      slice c.vals (c.off + s) (c.off + s + cell.length) = cell ∧ EncFrom c (i + 1) (s + cell.length) rest

/-- the chunk holds exactly `cells`: `written_row_count` rows, consecutive in the column's own buffer of `cap` bytes; and
    it is a column of the staging arrays (`col_idx < number of columns`).
    The caller establishes the last fact: `read_file_using_fast_csv_reader` calls `import_part(…, i_c, …)` for the `i_c` of
    `index_map = [csvf_fieldnames.index(k) for k in fields_to_use]` (io/parsers.py), so `i_c < len(csvf_fieldnames)`;
    `column_offsets = np.zeros(len(csvf_fieldnames) + 1)` and `column_inds = np.zeros((count_columns, …))` with
    `count_columns = len(header.fieldnames)` of the same header line (`get_file_stat`). -/
structure Encodes (c : Chunk) (cells : List Bytes) : Prop where
  rows : c.rows = cells.length
  enc : ∃ s0, EncFrom c 0 s0 cells ∧ s0 + (cells.map List.length).sum ≤ c.cap
  col : c.col < c.ncols

/-- an arbitrary cutting of a column into chunks: chunk `k` holds the cells `cellss[k]` (possibly none) -/
inductive EncodesAll : List Chunk → List (List Bytes) → Prop
  | nil : EncodesAll [] []
  | cons {c cells cs cellss} : Encodes c cells → EncodesAll cs cellss → EncodesAll (c :: cs) (cells :: cellss)

/-! ## categorical -/

/-- value of the key equal to the whole cell -/
def lookup (cats : List (Bytes × Int)) (cell : Bytes) : Option Int :=
  (cats.find? (fun kv => kv.1 == cell)).map (·.2)

/-- what the staging array of `categorical_transform` holds for a row: the key's value, and the `0` the array was created
    with when no key equals the cell. As found (NC06d) `CategoricalImporter` stored exactly this; with fix NC06d a chunk with
    such a row is never written (`catColumn`). -/
def catCode (cats : List (Bytes × Int)) (cell : Bytes) : Int := (lookup cats cell).getD 0

/-- **a categorical column without free text**: the value of the key each cell equals, row by row; `none` (the import
    raises) as soon as one cell equals no key -/
def catColumn (cats : List (Bytes × Int)) : List Bytes → Option (List Int)
  | [] => some []
  | cell :: rest =>
    match lookup cats cell, catColumn cats rest with
    | some v, some vs => some (v :: vs)
    | _, _ => none

/-- number of the first cell that equals no key -/
def firstNoKey (cats : List (Bytes × Int)) : List Bytes → Option Nat
  | [] => none
  | cell :: rest => if (lookup cats cell).isNone then some 0 else (firstNoKey cats rest).map (· + 1)

/-- what `LeakyCategoricalImporter` stores: the value, or the out-of-range code `-1` -/
def leakyCode (cats : List (Bytes × Int)) (cell : Bytes) : Int := (lookup cats cell).getD (-1)

/-- the `_freetext` companion: the cell text when no key equals it, else empty -/
def freeText (cats : List (Bytes × Int)) (cell : Bytes) : Bytes := if (lookup cats cell).isSome then [] else cell

/-- the whole destination of a leaky categorical column holding `cells` -/
def leakyColumn (cats : List (Bytes × Int)) (cells : List Bytes) : LeakyState :=
  { data := cells.map (leakyCode cats)
    ftIndices := offsets 0 (cells.map (fun c => (freeText cats c).length))
    ftValues := (cells.map (freeText cats)).flatten
    acc := (cells.map (fun c => (freeText cats c).length)).sum }

/-! ## bool -/

def lower (b : Nat) : Nat := if 65 ≤ b ∧ b ≤ 90 then b + 32 else b

/-- the documented spellings, lower case -/
def boolWords : List (Bytes × Int) :=
  [ ([49], 1), ([121], 1), ([116], 1), ([116, 114, 117, 101], 1), ([111, 110], 1), ([121, 101, 115], 1),
    ([48], 0), ([110], 0), ([102], 0), ([102, 97, 108, 115, 101], 0), ([111, 102, 102], 0), ([110, 111], 0) ]

/-- `1/y/t/true/on/yes ↦ 1`, `0/n/f/false/off/no ↦ 0`, case-insensitively -/
def boolValue (val : Bytes) : Option Int := lookup boolWords (val.map lower)

/-- blanks removed at both ends -/
def trimBlank (bs : Bytes) : Bytes := ((bs.dropWhile (· == 32)).reverse.dropWhile (· == 32)).reverse

/-! ## numeric validation modes -/

/-- what a cell text is, for a given column type -/
inductive CellClass (V : Type) where
  | value (v : V)      -- the text denotes `v`
  | empty              -- nothing but blanks
  | garbage            -- not a number of this type
  | outOfRange         -- an integer the column's dtype cannot hold
  deriving Repr, DecidableEq

/-- the validation-mode table: `some (stored value, validity flag)` or `none` = the import raises -/
def numericCell {V} (mode : Mode) (invalid : V) : CellClass V → Option (V × Bool)
  | .value v => some (v, true)
  | .empty => match mode with
    | .strict => none
    | _ => some (invalid, false)
  | .garbage => match mode with
    | .relaxed => some (invalid, false)
    | _ => none
  | .outOfRange => none

/-- one more row in front of a column; `none` (the import raises) is contagious -/
def consCell {V} : Option (V × Bool) → Option (List V × List Bool) → Option (List V × List Bool)
  | some (v, f), some (vs, fs) => some (v :: vs, f :: fs)
  | _, _ => none

/-- a whole column: values and validity flags row by row, or `none` when some cell makes the import raise -/
def numericColumn {V} (mode : Mode) (invalid : V) : List (CellClass V) → Option (List V × List Bool)
  | [] => some ([], [])
  | k :: ks => consCell (numericCell mode invalid k) (numericColumn mode invalid ks)

/-- class of a cell of a `bool` column -/
def boolClass (cell : Bytes) : CellClass Bool :=
  if trimBlank cell = [] then .empty
  else match boolValue (trimBlank cell) with
    | some v => .value (v == 1)
    | none => .garbage

/-! ## fixed strings -/

/-- first `n` bytes, zero padded to `n` -/
def fixedCell (n : Nat) (cell : Bytes) : Bytes := cell.take n ++ List.replicate (n - cell.length) 0

/-! ## timestamps -/

/-- days in year `y` -/
def yearLength (y : Int) : Int := if isLeap y then 366 else 365

/-- days from 0001-01-01 to `y`-01-01, counted year by year (`y ≥ 1`) -/
def daysToYear : Nat → Int
  | 0 => 0
  | 1 => 0
  | n + 2 => daysToYear (n + 1) + yearLength ((n : Int) + 1)

/-- days from `y`-01-01 to `y`-`m`-01, counted month by month -/
def daysToMonth (y : Int) : Nat → Int
  | 0 => 0
  | 1 => 0
  | n + 2 => daysToMonth y (n + 1) + daysInMonth y ((n : Int) + 1)

/-- days from 1970-01-01 to `y-m-d` by plain counting -/
def daysFromCivil (y m d : Nat) : Int := daysToYear y + daysToMonth y m + (d : Int) - 1 - (daysToYear 1970)

/-- microseconds since the epoch of the instant `y-m-d h:mi:s.us` written with UTC offset `off` minutes -/
def utcMicros (y m d h mi s us : Nat) (off : Int) : Int :=
  ((86400 * daysFromCivil y m d + 3600 * h + 60 * mi + s - 60 * off) * 1000000) + us

end Exetera.Spec.Transforms
