import Exetera.Props.C05
import Exetera.Props.C10.Basic
import Exetera.Model.KernelSitesCsv
import Exetera.Model.KernelPathsCsv
/-!
# C10 — `fast_csv_reader` and its window driver (owning property: C05)

As in C05 the theorems cover the runs in which no staging buffer fills (`Fits`, `Supported.min`, `Supported.fit`): every
window of the supported regime, cut anywhere, any number of windows. NOT proved (differential runs only, as for C05's
`regrowth_unobservable`): the kernel's early return when `column_inds` / `column_vals` is full and the driver's regrowth
and re-entry — there the memory-safety claim "the write at `cur_cell_start + cur_cell_char_count` is below the column's
budget because the full flag ends the loop first" rests on the bounds-checked and interpreted runs of the C05 cases
(exhaustive small scope with budgets 1 / 2 / ample, all-empty-cell files that fill the index buffer).
-/
namespace Exetera.Props.C10
open Exetera Exetera.Csv Exetera.Csv.Spec

theorem access_sites_covered_csv : ∀ k ∈ KernelSites.csvSites, lookup k.1 = some k := by decide +kernel

/-- the PATH CONDITION of every subscript occurrence in these kernels (enclosing loop guards, `if` / `elif` tests, negated
    `else` branches and early exits), as regenerated from the current source (`Gen/KernelPaths.lean`), is exactly the one the
    model was written against (`Model/KernelPathsCsv.lean`): dropping or changing a test that dominates a subscript breaks
    the build; and the table covers exactly the kernels of the site table -/
theorem access_paths_covered_csv :
    (∀ k ∈ KernelPaths.csvPaths, lookupPaths k.1 = some k) ∧
    KernelPaths.csvPaths.map (·.1) = KernelSites.csvSites.map (·.1) := by decide +kernel

example : KernelSites.csvSites.length = 1 := by decide

/-- one kernel call on the whole text of a header line and a table, fresh buffers with room (`C05.fsm_whole_eq_spec`) -/
theorem no_oob_fast_csv_reader_whole {ncols maxrow : Nat} {offs : List Nat} (hrow : List Cell) (rows : List (List Cell))
    (hhdr : hrow.length = ncols ∧ ∀ c ∈ hrow, c.WF) (htab : Table ncols rows) (hbuf : C05.Buffers ncols maxrow offs)
    (hfit : C05.Fits ncols offs rows) (hrows : rows.length < maxrow) (site : String) :
    fastCsvReader (render (hrow :: rows)) 0 (zeros2 ncols (maxrow + 1)) (List.replicate (offs.getLastD 0) 0) offs true
      ≠ .error (.oob site) :=
  ne_oob_of_exists (C05.fsm_whole_eq_spec hrow rows hhdr htab hbuf hfit hrows) site

/-- one kernel call entered at a record end behind arbitrary text `pre` (`C05.fsm_split_at_record_end`) -/
theorem no_oob_fast_csv_reader_at_record_end {ncols maxrow : Nat} {offs : List Nat} (pre : List Nat)
    (rowsB : List (List Cell)) (htab : Table ncols rowsB) (hne : rowsB ≠ []) (hbuf : C05.Buffers ncols maxrow offs)
    (hfit : C05.Fits ncols offs rowsB) (hrows : rowsB.length < maxrow) (site : String) :
    fastCsvReader (pre ++ render rowsB) pre.length (zeros2 ncols (maxrow + 1)) (List.replicate (offs.getLastD 0) 0)
      offs false ≠ .error (.oob site) :=
  ne_oob_of_exists (C05.fsm_split_at_record_end pre rowsB htab hne hbuf hfit hrows) site

/-- one kernel call on ANY window of the supported regime: complete records `rowsA`, then the first `m` bytes of the
    next record, cut anywhere — inside a quoted cell, between the two quotes of an escaped quote, inside skipped blanks
    (`C05.fsm_window_eq_spec`): `source[index + 1]` is never read past the window's end -/
theorem no_oob_fast_csv_reader_window {ncols maxrow : Nat} {offs : List Nat} (hh : Bool) (hrow : List Cell)
    (rowsA : List (List Cell)) (r : List Cell) (m : Nat) (pre : List Nat)
    (hhdr : hh = true → hrow.length = ncols ∧ ∀ c ∈ hrow, c.WF) (htab : Table ncols (rowsA ++ [r]))
    (hm : m < (renderCells r).length) (hbuf : C05.Buffers ncols maxrow offs) (hfit : C05.Fits ncols offs (rowsA ++ [r]))
    (hrows : rowsA.length < maxrow) (hne : hh = true ∨ rowsA ≠ []) (site : String) :
    fastCsvReader (pre ++ (((if hh then renderCells hrow else []) ++ render rowsA) ++ (renderCells r).take m)) pre.length
      (zeros2 ncols (maxrow + 1)) (List.replicate (offs.getLastD 0) 0) offs hh ≠ .error (.oob site) :=
  ne_oob_of_exists (C05.fsm_window_eq_spec hh hrow rowsA r m pre hhdr htab hm hbuf hfit hrows hne) site

/-- `read_file_using_fast_csv_reader` (kernel calls + `import_part` of every selected column) over any number of
    windows, for every `chunk_row_size` of the supported regime.
    `_partial`: the full statement has `Supported.reg` alone; `min` and `fit` (part of `Supported`) exclude the runs in
    which a staging buffer fills — see the module comment. -/
theorem no_oob_read_file_partial {file : List Nat} {crs ncols : Nat} {offs : List Nat} {hrow : List Cell}
    {rows : List (List Cell)} (h : C05.Supported file crs ncols offs hrow rows) (im : List Nat)
    (him : ∀ c ∈ im, c < ncols) (fuel : Nat) (hfuel : rows.length + 2 ≤ fuel) (site : String) :
    readFile file crs ncols offs im (im.map (fun _ => ({ kind := .indexed } : Imp))) fuel ≠ .error (.oob site) := by
  obtain ⟨calls, hc⟩ := C05.window_chunking_unobservable_partial h im him fuel hfuel
  exact ne_oob_of_ok hc site

/-- the public entry point `read_csv_with_schema_dict`, all columns imported as indexed strings, any include / exclude
    lists of known names (`C05.read_csv_eq_spec_partial`; `_partial` for the same reason) -/
theorem no_oob_read_csv_partial {file : List Nat} {crs ncols : Nat} {hrow : List Cell} {rows : List (List Cell)}
    (names : List String) (schema : List (String × FieldKind)) (incl excl : Option (List String))
    (hall : ∀ k ∈ names, kindOf schema k = .indexed) (hnames : names.length = ncols)
    (hincl : ∀ l, incl = some l → ∀ k ∈ l, k ∈ names) (hexcl : ∀ l, excl = some l → ∀ k ∈ l, k ∈ names)
    (hfile : file = render (hrow :: rows) ∨ (file ++ [Csv.NL] = render (hrow :: rows) ∧ file.getLast? ≠ some Csv.NL))
    (hne : file ≠ []) (hhdr : hrow.length = ncols ∧ ∀ c ∈ hrow, c.WF) (htab : Table ncols rows) (hcrs : 0 < crs)
    (hreg : ∀ l ∈ hrow :: rows, (renderCells l).length ≤ crs * Gen.Csv.CHUNK_ROW_FACTOR * ncols)
    (hmin : ∀ l ∈ hrow :: rows, ncols < (renderCells l).length)
    (hfit : ∀ c, c < ncols → (column (values rows) c).flatten.length < Gen.Csv.INDEXED_STRING_FIELD_SIZE * crs)
    (fuel : Nat) (hfuel : rows.length + 2 ≤ fuel) (site : String) :
    readCsv file names schema incl excl crs fuel ≠ .error (.oob site) :=
  ne_oob_of_ok (C05.read_csv_eq_spec_partial names schema incl excl hall hnames hincl hexcl hfile hne hhdr htab hcrs hreg
    hmin hfit fuel hfuel) site

/-- non-vacuity: the hypotheses are those of the C05 theorems, shown satisfiable there (`C05.exHeader`, `C05.exRows`:
    quoted separator, doubled quote, quoted line break, blank-led cell; three windows of 12 bytes) -/
example : (match readFile (render (C05.exHeader :: C05.exRows)) 3 2 [0, 100, 200] [0, 1]
                   [{ kind := .indexed }, { kind := .indexed }] 6 with
           | .ok o => decide (o.rows = 3)
           | .error _ => false) = true := by
  decide +kernel

/-- the error branch is real: a value buffer shorter than `column_offsets[-1]` -/
example : (match fastCsvReader (render (C05.exHeader :: C05.exRows)) 0 (zeros2 2 5) (List.replicate 3 0) [0, 20, 40] true with
           | .error (.oob _) => true
           | _ => false) = true := by
  decide +kernel

end Exetera.Props.C10
