import Exetera.Props.C16
import Exetera.Props.C10.Basic
import Exetera.Model.KernelSitesConcat
import Exetera.Model.KernelPathsConcat
import Exetera.Lemmas.NoOobConcat
/-!
# C10 — span concatenation: `_apply_spans_concat_2` and its batch driver (owning property: C16)
-/
namespace Exetera.Props.C10
open Exetera Exetera.Concat Exetera.Spec.CsvLine

variable {α : Type} [DecidableEq α]

theorem access_sites_covered_concat : ∀ k ∈ KernelSites.concatSites, lookup k.1 = some k := by decide +kernel

/-- the PATH CONDITION of every subscript occurrence in these kernels (enclosing loop guards, `if` / `elif` tests, negated
    `else` branches and early exits), as regenerated from the current source (`Gen/KernelPaths.lean`), is exactly the one the
    model was written against (`Model/KernelPathsConcat.lean`): dropping or changing a test that dominates a subscript breaks
    the build; and the table covers exactly the kernels of the site table -/
theorem access_paths_covered_concat :
    (∀ k ∈ KernelPaths.concatPaths, lookupPaths k.1 = some k) ∧
    KernelPaths.concatPaths.map (·.1) = KernelSites.concatSites.map (·.1) := by decide +kernel

example : KernelSites.concatSites.length = 1 := by decide

/-- `Session.apply_spans_concat` (repaired: D25, NC16a, NC16b) on the stored form of ANY column, any list of span
    boundaries inside the column, every `src_chunksize ≥ 1` and EVERY `dest_chunksize`, `chunksize_mult` (0 included):
    no out-of-bounds access at any site of the kernel or the driver. In particular the index buffer (`src_chunksize + 1`
    slots) and the value buffer (sized by the chunk parameters, grown to twice the longest span bound) are never
    overrun, whatever the ratio of output bytes to buffer size. -/
theorem no_oob_apply_spans_concat (sep delim : α) (entries : List (List α)) (spans : List Nat)
    (srcChunk destChunk mult : Nat) (hbound : ∀ p ∈ spans, p ≤ entries.length) (hsc : 1 ≤ srcChunk) (site : String) :
    applySpansConcat .repaired sep delim spans (offsets entries) entries.flatten srcChunk destChunk mult
      ≠ .error (.oob site) :=
  ne_oob_of_ok (C16.concat_eq_spec sep delim entries spans srcChunk destChunk mult hbound hsc) site

example : (∀ p ∈ [0, 1, 2, 4, 5], p ≤ C16.exEntries.length) ∧
    (applySpansConcat .repaired (44 : Nat) 34 [0, 1, 2, 4, 5] (offsets C16.exEntries) C16.exEntries.flatten 2 0 0).toOption.isSome := by
  decide

/-- the batch loop alone with a caller-chosen value buffer that has room (the hypotheses of `C16.batches_eq_spec_room`) -/
theorem no_oob_concat_batches (sep delim : α) (entries : List (List α)) (spans : List Nat) (srcChunk valueCap : Nat)
    (hbound : ∀ p ∈ spans, p ≤ entries.length) (hsc : 1 ≤ srcChunk) (M : Nat)
    (hM : ∀ o ∈ concatSpec sep delim entries spans, o.length ≤ M)
    (hMV : M ≤ valueCap) (hV : valueCap / 2 - 1 + M ≤ valueCap) (site : String) :
    runBatches .repaired sep delim spans (offsets entries) entries.flatten srcChunk valueCap ≠ .error (.oob site) :=
  ne_oob_of_exists (C16.batches_eq_spec_room sep delim entries spans srcChunk valueCap hbound hsc M hM hMV hV) site

/-- one call of the compiled kernel under the hypotheses of `C16.kernel_eq_spec` (limits within the buffers, room for
    one more span output once the value limit has not been reached) -/
theorem no_oob_concat_kernel (P : Params α) (entries : List (List α))
    (hidx : P.idx = offsets entries) (hvals : P.vals = entries.flatten) (hbound : ∀ p ∈ P.spans, p ≤ entries.length)
    (M : Nat) (hM : ∀ o ∈ concatSpec P.sep P.delim entries P.spans, o.length ≤ M)
    (hI : P.maxI ≤ P.capI) (hMV : M ≤ P.capV) (hV : P.maxV - 1 + M ≤ P.capV)
    (spStart : Nat) (hs : spStart < P.spans.length - 1) (hci : (if spStart = 0 then 1 else 0) < P.capI)
    (site : String) : kernel P spStart ≠ .error (.oob site) := by
  obtain ⟨k, _, _, h⟩ := C16.kernel_eq_spec P entries hidx hvals hbound M hM hI hMV hV spStart hs hci
  exact ne_oob_of_ok h site

/-- the write `dest_values[d_index_v + delta] = x` is refused by the model exactly when the position is not below the
    buffer size -/
theorem pushV_oob_iff (cap : Nat) (vb : List α) (x : α) (site : String) :
    (∃ e, pushV cap vb x site = .error e) ↔ cap ≤ vb.length := by
  unfold pushV
  split
  · constructor
    · rintro ⟨e, h⟩; cases h
    · intro h; omega
  · constructor
    · intro _; omega
    · intro _; exact ⟨_, rfl⟩

/-- **result buffers of the concat kernel are never overrun**: whatever the arguments (valid or not, any limits, any
    ratio of output bytes to buffer size), a call of `_apply_spans_concat_2` that returns normally has written at most
    `len(dest_index)` offsets and at most `len(dest_values)` bytes -/
theorem concat_kernel_buffers_bounded (P : Params α) (spStart s' : Nat) (b : Buf α)
    (h : kernel P spStart = .ok (s', b)) : b.ib.length ≤ P.capI ∧ b.vb.length ≤ P.capV :=
  kernel_len P spStart s' b h

example : kernel C16.exParams 1 = .ok (3, ⟨[1, 13], [34, 98, 44, 99, 34, 44, 34, 100, 34, 34, 101, 34]⟩) := by decide
/-- the error branch is real: the same call with a 5-byte value buffer -/
example : kernel { C16.exParams with capV := 5 } 1 = .error (.oob "dest_values[sep]") := by decide

end Exetera.Props.C10
