import Exetera.Lemmas.CsvBasic
/-! One iteration of the `fast_csv_reader` loop, case by case (C05). -/
namespace Exetera.Csv
open Exetera

/-- `n` iterations of a loop body, the guard holding before each of them -/
inductive StepsN {σ} (g : σ → Bool) (f : σ → Except Err σ) : Nat → σ → σ → Prop
  | refl (s : σ) : StepsN g f 0 s s
  | cons {n : Nat} {s s1 s2 : σ} : g s = true → f s = .ok s1 → StepsN g f n s1 s2 → StepsN g f (n + 1) s s2

theorem StepsN.one {σ} {g : σ → Bool} {f : σ → Except Err σ} {s s1 : σ} (hg : g s = true) (hf : f s = .ok s1) :
    StepsN g f 1 s s1 := .cons hg hf (.refl _)

theorem StepsN.trans {σ} {g : σ → Bool} {f : σ → Except Err σ} {n m : Nat} {s s1 s2 : σ}
    (h1 : StepsN g f n s s1) (h2 : StepsN g f m s1 s2) : StepsN g f (n + m) s s2 := by
  induction h1 with
  | refl s => simpa using h2
  | @cons k _ _ _ hg hf _ ih =>
    have := StepsN.cons hg hf (ih h2)
    rw [Nat.add_right_comm k 1 m]
    exact this

theorem whileE_of_stepsN {σ} {g : σ → Bool} {f : σ → Except Err σ} {n : Nat} {s s' : σ}
    (h : StepsN g f n s s') (hg : g s' = false) : ∀ fuel, n ≤ fuel → whileE g f fuel s = .ok s' := by
  induction h with
  | refl s =>
    intro fuel _
    cases fuel <;> simp [whileE, hg]
  | cons hgs hf _ ih =>
    intro fuel hfuel
    cases fuel with
    | zero => omega
    | succ k =>
      simp only [whileE, hgs, if_true, hf]
      exact ih hg k (by omega)

/-- the loop guard of the kernel: `while True … return` = `while not done` -/
abbrev kguard : KS → Bool := fun s => !s.done

/-- the kernel variables a byte inside a cell never touches -/
def KS.ctx (s : KS) := (s.nextPos, s.col, s.hdr, s.row, s.vfc, s.cstart, s.ics, s.indsFull, s.valsFull, s.colOff, s.colCnt, s.inds)

theorem QUOTE_ne_SEP : QUOTE ≠ SEP := by decide
theorem QUOTE_ne_NL : QUOTE ≠ NL := by decide
theorem QUOTE_ne_WS : QUOTE ≠ WS := by decide
theorem SEP_ne_NL : SEP ≠ NL := by decide
theorem SEP_ne_WS : SEP ≠ WS := by decide
theorem NL_ne_WS : NL ≠ WS := by decide

/-! #### classification of a byte -/

theorem lex_plain {nx : Option Nat} {at_ e cd : Bool} {c : Nat} (h1 : c ≠ SEP) (h2 : c ≠ NL) (h3 : c ≠ QUOTE) :
    lexByte nx at_ e cd c = .ok ⟨.write, e, cd⟩ := by
  simp [lexByte, h1, h2, h3]

theorem lex_sep (nx : Option Nat) (at_ cd : Bool) : lexByte nx at_ false cd SEP = .ok ⟨.endCell, false, cd⟩ := by
  simp [lexByte]

theorem lex_nl (nx : Option Nat) (at_ cd : Bool) : lexByte nx at_ false cd NL = .ok ⟨.endLine, false, cd⟩ := by
  simp [lexByte, show NL ≠ SEP by decide]

theorem lex_esc_nonquote {nx : Option Nat} {at_ cd : Bool} {c : Nat} (h3 : c ≠ QUOTE) :
    lexByte nx at_ true cd c = .ok ⟨.write, true, cd⟩ := by
  unfold lexByte
  by_cases h1 : c = SEP
  · simp [h1]
  · by_cases h2 : c = NL
    · simp [h1, h2]
    · simp [h1, h2, h3]

theorem lex_open (nx : Option Nat) (cd : Bool) : lexByte nx true false cd QUOTE = .ok ⟨.skip, true, cd⟩ := by
  simp [lexByte, QUOTE_ne_SEP, QUOTE_ne_NL]

theorem lex_pair1 (at_ : Bool) : lexByte (some QUOTE) at_ true false QUOTE = .ok ⟨.skip, true, true⟩ := by
  simp [lexByte, QUOTE_ne_SEP, QUOTE_ne_NL]

theorem lex_pair2 (nx : Option Nat) (at_ : Bool) : lexByte nx at_ true true QUOTE = .ok ⟨.write, true, false⟩ := by
  simp [lexByte, QUOTE_ne_SEP, QUOTE_ne_NL]

theorem lex_close {t : Nat} (at_ : Bool) (ht : t = SEP ∨ t = NL) :
    lexByte (some t) at_ true false QUOTE = .ok ⟨.skip, false, false⟩ := by
  have hq : t ≠ QUOTE := by
    rcases ht with h | h <;> rw [h] <;> decide
  simp [lexByte, QUOTE_ne_SEP, QUOTE_ne_NL, hq, ht]

/-- a closing quote as the last byte of the window: nothing happens (the record is retried in the next window) -/
theorem lex_close_eof (at_ : Bool) : lexByte none at_ true false QUOTE = .ok ⟨.skip, true, false⟩ := by
  simp [lexByte, QUOTE_ne_SEP, QUOTE_ne_NL]

/-! #### one iteration -/

/-- a byte that is written (to the cell under construction; nowhere while the header line is read) -/
theorem step_write {src : Bytes} {offs : List Nat} {maxrow : Nat} {s : KS} {c : Nat} {e' c' : Bool}
    (hc : src[s.index]? = some c)
    (hlex : lexByte src[s.index + 1]? (s.index == s.ics) s.escaped s.cand c = .ok ⟨.write, e', c'⟩)
    (hlen : s.index + 1 < src.length) (hif : s.indsFull = false) (hvf : s.valsFull = false)
    (hcap : s.hdr = false → s.colOff + s.cstart + s.count < s.vals.length ∧ s.cstart + s.count + 1 < s.colCnt) :
    ∃ s', step src offs maxrow s = .ok s' ∧ s'.index = s.index + 1 ∧ s'.escaped = e' ∧ s'.cand = c' ∧ s'.done = false ∧
      s'.ctx = s.ctx ∧
      s'.count = (if s.hdr then s.count else s.count + 1) ∧
      s'.vals = (if s.hdr then s.vals else s.vals.set (s.colOff + s.cstart + s.count) c) := by
  have hne : (s.index + 1 == src.length) = false := by simp; omega
  cases hh : s.hdr with
  | true =>
    refine ⟨_, by simp only [step, getE, hc, hlex, writeChar, hh, if_true]; rfl, ?_⟩
    simp [KS.ctx, hh, hif, hvf, hne]
  | false =>
    obtain ⟨hb, hcnt⟩ := hcap hh
    have hfull : decide (s.colCnt ≤ s.cstart + s.count + 1) = false := by simp; omega
    refine ⟨_, by simp only [step, getE, hc, hlex, writeChar, hh, setE, hb, if_true, hfull]; rfl, ?_⟩
    simp [KS.ctx, hh, hif, hvf, hne]

/-- a byte that only changes the quoting state -/
theorem step_skip {src : Bytes} {offs : List Nat} {maxrow : Nat} {s : KS} {c : Nat} {e' c' : Bool}
    (hc : src[s.index]? = some c)
    (hlex : lexByte src[s.index + 1]? (s.index == s.ics) s.escaped s.cand c = .ok ⟨.skip, e', c'⟩)
    (hlen : s.index + 1 < src.length) (hif : s.indsFull = false) (hvf : s.valsFull = false) :
    ∃ s', step src offs maxrow s = .ok s' ∧ s'.index = s.index + 1 ∧ s'.escaped = e' ∧ s'.cand = c' ∧ s'.done = false ∧
      s'.ctx = s.ctx ∧ s'.count = s.count ∧ s'.vals = s.vals := by
  have hne : (s.index + 1 == src.length) = false := by simp; omega
  refine ⟨_, by simp only [step, getE, hc, hlex]; rfl, ?_⟩
  simp [KS.ctx, hif, hvf, hne]

/-- the variables a cell end does not touch -/
def KS.ctx2 (s : KS) := (s.vfc, s.valsFull, s.vals)

/-- an unquoted separator: the cell is closed, the next column begins after the blanks that follow -/
theorem step_sep {src : Bytes} {offs : List Nat} {maxrow : Nat} {s : KS} {c : Nat} {e' c' : Bool}
    {inds' : List (List Nat)} {o o1 cs : Nat}
    (hc : src[s.index]? = some c)
    (hlex : lexByte src[s.index + 1]? (s.index == s.ics) s.escaped s.cand c = .ok ⟨.endCell, e', c'⟩)
    (hif : s.indsFull = false) (hvf : s.valsFull = false)
    (hinds : (if s.hdr then (.ok s.inds : Except Err (List (List Nat)))
              else set2 s.inds s.col (s.row + 1) (s.cstart + s.count) "column_inds[col_index,row_index+1]") = .ok inds')
    (ho : offs[s.col + 1]? = some o) (ho1 : offs[s.col + 1 + 1]? = some o1)
    (hcs : get2 inds' (s.col + 1) (if s.hdr then maxrow else s.row) "column_inds[col_index,row_index]" = .ok cs) :
    ∃ s', step src offs maxrow s = .ok s' ∧ s'.index = skipAfter src s.index + 1 ∧ s'.ics = skipAfter src s.index + 1 ∧
      s'.escaped = e' ∧ s'.cand = c' ∧ s'.done = (skipAfter src s.index + 1 == src.length) ∧
      s'.nextPos = s.nextPos ∧ s'.col = s.col + 1 ∧ s'.hdr = s.hdr ∧ s'.row = s.row ∧ s'.cstart = cs ∧ s'.count = 0 ∧
      s'.indsFull = false ∧ s'.colOff = o ∧ s'.colCnt = o1 - o ∧ s'.inds = inds' ∧ s'.ctx2 = s.ctx2 := by
  have hc' : getE src s.index "source[index]" = .ok c := getE_eq_ok.mpr hc
  have ho' : getE offs (s.col + 1) "column_offsets[col_index]" = .ok o := getE_eq_ok.mpr ho
  have ho1' : getE offs (s.col + 1 + 1) "column_offsets[col_index+1]" = .ok o1 := getE_eq_ok.mpr ho1
  simp only [step, hc', hlex, endCell, hinds, Bool.false_eq_true, ↓reduceIte, ho', ho1', hcs, reduceCtorEq]
  refine ⟨_, rfl, ?_⟩
  simp [KS.ctx2, hif, hvf]

/-- an unquoted line break: the record is closed -/
theorem step_nl {src : Bytes} {offs : List Nat} {maxrow : Nat} {s : KS} {c : Nat} {e' c' : Bool}
    {inds' : List (List Nat)} {o o1 cs : Nat}
    (hc : src[s.index]? = some c)
    (hlex : lexByte src[s.index + 1]? (s.index == s.ics) s.escaped s.cand c = .ok ⟨.endLine, e', c'⟩)
    (hif : s.indsFull = false) (hvf : s.valsFull = false)
    (hinds : (if s.hdr then (.ok s.inds : Except Err (List (List Nat)))
              else set2 s.inds s.col (s.row + 1) (s.cstart + s.count) "column_inds[col_index,row_index+1]") = .ok inds')
    (ho : offs[0]? = some o) (ho1 : offs[1]? = some o1)
    (hcs : get2 inds' 0 (if s.hdr then 0 else s.row + 1) "column_inds[col_index,row_index]" = .ok cs) :
    ∃ s', step src offs maxrow s = .ok s' ∧ s'.index = skipAfter src s.index + 1 ∧ s'.ics = skipAfter src s.index + 1 ∧
      s'.escaped = e' ∧ s'.cand = c' ∧
      s'.done = ((skipAfter src s.index + 1 == src.length) || ((if s.hdr then 0 else s.row + 1) == maxrow)) ∧
      s'.nextPos = s.index + 1 ∧ s'.col = 0 ∧ s'.hdr = false ∧ s'.row = (if s.hdr then 0 else s.row + 1) ∧ s'.cstart = cs ∧
      s'.count = 0 ∧ s'.indsFull = ((if s.hdr then 0 else s.row + 1) == maxrow) ∧ s'.colOff = o ∧ s'.colCnt = o1 - o ∧
      s'.inds = inds' ∧ s'.ctx2 = s.ctx2 := by
  have hc' : getE src s.index "source[index]" = .ok c := getE_eq_ok.mpr hc
  have ho' : getE offs 0 "column_offsets[col_index]" = .ok o := getE_eq_ok.mpr ho
  have ho1' : getE offs (0 + 1) "column_offsets[col_index+1]" = .ok o1 := getE_eq_ok.mpr ho1
  simp only [step, hc', hlex, endCell, hinds, Bool.false_eq_true, ↓reduceIte, ho', ho1', hcs, reduceCtorEq]
  refine ⟨_, rfl, ?_⟩
  simp [KS.ctx2, hif, hvf]

end Exetera.Csv
