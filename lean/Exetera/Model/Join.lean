import Exetera.Model.Basic
/-!
  Model of the streaming ordered-join map generators (exetera/core/operations.py):

    count_back, next_chunk, get_next_chunk (with the widening loop), first/next_(un)trimmed_chunk,
    generate_ordered_map_to_{left,inner}{,_left_unique,_right_unique,_both_unique}_partial,
    generate_ordered_map_to_left{,_right_unique}_remaining and the eight `*_streamed` drivers.

  Conventions: key windows are `List Int` (the kernels only compare keys); the two chunk-sized result buffers
  are modelled as the lists of the `r` values written so far (`lb`, `rb`) — every kernel writes position `r` and then
  increments `r`, and the driver flushes `[:r]`, so "write at `r`" is `push` with the capacity check `r < cap`.
-/
namespace Exetera.Join

open Exetera

/-- `count_back` -/
def countBackFrom (a : List Int) : Nat → Nat
  | 0 => 0
  | v + 1 => if a[v]? != a[v + 1]? then v + 1 else countBackFrom a v

def countBack (a : List Int) : Nat := countBackFrom a (a.length - 1)

/-- `next_chunk(current, length, desired)` -/
def nextChunk (cur len desired : Nat) : Nat × Nat :=
  if cur + desired < len then (cur, cur + desired) else (cur, len)

/-- a chunk: logical range `[lo, hi)` (possibly trimmed) and the window that was read (never trimmed) -/
structure Chunk where
  lo : Nat
  hi : Nat
  data : List Int
  deriving Repr, DecidableEq, Inhabited

/-- the `while trimmed == 0` widening loop of `get_next_chunk`; `cs` is the chunk size *before* doubling -/
def growChunk (xs : List Int) (start : Nat) : Nat → Nat → Except Err Chunk
  | 0, _ => .error .outOfFuel
  | f + 1, cs =>
    let cs' := cs * 2
    let rg := nextChunk start xs.length cs'
    let w := slice xs rg.1 rg.2
    if rg.2 == xs.length then .ok ⟨rg.1, rg.2, w⟩
    else
      let t := countBack w
      if t == 0 then growChunk xs start f cs' else .ok ⟨rg.1, rg.1 + t, w⟩

/-- `get_next_chunk(start, chunk_size, field)` -/
def getNextChunk (xs : List Int) (start cs : Nat) : Except Err Chunk :=
  let rg := nextChunk start xs.length cs
  let w := slice xs rg.1 rg.2
  if rg.2 != xs.length then
    let t := countBack w
    if t == 0 then growChunk xs start (xs.length + 1) cs else .ok ⟨rg.1, rg.1 + t, w⟩
  else .ok ⟨rg.1, rg.2, w⟩

/-- `next_chunk` + slice: `first/next_untrimmed_chunk` -/
def getUntrimmedChunk (xs : List Int) (start cs : Nat) : Chunk :=
  let rg := nextChunk start xs.length cs
  ⟨rg.1, rg.2, slice xs rg.1 rg.2⟩

def fetchChunk (trim : Bool) (xs : List Int) (start cs : Nat) : Except Err Chunk :=
  if trim then getNextChunk xs start cs else .ok (getUntrimmedChunk xs start cs)

/-- the eight map generators -/
inductive Variant where
  | left | leftLU | leftRU | leftBU | inner | innerLU | innerRU | innerBU
  deriving Repr, DecidableEq, Inhabited

def Variant.ltrim : Variant → Bool
  | .left | .leftRU | .inner | .innerRU => true
  | _ => false
def Variant.rtrim : Variant → Bool
  | .left | .leftLU | .inner | .innerLU => true
  | _ => false
def Variant.isLeft : Variant → Bool
  | .left | .leftLU | .leftRU | .leftBU => true
  | _ => false
/-- does the variant write an `l_result`? (`left_right_unique` and `left_both_unique` only write `r_result`) -/
def Variant.hasL : Variant → Bool
  | .leftRU | .leftBU => false
  | _ => true

/-- FSM state carried between `_partial` calls (the unique variants use only `i j` and the buffers) -/
structure K where
  i : Nat := 0
  j : Nat := 0
  ii : Nat := 0
  jj : Nat := 0
  iiMax : Int := -1
  jjMax : Int := -1
  inner : Bool := false
  lb : List Int := []
  rb : List Int := []
  deriving Repr, DecidableEq, Inhabited

/-- parameters of one `_partial` call -/
structure P where
  left : List Int
  right : List Int
  iMax : Nat
  jMax : Nat
  cap : Nat
  iOff : Nat
  jOff : Nat
  inv : Int

def K.r (s : K) : Nat := s.rb.length

/-- `l_result[r] = a; r_result[r] = b; r += 1` -/
def push (cap : Nat) (s : K) (a b : Int) (site : String) : Except Err K :=
  if s.rb.length < cap then .ok { s with lb := s.lb ++ [a], rb := s.rb ++ [b] } else .error (.oob site)

/-- `while k + 1 < lim and xs[k+1] == xs[k]: count += 1; k += 1` -/
def runCount (xs : List Int) (lim : Nat) : Nat → Nat → Nat → Except Err Nat
  | 0, _, c => .ok c
  | f + 1, k, c =>
    if k + 1 < lim then
      match getE xs (k + 1) "run[k+1]", getE xs k "run[k]" with
      | .ok a, .ok b => if a == b then runCount xs lim f (k + 1) (c + 1) else .ok c
      | .error e, _ => .error e
      | _, .error e => .error e
    else .ok c

def partialGuard (v : Variant) (p : P) (s : K) : Bool :=
  match v with
  | .left | .inner => s.i < p.iMax && s.j < p.jMax && s.r < p.cap
  | .leftLU => s.i < p.left.length && s.j < p.jMax && s.r < p.cap
  | .leftRU => s.i < p.iMax && s.j < p.right.length && s.r < p.cap
  | .leftBU => s.i < p.left.length && s.j < p.right.length && s.r < p.cap
  | .innerLU | .innerRU | .innerBU => s.i < p.iMax && s.j < p.jMax && s.r < p.cap

/-- one iteration of the general (`left` / `inner`) FSM -/
def generalBody (emitUnmatched : Bool) (p : P) (s : K) : Except Err K := do
  if !s.inner then
    let a ← getE p.left s.i "left[i]"
    let b ← getE p.right s.j "right[j]"
    if a < b then
      if emitUnmatched then
        let s' ← push p.cap s (↑(s.i + p.iOff)) p.inv "result[r]"
        pure { s' with i := s.i + 1 }
      else pure { s with i := s.i + 1 }
    else if a > b then pure { s with j := s.j + 1 }
    else
      let ci ← runCount p.left p.iMax p.iMax s.i 1
      let cj ← runCount p.right p.jMax p.jMax s.j 1
      pure { s with ii := 0, jj := 0, iiMax := ci, jjMax := cj, inner := true }
  else
    let s1 ← push p.cap s (↑(p.iOff + s.i + s.ii)) (↑(p.jOff + s.j + s.jj)) "result[r]"
    let jj := s.jj + 1
    if (jj : Int) == s.jjMax then
      let ii := s.ii + 1
      if (ii : Int) == s.iiMax then
        pure { s1 with i := s.i + s.iiMax.toNat, j := s.j + s.jjMax.toNat, inner := false,
                       ii := 0, jj := 0, iiMax := -1, jjMax := -1 }
      else pure { s1 with jj := 0, ii := ii }
    else pure { s1 with jj := jj }

/-- one iteration of a uniqueness-specialised kernel -/
def uniqueBody (v : Variant) (p : P) (s : K) : Except Err K := do
  let a ← getE p.left s.i "left[i]"
  let b ← getE p.right s.j "right[j]"
  if a < b then
    if v.isLeft then
      let s' ← push p.cap s (↑(s.i + p.iOff)) p.inv "result[r]"
      pure { s' with i := s.i + 1 }
    else pure { s with i := s.i + 1 }
  else if a > b then pure { s with j := s.j + 1 }
  else
    let s1 ← push p.cap s (↑(s.i + p.iOff)) (↑(s.j + p.jOff)) "result[r]"
    match v with
    | .leftLU | .innerLU =>
      -- `if j+1 >= j_max or right[j+1] != right[j]: i += 1`
      if s.j + 1 >= p.jMax then pure { s1 with i := s.i + 1, j := s.j + 1 }
      else
        let b1 ← getE p.right (s.j + 1) "right[j+1]"
        if b1 != b then pure { s1 with i := s.i + 1, j := s.j + 1 } else pure { s1 with j := s.j + 1 }
    | .leftRU | .innerRU =>
      if s.i + 1 >= p.iMax then pure { s1 with i := s.i + 1, j := s.j + 1 }
      else
        let a1 ← getE p.left (s.i + 1) "left[i+1]"
        if a1 != a then pure { s1 with i := s.i + 1, j := s.j + 1 } else pure { s1 with i := s.i + 1 }
    | _ => pure { s1 with i := s.i + 1, j := s.j + 1 }

def partialBody (v : Variant) (p : P) (s : K) : Except Err K :=
  match v with
  | .left => generalBody true p s
  | .inner => generalBody false p s
  | _ => uniqueBody v p s

/-- fuel that always suffices for one `_partial` call (each iteration advances `i`, `j`, `r` or enters a block) -/
def partialFuel (p : P) : Nat := 2 * (p.left.length + p.right.length + p.iMax + p.jMax + p.cap) + 4

def runPartial (v : Variant) (p : P) (s : K) : Except Err K :=
  whileE (partialGuard v p) (partialBody v p) (partialFuel p) s

/-- `generate_ordered_map_to_left(_right_unique)_remaining` -/
def remainingBody (p : P) (s : K) : Except Err K := do
  let s' ← push p.cap s (↑(p.iOff + s.i)) p.inv "result[r]"
  pure { s' with i := s.i + 1 }

def runRemaining (p : P) (s : K) : Except Err K :=
  whileE (fun s => s.i < p.iMax && s.r < p.cap) (remainingBody p) (p.iMax + 1) s

/-- state of a `*_streamed` driver -/
structure D where
  lch : Chunk
  rch : Chunk
  k : K
  lout : List Int := []
  rout : List Int := []
  calls : Nat := 0        -- number of `_partial` / `_remaining` invocations (compared for C12)
  deriving Repr, DecidableEq, Inhabited

def D.iMax (d : D) : Nat := d.lch.hi - d.lch.lo
def D.jMax (d : D) : Nat := d.rch.hi - d.rch.lo

def mkP (_left _right : List Int) (cs : Nat) (inv : Int) (d : D) : P :=
  { left := d.lch.data, right := d.rch.data, iMax := d.iMax, jMax := d.jMax, cap := cs,
    iOff := d.lch.lo, jOff := d.rch.lo, inv := inv }

/-- `if r > 0: write_part(result_[:r]); r = 0` -/
def flush (d : D) : D :=
  if d.k.r > 0 then { d with lout := d.lout ++ d.k.lb, rout := d.rout ++ d.k.rb, k := { d.k with lb := [], rb := [] } }
  else d

def mainGuard (left right : List Int) (d : D) : Bool :=
  d.k.i + d.lch.lo < left.length && d.k.j + d.rch.lo < right.length

/-- `if i_off + i < len(left) and i >= l_chunk[1] - l_chunk[0]: l_chunk, left_, i_max, i_off, i = next_…_chunk(…)` -/
def refillLeft (v : Variant) (left : List Int) (cs : Nat) (d : D) : Except Err D :=
  if d.lch.lo + d.k.i < left.length && d.k.i >= d.lch.hi - d.lch.lo then do
    let c ← fetchChunk v.ltrim left d.lch.hi cs
    pure { d with lch := c, k := { d.k with i := 0 } }
  else pure d

/-- `if j_off + j < len(right) and j >= r_chunk[1] - r_chunk[0]: …` -/
def refillRight (v : Variant) (right : List Int) (cs : Nat) (d : D) : Except Err D :=
  if d.rch.lo + d.k.j < right.length && d.k.j >= d.rch.hi - d.rch.lo then do
    let c ← fetchChunk v.rtrim right d.rch.hi cs
    pure { d with rch := c, k := { d.k with j := 0 } }
  else pure d

def mainBody (v : Variant) (left right : List Int) (cs : Nat) (inv : Int) (d : D) : Except Err D := do
  let k ← runPartial v (mkP left right cs inv d) d.k
  let d1 ← refillLeft v left cs { d with k := k, calls := d.calls + 1 }
  let d2 ← refillRight v right cs d1
  pure (flush d2)

def tailGuard (left : List Int) (d : D) : Bool := d.k.i + d.lch.lo < left.length

/-- `if i >= i_max: l_chunk = next_chunk(l_chunk[1], len(left), chunksize); i_max = …; i_off = l_chunk[0]; i = 0` -/
def tailAdvance (left : List Int) (cs : Nat) (d : D) : D :=
  if d.k.i >= d.iMax then
    let rg := nextChunk d.lch.hi left.length cs
    { d with lch := ⟨rg.1, rg.2, []⟩, k := { d.k with i := 0 } }
  else d

def tailBody (left right : List Int) (cs : Nat) (inv : Int) (d : D) : Except Err D := do
  let k ← runRemaining (mkP left right cs inv d) d.k
  pure (flush (tailAdvance left cs { d with k := k, calls := d.calls + 1 }))

structure Out where
  lout : List Int
  rout : List Int
  calls : Nat
  deriving Repr, DecidableEq

/-- `generate_ordered_map_to_*_streamed`; `fuel` bounds the number of driver iterations of each loop -/
def streamed (v : Variant) (fuel : Nat) (cs : Nat) (inv : Int) (left right : List Int) : Except Err Out := do
  let lch ← fetchChunk v.ltrim left 0 cs
  let rch ← fetchChunk v.rtrim right 0 cs
  let d0 : D := { lch := lch, rch := rch, k := {} }
  let d1 ← whileE (mainGuard left right) (mainBody v left right cs inv) fuel d0
  let d2 ← if v.isLeft then whileE (tailGuard left) (tailBody left right cs inv) fuel d1 else pure d1
  pure ⟨if v.hasL then d2.lout else [], d2.rout, d2.calls⟩

/-- a driver-iteration budget that is linear in input plus output size (used by the executable driver) -/
def driverFuel (left right : List Int) (outLen : Nat) : Nat := 4 * (left.length + right.length + outLen) + 8

end Exetera.Join
