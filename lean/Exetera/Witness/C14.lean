import Exetera.Model.Unique
import Exetera.Spec.Unique
import Exetera.Lemmas.UniqueSort
/-!
  Counterexample theorems for C14.

  * NC14a (open, recorded, not repaired): `unique_for_indexed_string` passes the distinct strings through numpy `<U` arrays,
    which drop trailing U+0000. Whatever the column, no returned unique value ends in a zero byte — so a column holding
    `"a\0"` never gets its own value back, and the "same set" clause of the property fails.
  * D21 (repaired by fixes/D21_…patch; the model mirrors the repaired code): the composition that was in the code, on the
    3-cycle that `["b","c","a"]` produces.
-/
namespace Exetera.Witness.C14
open Exetera Exetera.Unique Exetera.Spec

theorem stripNul_getLast (y : Bytes) : (stripNul y).getLast? ≠ some 0 := by
  unfold stripNul
  rw [List.getLast?_reverse]
  have := List.head?_dropWhile_not (fun (b : UInt8) => b == 0) y.reverse
  intro h
  rw [h] at this
  simp at this

theorem npSortStr_no_trailing_nul (xs : List Bytes) : ∀ x ∈ npSortStr xs, x.getLast? ≠ some 0 := by
  intro x hx
  have hx' : x ∈ xs.map stripNul := (List.mergeSort_perm _ _).mem_iff.mp hx
  obtain ⟨y, _, rfl⟩ := List.mem_map.mp hx'
  exact stripNul_getLast y

/-- NC14a, general form: on ANY stored column and flags, no unique value returned by the model of
    `unique_for_indexed_string` ends in U+0000 -/
theorem unique_never_returns_trailing_nul (indices : List Nat) (values : Bytes) (ri rv rc : Bool)
    (r : UniqueResult Bytes) (h : uniqueForIndexedString indices values ri rv rc = .ok r) :
    ∀ x ∈ r.uniques, x.getLast? ≠ some 0 := by
  unfold uniqueForIndexedString at h
  cases ho : getIndexedStringUnique indices values ri rv rc with
  | error e => simp [ho] at h
  | ok o =>
    simp only [ho] at h
    have key : r.uniques = npSortStr o.result := by
      by_cases hf : (!(ri || rv || rc)) = true
      · simp only [hf, if_true] at h
        cases h; rfl
      · simp only [hf] at h
        cases h1 : gatherOpt o.index "unique:unique_index[indices_sort]" (npArgsortStr o.result) with
        | error e => simp [h1] at h
        | ok idx =>
          cases h2 : remapInverse (npArgsortStr o.result) o.inverse with
          | error e => simp [h1, h2] at h
          | ok inv =>
            cases h3 : gatherOpt o.counts "unique:unique_counts[indices_sort]" (npArgsortStr o.result) with
            | error e => simp [h1, h2, h3] at h
            | ok cnt =>
              simp only [h1, h2, h3, Bool.false_eq_true, if_false, Except.ok.injEq] at h
              rw [← h]
    rw [key]
    exact npSortStr_no_trailing_nul _

/-- NC14a, the corpus witness: the column `["a", "a\0"]` — the set of returned unique values is not the set of column
    values, for every flag combination (the full-strength `unique_eq_spec` is refuted) -/
theorem nc14a_witness (ri rv rc : Bool) (r : UniqueResult Bytes)
    (h : uniqueForIndexedString (encode [[97], [97, 0]]).1 (encode [[97], [97, 0]]).2 ri rv rc = .ok r) :
    ¬ (∀ x, x ∈ r.uniques ↔ x ∈ [[97], [97, 0]]) := by
  intro hall
  have hm : ([97, 0] : Bytes) ∈ r.uniques := (hall _).mpr (by simp)
  exact unique_never_returns_trailing_nul _ _ ri rv rc r h _ hm (by simp)

/-- D21 as found: the discovery order of `["b","c","a"]` is sorted by the permutation `[2,0,1]`; the rows' discovery
    positions are `[0,1,2]`. Indexing the permutation itself (the code as found) gives `[2,0,1]`; indexing its argsort
    (the repaired code, as modelled) gives the correct `[1,2,0]` -/
theorem d21_as_found_vs_repaired :
    gather [2, 0, 1] "" [0, 1, 2] = .ok [2, 0, 1] ∧
    gather (npArgsortNat [2, 0, 1]) "" [0, 1, 2] = .ok [1, 2, 0] ∧
    uniqueInverse bytesLe [[98], [99], [97]] = [1, 2, 0] := by
  refine ⟨rfl, ?_, by decide⟩
  rw [npArgsortNat_perm [2, 0, 1] (by decide)]
  rfl

end Exetera.Witness.C14
