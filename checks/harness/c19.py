"""C19 — Session-level merge and join helpers agree with relational join semantics.
Correspondence: the REAL Session.merge_left/right/inner, Session.ordered_merge_left/right/inner (ndarray / Field
arguments, with and without sinks, with the map field = streamed form), Session.get_index, Session.join, the flat kernels
ops.generate_ordered_map_to_left_{right,both}_unique, ops.ordered_inner_map{,_left_unique,_both_unique,_result_size} and the
legacy streamed drivers ops.generate_ordered_map_to_left_right_unique_streamed_old / ops.ordered_map_valid_stream_old with
chunk sizes 1..6   vs   Exetera.JoinFlat.* / Exetera.JoinOld.* (Lean).
Oracle for the property itself: the Python relational join below (rendering of Spec.leftJoin / Spec.innerJoin)."""
import itertools

PROPERTY = "C19"
LEVEL = "proof"
LEAN_MODULES = ["Exetera.Props.C19", "Exetera.Witness.C19"]
THEOREMS = []  # from checks/obligations/C19.json
EXHAUSTIVE = {"quick": True, "thorough": True}
MODES = {"quick": ["jit"], "thorough": ["jit", "nojit", "bounds"], "search": ["jit", "nojit"]}
CASE_TIMEOUT = 20
TECHNIQUE = ("Lean 4 theorems about an executable model of the flat join kernels, the legacy re-slicing streamed drivers and "
             "the Session dispatch (Model/JoinFlat.lean, Model/JoinOld.lean) + differential correspondence of the compiled "
             "model with the real Session / ops functions + Python relational join as failing-input oracle")
LEVEL_TEXT = ("Kernel-checked Lean theorems, for all key columns and payloads (no size bound): each flat kernel (left map "
              "right-unique / both-unique, inner map general / left-unique / both-unique, inner result size) returns exactly "
              "the corresponding projection of Spec.leftJoin / Spec.innerJoin on sorted keys with the uniqueness its flag "
              "asserts, with no out-of-bounds access and within its fuel; Session.ordered_merge_left/right in EVERY form "
              "(ndarray or Field arguments; no sinks, Field sinks, zero-initialised ndarray sinks; and the streamed form "
              "through the legacy re-slicing drivers generate_ordered_map_to_left_right_unique_streamed_old / "
              "ordered_map_valid_stream_old for every chunk size >= 1) return / write, for every numeric payload, the "
              "payload at the unique matching row or the empty value, the streamed form leaves the relational join map in "
              "the map field, and all forms agree (ordered_merge_left_correct, ordered_merge_right_correct, forms_agree, "
              "forms_agree_right; streamed_old_left_map_eq_flat and streamed_old_map_valid_eq_flat state the two driver "
              "refinements on their own); Session.ordered_merge_inner lists exactly the matching pairs for every truthful "
              "flag combination (including the swapped left-unique kernel used for right_unique only), returned or written "
              "to Field / zero-initialised ndarray sinks (inner_payloads_all_forms); "
              "Session.merge_left/right/inner return, for numeric and indexed-string payloads, the payloads mapped through "
              "whatever row pairs pandas.merge returned (the relational join by assumption); Session.get_index returns the "
              "matching target row or a marker >= INVALID_INDEX; Session.join puts the value of each run of foreign-key "
              "indices at the destination row it names and 0 elsewhere. The model is tied to the code by differential execution on "
              "an exhaustive small scope and seeded random cases, JIT / interpreted / bounds-checked.")
LEVEL_NOTE = ("The theorems are about the Lean model with the fixes D17, NC19a, NC19b, NC19c applied (fixes/*.patch; on the "
              "unfixed tree the check reports the witnesses in corpus/C19 as violations). The streamed form is proved by "
              "loop-invariant proofs of the two legacy drivers (Lemmas/C19StreamKernel, C19StreamDriver, C19MapStream, "
              "C19MapStreamDriver): global positions, views = unconsumed part of the current chunk, output = join of the "
              "consumed prefix, termination measure; its one extra hypothesis is len(source table) <= INVALID_INDEX = 2^62 "
              "(ordered_map_valid_stream_old fetches the next source chunk when the last map entry it looked at is >= "
              "df_range[1] and < len(data) without testing it against the marker, so a marker that is also a row number "
              "misleads it — reproducible through ops.ordered_map_valid_stream_old with invalid=3, never through Session). "
              "ndarray sinks are covered when zero-initialised (map_valid leaves marker rows as the caller's array had "
              "them). The three `_partial` statements of the earlier revision are kept as obligations (superseded). Open "
              "finding NC19d (ordered_merge_* reject an IndexedStringField payload) is modelled as found, has Witness "
              "theorems, and is excluded from the ordered_merge theorems by their restriction to numeric payloads. "
              "Session.merge_left/right/inner delegate the join to pandas.merge, which is a parameter of the model: the "
              "theorems merge_left_maps_pandas_rows / merge_right_maps_pandas_rows / merge_inner_maps_pandas_rows say the "
              "payloads are mapped through the rows pandas returned (in range), whatever they are; that pandas returns the "
              "relational join is an assumption, compared by the correspondence (merge_inner as a multiset of pairs: pandas "
              "does not keep the order of duplicate right rows). Session.join (join_correct) is proved for the documented "
              "use: one value per run of fkey_indices, every key a destination row or a marker >= INVALID_INDEX, the rows "
              "of a key contiguous; outside it (a key in two runs: the last run wins; negative keys wrap) the model mirrors "
              "numpy's fancy-index assignment and is only compared. Payload "
              "values are unbounded Int in the model; dtype behaviour (int32/float64 payloads, fixed-string keys) is "
              "exercised by the correspondence only.")
RULE = ("exhaustive: all pairs of non-decreasing key columns over a k-letter alphabet with length <= n (quick k=3,n=4; "
        "thorough k=4,n=5) x every flat kernel whose uniqueness assumption the pair satisfies x the streamed_old drivers "
        "with chunk sizes 1..6 x Session.ordered_merge_left/right (array / field / field+sinks / array+sinks / streamed "
        "with injected chunk sizes 1..6) and ordered_merge_inner (all truthful flag combinations x 4 forms); all pairs of "
        "key columns in ANY order (quick n<=3, thorough n<=4) x Session.merge_left/right/inner (array / field / writers; "
        "numeric and indexed-string payloads); get_index on duplicate-free targets x all foreign-key columns; join on "
        "grouped foreign-key indices; plus seeded random larger columns and a small malformed stream (untruthful flags, "
        "length mismatches, empty source tuples, indexed payloads to ordered_merge). Non-trivial = at least one matched and "
        "one unmatched row or a duplicate key, or more than one chunk; distinct = distinct case dicts.")
ASSUMPTIONS = ["numpy/numba compare int64/int32 and fixed-length byte-string keys as the total order the model uses on Int",
               "pandas.merge(how='left'/'inner') returns the relational join in left-row order with NaN for misses "
               "(merge_left/right/inner only; parameter of the model)",
               "MemoryFieldArray.write/write_part append (C01); np.zeros of a dtype is that dtype's empty value",
               "hand-written Lean model validated by this differential run, not verified against the Python text"]
TRUSTED = ["Lean 4.33 kernel", "axioms: propext, Classical.choice, Quot.sound only (audited per theorem)",
           "checks/harness/c19.py generators, value encoding and comparison",
           "Lean models Exetera/Model/JoinFlat.lean, JoinOld.lean mirror operations.py / session.py (with fixes/*.patch "
           "applied) by hand"]
EXPLANATION = ""

INV64 = 1 << 62
BIG = 1 << 20
PDT = ["int64", "int32", "float64"]


# ------------------------------------------------------------------------------------------------------------------
# generators
# ------------------------------------------------------------------------------------------------------------------

def nondecreasing(k, n):
    out = []
    for ln in range(n + 1):
        out.extend(list(c) for c in itertools.combinations_with_replacement(range(k), ln))
    return out


def any_order(k, n):
    out = []
    for ln in range(n + 1):
        out.extend(list(c) for c in itertools.product(range(k), repeat=ln))
    return out


def is_unique(xs):
    return len(set(xs)) == len(xs)


def num_payload(n, k=0, base=11):
    return {"kind": "num", "data": [base + 3 * i for i in range(n)], "dtype": PDT[k % 3]}


WORDS = ["a", "bb", "", "cccc", "dd", "e", "fff", "", "gg", "h"]


def idx_payload(n, k=0):
    entries = [WORDS[(i + k) % len(WORDS)] for i in range(n)]
    ind, vals = [0], []
    for w in entries:
        vals.extend(w.encode())
        ind.append(len(vals))
    return {"kind": "idx", "indices": ind, "values": vals}


FORMS_L = ["array", "field", "field_sinks", "array_sinks", "streamed"]
FORMS_I = ["array", "field", "field_sinks", "array_sinks"]


def cfg_of(form):
    return {"keys_fields": form in ("field", "field_sinks", "streamed"),
            "src_fields": form in ("field", "field_sinks", "streamed"),
            "sinks": {"array": "none", "field": "none", "field_sinks": "fields", "array_sinks": "arrays",
                      "streamed": "fields"}[form],
            "map_given": form == "streamed"}


def mk_om(op, form, left, right, lu, ru, cs, k, payloads=None, **ann):
    """ordered_merge_left / ordered_merge_right. For `oml` the payloads live on the right, for `omr` on the left; the
    result has one row per row of the other ("kept") side."""
    src_n = len(right) if op == "oml" else len(left)
    keep_n = len(left) if op == "oml" else len(right)
    ps = payloads if payloads is not None else [num_payload(src_n, k)] + ([num_payload(src_n, k + 1, 5)] if k % 4 == 0 else [])
    c = {"op": op, "form": form, "left": left, "right": right, "lu": lu, "ru": ru, "cs": cs if form == "streamed" else BIG,
         "payloads": ps, "kdtype": ["int64", "int32", "S2"][k % 3] if k % 5 == 0 else "int64", "_n": k}
    c.update(cfg_of(form))
    c["sink_init"] = [[0] * keep_n for _ in ps] if form == "array_sinks" else []
    c.update(ann)
    return c


def mk_omi(form, left, right, lu, ru, k, **ann):
    c = {"op": "omi", "form": form, "left": left, "right": right, "lu": lu, "ru": ru,
         "lpayloads": [num_payload(len(left), k)], "rpayloads": [num_payload(len(right), k + 1, 7)],
         "kdtype": ["int64", "int32", "S2"][k % 3] if k % 5 == 0 else "int64", "_n": k}
    n = len(inner_join(left, right))
    s = cfg_of(form)["sinks"]
    c["lsinks"] = c["rsinks"] = s
    c["lsink_init"] = [[0] * n] if s == "arrays" else []
    c["rsink_init"] = [[0] * n] if s == "arrays" else []
    c.update(ann)
    return c


def sorted_pair_cases(left, right, tier, cnt, full):
    """every kernel / entry point applicable to one pair of sorted key columns"""
    out = []
    lu, ru = is_unique(left), is_unique(right)
    k = cnt[0]
    cnt[0] += 1
    nl, nr = len(left), len(right)
    out.append({"op": "inner_size", "left": left, "right": right, "_n": k})
    ncap = len(inner_join(left, right))
    out.append({"op": "flat_inner", "scan_l": True, "scan_r": True, "left": left, "right": right, "cap": ncap + (k % 2), "_n": k})
    if lu:
        out.append({"op": "flat_inner", "scan_l": False, "scan_r": True, "left": left, "right": right, "cap": ncap, "_n": k})
    if ru:   # the swapped use of the left-unique kernel (ordered_merge_inner with right_unique only)
        out.append({"op": "flat_inner", "scan_l": False, "scan_r": True, "left": right, "right": left, "cap": ncap,
                    "_swapped": True, "_n": k})
    if lu and ru:
        out.append({"op": "flat_inner", "scan_l": False, "scan_r": False, "left": left, "right": right, "cap": ncap, "_n": k})
    flagsets = [(False, False)] + ([(True, False)] if lu else []) + ([(False, True)] if ru else []) + \
               ([(True, True)] if lu and ru else [])
    forms_i = FORMS_I if full else [FORMS_I[k % 4]]
    for (a, b) in flagsets:
        for f in forms_i:
            out.append(mk_omi(f, left, right, a, b, k))
    inv = [-1, INV64][k % 2]
    if ru:
        out.append({"op": "flat_left", "bu": False, "first": left, "second": right, "cap": nl, "inv": inv, "_n": k})
        if lu:
            out.append({"op": "flat_left", "bu": True, "first": left, "second": right, "cap": nl, "inv": inv, "_n": k})
        css = range(1, 7) if full else [1 + k % 6, 1 + (k // 6) % 6]
        m = [inv if j is None else j for _, j in left_join(left, right)]
        for cs in css:
            out.append({"op": "streamed_old", "left": left, "right": right, "inv": inv, "cs": cs,
                        "kdtype": ["int64", "S2"][k % 2], "_n": k})
            out.append({"op": "map_stream_old", "src": num_payload(nr, k)["data"], "dtype": PDT[k % 3], "map": m, "inv": inv,
                        "cs": cs, "_n": k})
        for luf in ([False, True] if lu else [False]):
            forms = FORMS_L if full else [FORMS_L[k % 5], "streamed"]
            for f in forms:
                for cs in (css if f == "streamed" else [BIG]):
                    out.append(mk_om("oml", f, left, right, luf, True, cs, k))
    if lu:   # ordered_merge_right keeps the right rows: the left side must be the unique one
        css = range(1, 7) if full else [1 + k % 6]
        for ruf in ([False, True] if ru else [False]):
            forms = FORMS_L if full else [FORMS_L[(k + 1) % 5], "streamed"]
            for f in forms:
                for cs in (css if f == "streamed" else [BIG]):
                    out.append(mk_om("omr", f, left, right, True, ruf, cs, k))
    return out


def unsorted_pair_cases(left, right, cnt, full):
    out = []
    k = cnt[0]
    cnt[0] += 1
    forms = ["array", "field", "writers"] if full else [["array", "field", "writers"][k % 3]]
    for f in forms:
        pr = [num_payload(len(right), k), idx_payload(len(right), k)] if k % 2 == 0 else [num_payload(len(right), k)]
        pl = [num_payload(len(left), k + 1), idx_payload(len(left), k + 1)] if k % 2 == 1 else [num_payload(len(left), k + 1)]
        if f == "array":
            pr, pl = [p for p in pr if p["kind"] == "num"], [p for p in pl if p["kind"] == "num"]
        kd = ["int64", "S2", "int32"][k % 3]
        out.append({"op": "merge_left", "form": f, "left": left, "right": right, "payloads": pr, "kdtype": kd, "_n": k})
        out.append({"op": "merge_right", "form": f, "left": left, "right": right, "payloads": pl, "kdtype": kd, "_n": k})
        out.append({"op": "merge_inner", "form": f, "left": left, "right": right, "lpayloads": pl, "rpayloads": pr,
                    "kdtype": kd, "_n": k})
    return out


def get_index_cases(k_alpha, n, full):
    out = []
    k = 0
    targets = [list(t) for ln in range(n + 1) for t in itertools.permutations(range(k_alpha), ln)]
    fks = any_order(k_alpha + 1, n)          # letter k_alpha never occurs in a target
    for t in targets:
        for f in fks:
            k += 1
            if not full and k % 3:
                continue
            out.append({"op": "get_index", "target": t, "fk": f, "form": ["array", "field", "dest_field", "dest_array"][k % 4],
                        "_n": k})
    return out


def grouped(k_alpha, n):
    """foreign-key index columns in which every value occupies one run (what `join` is specified for)"""
    out = []
    for ln in range(n + 1):
        for vals in itertools.permutations(range(k_alpha), ln):
            for runs in itertools.product(range(1, 3), repeat=ln):
                out.append([v for v, r in zip(vals, runs) for _ in range(r)])
    return out


def join_cases(n, full):
    out = []
    k = 0
    for fk in grouped(4, n):
        k += 1
        nruns = len(spans_starts(fk))
        # value 3 stands for an invalid index (>= INVALID_INDEX), values 0..2 are rows of the destination
        fkey = [INV64 + 5 if v == 3 else v for v in fk]
        for dest_len in (3, 5):
            out.append({"op": "session_join", "dest_len": dest_len, "fkey": fkey, "values": [21 + 2 * i for i in range(nruns)],
                        "form": ["array", "field", "writer"][k % 3], "_n": k})
    return out


def rand_sorted(rng, n, unique, cs):
    xs, key = [], rng.randrange(0, 3)
    while len(xs) < n:
        run = 1 if unique else max(1, rng.choice([1, 1, 1, 2, 3, cs - 1, cs, cs + 1, 2 * cs + 1]))
        xs.extend([key] * run)
        key += rng.choice([1, 1, 2, 5])
    return xs[:n]


def tail_cases():
    """column lengths a little above a multiple of a LARGER chunk size (32, 64: one to three rows in the last chunk), for the
    legacy streamed drivers whose staging buffers have exactly `chunksize` slots — a driver that lets a chunk grow past
    `chunksize` (e.g. a short tail folded into the previous chunk) overruns them. Seed independent; always part of the run."""
    out = []
    k = 5000
    for cs in (32, 64):
        for extra in (1, 2, 3):
            for mult in (1, 2):
                n = cs * mult + extra
                left = list(range(0, 2 * n, 2))                  # unique, ascending
                right = [x for x in range(0, 2 * n, 2) if x % 3]   # every third key unmatched
                k += 1
                inv = [-1, INV64][k % 2]
                m = [inv if j is None else j for _, j in left_join(left, right)]
                out.append({"op": "streamed_old", "left": left, "right": right, "inv": inv, "cs": cs, "kdtype": "int64", "_n": k,
                            "_boundary": True})
                out.append({"op": "map_stream_old", "src": num_payload(len(right), k)["data"], "dtype": PDT[k % 3], "map": m,
                            "inv": inv, "cs": cs, "_n": k, "_boundary": True})
                out.append(mk_om("oml", "streamed", left, right, True, True, cs, k, _boundary=True))
                out.append(mk_om("omr", "streamed", right, left, True, True, cs, k + 100, _boundary=True))
    return out


def random_cases(tier, rng):
    out = tail_cases()
    n = 150 if tier == "quick" else 2500
    for t in range(n):
        cs = rng.choice([1, 2, 3, 4, 5, 6, 7, 16, 33])
        lu = rng.random() < 0.3
        left = rand_sorted(rng, rng.randrange(0, 70), lu, cs)
        right = rand_sorted(rng, rng.randrange(0, 70), True, cs)
        k = 1000 + t
        inv = [-1, INV64][t % 2]
        m = [inv if j is None else j for _, j in left_join(left, right)]
        which = t % 6
        if which == 0:
            out.append({"op": "streamed_old", "left": left, "right": right, "inv": inv, "cs": cs, "kdtype": "int64", "_n": k,
                        "_rand": True})
            out.append({"op": "flat_left", "bu": False, "first": left, "second": right, "cap": len(left), "inv": inv, "_n": k,
                        "_rand": True})
        elif which == 1:
            out.append({"op": "map_stream_old", "src": num_payload(len(right), k)["data"], "dtype": PDT[k % 3], "map": m,
                        "inv": inv, "cs": cs, "_n": k, "_rand": True})
        elif which == 2:
            out.append(mk_om("oml", "streamed", left, right, lu and is_unique(left), True, cs, k, _rand=True))
            out.append(mk_om("oml", rng.choice(FORMS_L[:4]), left, right, False, True, BIG, k, _rand=True))
        elif which == 3:
            # ordered_merge_right keeps the right rows; its unique side is the left one
            out.append(mk_om("omr", rng.choice(FORMS_L), right, left, True, lu and is_unique(left), cs, k, _rand=True))
        elif which == 4:
            r2 = rand_sorted(rng, rng.randrange(0, 40), False, cs)
            l2 = left[:40]
            lu2, ru2 = is_unique(l2), is_unique(r2)
            fl = rng.choice([(False, False)] + ([(True, False)] if lu2 else []) + ([(False, True)] if ru2 else []))
            out.append(mk_omi(rng.choice(FORMS_I), l2, r2, fl[0], fl[1], k, _rand=True))
            out.append({"op": "flat_inner", "scan_l": True, "scan_r": True, "left": l2, "right": r2,
                        "cap": len(inner_join(l2, r2)), "_n": k, "_rand": True})
        else:
            l3 = [rng.randrange(0, 12) for _ in range(rng.randrange(0, 30))]
            r3 = [rng.randrange(0, 12) for _ in range(rng.randrange(0, 30))]
            out.extend(dict(c, _rand=True) for c in unsorted_pair_cases(l3, r3, [k], False))
            tgt = rng.sample(range(0, 40), rng.randrange(0, 20))
            fk = [rng.randrange(0, 50) for _ in range(rng.randrange(0, 40))]
            out.append({"op": "get_index", "target": tgt, "fk": fk, "form": ["array", "field", "dest_field", "dest_array"][t % 4],
                        "_n": k, "_rand": True})
    return out


def malformed_cases():
    out = []
    k = 9000
    L, R = [1, 2, 2, 3], [2, 3, 5]
    # untruthful / unsupported flag combinations: the code refuses them
    for form in ("array", "streamed"):
        out.append(mk_om("oml", form, L, R, False, False, 2, k, _malformed=True))
        out.append(mk_om("omr", form, R, L, False, False, 2, k, _malformed=True))
    # sink count mismatch, empty source tuple
    c = mk_om("oml", "array_sinks", L, R, False, True, BIG, k, _malformed=True)
    c["sink_init"] = c["sink_init"] + [[0] * len(L)]
    out.append(c)
    out.append(mk_om("oml", "array", L, R, False, True, BIG, k, payloads=[], _malformed=True))
    c = mk_omi("array", L, R, False, True, k, _malformed=True)
    c["lpayloads"] = []
    out.append(c)
    # the flat left kernel checks the length of its result array
    out.append({"op": "flat_left", "bu": False, "first": L, "second": R, "cap": 3, "inv": -1, "_n": k, "_malformed": True})
    out.append({"op": "flat_left", "bu": True, "first": [1, 2], "second": R, "cap": 5, "inv": -1, "_n": k, "_malformed": True})
    # join: one value per run is required
    out.append({"op": "session_join", "dest_len": 4, "fkey": [0, 0, 1], "values": [5, 6, 7], "form": "array", "_n": k,
                "_malformed": True})
    # NC19d: indexed-string payloads are not supported by ordered_merge_*
    for form in ("field", "field_sinks", "streamed"):
        out.append(mk_om("oml", form, L, R, False, True, 2, k, payloads=[idx_payload(len(R))], _nc19d=True))
    out.append(mk_om("omr", "field", R, L, True, False, 2, k, payloads=[idx_payload(len(R))], _nc19d=True))
    c = mk_omi("field", L, R, False, True, k, _nc19d=True)
    c["rpayloads"] = [idx_payload(len(R))]
    out.append(c)
    return out


def gen_cases(tier, rng):
    from checks import corpus
    cases = list(corpus.load("C19"))
    cnt = [0]
    # (1) ordered forms: sorted key columns
    small = nondecreasing(3, 4 if tier != "quick" else 3)
    small_set = {tuple(s) for s in small}
    for left in small:
        for right in small:
            cases.extend(sorted_pair_cases(left, right, tier, cnt, True))
    big = nondecreasing(3, 4) if tier == "quick" else nondecreasing(4, 5)
    for left in big:
        for right in big:
            if tuple(left) in small_set and tuple(right) in small_set:
                continue
            cases.extend(sorted_pair_cases(left, right, tier, cnt, False))
    # (2) unordered forms: key columns in any order
    usmall = any_order(3, 2)
    for left in usmall:
        for right in usmall:
            cases.extend(unsorted_pair_cases(left, right, cnt, True))
    ubig = any_order(3, 3 if tier == "quick" else 4)
    uset = {tuple(s) for s in usmall}
    for left in ubig:
        for right in ubig:
            if tuple(left) in uset and tuple(right) in uset:
                continue
            cases.extend(unsorted_pair_cases(left, right, cnt, False))
    # (3) get_index, join
    cases.extend(get_index_cases(3, 3, tier != "quick"))
    cases.extend(join_cases(3 if tier == "quick" else 4, True))
    cases.extend(malformed_cases())
    cases.extend(random_cases(tier, rng))
    return cases


def to_model(case):
    return {k: v for k, v in case.items() if not k.startswith("_")}


# ------------------------------------------------------------------------------------------------------------------
# implementation (runs in worker processes)
# ------------------------------------------------------------------------------------------------------------------
_S = {}


def _env():
    if not _S:
        import numpy as np
        from exetera.core import operations as ops, fields
        from exetera.core.session import Session
        _S.update(np=np, ops=ops, fields=fields, s=Session(),
                  orig_left=ops.generate_ordered_map_to_left_right_unique_streamed_old,
                  orig_map=ops.ordered_map_valid_stream_old)
    return _S


class chunksize:
    """inject a small chunk size into the two legacy streamed drivers Session.ordered_merge_left calls with the default
    1 << 20 (module attributes wrapped from outside; no hook in /repo)"""

    def __init__(self, cs):
        self.cs = cs

    def __enter__(self):
        e = _env()
        ops, cs = e["ops"], self.cs
        ol, om = e["orig_left"], e["orig_map"]
        ops.generate_ordered_map_to_left_right_unique_streamed_old = \
            lambda left, right, l2r, invalid=-1: ol(left, right, l2r, invalid, chunksize=cs)
        ops.ordered_map_valid_stream_old = \
            lambda data, map_, result, invalid=-1: om(data, map_, result, invalid=invalid, chunksize=cs)

    def __exit__(self, *a):
        e = _env()
        e["ops"].generate_ordered_map_to_left_right_unique_streamed_old = e["orig_left"]
        e["ops"].ordered_map_valid_stream_old = e["orig_map"]


def key_array(e, xs, kd):
    np = e["np"]
    if kd == "S2":
        return np.array([b"%02d" % x for x in xs], dtype="S2")
    return np.array(xs, dtype=kd)


def key_field(e, xs, kd):
    fields, s = e["fields"], e["s"]
    f = fields.FixedStringMemField(s, 2) if kd == "S2" else fields.NumericMemField(s, kd)
    f.data.write(key_array(e, xs, kd))
    return f


def entries_of(p):
    ind, vals = p["indices"], bytes(p["values"])
    return [vals[ind[i]:ind[i + 1]].decode() for i in range(len(ind) - 1)]


def payload_array(e, p):
    return e["np"].array(p["data"], dtype=p.get("dtype", "int64"))


def payload_field(e, p):
    fields, s = e["fields"], e["s"]
    if p["kind"] == "idx":
        f = fields.IndexedStringMemField(s)
        f.data.write(entries_of(p))
        return f
    f = fields.NumericMemField(s, p.get("dtype", "int64"))
    f.data.write(payload_array(e, p))
    return f


def ints(a):
    out = []
    for x in (a.tolist() if hasattr(a, "tolist") else list(a)):
        if isinstance(x, float):
            if x != int(x):
                raise ValueError("non-integer float in a result")
            x = int(x)
        elif isinstance(x, bytes):
            x = int(x) if x else -1
        out.append(int(x))
    return out


def pout(x):
    """canonical form of one mapped payload (ndarray, numeric field or indexed string field)"""
    if hasattr(x, "indices") and hasattr(x, "values") and getattr(x, "indexed", False):
        return {"kind": "idx", "indices": ints(x.indices[:]), "values": ints(x.values[:])}
    if hasattr(x, "data") and hasattr(x.data, "write"):
        return {"kind": "num", "data": ints(x.data[:])}
    return {"kind": "num", "data": ints(x)}


def impl(case):
    # checks/lib.py reads one JSON *object* per case: wrap bare lists / numbers
    r = impl_(case)
    return r if isinstance(r, dict) else {"v": r}


def unwrap(io):
    return io["v"] if isinstance(io, dict) and set(io) == {"v"} else io


def impl_(case):
    e = _env()
    np, ops, fields, s = e["np"], e["ops"], e["fields"], e["s"]
    op = case["op"]
    if op == "flat_left":
        res = np.zeros(case["cap"], dtype=np.int64)
        fn = ops.generate_ordered_map_to_left_both_unique if case["bu"] else ops.generate_ordered_map_to_left_right_unique
        u = fn(np.array(case["first"], dtype=np.int64), np.array(case["second"], dtype=np.int64), res, case["inv"])
        return {"unmapped": bool(u), "result": ints(res)}
    if op == "flat_inner":
        l2i, r2i = np.zeros(case["cap"], dtype=np.int64), np.zeros(case["cap"], dtype=np.int64)
        fn = {(True, True): ops.ordered_inner_map, (False, True): ops.ordered_inner_map_left_unique,
              (False, False): ops.ordered_inner_map_both_unique}[(case["scan_l"], case["scan_r"])]
        fn(np.array(case["left"], dtype=np.int64), np.array(case["right"], dtype=np.int64), l2i, r2i)
        return {"l": ints(l2i), "r": ints(r2i)}
    if op == "inner_size":
        return int(ops.ordered_inner_map_result_size(np.array(case["left"], dtype=np.int64),
                                                     np.array(case["right"], dtype=np.int64)))
    if op == "streamed_old":
        out = fields.NumericMemField(s, "int64")
        kd = case.get("kdtype", "int64")
        u = e["orig_left"](key_field(e, case["left"], kd), key_field(e, case["right"], kd), out, case["inv"],
                           chunksize=case["cs"])
        return {"unmapped": bool(u), "result": ints(out.data[:])}
    if op == "map_stream_old":
        dt = case.get("dtype", "int64")
        src = fields.NumericMemField(s, dt)
        src.data.write(np.array(case["src"], dtype=dt))
        m = fields.NumericMemField(s, "int64")
        m.data.write(np.array(case["map"], dtype=np.int64))
        out = fields.NumericMemField(s, dt)
        e["orig_map"](src, m, out, invalid=case["inv"], chunksize=case["cs"])
        return ints(out.data[:])
    if op in ("oml", "omr"):
        return impl_om(e, case)
    if op == "omi":
        return impl_omi(e, case)
    if op in ("merge_left", "merge_right", "merge_inner"):
        return impl_merge(e, case)
    if op == "get_index":
        form = case["form"]
        t = np.array(case["target"], dtype=np.int64)
        f = np.array(case["fk"], dtype=np.int64)
        if form == "array":
            return ints(s.get_index(t, f))
        tf, ff = key_field(e, case["target"], "int64"), key_field(e, case["fk"], "int64")
        if form == "field":
            return ints(s.get_index(tf, ff))
        if form == "dest_field":
            d = fields.NumericMemField(s, "int64")
            r = s.get_index(tf, ff, d)
            assert r is None
            return ints(d.data[:])
        d = np.zeros(len(f), dtype=np.int64)
        s.get_index(t, f, d)
        return ints(d)
    if op == "session_join":
        form = case["form"]
        pk = np.arange(case["dest_len"], dtype=np.int64) + 100
        fk = np.array(case["fkey"], dtype=np.int64)
        v = np.array(case["values"], dtype=np.int64)
        if form == "array":
            return ints(s.join(pk, fk, v))
        pkf, fkf = key_field(e, (pk.tolist()), "int64"), key_field(e, case["fkey"], "int64")
        vf = fields.NumericMemField(s, "int64")
        vf.data.write(v)
        if form == "field":
            return ints(s.join(pkf, fkf, vf))
        w = fields.NumericMemField(s, "int64")
        s.join(pkf, fkf, vf, w)
        return ints(w.data[:])
    raise ValueError("unknown op " + op)


def mk_sinks(e, kind, payloads, init):
    np, fields, s = e["np"], e["fields"], e["s"]
    if kind == "none":
        return None
    if kind == "fields":
        return tuple(fields.IndexedStringMemField(s) if p["kind"] == "idx" else fields.NumericMemField(s, p.get("dtype", "int64"))
                     for p in payloads)
    dts = [p.get("dtype", "int64") for p in payloads] + ["int64"] * len(init)
    return tuple(np.array(x, dtype=dts[i]) for i, x in enumerate(init))


def merge_out(ret, sinks):
    return {"ret": None if ret is None else [ints(r) for r in ret],
            "sinks": [] if sinks is None else [ints(x.data[:]) if hasattr(x, "data") and hasattr(x.data, "write") else ints(x)
                                               for x in sinks]}


def flag(e, case, which):
    """a truthful uniqueness flag as callers have it: the Python bool, or (every third case) the numpy bool a computed flag is
    (`np.all(k[1:] != k[:-1])`) — the same truth value must select the same kernel"""
    v = case[which]
    if isinstance(v, bool) and case.get("_n", 0) % 3 == 1:
        return e["np"].bool_(v)
    return v


def impl_om(e, case):
    np, fields, s = e["np"], e["fields"], e["s"]
    kd = case.get("kdtype", "int64")
    kf, sf = case["keys_fields"], case["src_fields"]
    left = key_field(e, case["left"], kd) if kf else key_array(e, case["left"], kd)
    right = key_field(e, case["right"], kd) if kf else key_array(e, case["right"], kd)
    srcs = tuple(payload_field(e, p) if (sf or p["kind"] == "idx") else payload_array(e, p) for p in case["payloads"])
    sinks = mk_sinks(e, case["sinks"], case["payloads"], case.get("sink_init", []))
    mp = fields.NumericMemField(s, "int64") if case["map_given"] else None
    fn = s.ordered_merge_left if case["op"] == "oml" else s.ordered_merge_right
    with chunksize(case["cs"]):
        if case["op"] == "oml":
            ret = s.ordered_merge_left(left, right, srcs, sinks, mp, left_unique=flag(e, case, "lu"), right_unique=flag(e, case, "ru"))
        else:
            ret = s.ordered_merge_right(left, right, srcs, sinks, mp, left_unique=flag(e, case, "lu"), right_unique=flag(e, case, "ru"))
    out = merge_out(ret, sinks)
    streamed = kf and sf and case["sinks"] == "fields" and case["map_given"]
    out["map"] = ints(mp.data[:]) if streamed else None
    return out


def impl_omi(e, case):
    s = e["s"]
    kd = case.get("kdtype", "int64")
    fieldy = case["form"] in ("field", "field_sinks")
    left = key_field(e, case["left"], kd) if fieldy else key_array(e, case["left"], kd)
    right = key_field(e, case["right"], kd) if fieldy else key_array(e, case["right"], kd)
    lsrc = tuple(payload_field(e, p) if (fieldy or p["kind"] == "idx") else payload_array(e, p) for p in case["lpayloads"])
    rsrc = tuple(payload_field(e, p) if (fieldy or p["kind"] == "idx") else payload_array(e, p) for p in case["rpayloads"])
    lsnk = mk_sinks(e, case["lsinks"], case["lpayloads"], case.get("lsink_init", []))
    rsnk = mk_sinks(e, case["rsinks"], case["rpayloads"], case.get("rsink_init", []))
    ret = s.ordered_merge_inner(left, right, lsrc, lsnk, rsrc, rsnk, left_unique=flag(e, case, "lu"), right_unique=flag(e, case, "ru"))
    if lsnk is None and rsnk is None:
        lret, rret = ret
    else:
        assert ret is None
        lret = rret = None
    lo, ro = merge_out(lret, lsnk), merge_out(rret, rsnk)
    lo["map"] = ro["map"] = None
    return {"left": lo, "right": ro}


def impl_merge(e, case):
    s = e["s"]
    kd, form, op = case.get("kdtype", "int64"), case["form"], case["op"]
    arr = form == "array"
    left = key_array(e, case["left"], kd) if arr else key_field(e, case["left"], kd)
    right = key_array(e, case["right"], kd) if arr else key_field(e, case["right"], kd)

    def srcs(ps):
        return tuple(payload_array(e, p) if arr else payload_field(e, p) for p in ps)

    def writers(ps):
        return mk_sinks(e, "fields", ps, []) if form == "writers" else None

    if op == "merge_left":
        w = writers(case["payloads"])
        r = s.merge_left(left, right, srcs(case["payloads"]), w)
        return [pout(x) for x in (w if w is not None else r)]
    if op == "merge_right":
        w = writers(case["payloads"])
        r = s.merge_right(left, right, srcs(case["payloads"]), w)
        return [pout(x) for x in (w if w is not None else r)]
    lw, rw = writers(case["lpayloads"]), writers(case["rpayloads"])
    lr, rr = s.merge_inner(left, right, srcs(case["lpayloads"]), lw, srcs(case["rpayloads"]), rw)
    return {"left": [pout(x) for x in (lw if lw is not None else lr)],
            "right": [pout(x) for x in (rw if rw is not None else rr)]}


# ------------------------------------------------------------------------------------------------------------------
# the property's oracle: relational join (Python rendering of Spec/Join.lean)
# ------------------------------------------------------------------------------------------------------------------

def left_join(l, r):
    out = []
    for i, a in enumerate(l):
        ms = [j for j, b in enumerate(r) if b == a]
        out.extend([(i, j) for j in ms] if ms else [(i, None)])
    return out


def inner_join(l, r):
    return [(i, j) for i, a in enumerate(l) for j, b in enumerate(r) if a == b]


def spans_starts(xs):
    return [i for i in range(len(xs)) if i == 0 or xs[i] != xs[i - 1]]


def is_sorted(xs):
    return all(a <= b for a, b in zip(xs, xs[1:]))


def payload_rows(p):
    """the rows of a payload column and its empty value"""
    if p["kind"] == "idx":
        return [e.encode() for e in entries_of(p)], b""
    return list(p["data"]), 0


def out_rows(o):
    if o["kind"] == "idx":
        ind, vals = o["indices"], bytes(o["values"])
        if not ind or ind[0] != 0 or any(a > b for a, b in zip(ind, ind[1:])) or ind[-1] != len(vals):
            return None
        return [vals[ind[i]:ind[i + 1]] for i in range(len(ind) - 1)]
    return list(o["data"])


def mapped(p, rows_idx):
    rows, empty = payload_rows(p)
    return [empty if j is None else rows[j] for j in rows_idx]


def joint_rows(cols, n):
    """the result rows (one tuple per row over all columns), as a sorted list = multiset"""
    return sorted((tuple(c[r] for c in cols) for r in range(n)), key=repr)


def in_regime(case):
    """is the case inside the property's quantifier (sorted keys for ordered forms, truthful flags, supported shapes)?"""
    op = case["op"]
    if case.get("_malformed"):
        return False
    if op in ("oml", "omr"):
        l, r = (case["left"], case["right"]) if op == "oml" else (case["right"], case["left"])
        lu, ru = (case["lu"], case["ru"]) if op == "oml" else (case["ru"], case["lu"])
        # the kept side is `l`; the payload side `r` must be duplicate-free and declared so
        return is_sorted(l) and is_sorted(r) and ru and is_unique(r) and (not lu or is_unique(l)) and len(case["payloads"]) > 0
    if op == "omi":
        l, r = case["left"], case["right"]
        return is_sorted(l) and is_sorted(r) and (not case["lu"] or is_unique(l)) and (not case["ru"] or is_unique(r)) \
            and len(case["lpayloads"]) > 0 and len(case["rpayloads"]) > 0
    if op == "flat_left":
        return is_sorted(case["first"]) and is_sorted(case["second"]) and is_unique(case["second"]) and \
            (not case["bu"] or is_unique(case["first"])) and case["cap"] == len(case["first"])
    if op == "flat_inner":
        l, r = case["left"], case["right"]
        return is_sorted(l) and is_sorted(r) and (case["scan_l"] or is_unique(l)) and (case["scan_r"] or is_unique(r)) \
            and case["cap"] >= len(inner_join(l, r))
    if op in ("inner_size", "streamed_old"):
        return is_sorted(case["left"]) and is_sorted(case["right"]) and (op == "inner_size" or is_unique(case["right"]))
    if op == "get_index":
        return is_unique(case["target"])
    if op == "session_join":
        fk = case["fkey"]
        st = [fk[i] for i in spans_starts(fk)]
        return is_unique(st) and len(st) == len(case["values"]) and all(0 <= v < case["dest_len"] or v >= INV64 for v in st)
    return True


def check_spec(case, io, mode):
    try:
        return check_spec_(case, io, mode)
    except (KeyError, TypeError, IndexError) as e:      # a result of the wrong shape is a failure, not a crash
        return f"unreadable result {str(io)[:200]}: {type(e).__name__} {e}"


def check_spec_(case, io, mode):
    if not in_regime(case):
        return None
    io = unwrap(io)
    if isinstance(io, dict) and "err" in io:
        return f"raised {io['err']} ({io.get('msg', '')[:120]}) instead of returning the join values"
    op = case["op"]
    if op == "flat_left" or op == "streamed_old":
        l, r = (case["first"], case["second"]) if op == "flat_left" else (case["left"], case["right"])
        ex = [case["inv"] if j is None else j for _, j in left_join(l, r)]
        return None if io["result"] == ex else f"left map {io['result']} != relational left join {ex}"
    if op == "flat_inner":
        rows = inner_join(case["left"], case["right"])
        if case.get("_swapped"):
            # the caller reads the outputs swapped: pairs of (right row, left row) listed by left row
            rows = sorted(rows, key=lambda p: (p[0], p[1]))
        n = len(rows)
        got = list(zip(io["l"][:n], io["r"][:n]))
        return None if got == rows else f"inner map {got} != matching pairs {rows}"
    if op == "inner_size":
        n = len(inner_join(case["left"], case["right"]))
        return None if io == n else f"result size {io} != number of matching pairs {n}"
    if op == "map_stream_old":
        ex = [0 if k == case["inv"] else case["src"][k] for k in case["map"]]
        return None if io == ex else f"mapped column {io} != {ex}"
    if op in ("oml", "omr"):
        keep, other = (case["left"], case["right"]) if op == "oml" else (case["right"], case["left"])
        rows = [j for _, j in left_join(keep, other)]
        outs = io["ret"] if io["ret"] is not None else io["sinks"]
        if len(outs) != len(case["payloads"]):
            return f"{len(outs)} result columns for {len(case['payloads'])} payloads"
        for p, o in zip(case["payloads"], outs):
            ex = mapped(p, rows)
            if o != ex:
                return f"row r of the result must be the payload at the matching row (else empty): got {o} expected {ex}"
        return None
    if op == "omi":
        pairs = inner_join(case["left"], case["right"])
        for side, col in (("left", 0), ("right", 1)):
            o = io[side]
            outs = o["ret"] if o["ret"] is not None else o["sinks"]
            ps = case["lpayloads"] if side == "left" else case["rpayloads"]
            if len(outs) != len(ps):
                return f"{side}: {len(outs)} result columns for {len(ps)} payloads"
            for p, got in zip(ps, outs):
                ex = mapped(p, [pr[col] for pr in pairs])
                if got != ex:
                    return f"inner result must list exactly the matching pairs: {side} got {got} expected {ex}"
        return None
    if op in ("merge_left", "merge_right"):
        keep, other = (case["left"], case["right"]) if op == "merge_left" else (case["right"], case["left"])
        rows = [j for _, j in left_join(keep, other)]
        if len(io) != len(case["payloads"]):
            return f"{len(io)} result columns for {len(case['payloads'])} payloads"
        for p, o in zip(case["payloads"], io):
            ex, got = mapped(p, rows), out_rows(o)
            if got != ex:
                return f"{op}: got {got} expected {ex}"
        return None
    if op == "merge_inner":
        # "inner results list exactly the matching pairs": the multiset of result rows (all payload columns of a row
        # together) is the multiset of matching (left row, right row) pairs; pandas does not promise their order
        pairs = inner_join(case["left"], case["right"])
        if len(io["left"]) != len(case["lpayloads"]) or len(io["right"]) != len(case["rpayloads"]):
            return "wrong number of result columns"
        ex = joint_rows([mapped(p, [pr[0] for pr in pairs]) for p in case["lpayloads"]] +
                        [mapped(p, [pr[1] for pr in pairs]) for p in case["rpayloads"]], len(pairs))
        cols = [out_rows(o) for o in io["left"] + io["right"]]
        if any(c is None or len(c) != len(pairs) for c in cols):
            return f"merge_inner: result columns {cols} do not all have {len(pairs)} rows"
        got = joint_rows(cols, len(pairs))
        return None if got == ex else f"merge_inner: rows {got} are not the matching pairs {ex}"
    if op == "get_index":
        t = case["target"]
        if len(io) != len(case["fk"]):
            return f"{len(io)} indices for {len(case['fk'])} foreign keys"
        for r, k in enumerate(case["fk"]):
            if k in t:
                if io[r] != t.index(k):
                    return f"foreign key row {r} (key {k}) mapped to {io[r]}, target row is {t.index(k)}"
            elif io[r] < INV64:
                return f"foreign key row {r} (key {k}) has no target row but got the valid-looking index {io[r]}"
        return None
    if op == "session_join":
        fk = case["fkey"]
        st = [fk[i] for i in spans_starts(fk)]
        ex = [0] * case["dest_len"]
        for k, v in zip(st, case["values"]):
            if k < INV64:
                ex[k] = v
        return None if io == ex else f"join: got {io} expected {ex}"
    return None


def has_indexed(case):
    return any(p.get("kind") == "idx" for key in ("payloads", "lpayloads", "rpayloads") for p in case.get(key, []))


def match_finding(case, io, mode):
    # NC19d: ordered_merge_left / right / inner given an IndexedStringField payload
    if case["op"] in ("oml", "omr", "omi") and has_indexed(case) and isinstance(io, dict) and "err" in io:
        return "NC19d"
    return None


def mode_diff_ok(case, ij, io, mode):
    # NC19d raises numba's TypingError under the JIT and AttributeError when interpreted: the same refusal
    return case["op"] in ("oml", "omr", "omi") and has_indexed(case) and "err" in ij and "err" in io


def compare(case, io, mo, mode):
    ierr = io.get("err") if isinstance(io, dict) else None
    merr = mo.get("err")
    if ierr or merr:
        if merr == "other:TypingError" and ierr:      # NC19d: numba TypingError; AttributeError when interpreted
            return None
        return None if ierr == merr else f"impl err={ierr} ({io.get('msg', '')[:100] if isinstance(io, dict) else ''}) model err={merr}"
    m = mo["ok"]
    io = unwrap(io)
    if case["op"] == "merge_inner":
        # pandas chooses the order of the pairs; the model lists them in (left, right) order: compare as multisets of rows
        def rows(o):
            cols = [out_rows(x) for x in o["left"] + o["right"]]
            if any(c is None for c in cols) or len({len(c) for c in cols}) > 1:
                return None
            return joint_rows(cols, len(cols[0]) if cols else 0)
        a, b = rows(io), rows(m)
        return None if a is not None and a == b else f"impl rows={a} model rows={b}"
    if case["op"] in ("oml", "omr"):
        m = dict(m)
        m["sinks"] = m["sinks"] if case["sinks"] != "none" else []
    from checks import lib
    return None if lib.canon(io) == lib.canon(m) else f"impl={lib.canon(io)[:300]} model={lib.canon(m)[:300]}"


def key_cols(case):
    op = case["op"]
    if op == "flat_left":
        return case["first"], case["second"]
    if op == "get_index":
        return case["fk"], case["target"]
    if op == "session_join":
        return list(range(case["dest_len"])), case["fkey"]
    if op == "map_stream_old":
        return case["map"], case["src"]
    return case.get("left", []), case.get("right", [])


def nontrivial(case, mo):
    l, r = key_cols(case)
    if case["op"] == "map_stream_old":
        return any(k == case["inv"] for k in l) and any(k != case["inv"] for k in l) or case["cs"] < len(l)
    sl, sr = set(l), set(r)
    return bool(sl & sr) and (bool(sl - sr) or bool(sr - sl) or not is_unique(l) or not is_unique(r))


def classify(case, mo):
    tags = [case["op"]]
    if "form" in case:
        tags.append(case["op"] + ":" + case["form"])
    l, r = key_cols(case)
    if not l or not r:
        tags.append("empty-side")
    if case["op"] in ("streamed_old", "map_stream_old") or case.get("form") == "streamed":
        if case["cs"] < max(len(l), len(r), 1):
            tags.append("multi-chunk")
    if has_indexed(case):
        tags.append("indexed-payload")
    if case.get("kdtype", "int64") != "int64":
        tags.append("keys:" + case["kdtype"])
    if case["op"] in ("oml", "omr", "omi"):
        tags.append(f"flags:lu={int(case['lu'])},ru={int(case['ru'])}")
    if mo and "err" in mo:
        tags.append("model-err:" + mo["err"])
    return tags


def select_for_mode(case, mode, tier):
    if case.get("_malformed") or case.get("_corpus") or case.get("_nc19d") or case.get("_boundary"):
        return True          # (the buffer-boundary cases are exactly what the bounds-checked / interpreted runs are for)
    l, r = key_cols(case)
    if case.get("_rand"):
        return len(l) + len(r) <= 60 and case.get("_n", 0) % 5 == 0
    return case.get("_n", 0) % 9 == 0


# ------------------------------------------------------------------------------------------------------------------
# worker warm-up: import ExeTera / pandas and compile the kernels before the per-case alarm of checks/worker.py is armed
# ------------------------------------------------------------------------------------------------------------------

def _warm_up():
    _env()
    L, R = [1, 2, 2, 4], [2, 3, 4]
    cnt = [0]
    for c in sorted_pair_cases(L, R, "quick", cnt, True) + sorted_pair_cases([1, 2, 4], R, "quick", [5], True) + \
            unsorted_pair_cases([2, 1, 2], [2, 3], [0], True) + unsorted_pair_cases([2, 1, 2], [2, 3], [1], True) + \
            unsorted_pair_cases([2, 1, 2], [2, 3], [2], True) + \
            [{"op": "get_index", "target": [1, 2], "fk": [2, 3], "form": "array"},
             {"op": "session_join", "dest_len": 3, "fkey": [0, 0, 1], "values": [5, 6], "form": "array"}]:
        try:
            impl_(c)
        except Exception:   # noqa
            pass


import sys  # noqa: E402
if sys.argv and sys.argv[0].endswith("worker.py"):
    try:
        _warm_up()
    except Exception:   # noqa
        pass


# the translated kernels of this property (Gen/Kernels.lean) are run against the real compiled kernels as well
from checks.harness import genkernels  # noqa: E402
genkernels.install(globals(), "C19")
