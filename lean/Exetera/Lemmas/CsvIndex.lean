import Exetera.Lemmas.CsvStep
/-! Every iteration of the kernel loop advances `index` (so `len(source)` iterations always suffice) (C05). -/
namespace Exetera.Csv
open Exetera

theorem lt_len_of_getE {α} {l : List α} {i : Nat} {x : α} {site : String} (h : getE l i site = .ok x) : i < l.length := by
  rw [getE_eq_ok] at h
  rcases Nat.lt_or_ge i l.length with h' | h'
  · exact h'
  · rw [List.getElem?_eq_none h'] at h; cases h

theorem skipAfter_ge (src : Bytes) (i : Nat) : i ≤ skipAfter src i := by unfold skipAfter; omega

theorem writeChar_index {s s' : KS} {c : Nat} (h : writeChar s c = .ok s') : s'.index = s.index := by
  unfold writeChar at h
  repeat' split at h
  all_goals first | (cases h; done) | (cases h; rfl)

theorem endCell_index {src : Bytes} {offs : List Nat} {maxrow : Nat} {s s' : KS} {b : Bool}
    (h : endCell src offs maxrow s b = .ok s') : s.index ≤ s'.index := by
  unfold endCell at h
  split at h
  · cases h
  · simp only at h
    split at h
    · cases h
    · split at h
      · cases h
      · split at h
        · cases h
        · cases h; exact skipAfter_ge _ _

theorem step_index_lt {src : Bytes} {offs : List Nat} {maxrow : Nat} {s s' : KS}
    (h : step src offs maxrow s = .ok s') : s.index < s'.index := by
  unfold step at h
  cases hc : getE src s.index "source[index]" with
  | error e => simp [hc] at h
  | ok c =>
    simp only [hc] at h
    cases hl : lexByte src[s.index + 1]? (s.index == s.ics) s.escaped s.cand c with
    | error e => simp [hl] at h
    | ok lx =>
      simp only [hl] at h
      cases hev : lx.ev <;> simp only [hev] at h <;> split at h
      all_goals first
        | (cases h; done)
        | (cases h; simp; done)
        | (rename_i s2 heq; cases h; have := writeChar_index heq; simp at this ⊢; omega)
        | (rename_i s2 heq; cases h; have := endCell_index heq; simp at this ⊢; omega)
        | (rename_i s2 heq; cases h; cases heq; simp)

theorem skipAfter_lt (src : Bytes) (i : Nat) (h : i < src.length) : skipAfter src i < src.length := by
  unfold skipAfter
  have := leadWs_le (src.drop (i + 1))
  simp at this
  omega

theorem endCell_index_lt {src : Bytes} {offs : List Nat} {maxrow : Nat} {s s' : KS} {b : Bool}
    (h : endCell src offs maxrow s b = .ok s') (hi : s.index < src.length) : s'.index < src.length := by
  unfold endCell at h
  split at h
  · cases h
  · simp only at h
    split at h
    · cases h
    · split at h
      · cases h
      · split at h
        · cases h
        · cases h; exact skipAfter_lt _ _ hi

/-- the loop never moves past the end of the window -/
theorem step_index_le {src : Bytes} {offs : List Nat} {maxrow : Nat} {s s' : KS}
    (h : step src offs maxrow s = .ok s') : s'.index ≤ src.length := by
  unfold step at h
  cases hc : getE src s.index "source[index]" with
  | error e => simp [hc] at h
  | ok c =>
    have hi : s.index < src.length := lt_len_of_getE hc
    simp only [hc] at h
    cases hl : lexByte src[s.index + 1]? (s.index == s.ics) s.escaped s.cand c with
    | error e => simp [hl] at h
    | ok lx =>
      simp only [hl] at h
      cases hev : lx.ev <;> simp only [hev] at h <;> split at h
      all_goals first
        | (cases h; done)
        | (cases h; simp; omega)
        | (rename_i s2 heq; cases h; have := writeChar_index heq; simp at this ⊢; omega)
        | (rename_i s2 heq; cases h; have := endCell_index_lt heq (by simpa using hi); simp at this ⊢; omega)
        | (rename_i s2 heq; cases h; cases heq; simp; omega)

theorem stepsN_index_le {src : Bytes} {offs : List Nat} {maxrow : Nat} {n : Nat} {s s' : KS}
    (h : StepsN kguard (step src offs maxrow) n s s') (hs : s.index ≤ src.length) : s'.index ≤ src.length := by
  induction h with
  | refl s => exact hs
  | cons _ hf _ ih => exact ih (step_index_le hf)

theorem stepsN_index {src : Bytes} {offs : List Nat} {maxrow : Nat} {n : Nat} {s s' : KS}
    (h : StepsN kguard (step src offs maxrow) n s s') : s.index + n ≤ s'.index := by
  induction h with
  | refl s => simp
  | cons _ hf _ ih => have := step_index_lt hf; omega

end Exetera.Csv
