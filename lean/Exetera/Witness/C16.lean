import Exetera.Model.Concat
import Exetera.Spec.CsvLine
namespace Exetera.Witness.C16
end Exetera.Witness.C16
