import Exetera.Props.C17
import Exetera.Lemmas.GenKernelsJournal
/-!
  C17 over the TRANSLATED journalling kernels (`Gen/Kernels.lean`, regenerated from operations.py by tools/translate_njit.py on
  every run).

  * `gen_compare_rows_ok` (transfer form): every `.ok` run of the model `compareRows` is a run of the translated
    `compare_rows_for_journalling` with the same `to_keep`. The two sides differ on purpose in one error branch: the model wraps a
    negative subscript around once (`getI`, as numpy does), the translation makes a negative subscript an error; hence the
    hypothesis that no map entry is below -1 (`-1` itself is tested for by the kernel before it subscripts).
  * `gen_compare_rows_to_keep`: the property statement (`C17.to_keep_iff_new_or_differs`, one numeric field) for the translated
    kernel itself, on the specified maps.
-/
namespace Exetera.Props.C17Gen

open Exetera Exetera.Journal Exetera.Spec.Journal Exetera.GenK Exetera.Gen.Kernels

theorem gen_compare_rows_ok (om nm oldF newF : List Int) (tk tk' : List Bool)
    (hom : ∀ x ∈ om, -1 ≤ x) (hnm : ∀ x ∈ nm, -1 ≤ x) (h : compareRows om nm oldF newF tk = .ok tk') :
    compare_rows_for_journalling.run om nm oldF newF tk = .ok tk' :=
  compare_rows_ok om nm oldF newF tk tk' hom hnm h

example : compareRows [1, 2, -1] [0, -1, 1] [7, 7, 9] [7, 5] [false, false, false] = .ok [false, false, true] := by rfl
example : compare_rows_for_journalling.run [1, 2, -1] [0, -1, 1] [7, 7, 9] [7, 5] [false, false, false]
    = .ok [false, false, true] := by rfl
example : ∀ x ∈ ([1, 2, -1] : List Int), -1 ≤ x := by decide

theorem idxOr_ge (o : Option Nat) : -1 ≤ idxOr o := by
  cases o <;> simp [idxOr] <;> omega

theorem indices_fst_ge (ok nk : List Int) : ∀ x ∈ (indices ok nk).1, -1 ≤ x := by
  intro x hx
  simp only [indices, List.mem_map] at hx
  obtain ⟨k, _, rfl⟩ := hx
  exact idxOr_ge _

theorem indices_snd_ge (ok nk : List Int) : ∀ x ∈ (indices ok nk).2, -1 ≤ x := by
  intro x hx
  simp only [indices, List.mem_map] at hx
  obtain ⟨k, _, rfl⟩ := hx
  exact idxOr_ge _

/-- one numeric field compared by the TRANSLATED kernel on the specified maps, starting from an all-False `to_keep`: it returns
    normally (no subscript out of range or negative) and `to_keep` is, slot by slot, the specified flag — a slot is kept iff its
    key has a snapshot row and is new or differs from its last version in this field (`C17.keepFlag_iff`) -/
theorem gen_compare_rows_to_keep (ok nk o n : List Int) (ho : o.length = ok.length) (hn : n.length = nk.length) :
    compare_rows_for_journalling.run (indices ok nk).1 (indices ok nk).2 o n (List.replicate (indices ok nk).1.length false)
      = .ok (toKeep ok nk (differsAny [Col.num o n])) := by
  have h := C17.to_keep_iff_new_or_differs ok nk [Col.num o n] (by simp)
    (by intro c hc; simp only [List.mem_singleton] at hc; subst hc; exact ⟨ho, hn⟩)
  simp only [List.map_cons, List.map_nil, Col.enc, compareCols, compareCol] at h
  cases hr : compareRows (indices ok nk).1 (indices ok nk).2 o n (List.replicate (indices ok nk).1.length false) with
  | error e => rw [hr] at h; simp at h
  | ok tk' =>
    rw [hr] at h
    simp only [Except.ok.injEq] at h
    subst h
    exact compare_rows_ok _ _ _ _ _ _ (indices_fst_ge ok nk) (indices_snd_ge ok nk) hr

example : compare_rows_for_journalling.run (indices [4, 4, 6] [4, 8]).1 (indices [4, 4, 6] [4, 8]).2 [7, 7, 9] [7, 5]
    [false, false, false] = .ok [false, false, true] := by rfl

end Exetera.Props.C17Gen
