import Exetera.Model.Export
import Exetera.Spec.Export
import Exetera.Lemmas.While
/-! C18: the chunk loop of `to_csv` writes exactly `exportRows`, for every chunk size, in exactly `n/crs + 1` iterations. -/
namespace Exetera.Export
open Exetera.Spec.Export

/-! ### model vocabulary = spec vocabulary -/

theorem minLen_eq_nRows {α} (cols : List (List α)) : minLen cols = nRows cols := by
  fun_induction minLen cols <;> simp_all [nRows]

theorem rowSelected_eq_keep (flt : Option (List Bool)) (j : Nat) : rowSelected flt j = keep flt j := by
  cases flt with
  | none => rfl
  | some xs =>
    simp only [rowSelected, keep]
    by_cases h : j < xs.length
    · simp [h]
    · have : xs[j]? = none := List.getElem?_eq_none (by omega)
      simp [h, this]

theorem pyZip_eq (cols : List (List Cell)) : pyZip cols = (List.range (nRows cols)).map (rowAt cols) := by
  simp [pyZip, minLen_eq_nRows, rowAt]

theorem pyZip_length {α} (cols : List (List α)) : (pyZip cols).length = minLen cols := by simp [pyZip]

theorem minLen_le_head {α} (c : List α) (cs : List (List α)) : minLen (c :: cs) ≤ c.length := by
  cases cs with
  | nil => simp [minLen]
  | cons d ds => simp only [minLen]; omega

/-! ### selecting rows -/

theorem selectRows_nil {α} (flt : Option (List Bool)) (k : Nat) : selectRows flt ([] : List α) k = [] := rfl

theorem selectRows_append {α} (flt : Option (List Bool)) (xs ys : List α) (k : Nat) :
    selectRows flt (xs ++ ys) k = selectRows flt xs k ++ selectRows flt ys (k + xs.length) := by
  simp [selectRows, List.zipIdx_append]

theorem selectRows_map_range' {α} (flt : Option (List Bool)) (f : Nat → α) (n : Nat) :
    ∀ s, selectRows flt ((List.range' s n).map f) s = ((List.range' s n).filter (rowSelected flt)).map f := by
  induction n with
  | zero => intro s; rfl
  | succ n ih =>
    intro s
    have h := ih (s + 1)
    simp only [selectRows] at h
    simp only [List.range'_succ, List.map_cons, selectRows, List.zipIdx_cons, List.filter_cons]
    by_cases hs : rowSelected flt s = true
    · simp only [hs, if_true, List.map_cons, h]
    · simp only [hs]
      exact h

theorem selectRows_pyZip (cols : List (List Cell)) (flt : Option (List Bool)) :
    selectRows flt (pyZip cols) 0 = exportRows cols flt := by
  have hk : rowSelected flt = keep flt := funext (rowSelected_eq_keep flt)
  rw [pyZip_eq, List.range_eq_range', selectRows_map_range', exportRows, List.range_eq_range', hk]

theorem selectRows_take_append {α} (flt : Option (List Bool)) (R : List α) (a b : Nat) (hab : a ≤ b) :
    selectRows flt (R.take a) 0 ++ selectRows flt (slice R a b) a = selectRows flt (R.take b) 0 := by
  by_cases ha : a ≤ R.length
  · have hb : b = a + (b - a) := by omega
    rw [hb, List.take_add, selectRows_append]
    have : (R.take a).length = a := by simp; omega
    simp [this, slice]
  · have h1 : R.take a = R := List.take_of_length_le (by omega)
    have h2 : R.take b = R := List.take_of_length_le (by omega)
    have h3 : slice R a b = [] := by simp [slice, List.drop_of_length_le (show R.length ≤ a by omega)]
    simp [h1, h2, h3, selectRows_nil]

/-! ### slicing the columns slices the rows -/

theorem slice_getElem? {α} (c : List α) (a b i : Nat) :
    (slice c a b)[i]? = if i < b - a then c[a + i]? else none := by
  simp [slice, List.getElem?_take, List.getElem?_drop]

theorem minLen_slice {α} (cols : List (List α)) (a b : Nat) :
    minLen (cols.map (fun c => slice c a b)) = min (b - a) (minLen cols - a) := by
  induction cols with
  | nil => simp [minLen]
  | cons c cs ih =>
    cases cs with
    | nil => simp [minLen]
    | cons d ds =>
      simp only [List.map_cons] at ih ⊢
      show min (slice c a b).length (minLen (slice d a b :: ds.map fun c => slice c a b)) =
        min (b - a) (min c.length (minLen (d :: ds)) - a)
      rw [ih]
      simp only [slice_length]
      omega

theorem pyZip_slice {α} (cols : List (List α)) (a b : Nat) :
    pyZip (cols.map (fun c => slice c a b)) = slice (pyZip cols) a b := by
  apply List.ext_getElem?
  intro i
  rw [slice_getElem?]
  simp only [pyZip, minLen_slice, List.getElem?_map]
  by_cases h1 : i < b - a
  · by_cases h2 : a + i < minLen cols
    · have hi : i < min (b - a) (minLen cols - a) := by omega
      have hf : ((fun x : List α => x[i]?) ∘ fun c => slice c a b) = fun c => c[a + i]? := by
        funext c; simp [slice_getElem?, h1]
      rw [List.getElem?_range hi, List.getElem?_range h2]
      simp only [Option.map_some, if_pos h1, List.filterMap_map, hf]
    · have hi : ¬ i < min (b - a) (minLen cols - a) := by omega
      have e1 : (List.range (min (b - a) (minLen cols - a)))[i]? = none := List.getElem?_eq_none (by simp; omega)
      have e2 : (List.range (minLen cols))[a + i]? = none := List.getElem?_eq_none (by simp; omega)
      simp [e1, e2, h1]
  · have e1 : (List.range (min (b - a) (minLen cols - a)))[i]? = none := List.getElem?_eq_none (by simp; omega)
    simp [e1, h1]

/-! ### the loop -/

/-- loop invariant: the rows below `startRow` have been handled; after the `break`, all rows -/
def LoopInv (cols : List (List Cell)) (flt : Option (List Bool)) (n0 : Nat) (s : LoopSt) : Prop :=
  (s.done = false → s.written = selectRows flt ((pyZip cols).take s.startRow) 0 ∧ s.startRow ≤ n0) ∧
  (s.done = true → s.written = selectRows flt (pyZip cols) 0)

def loopMu (n0 crs : Nat) (s : LoopSt) : Nat := if s.done then 0 else (n0 - s.startRow) / crs + 1

theorem loopBody_step (c0 : List Cell) (rest : List (List Cell)) (flt : Option (List Bool)) (crs : Nat) (hcrs : 0 < crs)
    (s : LoopSt) (hI : LoopInv (c0 :: rest) flt c0.length s) (hg : loopGuard s = true) :
    ∃ s', loopBody (c0 :: rest) flt crs s = .ok s' ∧ LoopInv (c0 :: rest) flt c0.length s' ∧
      loopMu c0.length crs s' < loopMu c0.length crs s := by
  have hd : s.done = false := by simpa [loopGuard] using hg
  obtain ⟨hw, hle⟩ := hI.1 hd
  have hlen : (pyZip (c0 :: rest)).length ≤ c0.length := by rw [pyZip_length]; exact minLen_le_head c0 rest
  have hwr : s.written ++ selectRows flt (pyZip (slice c0 s.startRow (s.startRow + crs) ::
        rest.map (fun c => slice c s.startRow (s.startRow + crs)))) s.startRow
      = selectRows flt ((pyZip (c0 :: rest)).take (s.startRow + crs)) 0 := by
    have hz := pyZip_slice (c0 :: rest) s.startRow (s.startRow + crs)
    simp only [List.map_cons] at hz
    rw [hz, hw, selectRows_take_append _ _ _ _ (by omega)]
  simp only [loopBody, List.map_cons, List.getElem?_cons_zero, slice_length]
  rw [hwr]
  by_cases hshort : min (s.startRow + crs - s.startRow) (c0.length - s.startRow) < crs
  · refine ⟨_, by rw [if_pos hshort], ⟨by simp, ?_⟩, ?_⟩
    · intro _
      simp only
      rw [List.take_of_length_le (by omega)]
    · simp [loopMu, hd]
  · refine ⟨_, by rw [if_neg hshort], ⟨?_, by simp⟩, ?_⟩
    · intro _
      exact ⟨rfl, by simp only; omega⟩
    · simp only [loopMu, hd]
      have hge : crs ≤ c0.length - s.startRow := by omega
      have := Nat.div_eq_sub_div hcrs hge
      have e : c0.length - (s.startRow + crs) = c0.length - s.startRow - crs := by omega
      simp only [Bool.false_eq_true, if_false, e]
      omega

/-- Functional correctness of the chunk loop, with memory safety and termination: for every chunk size `crs ≥ 1` and
    any fuel of at least `len(first column)/crs + 1` iterations the loop ends normally having written exactly the
    rows `[row i | i < n, keep i]`. -/
theorem exportLoop_eq (cols : List (List Cell)) (flt : Option (List Bool)) (crs fuel : Nat)
    (hne : cols ≠ []) (hcrs : 0 < crs) (hfuel : loopFuel cols crs ≤ fuel) :
    exportLoop cols flt crs fuel = .ok (exportRows cols flt) := by
  match cols, hne with
  | c0 :: rest, _ =>
    have h0 : LoopInv (c0 :: rest) flt c0.length ⟨0, [], false⟩ := by
      refine ⟨fun _ => ⟨by simp [selectRows_nil], Nat.zero_le _⟩, by simp⟩
    have hmu : loopMu c0.length crs ⟨0, [], false⟩ ≤ fuel := by simpa [loopMu, loopFuel] using hfuel
    obtain ⟨s', hw, hI', hg'⟩ := whileE_rule loopGuard (loopBody (c0 :: rest) flt crs) (LoopInv (c0 :: rest) flt c0.length)
      (loopMu c0.length crs) (fun s hI hg => loopBody_step c0 rest flt crs hcrs s hI hg) fuel _ h0 hmu
    have hd : s'.done = true := by simpa [loopGuard] using hg'
    simp only [exportLoop, hw]
    rw [hI'.2 hd, selectRows_pyZip]

/-- The iteration count is exact: with fewer than `len(first column)/crs + 1` iterations the loop has not finished. -/
theorem exportLoop_needs_fuel (c0 : List Cell) (rest : List (List Cell)) (flt : Option (List Bool)) (crs : Nat) (hcrs : 0 < crs) :
    ∀ (fuel : Nat) (s : LoopSt), s.done = false → fuel < (c0.length - s.startRow) / crs + 1 →
      whileE loopGuard (loopBody (c0 :: rest) flt crs) fuel s = .error .outOfFuel := by
  intro fuel
  induction fuel with
  | zero => intro s hd _; simp [whileE, loopGuard, hd]
  | succ fuel ih =>
    intro s hd hlt
    have hge : crs ≤ c0.length - s.startRow := by
      by_cases h : crs ≤ c0.length - s.startRow
      · exact h
      · have : (c0.length - s.startRow) / crs = 0 := Nat.div_eq_of_lt (by omega)
        omega
    have hfull : ¬ min (s.startRow + crs - s.startRow) (c0.length - s.startRow) < crs := by omega
    have hdiv := Nat.div_eq_sub_div hcrs hge
    simp only [whileE, loopGuard, hd, Bool.not_false, if_true, loopBody, List.map_cons, List.getElem?_cons_zero, slice_length,
      if_neg hfull]
    apply ih
    · rfl
    · have e : c0.length - (s.startRow + crs) = c0.length - s.startRow - crs := by omega
      simp only [e]
      omega

end Exetera.Export
