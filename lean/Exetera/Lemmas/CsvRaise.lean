import Exetera.Lemmas.CsvLoopG
/-! `read_file_using_fast_csv_reader` when an importer rejects a cell (C05 ∘ C06): the driver invariant `DI` extended by "no
    rejected cell among the records consumed so far" (`DIC`), one iteration from such a state (it either keeps the extended
    invariant or raises the error of the first rejected cell of its block), and the loop: the import raises, in the first
    kernel call whose block of records holds a rejected cell. -/
namespace Exetera.Csv
open Exetera Spec

/-- a list that does not satisfy `P` everywhere has a first element that does not -/
theorem exists_first_bad {α} (P : α → Prop) (l : List α) (h : ¬ ∀ x ∈ l, P x) :
    ∃ pre x post, l = pre ++ x :: post ∧ (∀ y ∈ pre, P y) ∧ ¬ P x := by
  induction l with
  | nil => exact absurd (fun _ h => by cases h) h
  | cons a l ih =>
    by_cases ha : P a
    · have hl : ¬ ∀ x ∈ l, P x := by
        intro hl
        apply h
        intro x hx
        rcases List.mem_cons.mp hx with rfl | hx
        · exact ha
        · exact hl x hx
      obtain ⟨pre, x, post, rfl, hp, hx⟩ := ih hl
      refine ⟨a :: pre, x, post, rfl, ?_, hx⟩
      intro y hy
      rcases List.mem_cons.mp hy with rfl | hy
      · exact ha
      · exact hp y hy
    · exact ⟨[], a, l, rfl, fun _ h => (by cases h), ha⟩

/-- The importers of the driver reject unacceptable cells: `errOf c x err` says that `err` is what the importer of file column
    `c` raises on the cell `x` it does not accept. One `import_part` call of the importer, which has consumed acceptable cells
    `D` only, on staging buffers whose column `c` holds a block in which `x` is the FIRST cell the importer does not accept,
    returns that error — whatever follows `x` in the block, wherever the block was cut. -/
def ImpRej (ncols : Nat) (F : Nat → List Bytes → Imp) (good : Nat → Bytes → Prop) (errOf : Nat → Bytes → Err → Prop) : Prop :=
  ∀ (offs : List Nat) (inds : List (List Nat)) (vals : List Nat) (maxrow c : Nat) (D pre : List Bytes) (x : Bytes)
    (post : List Bytes), c < ncols → Shape ncols maxrow offs inds vals → ColOK offs inds vals c (pre ++ x :: post) →
    offAt offs c + (pre ++ x :: post).flatten.length < offAt offs (c + 1) → (∀ cell ∈ D, good c cell) →
    (∀ cell ∈ pre, good c cell) → ¬ good c x →
    ∃ err, errOf c x err ∧ Imp.importPart (F c D) inds vals offs c (pre ++ x :: post).length = .error err

/-- `for ith, i_c in enumerate(index_map): import_part(…)` on a block: the importers in front of the first column (in
    `index_map` order) whose block holds a rejected cell run to completion, that one raises on its first rejected cell, the
    ones behind it are not called -/
theorem importAll_rej {offs : List Nat} {inds : List (List Nat)} {vals : List Nat} {ncols maxrow n : Nat}
    {F : Nat → List Bytes → Imp} {good : Nat → Bytes → Prop} {errOf : Nat → Bytes → Err → Prop}
    (hhom : ImpHom ncols F good) (hrej : ImpRej ncols F good errOf)
    {D E : Nat → List Bytes} (hsh : Shape ncols maxrow offs inds vals)
    (hcols : ∀ c, c < ncols → ColOK offs inds vals c (E c))
    (hcaps : ∀ c, c < ncols → offAt offs c + (E c).flatten.length < offAt offs (c + 1))
    (hlen : ∀ c, c < ncols → (E c).length = n) (c : Nat) (im2 : List Nat) (pre : List Bytes) (x : Bytes) (post : List Bytes)
    (hE : E c = pre ++ x :: post) (hpre : ∀ cell ∈ pre, good c cell) (hx : ¬ good c x) :
    ∀ (im1 : List Nat), (∀ c' ∈ im1 ++ c :: im2, c' < ncols) → (∀ c' ∈ im1 ++ c :: im2, ∀ cell ∈ D c', good c' cell) →
      (∀ c' ∈ im1, ∀ cell ∈ E c', good c' cell) →
      ∃ err, errOf c x err ∧
        importAll inds vals offs n (im1 ++ c :: im2) ((im1 ++ c :: im2).map (fun c => F c (D c))) = .error err := by
  intro im1
  induction im1 with
  | nil =>
    intro h hd _
    have hc := h c (by simp)
    have hcol := hcols c hc
    have hcap := hcaps c hc
    rw [hE] at hcol hcap
    obtain ⟨err, herr, h1⟩ := hrej offs inds vals maxrow c (D c) pre x post hc hsh hcol hcap (hd c (by simp)) hpre hx
    rw [← hE, hlen c hc] at h1
    exact ⟨err, herr, by simp only [List.nil_append, List.map_cons, importAll, h1]⟩
  | cons c' im1 ih =>
    intro h hd hg
    have hc' := h c' (by simp)
    have h1 := hhom offs inds vals maxrow c' (D c') (E c') hc' hsh (hcols c' hc') (hcaps c' hc') (hd c' (by simp))
      (hg c' (by simp))
    rw [hlen c' hc'] at h1
    obtain ⟨err, herr, h2⟩ := ih (fun y hy => h y (by simp [hy])) (fun y hy => hd y (by simp [hy]))
      (fun y hy => hg y (by simp [hy]))
    exact ⟨err, herr, by simp only [List.cons_append, List.map_cons, importAll, h1, h2]⟩

/-- **which rejected cell the import reports.** `d` records were consumed by earlier kernel calls and none of their selected
    cells is rejected; the kernel call that raises staged the block of the next `a` records (records `d … d+a-1`); `c` is the
    first column in `index_map` order whose cells in that block include a rejected one, `x` the first rejected cell of that
    column in the block. (`d` and `a` are determined by `chunk_row_size`, the windows and the regrowths: with another chunking
    another rejected cell may be the one reported — a later row in an earlier column when one block holds both.) -/
structure Reported (rows : List (List Cell)) (im : List Nat) (good : Nat → Bytes → Prop) (d a c : Nat) (x : Bytes) :
    Prop where
  inFile : d + a ≤ rows.length
  before : ∀ c' ∈ im, ∀ cell ∈ doneCols rows d c', good c' cell
  firstCol : ∃ im1 im2, im = im1 ++ c :: im2 ∧ ∀ c' ∈ im1, ∀ cell ∈ column (values ((rows.drop d).take a)) c', good c' cell
  firstCell : ∃ pre post, column (values ((rows.drop d).take a)) c = pre ++ x :: post ∧ (∀ cell ∈ pre, good c cell) ∧
    ¬ good c x

/-- the reported cell is a cell of column `c` of the file, and `c` is an imported column -/
theorem Reported.mem {rows : List (List Cell)} {im : List Nat} {good : Nat → Bytes → Prop} {d a c : Nat} {x : Bytes}
    (h : Reported rows im good d a c x) : c ∈ im ∧ x ∈ column (values rows) c ∧ ¬ good c x := by
  obtain ⟨im1, im2, him, _⟩ := h.firstCol
  obtain ⟨pre, post, hcol, _, hx⟩ := h.firstCell
  refine ⟨by rw [him]; simp, ?_, hx⟩
  apply column_part_subset rows d a c
  rw [hcol]; simp

/-- **the extended driver invariant**: `DI`, and no selected cell of the `e - 1` records consumed so far is rejected by its
    importer -/
structure DIC (F : Nat → List Bytes → Imp) (good : Nat → Bytes → Prop) (file : Bytes) (w ncols : Nat) (im : List Nat)
    (hrow : List Cell) (rows : List (List Cell)) (s : DS) (q e maxrow : Nat) : Prop where
  di : DI F file w ncols im hrow rows s q e maxrow
  clean : ∀ c ∈ im, ∀ cell ∈ doneCols rows (e - 1) c, good c cell

/-- **one iteration from the extended invariant**: either the block the kernel staged holds acceptable cells only — then the
    iteration succeeds, keeps the extended invariant and decreases the measure — or it holds a rejected cell, and the
    iteration raises what the importer raises on the first rejected cell (`index_map` order, then row order) of that block. -/
theorem driver_step_r {file : Bytes} {crs ncols : Nat} {im : List Nat} {hrow : List Cell} {rows : List (List Cell)}
    (st : SettingR file crs ncols im hrow rows) {F : Nat → List Bytes → Imp} {good : Nat → Bytes → Prop}
    {errOf : Nat → Bytes → Err → Prop} (hhom : ImpHom ncols F good) (hrej : ImpRej ncols F good errOf)
    {s : DS} {q e maxrow : Nat}
    (hinv : DIC F good file (crs * Gen.Csv.CHUNK_ROW_FACTOR * ncols) ncols im hrow rows s q e maxrow)
    (hlt : bnd hrow rows q < file.length) :
    (∃ s' q' e' maxrow', driverStep file (crs * Gen.Csv.CHUNK_ROW_FACTOR * ncols) ncols im s = .ok s' ∧
      DIC F good file (crs * Gen.Csv.CHUNK_ROW_FACTOR * ncols) ncols im hrow rows s' q' e' maxrow' ∧
      mu rows ncols s'.offs q' maxrow' < mu rows ncols s.offs q maxrow) ∨
    (∃ d a c x err, Reported rows im good d a c x ∧ errOf c x err ∧
      driverStep file (crs * Gen.Csv.CHUNK_ROW_FACTOR * ncols) ncols im s = .error err) := by
  obtain ⟨o, a, hle, hsh, hcols, hcaps, hlenE, herr, hok⟩ := driver_step_split st hinv.di hlt
  by_cases hblock : ∀ c ∈ im, ∀ cell ∈ column (values ((rows.drop (e - 1)).take a)) c, good c cell
  · -- the block is clean
    left
    have himp : importAll o.inds o.vals s.offs a im s.imps =
        .ok (im.map (fun c => F c (doneCols rows (nextE e a - 1) c))) := by
      rw [hinv.di.imps, importAll_hom hhom (D := doneCols rows (e - 1)) hsh hcols hcaps hlenE im st.imOk hinv.clean hblock]
      congr 1
      apply List.map_congr_left
      intro c _
      rw [doneCols_add, nextE_pred]
    obtain ⟨s', q', maxrow', h1, h2, h3⟩ := hok himp
    refine ⟨s', q', nextE e a, maxrow', h1, ⟨h2, ?_⟩, h3⟩
    intro c hc cell hcell
    rw [nextE_pred, ← doneCols_add] at hcell
    rcases List.mem_append.mp hcell with h | h
    · exact hinv.clean c hc cell h
    · exact hblock c hc cell h
  · -- the block holds a rejected cell
    right
    obtain ⟨im1, c, im2, him, him1, hc⟩ := exists_first_bad _ im (fun h => hblock (fun c hc => h c hc))
    obtain ⟨pre, x, post, hcol, hpre, hx⟩ := exists_first_bad _ _ hc
    have himOk : ∀ c' ∈ im1 ++ c :: im2, c' < ncols := by rw [← him]; exact st.imOk
    have hclean : ∀ c' ∈ im1 ++ c :: im2, ∀ cell ∈ doneCols rows (e - 1) c', good c' cell := by
      rw [← him]; exact hinv.clean
    obtain ⟨err, herrOf, himp⟩ := importAll_rej hhom hrej (D := doneCols rows (e - 1)) hsh hcols hcaps hlenE c im2 pre x post
      hcol hpre hx im1 himOk hclean him1
    refine ⟨e - 1, a, c, x, err, ⟨hle, hinv.clean, ⟨im1, im2, him, him1⟩, ⟨pre, post, hcol, hpre, hx⟩⟩, herrOf, ?_⟩
    apply herr
    rw [hinv.di.imps, him]
    exact himp

/-- **the driver loop from the extended invariant, when some selected cell of the file is rejected**: the loop raises, in the
    first kernel call whose block holds a rejected cell, the error of the first rejected cell of that block -/
theorem loop_r {file : Bytes} {crs ncols : Nat} {im : List Nat} {hrow : List Cell} {rows : List (List Cell)}
    (st : SettingR file crs ncols im hrow rows) (hfile : file ≠ []) {F : Nat → List Bytes → Imp} {good : Nat → Bytes → Prop}
    {errOf : Nat → Bytes → Err → Prop} (hhom : ImpHom ncols F good) (hrej : ImpRej ncols F good errOf)
    (hbad : ¬ ∀ c ∈ im, ∀ cell ∈ column (values rows) c, good c cell) :
    ∀ (n : Nat) (s : DS) (q e maxrow : Nat),
      DIC F good file (crs * Gen.Csv.CHUNK_ROW_FACTOR * ncols) ncols im hrow rows s q e maxrow →
      mu rows ncols s.offs q maxrow ≤ n →
      ∀ fuel, n + 1 ≤ fuel →
        ∃ d a c x err, Reported rows im good d a c x ∧ errOf c x err ∧
          whileE (dguard file) (driverStep file (crs * Gen.Csv.CHUNK_ROW_FACTOR * ncols) ncols im) fuel s = .error err := by
  have hend : ∀ (s : DS) (q e maxrow : Nat),
      DIC F good file (crs * Gen.Csv.CHUNK_ROW_FACTOR * ncols) ncols im hrow rows s q e maxrow →
      ¬ bnd hrow rows q < file.length → False := by
    intro s q e maxrow hinv hlt
    have hfresh : e = q := by
      rcases hinv.di.win with ⟨_, _, h⟩ | ⟨_, _, _, _, h⟩
      · exact h
      · exact absurd h hlt
    have hall := all_consumed st hfile hinv.di.el (by rw [hfresh]; exact hlt)
    apply hbad
    intro c hc cell hcell
    apply hinv.clean c hc cell
    rw [hall]
    simpa [doneCols] using hcell
  intro n
  induction n with
  | zero =>
    intro s q e maxrow hinv hmu fuel hfuel
    obtain ⟨f, rfl⟩ : ∃ f, fuel = f + 1 := ⟨fuel - 1, by omega⟩
    by_cases hlt : bnd hrow rows q < file.length
    · have hg : dguard file s = true := by simp [dguard, hinv.di.ci, hlt, hinv.di.stop]
      rcases driver_step_r st hhom hrej hinv hlt with ⟨s', q', e', maxrow', _, _, hdec⟩ | ⟨d, a, c, x, err, hrep, herrOf, hstep⟩
      · omega
      · exact ⟨d, a, c, x, err, hrep, herrOf, by simp only [whileE, hg, if_true, hstep]⟩
    · exact (hend s q e maxrow hinv hlt).elim
  | succ n ih =>
    intro s q e maxrow hinv hmu fuel hfuel
    obtain ⟨f, rfl⟩ : ∃ f, fuel = f + 1 := ⟨fuel - 1, by omega⟩
    by_cases hlt : bnd hrow rows q < file.length
    · have hg : dguard file s = true := by simp [dguard, hinv.di.ci, hlt, hinv.di.stop]
      rcases driver_step_r st hhom hrej hinv hlt with
        ⟨s', q', e', maxrow', hstep, hinv', hdec⟩ | ⟨d, a, c, x, err, hrep, herrOf, hstep⟩
      · obtain ⟨d, a, c, x, err, hrep, herrOf, hloop⟩ := ih s' q' e' maxrow' hinv' (by omega) f (by omega)
        refine ⟨d, a, c, x, err, hrep, herrOf, ?_⟩
        simp only [whileE, hg, if_true, hstep]
        exact hloop
      · exact ⟨d, a, c, x, err, hrep, herrOf, by simp only [whileE, hg, if_true, hstep]⟩
    · exact (hend s q e maxrow hinv hlt).elim

/-- **the driver raises when a selected cell is rejected**: `F` a family of append homomorphisms on acceptable cells
    (`ImpHom`) that reject unacceptable ones (`ImpRej`), and at least one cell of an imported column is not acceptable. For
    every `chunk_row_size` of the supported regime, every starting budgets ≥ 1 and the same fuel as the successful import
    needs, `read_file_using_fast_csv_reader` returns an error: what the importer of column `c` raises on the cell `x`, the
    first rejected cell (`index_map` order, then row order) of the first kernel block that holds one. -/
theorem readFile_raise {file : Bytes} {crs ncols : Nat} {offs im : List Nat} {hrow : List Cell} {rows : List (List Cell)}
    (st : SettingR file crs ncols im hrow rows) (hfile : file ≠ []) {F : Nat → List Bytes → Imp} {good : Nat → Bytes → Prop}
    {errOf : Nat → Bytes → Err → Prop} (hhom : ImpHom ncols F good) (hrej : ImpRej ncols F good errOf)
    (hbad : ¬ ∀ c ∈ im, ∀ cell ∈ column (values rows) c, good c cell)
    (hlen : offs.length = ncols + 1) (h0 : offAt offs 0 = 0) (hbud : ∀ c, c < ncols → offAt offs c < offAt offs (c + 1))
    (fuel : Nat) (hfuel : rows.length + 2 + regrowthBound rows ncols offs (crs * Gen.Csv.CHUNK_ROW_FACTOR) ≤ fuel) :
    ∃ d a c x err, Reported rows im good d a c x ∧ errOf c x err ∧
      readFile file crs ncols offs im (im.map (fun c => F c [])) fuel = .error err := by
  have hsh := shape_zeros (maxrow := crs * Gen.Csv.CHUNK_ROW_FACTOR) hlen h0 (fun c hc => Nat.le_of_lt (hbud c hc))
  have hinv0 : DIC F good file (crs * Gen.Csv.CHUNK_ROW_FACTOR * ncols) ncols im hrow rows
      ({ ci := 0, hasHeader := true, rows := 0, inds := zeros2 ncols (crs * Gen.Csv.CHUNK_ROW_FACTOR + 1), vals := List.replicate (offs.getLastD 0) 0, offs := offs, indsFull := false, valsFull := false, content := [], start := 0, imps := im.map (fun c => F c []), calls := [], stop := false } : DS)
      0 0 (crs * Gen.Csv.CHUNK_ROW_FACTOR) := {
    di := {
      qe := Nat.le_refl _
      el := Nat.zero_le _
      ci := rfl
      hh := rfl
      rows_ := rfl
      stop := rfl
      bud := hbud
      maxpos := Nat.mul_pos st.crsPos (by decide)
      shape := hsh
      zero := fun c hc => zeros_first c hc
      imps := by
        apply List.map_congr_left
        intro c _
        simp [doneCols, values, column]
      win := Or.inl ⟨rfl, rfl, rfl⟩
      inwin := Nat.le_add_right _ _ }
    clean := by
      intro c _ cell hcell
      simp [doneCols, values, column] at hcell }
  obtain ⟨d, a, c, x, err, hrep, herrOf, hloop⟩ :=
    loop_r st hfile hhom hrej hbad (rows.length + 1 + regrowthBound rows ncols offs (crs * Gen.Csv.CHUNK_ROW_FACTOR)) _ 0 0
      (crs * Gen.Csv.CHUNK_ROW_FACTOR) hinv0 (by rw [mu_eq]; exact Nat.le_refl _) fuel (by omega)
  refine ⟨d, a, c, x, err, hrep, herrOf, ?_⟩
  unfold readFile
  dsimp only
  rw [hloop]

end Exetera.Csv
