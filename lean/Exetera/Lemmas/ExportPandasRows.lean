import Exetera.Lemmas.ExportPandas
/-! C18: the rows of the frame `to_pandas` returns are the rows `to_csv` writes (columns filtered one by one = rows filtered). -/
namespace Exetera.Export
open Exetera.Spec.Export

theorem nRows_of_all_len {α} (n : Nat) : ∀ (cols : List (List α)), cols ≠ [] → (∀ c ∈ cols, c.length = n) → nRows cols = n := by
  intro cols
  induction cols with
  | nil => intro h; exact absurd rfl h
  | cons c cs ih =>
    intro _ h
    cases cs with
    | nil => simpa [nRows] using h c (by simp)
    | cons d ds =>
      have h1 := ih (by simp) (fun x hx => h x (by simp [hx]))
      have h2 := h c (by simp)
      simp only [nRows] at h1 ⊢
      rw [h1, h2, Nat.min_self]

/-- entry `k` of a `filterMap` none of whose elements is dropped -/
theorem getElem?_filterMap_of_isSome {α β} (g : α → Option β) : ∀ (l : List α), (∀ x ∈ l, (g x).isSome) → ∀ k : Nat,
    (l.filterMap g)[k]? = l[k]?.bind g := by
  intro l
  induction l with
  | nil => intro _ k; simp
  | cons x xs ih =>
    intro h k
    obtain ⟨y, hy⟩ := Option.isSome_iff_exists.mp (h x (by simp))
    rw [List.filterMap_cons_some hy]
    cases k with
    | zero => simp [hy]
    | succ k => simpa using ih (fun z hz => h z (by simp [hz])) k

theorem filterMap_congr_mem {α β} (g h : α → Option β) : ∀ (l : List α), (∀ x ∈ l, g x = h x) → l.filterMap g = l.filterMap h := by
  intro l
  induction l with
  | nil => intro _; rfl
  | cons x xs ih =>
    intro hh
    simp only [List.filterMap_cons, hh x (by simp), ih (fun z hz => hh z (by simp [hz]))]

theorem length_filterMap_of_isSome {α β} (g : α → Option β) : ∀ (l : List α), (∀ x ∈ l, (g x).isSome) →
    (l.filterMap g).length = l.length := by
  intro l
  induction l with
  | nil => intro _; rfl
  | cons x xs ih =>
    intro h
    obtain ⟨y, hy⟩ := Option.isSome_iff_exists.mp (h x (by simp))
    rw [List.filterMap_cons_some hy, List.length_cons, List.length_cons, ih (fun z hz => h z (by simp [hz]))]

/-- the row numbers an export keeps out of `n` rows -/
def keptRows (flt : Option (List Bool)) (n : Nat) : List Nat := (List.range n).filter (keep flt)

theorem keptRows_lt {flt : Option (List Bool)} {n i : Nat} (h : i ∈ keptRows flt n) : i < n := by
  simp only [keptRows, List.mem_filter, List.mem_range] at h
  exact h.1

theorem filterCol_length {α} (c : List α) (flt : Option (List Bool)) : (filterCol c flt).length = (keptRows flt c.length).length := by
  apply length_filterMap_of_isSome
  intro i hi
  have : i < c.length := keptRows_lt hi
  simp [this]

theorem filterCol_getElem? {α} (c : List α) (flt : Option (List Bool)) (k : Nat) :
    (filterCol c flt)[k]? = (keptRows flt c.length)[k]?.bind (fun i => c[i]?) := by
  apply getElem?_filterMap_of_isSome
  intro i hi
  have : i < c.length := keptRows_lt hi
  simp [this]

theorem keep_none_filter (n : Nat) : (List.range n).filter (keep (Option.none : Option (List Bool))) = List.range n :=
  List.filter_eq_self.mpr (fun _ _ => rfl)

/-- **columns filtered one by one = rows filtered**: for columns of one length, all rows of the table of the filtered columns
    are exactly the rows of the table the filter keeps -/
theorem exportRows_filterCol {α} (cs : List (List α)) (flt : Option (List Bool)) (N : Nat) (hne : cs ≠ [])
    (hlen : ∀ c ∈ cs, c.length = N) :
    exportRows (cs.map (fun c => filterCol c flt)) Option.none = exportRows cs flt := by
  have hn : nRows cs = N := nRows_of_all_len N cs hne hlen
  have hn' : nRows (cs.map (fun c => filterCol c flt)) = (keptRows flt N).length := by
    apply nRows_of_all_len
    · simpa using hne
    · intro c hc
      obtain ⟨c0, hc0, rfl⟩ := List.mem_map.mp hc
      rw [filterCol_length, hlen c0 hc0]
  simp only [exportRows, hn, hn', keep_none_filter]
  show _ = (keptRows flt N).map (rowAt cs)
  apply List.ext_getElem
  · simp
  · intro k h1 h2
    simp only [List.length_map, List.length_range] at h1
    simp only [List.getElem_map, List.getElem_range, rowAt, List.filterMap_map]
    apply filterMap_congr_mem
    intro c hc
    simp only [Function.comp, filterCol_getElem?, hlen c hc, List.getElem?_eq_getElem h1, Option.bind_some]

example := exportRows_filterCol [[1, 2, 3], [4, 5, 6]] (some [false, true, true, true]) 3 (by decide) (by decide)

example : exportRows ([[1, 2, 3], [4, 5, 6]].map (fun c => filterCol c (some [false, true, true, true]))) Option.none
    = [[2, 5], [3, 6]] := by decide

theorem firstOccurrences_nodup {α} [BEq α] [LawfulBEq α] : ∀ (ns acc : List α), ns.Nodup → (∀ n ∈ ns, n ∉ acc) →
    firstOccurrences acc ns = acc ++ ns := by
  intro ns
  induction ns with
  | nil => intro acc _ _; simp [firstOccurrences]
  | cons n ns ih =>
    intro acc hnd hdis
    have hn : acc.contains n = false := by simpa using hdis n (by simp)
    simp only [firstOccurrences, hn, Bool.false_eq_true, if_false]
    rw [ih (acc ++ [n]) (List.nodup_cons.mp hnd).2]
    · simp
    · intro m hm
      simp only [List.mem_append, List.mem_singleton, not_or]
      refine ⟨hdis m (by simp [hm]), ?_⟩
      rintro rfl
      exact (List.nodup_cons.mp hnd).1 hm

/-- the `k`-th field `getAll` returns is `self._columns[names[k]]` -/
theorem getAll_get? (f : Frame) : ∀ (names : List Cell) (fields : List Column), f.getAll names = .ok fields →
    names.map f.get? = fields.map some := by
  intro names
  induction names with
  | nil => intro fields h; simp only [Frame.getAll] at h; cases h; rfl
  | cons n ns ih =>
    intro fields h
    simp only [Frame.getAll, Frame.getE] at h
    cases hg : f.get? n with
    | none => simp [hg] at h
    | some c =>
      cases hr : f.getAll ns with
      | error e => simp [hg, hr] at h
      | ok cs =>
        simp only [hg, hr] at h
        cases h
        simp [hg, ih cs hr]

/-- the columns `to_pandas` collected under distinct names are the filtered fields `to_csv` reads, in the same order -/
theorem goodCols_eq (f : Frame) (flt : Option (List Bool)) : ∀ (names : List Cell) (cols : List (Cell × List Cell))
    (fields : List Column), cols.map (·.1) = names → names.map f.get? = fields.map some →
    (∀ p ∈ cols, GoodCol f flt p) → cols.map (·.2) = fields.map (fun c => filterCol c.data flt) := by
  intro names
  induction names with
  | nil =>
    intro cols fields h1 h2 _
    have hf : fields = [] := by simpa using h2.symm
    have : cols = [] := by simpa using h1
    simp [this, hf]
  | cons n ns ih =>
    intro cols fields h1 h2 h3
    cases fields with
    | nil => simp at h2
    | cons c0 fs =>
      simp only [List.map_cons, List.cons.injEq] at h2
      obtain ⟨hg, hrest⟩ := h2
      cases cols with
      | nil => simp at h1
      | cons p ps =>
        simp only [List.map_cons, List.cons.injEq] at h1
        obtain ⟨c, hc, _, _, hp⟩ := h3 p (by simp)
        rw [h1.1, hg] at hc
        cases hc
        simp only [List.map_cons, hp]
        rw [ih ps _ h1.2 hrest (fun q hq => h3 q (by simp [hq]))]

end Exetera.Export
