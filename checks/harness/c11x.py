"""C11 (mode-differential base) — a systematic TWO-MODE sweep of the public operations of ExeTera with the inputs on which
numba-compiled code and the interpreted fallback (USE_NUMBA=false) can plausibly part ways, and which the Int-valued Lean
models cannot carry: every numeric dtype (bool, the unsigned ones) at its bounds; float32 / float64 with NaN (first / middle /
last row of a group), +-inf, -0.0 vs 0.0, subnormals, the largest finite value; fixed strings with trailing blanks, NUL bytes and
high bytes; indexed strings that are empty, multi-byte UTF-8 or share prefixes; empty and single-row columns; index / filter /
span arrays of every integer dtype at their largest value; Python scalars vs numpy scalars vs 0-d arrays; Field vs ndarray vs
list arguments where the API accepts them.

There is no Lean model for these cases (`to_model` sends a constant-time no-op, `compare` accepts it). The verdict is the
equality of the two execution modes' canonical outputs, taken by checks/run.py (`MODE_DIFF_IS_VIOLATION` of c11): values
(floats by `repr`, so NaN, -0.0, inf and subnormals are told apart; fixed strings as their full-width raw bytes), dtypes, lengths,
the class of the returned object and the error class. Used only as an entry of c11.BASES.

Families (`op`): x_spans, x_apply (span reductions incl. the _filter and _indexed forms), x_concat, x_filter, x_index, x_sort,
x_map, x_merge, x_smerge (Session merge helpers, get_index, join), x_groupby, x_aggregate, x_isin, x_unique, x_journal, x_import,
x_export, x_arith, x_date, x_ops (module-level kernels nothing else calls). A generated case is a BATCH (`op` = x_batch) of
sub-cases that call the same kernels at the same numba signatures, so that one worker process compiles each signature instead
of every worker; corpus cases (corpus/C11) are single. `mode_diff_ok` / `match_finding` look into the batch: a batch is a known
finding only if EVERY differing sub-case matches the same open finding (`match_one`), any other difference is reported.
`python -m checks.harness.c11x <replay.json>` re-runs a reported case in both modes and prints the differing sub-cases.

NOT generated, because the two modes are allowed to differ or the call is not a valid one:
  * an out-of-range subscript inside a compiled kernel - undefined behaviour when compiled, IndexError when interpreted: spans
    that decrease or end beyond the column, an index beyond the column handed to an `ops.*` kernel that does not check it, a
    caller-supplied destination that is too short, `ordered_get_last_as_filter` of an empty array (`result[-1]`);
  * arguments of a type the function does not document and numba cannot type (numba raises TypingError / TypeError at the
    call, the interpreted numpy code duck-types the value or raises another class): a str where bytes are stored
    (`empty_value='zz'` for a fixed-string array; bytes / uint8 arrays ARE generated), a numpy.bytes_ scalar as `empty_value`
    (numba cannot unbox it, whatever the kernel; Python bytes ARE generated). Both were observed on the unchanged tree and are
    named in the builder's report; no public caller passes `empty_value`;
  * `chunk_row_size=1` for the CSV import (a header-only file then raises ValueError in BOTH modes - not a mode matter).
"""
import os

PROPERTY = "C11"
LEVEL = "other"
SINT = ["int8", "int16", "int32", "int64"]
UINT = ["uint8", "uint16", "uint32", "uint64"]
INT_DTYPES = SINT + UINT
FLOAT_DTYPES = ["float32", "float64"]
NUM_DTYPES = ["bool"] + INT_DTYPES + FLOAT_DTYPES
FIELD_DTYPES = ["bool", "int8", "uint8", "int16", "uint16", "int32", "uint32", "int64", "float32", "float64"]   # utils.PERMITTED_NUMERIC_TYPES
SPECIAL = ["nan", "inf", "-inf", "-0.0", "0.0"]
F_EXTREME = {"float32": ["1e-45", "-1e-45", "3.4028234663852886e+38", "-3.4028234663852886e+38", "1.1754943508222875e-38"],
             "float64": ["5e-324", "-5e-324", "1.7976931348623157e+308", "-1.7976931348623157e+308", "2.2250738585072014e-308"]}
SRC_FNS = ["first", "last", "min", "max"]
IDX_FNS = ["index_of_min", "index_of_max"]
NOSRC_FNS = ["index_of_first", "index_of_last", "count"]
STRS = ["", "a", "ab", "b", "é", "zz", "a b", "日本", "x" * 9, "abc", "abd", "ab ", " ab", "A", "é́", "\x00", "a\x00"]
FIXED_BYTES = ["", "a", "ab", "ab ", "ab  ", " ab", "a\x00b", "ab\x00", "\x00", "\xff", "\xe9a", "zz", "a b", "\x7f", "\x80", "abcd", "abc"]


# ------------------------------------------------------------------------------------------------------------------
# generators: columns
# ------------------------------------------------------------------------------------------------------------------
def bounds(dt):
    if dt == "bool":
        return (0, 1)
    bits = int(dt.lstrip("uint"))
    return (0, 2 ** bits - 1) if dt.startswith("u") else (-2 ** (bits - 1), 2 ** (bits - 1) - 1)


def dclass(dt):
    """dtype class of a tag: bool / int / uint / float32 / float64 / fixed / indexed / categorical / timestamp"""
    if dt is None:
        return "none"
    if dt in ("bool", "float32", "float64", "indexed", "fixed", "categorical", "timestamp"):
        return dt
    if dt.startswith("S"):
        return "fixed"
    return "uint" if dt.startswith("u") else "int"


def rand_spans(rng, n, empty=False):
    cuts = sorted(rng.sample(range(1, n), rng.randrange(0, min(n - 1, 6) + 1))) if n > 1 else []
    sp = [0] + cuts + [n]
    if empty and len(sp) > 1:
        k = rng.randrange(0, len(sp))
        sp = sp[:k] + [sp[k]] + sp[k:]          # one empty span (a repeated boundary)
    return sp


def float_vals(rng, n, dt="float64", p_special=0.3):
    out = []
    for _ in range(n):
        r = rng.random()
        if r < p_special:
            out.append(rng.choice(SPECIAL))
        elif r < p_special + 0.08:
            out.append(rng.choice(F_EXTREME[dt]))
        else:
            out.append(repr(float(rng.choice([-3, -1, 0, 1, 2, 5, 7])) + rng.choice([0.0, 0.5, 0.25])))
    return out


def int_vals(rng, n, dt):
    lo, hi = bounds(dt)
    if dt == "bool":
        return [rng.randrange(0, 2) for _ in range(n)]
    return [rng.choice([lo, hi, lo + 1, hi - 1, 0, 1, rng.randrange(max(lo, -50), min(hi, 50) + 1)]) for _ in range(n)]


def num_col(rng, n, dt, p_special=0.3):
    return {"k": "num", "dt": dt, "v": float_vals(rng, n, dt, p_special) if dt in FLOAT_DTYPES else int_vals(rng, n, dt)}


def fixed_col(rng, n, width=None):
    width = width or rng.choice([1, 2, 4])
    pool = [x for x in FIXED_BYTES if len(x) <= width] + ["9" * width]
    return {"k": "fixed", "dt": "S%d" % width, "v": [rng.choice(pool) for _ in range(n)]}


def idx_col(rng, n):
    return {"k": "indexed", "dt": "indexed", "v": [rng.choice(STRS) for _ in range(n)]}


def cat_col(rng, n, dt=None):
    dt = dt or rng.choice(["int8", "int16", "int32"])
    lo, hi = bounds(dt)
    keys = {"lo": lo, "zero": 0, "one": 1, "hi": hi, "é": 2}
    return {"k": "categorical", "dt": dt, "keys": keys, "v": [rng.choice(list(keys.values())) for _ in range(n)]}


def ts_col(rng, n, p_special=0.2):
    pool = ["0.0", "-1.0", "1.5", "1600000000.0", "1600000000.5", "-86400.0", "4102444800.0", "253402300799.0"]
    return {"k": "timestamp", "dt": "float64", "v": [rng.choice(SPECIAL) if rng.random() < p_special else rng.choice(pool)
                                                     for _ in range(n)]}


def any_col(rng, n, kinds=("num", "fixed", "indexed", "categorical", "timestamp"), dts=FIELD_DTYPES):
    k = rng.choice(list(kinds))
    if k == "num":
        return num_col(rng, n, rng.choice(list(dts)))
    return {"fixed": fixed_col, "indexed": idx_col, "categorical": cat_col, "timestamp": ts_col}[k](rng, n)


def grouped_float(rng, dt, where):
    """a float column of three groups (spans [0,3,4,7]) with a NaN as the first / middle / last row of a group"""
    base = ["2.5", "1.0", "3.0", "7.0", "-1.0", "4.0", "0.5"]
    pos = {"first": [0, 4], "middle": [1, 5], "last": [2, 6]}[where]
    for p in pos[:rng.randrange(1, 3)]:
        base[p] = "nan"
    return {"k": "num", "dt": dt, "v": base}, [0, 3, 4, 7]


def col_len(col):
    return len(col["v"])


def sorted_col(col):
    """the column with its rows in ascending order of the library's own comparison (NaN-free columns only)"""
    c = dict(col)
    if col["k"] in ("num", "timestamp", "categorical") and col["dt"] in FLOAT_DTYPES:
        c["v"] = sorted(col["v"], key=float)
    elif col["k"] == "fixed":
        c["v"] = sorted(col["v"], key=lambda x: x.rstrip("\x00").encode("latin-1"))
    elif col["k"] == "indexed":
        c["v"] = sorted(col["v"], key=lambda x: x.encode("utf-8"))
    else:
        c["v"] = sorted(col["v"])
    return c


def has_special(col):
    return col["dt"] in FLOAT_DTYPES and any(x in ("nan", "inf", "-inf", "-0.0") or x in F_EXTREME["float32"] + F_EXTREME["float64"]
                                             for x in col["v"])


def at_bounds(col):
    if col["k"] in ("fixed", "indexed"):
        return any(("\x00" in x or x != x.strip() or any(ord(ch) > 127 for ch in x) or x == "") for x in col["v"])
    if col["dt"] in FLOAT_DTYPES:
        return has_special(col)
    lo, hi = bounds(col["dt"])
    return any(x in (lo, hi) for x in col["v"])


# ------------------------------------------------------------------------------------------------------------------
# generators: families
# ------------------------------------------------------------------------------------------------------------------
def pick(rng, seq, k):
    seq = list(seq)
    return seq if len(seq) <= k else rng.sample(seq, k)


def gen_spans(tier, rng, n):
    out = []
    for _ in range(n):
        m = rng.choice([0, 1, 2, rng.randrange(3, 12)])
        entry = rng.choice(["field", "h5field", "array", "two", "three", "two_fields", "multi", "dest"])
        c = any_col(rng, m, dts=NUM_DTYPES if entry in ("array", "two", "three", "multi") else FIELD_DTYPES,
                    kinds=("num", "num", "num", "fixed", "indexed", "categorical", "timestamp") if entry in ("field", "h5field", "two_fields", "dest")
                    else ("num", "num", "fixed"))
        if c["k"] == "num" and c["dt"] in FLOAT_DTYPES:
            c = num_col(rng, m, c["dt"], 0.5)
        b = rng.choice([num_col(rng, m, rng.choice(NUM_DTYPES)), fixed_col(rng, m)])
        out.append({"op": "x_spans", "entry": entry, "a": c, "b": b, "c": num_col(rng, m, "int8")})
    return out


def gen_apply(tier, rng, n):
    out = []
    hand = [(["1.0", "nan", "3.0"], [0, 3]), (["nan", "1.0", "3.0"], [0, 3]), (["3.0", "nan", "5.0", "2.0", "nan"], [0, 2, 5]),
            (["-0.0", "0.0"], [0, 2]), (["0.0", "-0.0"], [0, 2]), (["inf", "nan", "-inf"], [0, 1, 3]), (["nan", "nan"], [0, 2])]
    for data, sp in hand:
        for fn in SRC_FNS + IDX_FNS:
            for dt in FLOAT_DTYPES:
                for level in ("ops", "session", "field"):
                    if tier == "quick" and rng.random() < 0.8:
                        continue
                    if level == "field" and fn in IDX_FNS:
                        level = "session_dest"
                    out.append({"op": "x_apply", "fn": fn, "level": level, "col": {"k": "num", "dt": dt, "v": data}, "spans": sp,
                                "sdtype": "int32"})
    for where in ("first", "middle", "last"):
        for dt in FLOAT_DTYPES:
            for fn in pick(rng, SRC_FNS + IDX_FNS, 2 if tier == "quick" else 6):
                col, sp = grouped_float(rng, dt, where)
                out.append({"op": "x_apply", "fn": fn, "level": rng.choice(["ops", "session", "field", "h5field"] if fn in SRC_FNS else ["ops", "session"]),
                            "col": col, "spans": sp, "sdtype": rng.choice(["int32", "int64"]), "_nan_at": where})
    for _ in range(n):
        m = rng.choice([0, 1, 1, 2, 3, rng.randrange(4, 12), rng.randrange(4, 12), rng.randrange(12, 40)])
        level = rng.choice(["ops", "ops_dest", "session", "session_dest", "field", "h5field", "field_target", "field_inplace", "filter_form"])
        fn = rng.choice(SRC_FNS + IDX_FNS + NOSRC_FNS)
        if level in ("field", "h5field", "field_target", "field_inplace"):
            fn = rng.choice(SRC_FNS)
            col = any_col(rng, m, kinds=("num", "num", "num", "fixed", "indexed", "categorical", "timestamp"))
        elif level == "filter_form":
            fn = rng.choice(["index_of_min", "index_of_max", "index_of_first", "index_of_last"])
            col = num_col(rng, m, rng.choice(NUM_DTYPES))
        else:
            col = rng.choice([num_col(rng, m, rng.choice(NUM_DTYPES)), num_col(rng, m, rng.choice(FLOAT_DTYPES)), fixed_col(rng, m)])
            if col["k"] == "fixed" and fn in IDX_FNS:
                fn = rng.choice(SRC_FNS)          # argmin / argmax of a bytes array exists in neither mode
        sdt = rng.choice(INT_DTYPES if rng.random() < 0.5 else ["int32", "int64"])
        sp = rand_spans(rng, m, empty=(level == "filter_form" and rng.random() < 0.6)) if m else [0]      # an empty column has no span
        if bounds(sdt)[1] < m:
            sdt = "int32"
        out.append({"op": "x_apply", "fn": fn, "level": level, "col": col, "spans": sp, "sdtype": sdt,
                    "sform": rng.choice(["ndarray", "ndarray", "field", "h5field"]) if level.startswith("field") or level == "h5field" else "ndarray",
                    "tform": rng.choice(["ndarray"] * 8 + ["field"] * 4 + ["h5field"] * 2 + ["list"]) if level.startswith("session") else "ndarray"})
    # spans of a narrow dtype whose LAST boundary is the dtype's largest value
    for sdt, top in (("int8", 127), ("uint8", 255)) + ((("int16", 32767), ("uint16", 65535)) if tier != "quick" else ()):
        for fn in pick(rng, SRC_FNS + IDX_FNS + NOSRC_FNS, 3 if tier == "quick" else 9):
            dt = rng.choice(NUM_DTYPES)
            col = num_col(rng, top, dt)
            cuts = sorted(rng.sample(range(1, top), 4))
            out.append({"op": "x_apply", "fn": fn, "level": rng.choice(["ops", "session", "field"]) if fn in SRC_FNS else rng.choice(["ops", "session"]),
                        "col": col, "spans": [0] + cuts + [top], "sdtype": sdt, "_top": True})
    return out


def gen_concat(tier, rng, n):
    out = []
    for _ in range(n):
        m = rng.randrange(0, 10)
        col = idx_col(rng, m)
        if rng.random() < 0.4:
            col["v"] = [rng.choice(["a,b", 'q"q', "", ",", '"', "x", "é,"]) for _ in range(m)]
        backing = rng.choice(["mem", "h5"])
        out.append({"op": "x_concat", "col": col, "spans": rand_spans(rng, m) if m else [0], "sdtype": rng.choice(INT_DTYPES),
                    "src_cs": rng.choice([None, 1, 2, 3] if backing == "h5" else [1, 2, 3, 64]),      # (a memory field has no chunk size)
                    "dest_cs": rng.choice([None, 1, 4, 16] if backing == "h5" else [1, 4, 16]), "mult": rng.choice([None, 2, 16]),
                    "backing": backing})
    return out


def gen_filter_index(tier, rng, n):
    out = []
    # narrow index dtypes at their largest value (the row after the index is read at position i + 1)
    tops = (("int8", 127), ("uint8", 255)) + ((("int16", 32767), ("uint16", 65535)) if tier != "quick" else ())
    for idt, top in tops:
        for kind in ("indexed", "num", "fixed"):
            for m in (top + 1, top + 45):
                hi = min(top, m - 1)
                idx = [hi, 0, hi - 1, 1, hi] + [rng.randrange(0, hi + 1) for _ in range(6)]
                out.append({"op": "x_index", "kind": kind, "n": m, "idtype": idt, "index": idx,
                            "entry": rng.choice(["field", "session", "frame", "frame_inplace", "h5field", "field_target"]), "_top": True})
    for _ in range(n):
        idt = rng.choice(INT_DTYPES)
        lo, hi = bounds(idt)
        m = rng.choice([1, 5, 130, 260])
        top = min(hi, m - 1)
        idx = [rng.choice([top, 0, top // 2, rng.randrange(0, top + 1)]) for _ in range(rng.randrange(0, 9))]
        if lo < 0 and rng.random() < 0.3:
            idx = [x - m if rng.random() < 0.5 and x - m >= lo else x for x in idx]       # negative subscripts, as numpy allows
        col = any_col(rng, min(m, 12)) if m <= 5 else None
        out.append({"op": "x_index", "kind": rng.choice(["indexed", "num", "fixed"]), "n": m, "col": col, "idtype": idt, "index": idx,
                    "iform": rng.choice(["ndarray"] * 12 + ["field"] * 5 + ["h5field"] * 3 + ["list"]),
                    "entry": rng.choice(["field", "session", "session_arr", "session_dest", "frame", "frame_inplace", "h5field", "field_target",
                                         "field_inplace"])})
        fdt = rng.choice(["bool", "bool", "bool", "int8", "uint8", "int16", "uint16", "int32", "uint32", "int64", "float32", "float64"] * 2 + ["uint64"])
        m = rng.choice([0, 1, 4, 9, 130])
        flo, fhi = bounds(fdt) if fdt not in FLOAT_DTYPES else (0, 2)
        flt = [rng.choice([0, 1, 1, fhi, flo]) for _ in range(m)]
        if fdt in FLOAT_DTYPES:
            flt = [rng.choice(["0.0", "1.0", "nan", "-0.0", "0.5", "inf"]) for _ in range(m)]
        col = any_col(rng, m) if m <= 9 else None
        out.append({"op": "x_filter", "kind": rng.choice(["indexed", "num", "fixed"]), "n": m, "col": col, "fdtype": fdt, "filter": flt,
                    "fform": rng.choice(["ndarray"] * 12 + ["field"] * 5 + ["h5field"] * 3 + ["list"]),
                    "entry": rng.choice(["field", "session", "session_arr", "session_dest", "frame", "frame_inplace", "h5field", "field_target",
                                         "field_inplace"])})
    return out


def gen_sort(tier, rng, n):
    out = []
    for _ in range(n):
        m = rng.choice([0, 1, 2, rng.randrange(3, 12)])
        keys = [any_col(rng, m, kinds=("num", "num", "num", "fixed", "categorical", "timestamp", "indexed")) for _ in range(rng.choice([1, 1, 2]))]
        for k in keys:
            if k["dt"] in FLOAT_DTYPES:
                k["v"] = [x if x != "nan" or rng.random() < 0.5 else "1.0" for x in k["v"]]
        out.append({"op": "x_sort", "entry": rng.choice(["sort_values", "sort_values_ddf", "sort_on", "sort_on_same", "sort_index", "sort_index_arr"]),
                    "keys": keys, "payload": [any_col(rng, m) for _ in range(rng.choice([0, 1, 2]))],
                    "index": rng.choice([None, "uint32", "int64", "uint8"])})
    return out


def key_col(rng, n, dup=True, kinds=("int", "uint", "float", "fixed", "bool")):
    """a NaN-free key column in ascending order (numeric at the dtype bounds, floats with -0.0 / 0.0 / +-inf, fixed strings)"""
    k = rng.choice(list(kinds))
    if k == "float":
        dt = rng.choice(FLOAT_DTYPES)
        pool = ["-inf", "-2.5", "-0.0", "0.0", "1.0", "1.5", "inf"] + F_EXTREME[dt]
        v = [rng.choice(pool) for _ in range(n)]
        col = {"k": "num", "dt": dt, "v": v}
    elif k == "fixed":
        col = fixed_col(rng, n, rng.choice([2, 4]))
        col["v"] = [x for x in col["v"]]
    elif k == "bool":
        col = {"k": "num", "dt": "bool", "v": [rng.randrange(0, 2) for _ in range(n)]}
    else:
        dt = rng.choice(SINT if k == "int" else ["uint8", "uint16", "uint32"])
        col = {"k": "num", "dt": dt, "v": int_vals(rng, n, dt)}
    col = sorted_col(col)
    if not dup:
        seen, v = set(), []
        for x in col["v"]:
            kx = float(x) if col["dt"] in FLOAT_DTYPES else (x.rstrip("\x00") if col["k"] == "fixed" else x)
            if kx not in seen:
                seen.add(kx)
                v.append(x)
        col["v"] = v
    return col


def same_kind_key(rng, col, n, dup=True):
    """a second sorted key column of the same field type / dtype as `col`, sharing about half of its values"""
    pool = list(col["v"]) or [0 if col["k"] == "num" and col["dt"] not in FLOAT_DTYPES else ("0.0" if col["k"] == "num" else "")]
    other = key_col(rng, n, True, kinds=("float",) if col["dt"] in FLOAT_DTYPES else ("fixed",) if col["k"] == "fixed" else
                    ("bool",) if col["dt"] == "bool" else ("int",))
    if col["k"] == "fixed":
        other = fixed_col(rng, n, int(col["dt"][1:]))
    elif col["dt"] in FLOAT_DTYPES:
        other = {"k": "num", "dt": col["dt"], "v": [rng.choice(["-inf", "-2.5", "-0.0", "0.0", "1.0", "inf"] + F_EXTREME[col["dt"]]) for _ in range(n)]}
    elif col["dt"] != "bool":
        other = {"k": "num", "dt": col["dt"], "v": int_vals(rng, n, col["dt"])}
    v = [rng.choice(pool) if rng.random() < 0.5 else x for x in other["v"]]
    out = sorted_col({**col, "v": v})
    if not dup:
        seen, w = set(), []
        for x in out["v"]:
            kx = float(x) if col["dt"] in FLOAT_DTYPES else (x.rstrip("\x00") if col["k"] == "fixed" else x)
            if kx not in seen:
                seen.add(kx)
                w.append(x)
        out["v"] = w
    return out


def is_unique(col):
    ks = [float(x) if col["dt"] in FLOAT_DTYPES else (x.rstrip("\x00") if col["k"] == "fixed" else x) for x in col["v"]]
    return len(set(ks)) == len(ks)


def gen_map(tier, rng, n):
    out = []
    for _ in range(n):
        m = rng.randrange(1, 10)
        src = any_col(rng, m, kinds=("num", "num", "num", "fixed", "indexed"), dts=NUM_DTYPES)
        inv = rng.choice([-1, 2 ** 31 - 1, 2 ** 62])
        valid = sorted(rng.randrange(0, m) for _ in range(rng.randrange(0, 9)))
        mp = []
        for v in valid:
            if rng.random() < 0.3:
                mp.append(inv)
            mp.append(v)
        if rng.random() < 0.5:
            mp.append(inv)
        ent = rng.choice(["safe", "map_valid", "stream"])
        if src["k"] == "indexed":
            ent = rng.choice(["safe_indexed", "stream_indexed"])
        if src["k"] == "num" and src["dt"] == "uint64" and ent == "stream":
            ent = "safe"
        out.append({"op": "x_map", "src": src, "map": mp, "inv": inv, "cs": rng.choice([1, 2, 3, 1 << 20]),
                    "mdtype": "int64" if inv > 2 ** 31 else rng.choice(["int32", "int64"]), "entry": ent,
                    "empty": rng.choice([None, None, "py", "np", "0d"]), "invform": rng.choice(["py", "py", "np", "0d"]),
                    "csform": rng.choice(["py", "py", "np", "0d"])})
    return out


def gen_merge(tier, rng, n):
    out = []
    for _ in range(n):
        nl, nr = rng.choice([0, 1, 2, 5, 9]), rng.choice([0, 1, 3, 6])
        lu, ru = rng.random() < 0.5, rng.random() < 0.5
        lk = key_col(rng, nl, dup=not lu)
        rk = same_kind_key(rng, lk, nr, dup=not ru)
        ordered = rng.random() < 0.7
        if not ordered:
            for c in (lk, rk):
                rng.shuffle(c["v"])
        hints = [ordered, is_unique(lk) and rng.random() < 0.8, ordered, is_unique(rk) and rng.random() < 0.8]
        if rng.random() < 0.25:
            hints = [None, None, None, None]
        out.append({"op": "x_merge", "lk": lk, "rk": rk, "left": [any_col(rng, len(lk["v"])) for _ in range(rng.choice([1, 2]))],
                    "right": [any_col(rng, len(rk["v"])) for _ in range(rng.choice([1, 2]))],
                    "how": rng.choice(["left", "right", "inner", "outer"] * 5 + ["cross"]), "hints": hints, "cs": rng.choice([1, 2, 3, 1 << 20]),
                    "keyform": rng.choice(["name"] * 9 + ["field"]), "subset": rng.random() < 0.3})     # (a Field as key raises TypeError today, in both modes)
    return out


def gen_smerge(tier, rng, n):
    out = []
    for _ in range(n):
        ent = rng.choice(["ordered_left", "ordered_right", "ordered_inner", "merge_left", "merge_right", "merge_inner", "get_index", "join"])
        nl, nr = rng.choice([1, 2, 5, 9]), rng.choice([1, 3, 6])
        lu = rng.random() < 0.5
        lk = key_col(rng, nl, dup=not lu, kinds=("int", "uint", "float", "fixed"))
        rk = same_kind_key(rng, lk, nr, dup=False)
        if ent == "ordered_inner":
            rk = same_kind_key(rng, lk, nr, dup=rng.random() < 0.5)
        if ent == "ordered_right":
            lk, rk = rk, lk
        out.append({"op": "x_smerge", "entry": ent, "lk": lk, "rk": rk, "lu": is_unique(lk) and rng.random() < 0.7, "ru": is_unique(rk) and (ent == "ordered_inner" and rng.random() < 0.7 or rng.random() < 0.97),
                    "left": [any_col(rng, len(lk["v"]), kinds=("num", "num", "fixed", "indexed", "timestamp"), dts=NUM_DTYPES)],
                    "right": [any_col(rng, len(rk["v"]), kinds=("num", "num", "fixed", "indexed", "timestamp"), dts=NUM_DTYPES)],
                    "form": rng.choice(["ndarray", "field", "field_sinks", "streamed", "array_sinks"])})
    return out


def gen_groupby(tier, rng, n):
    out = []
    for where in ("first", "middle", "last"):
        for dt in FLOAT_DTYPES:
            for agg in pick(rng, ["min", "max", "first", "last"], 1 if tier == "quick" else 4):
                col, sp = grouped_float(rng, dt, where)
                out.append({"op": "x_groupby", "agg": agg, "keys": [{"k": "num", "dt": "int32", "v": [0, 0, 0, 1, 2, 2, 2]}], "targets": [col],
                            "hint": rng.random() < 0.5, "entry": "groupby", "_nan_at": where})
    for _ in range(n):
        m = rng.choice([0, 1, 2, rng.randrange(3, 14)])
        keys = [any_col(rng, m, kinds=("num", "num", "num", "num", "fixed", "fixed", "categorical", "categorical", "indexed"), dts=FIELD_DTYPES)]
        if rng.random() < 0.3:
            keys.append(num_col(rng, m, rng.choice(["int8", "int32", "uint8", "bool"])))
        for k in keys:                                  # few distinct values, so that groups have several rows
            pool = list(dict.fromkeys(k["v"]))[:3] or k["v"]
            k["v"] = [rng.choice(pool) for _ in range(m)]
        is_sorted = rng.random() < 0.6
        if is_sorted and len(keys) == 1 and not any(x == "nan" for x in keys[0]["v"]):
            keys[0] = sorted_col(keys[0])
        else:
            is_sorted = False
        out.append({"op": "x_groupby", "agg": rng.choice(["min", "max", "first", "last", "count", "distinct", "drop_duplicates"]),
                    "keys": keys, "targets": [any_col(rng, m, kinds=("num", "num", "num", "fixed", "indexed", "categorical", "timestamp"))
                                              for _ in range(rng.choice([1, 2]))],
                    "hint": is_sorted and rng.random() < 0.5, "entry": "groupby", "write_keys": rng.random() < 0.8})
    return out


def gen_aggregate(tier, rng, n):
    out = []
    for where in ("first", "middle", "last"):
        for dt in FLOAT_DTYPES if tier != "quick" else [rng.choice(FLOAT_DTYPES)]:
            col, sp = grouped_float(rng, dt, where)
            out.append({"op": "x_aggregate", "fn": rng.choice(["min", "max"]), "index": {"k": "num", "dt": "int16", "v": [5, 5, 5, 6, 9, 9, 9]}, "iform": "ndarray",
                        "tform": rng.choice(["ndarray", "field"]), "target": col, "dest": rng.random() < 0.4, "_nan_at": where})
    for _ in range(n):
        m = rng.choice([1, 2, rng.randrange(3, 14)])
        idx = any_col(rng, m, kinds=("num", "num", "fixed", "indexed"), dts=NUM_DTYPES)
        pool = list(dict.fromkeys(idx["v"]))[:3]
        idx["v"] = [rng.choice(pool) for _ in range(m)]
        if rng.random() < 0.6 and not any(x == "nan" for x in idx["v"]):
            idx = sorted_col(idx)
        out.append({"op": "x_aggregate", "fn": rng.choice(["count", "first", "last", "min", "max"]), "index": idx,
                    "iform": rng.choice(["ndarray", "field"]), "tform": rng.choice(["ndarray", "field"]),
                    "target": any_col(rng, m, kinds=("num", "num", "num", "fixed"), dts=NUM_DTYPES), "dest": rng.random() < 0.4})
    return out


def gen_isin_unique(tier, rng, n):
    out = []
    for _ in range(n):
        m = rng.choice([0, 1, 2, rng.randrange(3, 12)])
        col = any_col(rng, m)
        pool = list(col["v"]) + (["nan", "0.0", "-0.0", "inf"] if col["dt"] in FLOAT_DTYPES else
                                 STRS[:6] if col["k"] == "indexed" else FIXED_BYTES[:6] if col["k"] == "fixed" else [0, 1, -1, 255, 2 ** 31])
        test = [rng.choice(pool) for _ in range(rng.randrange(0, 5))]
        out.append({"op": "x_isin", "col": col, "test": test, "tform": rng.choice(["list", "ndarray", "set", "tuple", "scalar", "npscalar", "0d"]),
                    "backing": rng.choice(["mem", "h5", "module"])})
        col = any_col(rng, m)
        if m and rng.random() < 0.7:
            pool = list(dict.fromkeys(col["v"]))[:4]
            col["v"] = [rng.choice(pool) for _ in range(m)]
        out.append({"op": "x_unique", "col": col, "flags": [rng.random() < 0.5 for _ in range(3)], "backing": rng.choice(["mem", "h5"])})
    return out


JOURNAL_POOL = {"float": ["nan", "1.0", "-0.0", "0.0", "inf"], "fixed": ["a", "a ", "a\x00b", "ab", "\xff", ""], "indexed": ["", "a", "ab", "é", "a "]}


def gen_journal(tier, rng, n):
    out = []
    # one journalled column of each kind, every record present on both sides: cell unchanged / changed (NaN on both sides is unchanged)
    hand = [("num", "int8", [127, -128, 0], [127, -128, 1]), ("num", "bool", [1, 0, 1], [1, 0, 0]), ("num", "uint32", [2 ** 32 - 1, 0, 5], [2 ** 32 - 1, 0, 5]),
            ("num", "float64", ["nan", "1.0", "-0.0"], ["nan", "1.0", "0.0"]), ("num", "float32", ["nan", "inf", "1.5"], ["1.0", "inf", "nan"]),
            ("fixed", "S3", ["a", "a ", "\xff"], ["a", "a ", "\xff"]), ("fixed", "S3", ["a", "a\x00b", ""], ["a", "a", "b"]),
            ("indexed", "indexed", ["", "é", "ab"], ["", "é", "ab"]), ("indexed", "indexed", ["a", "é", "ab"], ["a ", "e", "ab"])]
    for k, dt, o, nw in hand:
        out.append({"op": "x_journal", "kdtype": rng.choice(["int64", "int32", "S2"]), "old_ids": [1, 2, 3], "new_ids": [1, 2, 3], "old_vf": [1.0, 1.0, 1.0],
                    "jcols": [{"k": k, "dt": dt, "o": o, "n": nw}], "_hand": True})
    for _ in range(n):
        no, nn = rng.randrange(0, 6), rng.randrange(0, 6)
        kd = rng.choice(["int64", "int32", "S2", "uint8"])
        pool = list(range(0, 6)) if kd != "uint8" else [0, 1, 2, 254, 255]
        old_ids = [rng.choice(pool) for _ in range(no)]
        new_ids = rng.sample(pool, min(nn, len(pool)))
        cols = []
        for _c in range(rng.choice([1, 2])):
            kind = rng.choice(["num", "float", "fixed", "indexed"])
            if kind == "num":
                dt = rng.choice(["bool"] + INT_DTYPES[:7])
                vals = lambda m, dt=dt: [rng.choice([bounds(dt)[1], bounds(dt)[0], 0, 1]) for _ in range(m)]
                c = {"k": "num", "dt": dt}
            elif kind == "float":
                c = {"k": "num", "dt": rng.choice(FLOAT_DTYPES)}
                vals = lambda m: [rng.choice(JOURNAL_POOL["float"]) for _ in range(m)]
            elif kind == "fixed":
                c = {"k": "fixed", "dt": "S3"}
                vals = lambda m: [rng.choice(JOURNAL_POOL["fixed"]) for _ in range(m)]
            else:
                c = {"k": "indexed", "dt": "indexed"}
                vals = lambda m: [rng.choice(JOURNAL_POOL["indexed"]) for _ in range(m)]
            c["o"] = vals(no)
            fresh = vals(len(new_ids))
            # a snapshot row of a key the old table holds repeats one of that key's old cells with probability 0.65 (unchanged cell)
            c["n"] = [c["o"][rng.choice([j for j, x in enumerate(old_ids) if x == i])] if i in old_ids and rng.random() < 0.65 else fresh[t]
                      for t, i in enumerate(new_ids)]
            cols.append(c)
        vf = [float(rng.choice([1, 2, 3])) for _ in range(no)]
        out.append({"op": "x_journal", "kdtype": kd, "old_ids": old_ids, "new_ids": new_ids, "old_vf": vf, "jcols": cols})
    return out


CSV_NUM_TEXT = {"float": ["1.5", "nan", "NaN", "inf", "-inf", "-0.0", "0.0", "1e400", "-1e400", "1e-320", "5e-324", "3.5e38", "1e39", " 2.5 ", "",
                          "abc", "1e", "0x10", "1_0", "١٢", "1.0e+2", ".5", "5.", "+1.5", "infinity", "-nan", "1,5"],
                "int": ["0", "1", "-1", "", "abc", " 7 ", "+5", "1.0", "1e3", "0x1f", "1_000", "١٢", "007", "-0"]}


def gen_import(tier, rng, n):
    out = []
    out.append({"op": "x_import", "cols": [{"name": "f0", "kind": "fixed", "strlen": 4, "cells": ["é", "日本", "a", "\xff\xfe", ""]}], "crs": 16, "quote": False, "_hand": True})
    out.append({"op": "x_import", "cols": [{"name": "f0", "kind": "indexed", "cells": ["a", "b,c", "", "é"]}, {"name": "f1", "kind": "fixed", "strlen": 2, "cells": ["x", "", "yz", "é"]}],
                "crs": 16, "quote": True, "_hand": True})
    # quoted cells whose closing / doubled quote falls on the last byte of a read window (2 * chunk_row_size * columns bytes)
    for crs in (4, 6):
        for pad in range(0, 8) if tier != "quick" else range(crs // 4 - 1, 8, 2):
            out.append({"op": "x_import", "cols": [{"name": "f0", "kind": "indexed", "cells": ["p" * pad, "abc", 'q"r', "de", "", "x"]}], "crs": crs,
                        "quote": True, "_hand": True})
    for dt, big in (("float32", "1e39"), ("float64", "1e400")):
        out.append({"op": "x_import", "cols": [{"name": "f0", "kind": "float", "dtype": dt, "mode": rng.choice(["strict", "allow_empty", "relaxed"]), "invalid": 0,
                                                "cells": [big, "-" + big, "1.5", "nan", "5e-324"]}], "crs": rng.choice([4, 1 << 20]), "quote": False, "_hand": True})
    for _ in range(n):
        rows = rng.choice([0, 1, 2, rng.randrange(3, 9)])
        cols = []
        for ci in range(rng.choice([1, 2, 3])):
            kind = rng.choice(["int", "int", "float", "float", "bool", "fixed", "indexed", "categorical", "leaky", "datetime", "date"])
            c = {"name": "f%d" % ci, "kind": kind}
            if kind == "int":
                dt = rng.choice([d for d in FIELD_DTYPES if d not in FLOAT_DTYPES and d != "bool"])
                lo, hi = bounds(dt)
                pool = CSV_NUM_TEXT["int"] + [str(lo), str(hi), str(lo - 1), str(hi + 1), str(hi) + "0", str(2 ** 63), str(2 ** 64), str(-2 ** 63 - 1)]
                c.update(dtype=dt, mode=rng.choice(["strict", "allow_empty", "relaxed"]), invalid=rng.choice([0, -1 if lo < 0 else 1, hi]))
                good = rng.random() < 0.6
                c["cells"] = [rng.choice([str(lo), str(hi), "0", "1", str(hi - 1)] if good else pool) for _ in range(rows)]
            elif kind == "float":
                dt = rng.choice(FLOAT_DTYPES)
                c.update(dtype=dt, mode=rng.choice(["strict", "allow_empty", "relaxed"]), invalid=rng.choice([0, -1.5, "nan"]))
                good = rng.random() < 0.6
                c["cells"] = [rng.choice(CSV_NUM_TEXT["float"][:13] if good else CSV_NUM_TEXT["float"]) for _ in range(rows)]
            elif kind == "bool":
                c.update(mode=rng.choice(["strict", "allow_empty", "relaxed"]), invalid=rng.choice([0, 1]))
                c["cells"] = [rng.choice(["true", "false", "True", "FALSE", "1", "0", "t", "f", "y", "n", "yes", "no", "", "2", "x", " 1", "TRUE "])
                              for _ in range(rows)]
            elif kind == "fixed":
                c.update(strlen=rng.choice([1, 2, 4]))
                c["cells"] = [rng.choice(["", "a", "ab", "abcd", "abcde", "é", "ab ", " a", "日本", "x y"]) for _ in range(rows)]
            elif kind == "indexed":
                c["cells"] = [rng.choice(["", "a", "ab", "é", "日本", "a b", "x" * 9, " a "]) for _ in range(rows)]
            elif kind in ("categorical", "leaky"):
                vt = rng.choice(["int8", "int16", "int32"])
                c.update(vtype=vt, cats={"": 0, "a": 1, "b": bounds(vt)[1], "é": bounds(vt)[0], "ab": 2})
                c["cells"] = [rng.choice(["", "a", "b", "é", "ab"] + (["zz", "A", " a"] if kind == "leaky" or rng.random() < 0.1 else []))
                              for _ in range(rows)]
            else:
                c.update(day=rng.random() < 0.5, flag=rng.random() < 0.5)
                pool = ["", "2020-01-02", "1970-01-01", "9999-12-31", "0001-01-01", "2020-02-30"] if kind == "date" else \
                       ["", "2020-01-02 03:04:05", "1970-01-01 00:00:00", "2020-01-02 03:04:05.123456+01:00", "2020-01-02 03:04:05.1 UTC",
                        "9999-12-31 23:59:59", "0001-01-01 00:00:00", "1969-12-31 23:59:59.999999+00:00"]
                c["cells"] = [rng.choice(pool) for _ in range(rows)]
            cols.append(c)
        out.append({"op": "x_import", "cols": cols, "crs": rng.choice([4, 6, 9, 16, 1 << 20]), "quote": rng.random() < 0.3})
    return out


def gen_export(tier, rng, n):
    out = []
    for _ in range(n):
        m = rng.choice([0, 1, 2, rng.randrange(3, 9)])
        cols = [any_col(rng, m) for _ in range(rng.choice([1, 2, 3]))]
        out.append({"op": "x_export", "entry": rng.choice(["to_csv", "to_csv", "to_pandas"]), "cols": cols,
                    "crs": rng.choice([1, 2, 1 << 15]), "rfilter": rng.choice([None, None, "ndarray", "field", "own"]),
                    "filter": [rng.randrange(0, 2) for _ in range(m)], "cfilter": rng.choice([None, None, "c0"])})
    return out


ARITH_OPS = ["add", "sub", "mul", "truediv", "floordiv", "mod", "divmod", "and", "or", "xor", "lt", "le", "eq", "ne", "gt", "ge",
             "radd", "rsub", "rmul", "rtruediv", "rfloordiv", "rmod", "rdivmod", "rand", "ror", "rxor", "invert", "logical_not"]


def gen_arith(tier, rng, n):
    out = []
    fmax = {"float32": "3.4028234663852886e+38", "float64": "1.7976931348623157e+308"}
    hand = []
    for dt in FLOAT_DTYPES:
        big = {"k": "num", "dt": dt, "v": [fmax[dt], "-" + fmax[dt], "1.0", "nan"]}
        tiny = {"k": "num", "dt": dt, "v": [F_EXTREME[dt][0], F_EXTREME[dt][0], "0.0", "-0.0"]}
        hand += [("mul", big, big, "field"), ("add", big, big, "ndarray"), ("sub", big, {**big, "v": list(reversed(big["v"]))}, "field"),
                 ("truediv", big, tiny, "field"), ("mul", big, None, "pyfloat"), ("rtruediv", tiny, None, "pyfloat"),
                 ("floordiv", big, tiny, "ndarray"), ("mod", big, tiny, "field"), ("divmod", big, tiny, "field"), ("rsub", big, None, "pyfloat")]
    for dt in ["int8", "uint8", "int32", "uint32", "int64", "bool"]:
        lo, hi = bounds(dt)
        a = {"k": "num", "dt": dt, "v": [hi, lo, 1, 0]}
        z = {"k": "num", "dt": dt, "v": [0, 0, 0, 0]}
        hand += [("add", a, a, "field"), ("mul", a, a, "ndarray"), ("sub", z, a, "field"), ("rsub", a, None, "pyint"), ("truediv", a, z, "field"),
                 ("floordiv", a, z, "ndarray"), ("mod", a, z, "field"), ("divmod", a, z, "field"), ("invert", a, a, "field"), ("xor", a, a, "pybool")]
    for fn, a, b, of in (hand if tier != "quick" else pick(rng, hand, 24)):
        out.append({"op": "x_arith", "fn": fn, "a": a, "b": b or a, "oform": of, "scalar": "1e308" if of == "pyfloat" and a["dt"] == "float64" else
                    "1e39" if of == "pyfloat" else 1, "sdt": "int64", "backing": rng.choice(["mem", "h5"]), "_hand": True})
    for _ in range(n):
        m = rng.choice([0, 1, rng.randrange(2, 8)])
        k = rng.choice(["num", "num", "num", "num", "categorical", "timestamp"])
        dt = rng.choice(FIELD_DTYPES)
        a = num_col(rng, m, dt, 0.4) if k == "num" else cat_col(rng, m) if k == "categorical" else ts_col(rng, m)
        oform = rng.choice(["field", "field", "ndarray", "pyint", "pyfloat", "pybool", "npscalar", "0d", "list"])
        bdt = rng.choice(FIELD_DTYPES + ["uint64"])
        b = num_col(rng, m, bdt, 0.4)
        if rng.random() < 0.3:                # a zero divisor / the value whose negation overflows
            b["v"] = [rng.choice(["0.0", "-0.0"]) if bdt in FLOAT_DTYPES else 0 for _ in range(m)]
        sc = rng.choice([0, 1, -1, 2, 255, 256, 2 ** 31 - 1, 2 ** 31, 2 ** 63 - 1, -2 ** 63, 2 ** 64 - 1]) if oform in ("pyint", "npscalar", "0d") else \
            rng.choice(["0.0", "-0.0", "nan", "inf", "1e308", "1e39", "2.5", "5e-324"]) if oform == "pyfloat" else rng.choice([0, 1])
        fn = rng.choice(ARITH_OPS)
        bitwise = fn.lstrip("r") in ("and", "or", "xor", "invert") or fn == "or"
        if bitwise and rng.random() < 0.85:
            idts = [d for d in FIELD_DTYPES if d not in FLOAT_DTYPES]
            a = num_col(rng, m, rng.choice(idts))
            b = num_col(rng, m, rng.choice(idts + ["uint64"]))
            if oform == "pyfloat":
                oform = "pyint"
                sc = rng.choice([0, 1, -1, 255, 2 ** 31 - 1])
        if k != "num" and fn in ("invert", "logical_not", "and", "or", "xor", "rand", "ror", "rxor") and rng.random() < 0.8:
            fn = rng.choice(["add", "sub", "lt", "eq", "mul", "truediv", "floordiv"])
        out.append({"op": "x_arith", "fn": fn, "a": a, "b": b, "oform": oform, "scalar": sc, "sdt": rng.choice(NUM_DTYPES),
                    "backing": rng.choice(["mem", "mem", "h5"])})
    return out


def gen_date(tier, rng, n):
    out = []
    for _ in range(n):
        m = rng.choice([1, 2, rng.randrange(3, 9)])
        ts = ts_col(rng, m, rng.choice([0.0, 0.0, 0.2]))
        out.append({"op": "x_date", "fn": rng.choice(["get_days", "get_days", "periods", "offsets"]), "ts": ts,
                    "filter": rng.choice([None, "bool", "int8"]), "fv": [rng.randrange(0, 2) for _ in range(m)],
                    "start": rng.choice([None, "0.0", "1600000000.0", "nan", "-inf"]), "end": rng.choice([None, "1600000000.5", "inf", "nan"]),
                    "sform": rng.choice(["py", "np", "0d"]),
                    "period": rng.choice(["day", "days", "week", "weeks"]), "delta": rng.choice([1, 2, 7, 1, 3, -1, -3]),
                    "d0": rng.choice([0, 1, 18262, 2932890]), "span": rng.choice([1, 6, 7, 30, 30, 60]),
                    "days": [rng.randrange(0, 30) for _ in range(m)], "ddt": rng.choice(SINT + ["uint8"]), "pdt": rng.choice(SINT)})
    return out


def gen_ops(tier, rng, n):
    """module-level kernels of exetera.core.operations that no Session / DataFrame / Field method reaches"""
    out = []
    for _ in range(n):
        fn = rng.choice(["check_sorted", "left_size", "inner_size", "outer_size_bu", "last_as_filter", "inner_map", "left_map", "journal_idx",
                         "inner_lu_partial", "stream_sort"])
        nl, nr = rng.choice([0, 1, 2, 5, 9]), rng.choice([0, 1, 3, 6])
        bu = fn in ("outer_size_bu", "inner_lu_partial") or rng.random() < 0.4
        lk = key_col(rng, nl, dup=not bu, kinds=("int", "uint", "float", "fixed"))
        rk = same_kind_key(rng, lk, nr, dup=not (bu or fn == "left_map"))
        if fn == "check_sorted":
            lk = {"k": "num", "dt": rng.choice(NUM_DTYPES), "v": None}
            lk["v"] = float_vals(rng, nl, lk["dt"], 0.4) if lk["dt"] in FLOAT_DTYPES else int_vals(rng, nl, lk["dt"])
            rk = {**lk, "v": float_vals(rng, nl, lk["dt"], 0.4) if lk["dt"] in FLOAT_DTYPES else int_vals(rng, nl, lk["dt"])}
            if rng.random() < 0.5:
                lk = sorted_col({**lk, "v": [x if x != "nan" else "1.0" for x in lk["v"]]})
        if fn == "last_as_filter" and not lk["v"]:
            lk["v"] = [lk["v"][0]] if lk["v"] else (["1.0"] if lk["dt"] in FLOAT_DTYPES else ["a"] if lk["k"] == "fixed" else [1])   # result[-1] of an empty array: undefined when compiled
        out.append({"op": "x_ops", "fn": fn, "lk": lk, "rk": rk, "lu": is_unique(lk), "ru": is_unique(rk), "mdtype": rng.choice(["int32", "int64"])})
    return out


FAMILIES = [("spans", gen_spans, 16, 300), ("apply", gen_apply, 40, 1500), ("concat", gen_concat, 8, 200),
            ("filter_index", gen_filter_index, 16, 500), ("sort", gen_sort, 10, 300), ("map", gen_map, 12, 300),
            ("merge", gen_merge, 16, 600), ("smerge", gen_smerge, 16, 500), ("groupby", gen_groupby, 16, 500),
            ("aggregate", gen_aggregate, 10, 300), ("isin_unique", gen_isin_unique, 12, 300), ("journal", gen_journal, 12, 400),
            ("import", gen_import, 16, 600), ("export", gen_export, 12, 200), ("arith", gen_arith, 40, 1500), ("date", gen_date, 16, 300), ("ops", gen_ops, 12, 400)]


BATCH = {"quick": 10, "thorough": 24, "search": 24}
HEAVY = {"x_merge", "x_smerge", "x_groupby", "x_aggregate", "x_journal", "x_import", "x_concat", "x_sort"}   # many kernels / signatures per case
BATCH_HEAVY = {"quick": 6, "thorough": 8, "search": 8}     # a batch must stay well below the runner's 90 s stall limit on a loaded machine


def sig_key(c):
    """cases with equal keys call the same kernels at the same numba signatures (approximately): they go into one batch, so
    that one worker process compiles each signature instead of every worker"""
    cols = case_cols(c)
    return canon_key([c["op"], c.get("entry") or c.get("level"), c.get("fn") or c.get("agg"), [x.get("dt") for x in cols],
                      c.get("sdtype"), c.get("idtype"), c.get("fdtype")])


def canon_key(x):
    import json
    return json.dumps(x, sort_keys=True, default=str)


def gen_cases(tier, rng):
    from checks import corpus
    first = [c for c in corpus.load("C11") if c.get("op") in IMPL]        # witnesses of past mode differences: single cases, run first
    cases = []
    for name, fn, nq, nt in FAMILIES:
        n = {"quick": nq, "thorough": nt, "search": max(nt // 2, nq)}.get(tier, nq)
        cases += fn(tier, rng, n)
    only = os.environ.get("C11X_ONLY")
    if only:
        cases = [c for c in cases if c["op"] in only.split(",")]
    if only:
        first = [c for c in first if c["op"] in only.split(",")]
    if os.environ.get("C11X_FLAT"):
        return first + cases
    by_op = {}
    for c in cases:
        by_op.setdefault(c["op"], []).append(c)
    out = []
    for op in sorted(by_op):
        size = (BATCH_HEAVY if op in HEAVY else BATCH).get(tier, 6)
        cs = sorted(by_op[op], key=sig_key)
        for i in range(0, len(cs), size):
            out.append({"op": "x_batch", "family": op, "cases": cs[i:i + size]})
    return first + out


# ------------------------------------------------------------------------------------------------------------------
# implementation (worker process; mode set by the environment)
# ------------------------------------------------------------------------------------------------------------------
_S = {}
RECYCLE_EVERY = 40


def _env():
    if not _S:
        import io
        import numpy as np
        from exetera.core import operations as ops, fields, dataframe
        from exetera.core.session import Session
        _S.update(np=np, io=io, ops=ops, fields=fields, dataframe=dataframe, Session=Session, s=Session(), hs=None, ds=None, k=0)
    return _S


def h5(e):
    """a dataset in memory (BytesIO) that is recycled every RECYCLE_EVERY cases; returns (session, dataset, unique prefix)"""
    e["k"] += 1
    if e["hs"] is None or e.get("recycle"):
        e["recycle"] = False
        import gc
        if e["hs"] is not None:
            try:
                e["hs"].close()
            except Exception:
                pass
            e["hs"] = e["ds"] = None
            gc.collect()
        e["hs"] = e["Session"]()
        e["ds"] = e["hs"].open_dataset(e["io"].BytesIO(), "w", "ds")
    return e["hs"], e["ds"], "t%d_" % e["k"]


def new_df(e, tag="d"):
    s, ds, p = h5(e)
    return ds.create_dataframe(p + tag)


def raw_fixed(e, vals, width):
    np = e["np"]
    buf = b"".join(x.encode("latin-1")[:width].ljust(width, b"\x00") for x in vals)
    return np.frombuffer(buf, dtype="S%d" % width).copy() if width and vals else np.zeros(len(vals), dtype="S%d" % max(width, 1))


def arr(e, col):
    """the column as the ndarray (indexed strings: list of str) the library's `field.data[:]` would hold"""
    np = e["np"]
    k, dt, v = col["k"], col["dt"], col["v"]
    if k == "indexed":
        return list(v)
    if k == "fixed":
        return raw_fixed(e, v, int(dt[1:]))
    if dt in FLOAT_DTYPES:
        return np.array([float(x) for x in v], dtype=dt)
    if dt == "bool":
        return np.array([bool(x) for x in v], dtype=bool)
    return np.array(v, dtype=dt)


def mem_field(e, col):
    f, s = e["fields"], e["s"]
    k = col["k"]
    if k == "indexed":
        fld = f.IndexedStringMemField(s)
    elif k == "fixed":
        fld = f.FixedStringMemField(s, int(col["dt"][1:]))
    elif k == "categorical":
        fld = f.CategoricalMemField(s, col["dt"], col["keys"])
    elif k == "timestamp":
        fld = f.TimestampMemField(s)
    else:
        fld = f.NumericMemField(s, col["dt"])
    fld.data.write(arr(e, col))
    return fld


def h5_field(e, df, name, col):
    k = col["k"]
    if k == "indexed":
        fld = df.create_indexed_string(name)
    elif k == "fixed":
        fld = df.create_fixed_string(name, int(col["dt"][1:]))
    elif k == "categorical":
        fld = df.create_categorical(name, col["dt"], col["keys"])
    elif k == "timestamp":
        fld = df.create_timestamp(name)
    else:
        fld = df.create_numeric(name, col["dt"])
    fld.data.write(arr(e, col))
    return fld


def frame_of(e, cols, tag="f"):
    df = new_df(e, tag)
    for i, c in enumerate(cols):
        h5_field(e, df, "c%d" % i, c)
    return df


def as_form(e, a, form, dt=None):
    """an ndarray argument in the form the case asks for: ndarray, memory Field, list"""
    if form == "list":
        return a.tolist() if hasattr(a, "tolist") else list(a)
    if form == "field":
        f = e["fields"].NumericMemField(e["s"], str(a.dtype))
        f.data.write(a)
        return f
    if form == "h5field" and str(a.dtype) in FIELD_DTYPES:
        f = new_df(e, "arg").create_numeric("a", str(a.dtype))
        f.data.write(a)
        return f
    return a


def cv(e, r, depth=0):
    """canonical JSON-able rendering of any result: class, dtype, length, values"""
    np = e["np"]
    if r is None or isinstance(r, (bool, str)):
        return {"py": type(r).__name__, "v": r}
    if isinstance(r, bytes):
        return {"py": "bytes", "v": r.decode("latin-1")}
    if isinstance(r, int):
        return {"py": "int", "v": r}
    if isinstance(r, float):
        return {"py": "float", "v": repr(r)}
    if isinstance(r, np.generic):
        return {"np": str(r.dtype), "v": cv(e, np.asarray(r).reshape(1))["vals"][0]}
    if isinstance(r, np.ndarray):
        out = {"dtype": str(r.dtype), "n": int(r.shape[0]) if r.ndim else -1}
        if r.ndim != 1:
            out["shape"] = list(r.shape)
        flat = r.reshape(-1)
        kind = r.dtype.kind
        if kind == "f":
            out["vals"] = [repr(float(x)) for x in flat.tolist()]
        elif kind == "S":
            w = r.dtype.itemsize
            b = flat.tobytes()
            out["vals"] = [b[i * w:(i + 1) * w].decode("latin-1") for i in range(flat.shape[0])] if w else [""] * flat.shape[0]
        elif kind in "OU":
            out["vals"] = [x if isinstance(x, str) else cv(e, x, depth + 1) for x in flat.tolist()]
        elif kind == "b":
            out["vals"] = [bool(x) for x in flat.tolist()]
        elif kind in "iu":
            out["vals"] = [int(x) for x in flat.tolist()]
        elif kind == "M" or kind == "m":
            out["vals"] = [str(x) for x in flat.tolist()]
        else:
            out["vals"] = [str(x) for x in flat.tolist()]
        return out
    if hasattr(r, "data") and hasattr(r, "valid") and hasattr(r, "indexed"):
        out = {"cls": type(r).__name__}
        if r.indexed:
            out["indices"] = cv(e, r.indices[:])
            out["values"] = cv(e, r.values[:])
            out["data"] = [str(x) for x in r.data[:]]
        else:
            out["data"] = cv(e, r.data[:])
        if hasattr(r, "keys") and type(r).__name__.startswith("Categorical"):
            out["keys"] = sorted((int(k), v.decode("latin-1") if isinstance(v, bytes) else str(v)) for k, v in r.keys.items())
        return out
    if isinstance(r, (list, tuple)):
        return {"seq": type(r).__name__, "items": [cv(e, x, depth + 1) for x in r]}
    if isinstance(r, dict):
        return {"dict": sorted((str(k), cv(e, v, depth + 1)) for k, v in r.items())}
    if type(r).__name__ == "DataFrame" and hasattr(r, "dtypes"):      # pandas
        return {"pandas": [(str(c), cv(e, r[c].to_numpy())) for c in r.columns], "rows": int(len(r))}
    if hasattr(r, "keys") and hasattr(r, "create_numeric"):           # exetera dataframe
        return frame_out(e, r)
    if hasattr(r, "__len__") and type(r).__module__.startswith("numba"):
        return {"seq": "list", "items": [cv(e, x, depth + 1) for x in list(r)]}
    return {"repr": type(r).__name__}


def frame_out(e, df):
    return {"frame": [(str(k), cv(e, df[k])) for k in df.keys()]}


def std_field(e, kind, n):
    """the standard column of a kind: distinct values per row"""
    if kind == "indexed":
        return {"k": "indexed", "dt": "indexed", "v": [STRS[i % len(STRS)] + str(i) for i in range(n)]}
    if kind == "fixed":
        return {"k": "fixed", "dt": "S4", "v": ["%04d" % (i % 10000) for i in range(n)]}
    return {"k": "num", "dt": "int32", "v": list(range(1000, 1000 + n))}


def do_spans(e, case):
    np, ops, s = e["np"], e["ops"], e["s"]
    a, b, c = case["a"], case["b"], case["c"]
    ent = case["entry"]
    if ent == "field":
        f = mem_field(e, a)
        return {"field": cv(e, f.get_spans()), "session": cv(e, s.get_spans(f)), "kw": cv(e, s.get_spans(field=f))}
    if ent == "h5field":
        df = frame_of(e, [a])
        return {"field": cv(e, df["c0"].get_spans()), "session": cv(e, s.get_spans(df["c0"]))}
    if ent == "array":
        return cv(e, s.get_spans(arr(e, a)))
    if ent == "two":
        return cv(e, s.get_spans(fields=(arr(e, a), arr(e, b))))
    if ent == "three":
        return cv(e, s.get_spans(fields=(arr(e, a), arr(e, b), arr(e, c))))
    if ent == "two_fields":
        return cv(e, s.get_spans(fields=(mem_field(e, a), mem_field(e, b))))
    if ent == "dest":
        d = e["fields"].NumericMemField(s, "int32")
        r = s.get_spans(mem_field(e, a), dest=d)
        return {"same": r is d, "dest": cv(e, d)}
    # the form group-by uses: a 2-d array of the key columns (numpy promotes them to a common dtype)
    return cv(e, ops._get_spans_for_multi_fields(np.asarray([arr(e, a), arr(e, b)])))


def do_apply(e, case):
    np, ops, fields, s = e["np"], e["ops"], e["fields"], e["s"]
    col, fn, level = case["col"], case["fn"], case["level"]
    data = arr(e, col)
    sp = np.array(case["spans"], dtype=case.get("sdtype", "int32"))
    nsp = len(sp) - 1
    name = "apply_spans_" + fn
    if level == "filter_form":
        dest = np.zeros(nsp, dtype="int64")
        flt = np.zeros(nsp, dtype=bool)
        if fn in ("index_of_first", "index_of_last"):
            r = getattr(ops, name + "_filter")(sp, dest, flt)
        else:
            r = getattr(ops, name + "_filter")(sp, data, dest, flt)
        # rows of an empty span are not written: only the rows the filter keeps are part of the result
        return {"ret": [cv(e, x[flt]) for x in r], "filter": cv(e, flt), "dest": cv(e, dest[flt])}
    if level in ("ops", "ops_dest"):
        if fn in NOSRC_FNS:
            if level == "ops_dest":
                dest = np.zeros(nsp, dtype="int64" if fn == "count" else sp.dtype)
                r = getattr(ops, name)(sp, dest)
                return {"ret": cv(e, r), "dest": cv(e, dest)}
            return cv(e, getattr(ops, name)(sp))
        if level == "ops_dest":
            dest = np.zeros(nsp, dtype=sp.dtype if fn in IDX_FNS else data.dtype)   # another dtype does not unify under numba
            r = getattr(ops, name)(sp, data, dest)
            return {"ret": cv(e, r), "dest": cv(e, dest)}
        return cv(e, getattr(ops, name)(sp, data))
    if level in ("session", "session_dest"):
        dest = None
        if level == "session_dest":
            if fn in SRC_FNS and col["k"] == "fixed":
                dest = fields.FixedStringMemField(s, int(col["dt"][1:]))
            else:
                dest = fields.NumericMemField(s, ("int64" if fn == "count" else str(sp.dtype)) if fn in IDX_FNS + NOSRC_FNS else col["dt"])
        if fn in NOSRC_FNS:
            r = getattr(s, name)(sp, dest)
        else:
            tgt = data
            if case.get("tform") == "h5field":
                tgt = frame_of(e, [col])["c0"]
            elif case.get("tform") == "field":
                tgt = mem_field(e, col)
            elif case.get("tform") == "list":
                tgt = data.tolist()
            r = getattr(s, name)(sp, tgt, dest)
        return {"ret": cv(e, r), "dest": cv(e, dest) if dest is not None else None}
    # field level
    sparg = as_form(e, sp, case.get("sform", "ndarray"))
    if level == "h5field":
        df = frame_of(e, [col])
        return cv(e, getattr(df["c0"], name)(sparg))
    f = mem_field(e, col)
    if level == "field_target":
        t = f.create_like()
        r = getattr(f, name)(sparg, target=t)
        return {"same": r is t, "target": cv(e, t), "src": cv(e, f)}
    if level == "field_inplace":
        r = getattr(f, name)(sparg, in_place=True)
        return {"same": r is f, "src": cv(e, f)}
    return cv(e, getattr(f, name)(sparg))


def do_concat(e, case):
    np, s, fields = e["np"], e["s"], e["fields"]
    sp = np.array(case["spans"], dtype=case["sdtype"])
    if case["backing"] == "h5":
        df = frame_of(e, [case["col"]])
        src = df["c0"]
        dest = df.create_indexed_string("out")
    else:
        src = mem_field(e, case["col"])
        dest = fields.IndexedStringMemField(s)
    s.apply_spans_concat(sp, src, dest, case["src_cs"], case["dest_cs"], case["mult"])
    return cv(e, dest)


def fi_source(e, case):
    col = case.get("col") or std_field(e, case["kind"], case["n"])
    return col


def do_filter_index(e, case):
    np, s = e["np"], e["s"]
    col = fi_source(e, case)
    what = "apply_index" if case["op"] == "x_index" else "apply_filter"
    if case["op"] == "x_index":
        a = np.array(case["index"], dtype=case["idtype"])
        form = case.get("iform", "ndarray")
    else:
        a = arr(e, {"k": "num", "dt": case["fdtype"], "v": case["filter"]})
        form = case.get("fform", "ndarray")
    ent = case["entry"]
    arg = as_form(e, a, form)
    if ent == "field":
        return cv(e, getattr(mem_field(e, col), what)(arg))
    if ent == "field_target":
        f = mem_field(e, col)
        t = f.create_like()
        r = getattr(f, what)(arg, target=t)
        return {"same": r is t, "target": cv(e, t), "src": cv(e, f)}
    if ent == "field_inplace":
        f = mem_field(e, col)
        r = getattr(f, what)(arg, in_place=True)
        return {"same": r is f, "src": cv(e, f)}
    if ent == "h5field":
        df = frame_of(e, [col])
        return {"ret": cv(e, getattr(df["c0"], what)(arg)), "src": cv(e, df["c0"])}
    if ent == "session":
        return cv(e, getattr(s, what)(arg, mem_field(e, col)))
    if ent == "session_arr":
        src = arr(e, col)
        if isinstance(src, list):
            src = np.array(src, dtype=object)
        return cv(e, getattr(s, what)(arg, src))
    if ent == "session_dest":
        f = mem_field(e, col)
        d = f.create_like()
        r = getattr(s, what)(arg, f, d)
        return {"ret": cv(e, r), "dest": cv(e, d)}
    df = frame_of(e, [col, std_field(e, "num", col_len(col))])
    if ent == "frame":
        ddf = new_df(e, "o")
        r = getattr(df, what)(arg, ddf)
        return {"same": r is ddf, "out": frame_out(e, ddf), "src": frame_out(e, df)}
    r = getattr(df, what)(arg)
    return {"same": r is df, "src": frame_out(e, df)}


def do_sort(e, case):
    np, s = e["np"], e["s"]
    keys, payload = case["keys"], case["payload"]
    ent = case["entry"]
    names = ["c%d" % i for i in range(len(keys))]
    if ent in ("sort_index", "sort_index_arr"):
        if ent == "sort_index":
            rd = tuple(mem_field(e, k) for k in keys)
        else:
            rd = tuple(np.asarray(arr(e, k)) for k in keys)
        idx = None if case["index"] is None else np.arange(col_len(keys[0]), dtype=case["index"])
        return cv(e, s.dataset_sort_index(rd, idx))
    df = frame_of(e, keys + payload)
    if ent == "sort_values":
        r = df.sort_values(by=names if len(names) > 1 else names[0])
        return {"same": r is df, "src": frame_out(e, df)}
    if ent == "sort_values_ddf":
        ddf = new_df(e, "o")
        r = df.sort_values(by=names, ddf=ddf)
        return {"same": r is ddf, "out": frame_out(e, ddf), "src": frame_out(e, df)}
    if ent == "sort_on":
        ddf = new_df(e, "o")
        s.sort_on(df, ddf, names, verbose=False)
        return {"out": frame_out(e, ddf), "src": frame_out(e, df)}
    s.sort_on(df, df, names, verbose=False)
    return {"src": frame_out(e, df)}


def set_chunks(e, cs):
    """inject a small chunk size into the streamed drivers DataFrame.merge pins to 1 << 20 (as checks/harness/c02.py does)"""
    import functools
    ops = e["ops"]
    if "orig" not in e:
        e["orig"] = {name: getattr(ops, name) for name in dir(ops)
                     if (name.startswith("generate_ordered_map_to_") and name.endswith("_streamed")) or
                     name in ("ordered_map_valid_stream", "ordered_map_valid_indexed_stream")}
    for name, fn in e["orig"].items():
        setattr(ops, name, fn if cs >= (1 << 20) else functools.partial(fn, chunksize=cs))


def do_map(e, case):
    np, ops, fields, s = e["np"], e["ops"], e["fields"], e["s"]
    src = case["src"]
    m = np.array(case["map"], dtype=case["mdtype"])
    inv, ent = case["inv"], case["entry"]
    flt = m != inv
    if case.get("invform") == "np":         # the marker as a numpy scalar of the map's dtype / as a 0-d array
        inv = m.dtype.type(inv)
    elif case.get("invform") == "0d":
        inv = np.array(inv, dtype=m.dtype)
    if ent == "safe":
        a = arr(e, src)
        ev = None
        if case.get("empty") and src["k"] == "num":
            ev = a.dtype.type(1) if case["empty"] == "np" else np.array(1, dtype=a.dtype) if case["empty"] == "0d" else \
                (1.0 if src["dt"] in FLOAT_DTYPES else True if src["dt"] == "bool" else 1)
        elif case.get("empty") and src["k"] == "fixed":
            ev = b"z"       # (a numpy.bytes_ scalar is not generated: numba cannot unbox it - TypeError at the call, whatever the kernel)
        return cv(e, ops.safe_map_values(a, m, flt, ev) if ev is not None else ops.safe_map_values(a, m, flt))
    if ent == "map_valid":
        return cv(e, ops.map_valid(arr(e, src), m, invalid=inv))
    if ent == "safe_indexed":
        f = mem_field(e, src)
        r = ops.safe_map_indexed_values(f.indices[:], f.values[:], m, flt)
        return [cv(e, x) for x in r]
    sf = mem_field(e, src)
    mf = fields.NumericMemField(s, case["mdtype"])
    mf.data.write(m)
    df_ = sf.create_like()
    cs = case["cs"]
    cs = np.int64(cs) if case.get("csform") == "np" else np.array(cs, dtype="int64") if case.get("csform") == "0d" else cs
    if ent == "stream_indexed":
        ops.ordered_map_valid_indexed_stream(sf, mf, df_, invalid=inv, chunksize=cs)
    else:
        ops.ordered_map_valid_stream(sf, mf, df_, invalid=inv, chunksize=cs)
    return cv(e, df_)


def do_merge(e, case):
    ldf, rdf, ddf = new_df(e, "l"), new_df(e, "r"), new_df(e, "d")
    h5_field(e, ldf, "k", case["lk"])
    h5_field(e, rdf, "k", case["rk"])
    for i, c in enumerate(case["left"]):
        h5_field(e, ldf, "l%d" % i, c)
    for i, c in enumerate(case["right"]):
        h5_field(e, rdf, "r%d" % i, c)
    h = case["hints"]
    set_chunks(e, case["cs"])
    try:
        lon, ron = ("k", "k") if case.get("keyform", "name") == "name" else (ldf["k"], rdf["k"])
        lf, rf = (["l0"], ["r0"]) if case.get("subset") else (None, None)
        e["dataframe"].merge(ldf, rdf, ddf, lon, ron, left_fields=lf, right_fields=rf, how=case["how"], hint_left_keys_ordered=h[0],
                             hint_left_keys_unique=h[1], hint_right_keys_ordered=h[2], hint_right_keys_unique=h[3], chunk_size=case["cs"])
    finally:
        set_chunks(e, 1 << 20)
    out = frame_out(e, ddf)
    if not (h[0] and h[2]) or case["how"] == "outer":
        # the unordered path hands the row order to pandas.merge, which the property does not fix: compare the multiset of rows
        cols = out["frame"]
        n = max([len(c[1].get("data", {}).get("vals", c[1].get("data", []))) if isinstance(c[1].get("data"), dict) else len(c[1].get("data", []))
                 for c in cols] or [0])
        rows = []
        for i in range(n):
            rows.append([(c[1]["data"]["vals"][i] if isinstance(c[1]["data"], dict) else c[1]["data"][i]) if not c[0].startswith("_") else None
                         for c in cols])
        rows.sort(key=lambda r: json_key(r))
        return {"cols": [(c[0], c[1]["cls"], c[1]["data"]["dtype"] if isinstance(c[1]["data"], dict) else "indexed") for c in cols], "rows": rows}
    return out


def json_key(x):
    import json
    return json.dumps(x, sort_keys=True, default=str)


def do_smerge(e, case):
    np, ops, fields, s = e["np"], e["ops"], e["fields"], e["s"]
    ent, form = case["entry"], case["form"]
    lk, rk = case["lk"], case["rk"]
    lcols, rcols = case["left"], case["right"]

    def src(c, as_field):
        if as_field or c["k"] == "indexed":
            return mem_field(e, c)
        return arr(e, c)
    fld = form in ("field", "field_sinks", "streamed")
    lka, rka = src(lk, fld), src(rk, fld)
    if ent in ("ordered_left", "ordered_right"):
        # ordered_merge_left maps RIGHT payloads into the left row space (one row per left row when right is unique)
        sources = [c for c in (rcols if ent == "ordered_left" else lcols) if c["k"] != "indexed"] or [std_field(e, "num", col_len(rk if ent == "ordered_left" else lk))]
        srcs = tuple(src(c, fld) for c in sources)
        nrows = col_len(lk if ent == "ordered_left" else rk)
        kw = dict(left_unique=case["lu"], right_unique=case["ru"])
        fn = s.ordered_merge_left if ent == "ordered_left" else s.ordered_merge_right
        names = ("right_field_sources", "left_field_sinks", "left_to_right_map") if ent == "ordered_left" else \
                ("left_field_sources", "right_field_sinks", "right_to_left_map")
        if form in ("ndarray", "field"):
            r = fn(lka, rka, **{names[0]: srcs}, **kw)
            return cv(e, r)
        if form == "array_sinks":
            sinks = tuple(np.zeros(nrows, dtype=np.asarray(arr(e, c)).dtype) for c in sources)
            r = fn(lka, rka, **{names[0]: srcs, names[1]: sinks}, **kw)
            return {"ret": cv(e, r), "sinks": [cv(e, x) for x in sinks]}
        sinks = tuple(mem_field(e, {**c, "v": []}) for c in sources)
        args = {names[0]: srcs, names[1]: sinks}
        mp = None
        if form == "streamed":
            mp = fields.NumericMemField(s, "int64")
            args[names[2]] = mp
        r = fn(lka, rka, **args, **kw)
        return {"ret": cv(e, r), "sinks": [cv(e, x) for x in sinks], "map": cv(e, mp) if mp is not None else None}
    if ent == "ordered_inner":
        ls = tuple(src(c, fld) for c in lcols if c["k"] != "indexed") or (src(std_field(e, "num", col_len(lk)), fld),)
        rs = tuple(src(c, fld) for c in rcols if c["k"] != "indexed") or (src(std_field(e, "num", col_len(rk)), fld),)
        if form in ("field_sinks", "streamed"):
            lsn = tuple(x.create_like() for x in ls)
            rsn = tuple(x.create_like() for x in rs)
            r = s.ordered_merge_inner(lka, rka, left_field_sources=ls, left_field_sinks=lsn, right_field_sources=rs, right_field_sinks=rsn,
                                      left_unique=case["lu"], right_unique=case["ru"])
            return {"ret": cv(e, r), "l": [cv(e, x) for x in lsn], "r": [cv(e, x) for x in rsn]}
        r = s.ordered_merge_inner(lka, rka, left_field_sources=ls, right_field_sources=rs, left_unique=case["lu"], right_unique=case["ru"])
        return cv(e, r)
    if ent in ("merge_left", "merge_right", "merge_inner"):
        ls = tuple(src(c, fld) for c in lcols)
        rs = tuple(src(c, fld) for c in rcols)
        if ent == "merge_left":
            r = s.merge_left(lka, rka, right_fields=rs)
        elif ent == "merge_right":
            r = s.merge_right(lka, rka, left_fields=ls)
        else:
            r = s.merge_inner(lka, rka, left_fields=ls, right_fields=rs)
        return cv(e, r)
    if ent == "get_index":
        dest = None
        if form == "field_sinks":
            dest = fields.NumericMemField(s, "int64")
        elif form == "array_sinks":
            dest = np.zeros(col_len(lk), dtype="int64")
        r = s.get_index(rka, lka, dest)
        return {"ret": cv(e, r), "dest": cv(e, dest)}
    # Session.join: foreign-key row numbers (sorted), one value per distinct foreign key, mapped into the primary key's rows
    npk = col_len(rk) + 1
    fk = np.sort(np.array([i % npk for i in range(col_len(lk))], dtype=rng_dtype(case)))
    sp = s.get_spans(fk)
    vals = arr(e, {**lcols[0], "v": (lcols[0]["v"] * 3)[:len(sp) - 1]}) if lcols[0]["k"] != "indexed" else np.arange(len(sp) - 1, dtype="int8")
    if len(vals) != len(sp) - 1:
        vals = np.arange(len(sp) - 1, dtype="int8")
    pk = np.arange(npk, dtype="int64")
    if fld:
        pkf = fields.NumericMemField(s, "int64")
        pkf.data.write(pk)
        fkf = fields.NumericMemField(s, str(fk.dtype))
        fkf.data.write(fk)
        w = None
        if form == "field_sinks":
            w = fields.NumericMemField(s, str(vals.dtype)) if vals.dtype.kind != "S" else fields.FixedStringMemField(s, vals.dtype.itemsize)
        r = s.join(pkf, fkf, vals, w)
        return {"ret": cv(e, r), "w": cv(e, w)}
    return cv(e, s.join(pk, fk, vals))


def rng_dtype(case):
    return {"ndarray": "int64", "field": "int32", "field_sinks": "uint8", "streamed": "int16", "array_sinks": "uint32"}[case["form"]]


def do_groupby(e, case):
    keys, targets = case["keys"], case["targets"]
    df = frame_of(e, keys + targets)
    names = ["c%d" % i for i in range(len(keys))]
    tnames = ["c%d" % (len(keys) + i) for i in range(len(targets))]
    ddf = new_df(e, "o")
    by = names if len(names) > 1 else names[0]
    agg = case["agg"]
    if agg == "drop_duplicates":
        r = df.drop_duplicates(by=by, ddf=ddf, hint_keys_is_sorted=case["hint"])
        return {"same": r is ddf, "out": frame_out(e, ddf)}
    g = df.groupby(by=by, hint_keys_is_sorted=case["hint"])
    wk = case.get("write_keys", True)
    if agg in ("count", "distinct"):
        r = getattr(g, agg)(ddf=ddf, write_keys=wk)
    else:
        r = getattr(g, agg)(target=tnames if len(tnames) > 1 else tnames[0], ddf=ddf, write_keys=wk)
    return {"same": r is ddf, "out": frame_out(e, ddf), "src": frame_out(e, df)}


def do_aggregate(e, case):
    np, s, fields = e["np"], e["s"], e["fields"]
    idx, tgt = case["index"], case["target"]
    ia = mem_field(e, idx) if case["iform"] == "field" or idx["k"] == "indexed" else arr(e, idx)
    ta = mem_field(e, tgt) if case["tform"] == "field" else arr(e, tgt)
    fn = case["fn"]
    dest = None
    if case["dest"]:
        dest = fields.NumericMemField(s, "int64") if fn == "count" else mem_field(e, {**tgt, "v": []})
    if fn == "count":
        r = s.aggregate_count(ia, dest)
    else:
        r = getattr(s, "aggregate_" + fn)(ia, ta, dest)
    return {"ret": cv(e, r), "same": (r is dest) if dest is not None else None}


def test_values(e, col, test, form):
    np = e["np"]
    if col["k"] == "indexed":
        vals = list(test)
    elif col["k"] == "fixed":
        vals = [x.encode("latin-1") for x in test]
    elif col["dt"] in FLOAT_DTYPES:
        vals = [float(x) if isinstance(x, str) else x for x in test]
    else:
        vals = list(test)
    if form == "ndarray":
        if col["k"] == "fixed":
            return np.array(vals, dtype=col["dt"]) if vals else np.zeros(0, dtype=col["dt"])
        if col["k"] == "indexed":
            return np.array(vals, dtype=object)
        return np.array(vals, dtype=col["dt"]) if all(bounds_ok(col["dt"], v) for v in vals) else np.array(vals)
    if form == "set":
        return set(vals)
    if form == "tuple":
        return tuple(vals)
    if form in ("scalar", "npscalar", "0d"):
        if not vals:
            return vals
        v = vals[0]
        if form == "scalar" or col["k"] in ("indexed", "fixed"):
            return v
        a = np.array(v, dtype=col["dt"]) if bounds_ok(col["dt"], v) else np.array(v)
        return a if form == "0d" else a[()]
    return vals


def bounds_ok(dt, v):
    if dt in FLOAT_DTYPES or isinstance(v, float):
        return True
    lo, hi = bounds(dt)
    return lo <= v <= hi


def do_isin(e, case):
    col = case["col"]
    t = test_values(e, col, case["test"], case["tform"])
    if case["backing"] == "h5":
        f = frame_of(e, [col])["c0"]
    else:
        f = mem_field(e, col)
    if case["backing"] == "module":
        return cv(e, e["fields"].isin(f, t))
    return cv(e, f.isin(t))


def do_unique(e, case):
    col = case["col"]
    f = frame_of(e, [col])["c0"] if case["backing"] == "h5" else mem_field(e, col)
    a, b, c = case["flags"]
    return cv(e, f.unique(return_index=a, return_inverse=b, return_counts=c))


class _Schema:
    def __init__(self, names):
        self.fields = {n: None for n in names}


def do_journal(e, case):
    np = e["np"]
    from exetera.core import journal
    o, n, r = new_df(e, "jo"), new_df(e, "jn"), new_df(e, "jr")
    s = e["hs"]
    kd = case["kdtype"]

    def table(df, ids, vf, side):
        if kd == "S2":
            df.create_fixed_string("id", 2).data.write(np.array([b"%02d" % x for x in ids], dtype="S2"))
        else:
            df.create_numeric("id", kd).data.write(np.array(ids, dtype=kd))
        df.create_timestamp("j_valid_from").data.write(np.array(vf, dtype="float64"))
        df.create_timestamp("j_valid_to").data.write(np.array([9e9] * len(ids), dtype="float64"))
        for ci, c in enumerate(case["jcols"]):
            h5_field(e, df, "c%d" % ci, {"k": c["k"], "dt": c["dt"], "v": c[side]})
    table(o, case["old_ids"], case["old_vf"], "o")
    table(n, case["new_ids"], [99.0] * len(case["new_ids"]), "n")
    names = ["id"] + ["c%d" % ci for ci in range(len(case["jcols"]))]
    journal.journal_table(s, _Schema(names), o, n, "id", r)
    return frame_out(e, r)


def do_import(e, case):
    import tempfile
    import warnings
    warnings.simplefilter("ignore")
    from exetera.io import field_importers as fi, parsers
    cols = case["cols"]
    rows = len(cols[0]["cells"])

    def cell(x):
        return '"' + x.replace('"', '""') + '"' if case.get("quote") or "," in x else x
    text = ",".join(c["name"] for c in cols) + "\n"
    for i in range(rows):
        text += ",".join(cell(c["cells"][i]) for c in cols) + "\n"
    schema = {}
    for c in cols:
        k = c["kind"]
        if k in ("int", "float", "bool"):
            inv = c["invalid"]
            schema[c["name"]] = fi.Numeric("bool" if k == "bool" else c["dtype"], float(inv) if isinstance(inv, str) else inv, c["mode"])
        elif k == "fixed":
            schema[c["name"]] = fi.String(c["strlen"])
        elif k == "indexed":
            schema[c["name"]] = fi.String()
        elif k in ("categorical", "leaky"):
            schema[c["name"]] = fi.Categorical(c["cats"], c["vtype"], allow_freetext=(k == "leaky"))
        elif k == "datetime":
            schema[c["name"]] = fi.DateTime(c["day"], c["flag"])
        else:
            schema[c["name"]] = fi.Date(c["day"], c["flag"])
    df = new_df(e, "imp")
    fd, path = tempfile.mkstemp(suffix=".csv")
    try:
        with os.fdopen(fd, "wb") as f:
            f.write(text.encode("utf-8"))
        parsers.read_csv_with_schema_dict(path, df, schema, 1.5, chunk_row_size=case["crs"])
    finally:
        os.unlink(path)
    return frame_out(e, df)


def do_export(e, case):
    import tempfile
    np = e["np"]
    df = frame_of(e, case["cols"])
    flt = np.array(case["filter"], dtype=bool)
    rf = case["rfilter"]
    if rf == "own":
        df.create_numeric("flt", "bool").data.write(flt)
        rfa = df["flt"]
    elif rf == "field":
        rfa = e["fields"].NumericMemField(e["s"], "bool")
        rfa.data.write(flt)
    else:
        rfa = flt if rf else None
    if case["entry"] == "to_pandas":
        return cv(e, df.to_pandas(row_filter=None if rfa is None else flt, col_filter=case["cfilter"]))
    fd, path = tempfile.mkstemp(suffix=".csv")
    os.close(fd)
    try:
        df.to_csv(path, row_filter=rfa, column_filter=case["cfilter"], chunk_row_size=case["crs"])
        with open(path, "rb") as f:
            return {"bytes": f.read().decode("latin-1")}
    finally:
        os.unlink(path)


def do_arith(e, case):
    import operator
    np = e["np"]
    a, b, fn = case["a"], case["b"], case["fn"]
    fa = frame_of(e, [a])["c0"] if case["backing"] == "h5" else mem_field(e, a)
    if fn == "invert":
        return cv(e, ~fa)
    if fn == "logical_not":
        return cv(e, fa.logical_not())
    of = case["oform"]
    sc = case["scalar"]
    if of == "field":
        other = mem_field(e, b)
    elif of == "ndarray":
        other = arr(e, b)
    elif of == "list":
        other = arr(e, b).tolist()
    elif of == "pyint":
        other = int(sc)
    elif of == "pyfloat":
        other = float(sc)
    elif of == "pybool":
        other = bool(sc)
    else:
        lo, hi = bounds(case["sdt"]) if case["sdt"] not in FLOAT_DTYPES else (None, None)
        v = sc if lo is None or lo <= sc <= hi else (hi if sc > hi else lo)
        other = np.array(v, dtype=case["sdt"])
        if of == "npscalar":
            other = other[()]
    rev = fn.startswith("r") and fn not in ("rshift",)
    name = fn[1:] if rev else fn
    if name == "divmod":
        r = divmod(other, fa) if rev else divmod(fa, other)
    else:
        f = {"and": operator.and_, "or": operator.or_}.get(name) or getattr(operator, name)
        r = f(other, fa) if rev else f(fa, other)
    return cv(e, r)


def do_date(e, case):
    np = e["np"]
    from datetime import datetime, timedelta
    from exetera.processing import date_time_helpers as dth
    fn = case["fn"]

    def scal(x):
        if x is None:
            return None
        v = float(x)
        return v if case["sform"] == "py" else np.float64(v) if case["sform"] == "np" else np.array(v, dtype="float64")
    if fn == "get_days":
        ts = arr(e, case["ts"])
        flt = None if case["filter"] is None else np.array(case["fv"], dtype=case["filter"])
        r1 = dth.get_days(ts, flt, scal(case["start"]), scal(case["end"]))
        ts[:] = 0
        r2 = dth.get_days(arr(e, case["ts"]), flt, scal(case["start"]), scal(case["end"]))
        return [cv(e, r1), cv(e, r2)]
    d0 = datetime(1970, 1, 1) + timedelta(days=case["d0"])
    delta = case["delta"]
    try:
        d1 = d0 + timedelta(days=case["span"] if delta > 0 else -case["span"])
    except OverflowError:
        d1 = d0
    periods = dth.get_periods(d0, d1, case["period"], delta)
    if fn == "periods":
        return [str(p) for p in periods]
    if delta < 0:
        periods = list(reversed(periods))        # generate_period_offset_map takes the boundaries in ascending order
    pm = dth.generate_period_offset_map(periods)
    days = np.array([d % max(len(pm), 1) for d in case["days"]], dtype=case["ddt"])
    inr = None if case["filter"] is None else np.array(case["fv"], dtype=bool)
    if len(pm) == 0 and inr is None:
        inr = np.zeros(len(days), dtype=bool)
    return {"map": cv(e, pm), "off": cv(e, dth.get_period_offsets(pm.astype(case["pdt"]), days, inr))}


def do_ops(e, case):
    np, ops = e["np"], e["ops"]
    fn = case["fn"]
    l, r = arr(e, case["lk"]), arr(e, case["rk"])
    if fn == "check_sorted":
        return {"r": cv(e, ops.check_if_sorted_for_multi_fields(np.asarray([l, r])))}
    if fn == "left_size":
        return {"r": cv(e, ops.ordered_left_map_result_size(l, r))}
    if fn == "inner_size":
        return {"r": cv(e, ops.ordered_inner_map_result_size(l, r))}
    if fn == "outer_size_bu":
        return {"r": cv(e, ops.ordered_outer_map_result_size_both_unique(l, r))}
    if fn == "last_as_filter":
        return {"r": cv(e, ops.ordered_get_last_as_filter(l))}
    if fn == "journal_idx":
        return {"r": cv(e, ops.ordered_generate_journalling_indices(l, r))}
    if fn == "inner_map":
        n = int(ops.ordered_inner_map_result_size(l, r))
        a, b = np.zeros(n, dtype=case["mdtype"]), np.zeros(n, dtype=case["mdtype"])
        if case["lu"] and case["ru"]:
            ret = ops.ordered_inner_map_both_unique(l, r, a, b)
        elif case["lu"]:
            ret = ops.ordered_inner_map_left_unique(l, r, a, b)
        else:
            ret = ops.ordered_inner_map(l, r, a, b)
        return {"ret": cv(e, ret), "l": cv(e, a), "r": cv(e, b)}
    if fn == "inner_lu_partial":                  # one call of the streamed left-unique inner map's kernel, 4-row result buffers
        a, b = np.zeros(4, dtype=case["mdtype"]), np.zeros(4, dtype=case["mdtype"])
        ret = ops.ordered_inner_map_left_unique_partial(3, 5, l, r, a, b)
        m = int(ret[2])
        return {"ret": cv(e, tuple(ret)), "l": cv(e, a[:m]), "r": cv(e, b[:m])}
    if fn == "stream_sort":                       # two sorted chunks of equal length (a 2-d array), merged until one is used up
        n = min(len(l), len(r))
        if n == 0 or l.dtype != r.dtype:
            return {"skip": True}
        vals = np.stack([l[:n], r[:n]])
        idx = np.stack([np.arange(n, dtype="int64"), np.arange(n, dtype="int64") + 100])
        pos, lens = np.zeros(2, dtype="int64"), np.array([n, n], dtype="int64")
        dv, di = np.zeros(2 * n, dtype=vals.dtype), np.zeros(2 * n, dtype="int64")
        k = int(ops.streaming_sort_partial(pos, lens, vals, idx, dv, di))
        return {"k": k, "vals": cv(e, dv[:k]), "idx": cv(e, di[:k]), "pos": cv(e, pos)}
    res = np.zeros(len(l), dtype="int64")          # left_map: the right key is unique
    if case["lu"]:
        ret = ops.generate_ordered_map_to_left_both_unique(l, r, res, ops.INVALID_INDEX)
    else:
        ret = ops.generate_ordered_map_to_left_right_unique(l, r, res, ops.INVALID_INDEX)
    return {"ret": cv(e, ret), "map": cv(e, res)}


IMPL = {"x_spans": do_spans, "x_apply": do_apply, "x_concat": do_concat, "x_index": do_filter_index, "x_filter": do_filter_index,
        "x_sort": do_sort, "x_map": do_map, "x_merge": do_merge, "x_smerge": do_smerge, "x_groupby": do_groupby,
        "x_aggregate": do_aggregate, "x_isin": do_isin, "x_unique": do_unique, "x_journal": do_journal, "x_import": do_import,
        "x_export": do_export, "x_arith": do_arith, "x_date": do_date, "x_ops": do_ops}


ERRMAP = [(IndexError, "index_error"), (KeyError, "key_error"), (ValueError, "value_error"), (TypeError, "type_error"),
          (AttributeError, "attribute_error"), (OverflowError, "overflow_error"), (NotImplementedError, "not_implemented")]   # checks/worker.py


def err_class(ex):
    for cls, tag in ERRMAP:
        if isinstance(ex, cls):
            return tag
    return "other:" + type(ex).__name__


def impl_one(e, case):
    e["n_cases"] = e.get("n_cases", 0) + 1
    if e["n_cases"] % RECYCLE_EVERY == 0:
        e["recycle"] = True              # the next dataframe is created in a fresh in-memory dataset (bounded worker memory)
    r = IMPL[case["op"]](e, case)
    return r if isinstance(r, dict) else {"r": r}


def impl(case):
    e = _env()
    if case["op"] != "x_batch":
        return impl_one(e, case)
    outs = []
    for c in case["cases"]:
        try:
            outs.append(impl_one(e, c))
        except BaseException as ex:     # noqa
            if isinstance(ex, (KeyboardInterrupt, SystemExit)) or type(ex).__name__ == "CaseTimeout":
                raise
            outs.append({"err": err_class(ex), "msg": (str(ex) or "")[:200]})
    return {"outs": outs}


def to_model(case):
    return {"op": "int64_index_length"}        # a constant-time driver op; its answer is ignored (no model for these cases)


def compare(case, io, mo, mode):
    return None


def check_spec(case, io, mode):
    return None


def strip(o):
    return {k: v for k, v in o.items() if k not in ("msg", "trace", "calls")} if isinstance(o, dict) else o


def subcases(case):
    return case["cases"] if case["op"] == "x_batch" else [case]


def suboutputs(case, out):
    if case["op"] != "x_batch":
        return [out]
    if isinstance(out, dict) and isinstance(out.get("outs"), list) and len(out["outs"]) == len(case["cases"]):
        return out["outs"]
    return [out] * len(case["cases"])            # the whole batch failed (hang, worker exit): every sub-case carries that result


def differing(case, jit_out, other_out, mode):
    """the sub-cases of a (batch) case whose outputs differ between the modes and are not declared legitimate"""
    subs = subcases(case)
    return [(c, a, b) for c, a, b in zip(subs, suboutputs(case, jit_out), suboutputs(case, other_out))
            if strip(a) != strip(b) and not one_diff_ok(c, a, b, mode)]


_LAST = {}


def mode_diff_ok(case, jit_out, other_out, mode):
    """called by checks/run.py when the two modes' outputs of a case differ: True iff every differing sub-case is a declared
    legitimate difference. The differing sub-cases are remembered for `match_finding` (called right after, same process)."""
    bad = differing(case, jit_out, other_out, mode)
    _LAST[canon_key(case)] = bad
    return not bad


def one_diff_ok(case, a, b, mode):
    """differences between the modes that are NOT violations of C11, each with its exact reason. (None is needed for the inputs
    generated today: inputs whose compiled behaviour is undefined are not generated.)"""
    return False


def match_one(case, a, b, mode):
    """open finding of known_findings.json that this single differing sub-case is an instance of (narrow: by input shape AND
    by the shape of the two outputs), else None"""
    op = case["op"]
    if op == "x_spans" and case.get("entry") in ("two_fields", "three"):
        # NC11a: Session.get_spans(fields=...) hands out the list built by _get_spans_for_2_fields_by_spans: Python ints when the
        # kernel is compiled, numpy.int32 when it is interpreted. Same length, same values, only the element class differs.
        ra, rb = (a or {}).get("r", a), (b or {}).get("r", b)
        if isinstance(ra, dict) and isinstance(rb, dict) and ra.get("seq") == rb.get("seq") == "list" and \
                len(ra["items"]) == len(rb["items"]) and all(set(x) == {"py", "v"} and x["py"] == "int" for x in ra["items"]) and \
                all(y.get("np") == "int32" for y in rb["items"]) and [x["v"] for x in ra["items"]] == [y["v"] for y in rb["items"]]:
            return "NC11a"
    if op == "x_apply" and case.get("fn") == "last" and case.get("sdtype") == "uint64":
        # NC11b: apply_spans_last subtracts 1 from the uint64 span array: float64 under numba, which cannot subscript
        if isinstance(a, dict) and a.get("err") == "other:TypingError" and isinstance(b, dict) and "err" not in b:
            return "NC11b"
    if op == "x_map" and case.get("entry") in ("stream", "stream_indexed") and case.get("invform") == "0d":
        # NC11c: the streamed mapping drivers pass the marker into compiled kernels that unify it with map elements
        if isinstance(a, dict) and a.get("err") == "other:TypingError" and isinstance(b, dict) and "err" not in b:
            return "NC11c"
    return None


def match_finding(case, io, mode):
    bad = _LAST.get(canon_key(case))
    if not bad:
        return None
    ids = {match_one(c, a, b, mode) for c, a, b in bad}
    return ids.pop() if len(ids) == 1 else None       # a batch with an unmatched (or a second kind of) difference is reported


def case_cols(case):
    cols = []
    for k in ("col", "a", "b", "src", "lk", "rk", "index", "target", "ts"):
        if isinstance(case.get(k), dict) and "v" in case[k]:
            cols.append(case[k])
    for k in ("keys", "payload", "cols", "left", "right", "targets", "jcols"):
        if isinstance(case.get(k), list):
            cols += [c for c in case[k] if isinstance(c, dict) and ("v" in c or "o" in c or "cells" in c)]
    return cols


def col_tag(c):
    if "kind" in c:                 # import columns
        return {"int": c.get("dtype"), "float": c.get("dtype"), "bool": "bool", "leaky": "categorical", "datetime": "timestamp",
                "date": "timestamp"}.get(c["kind"], c["kind"])
    return c["dt"] if c["k"] in ("num", "fixed") else c["k"]


def nontrivial_one(case):
    return any(at_bounds(c) for c in case_cols(case) if "v" in c) or case["op"] in ("x_index", "x_filter", "x_import", "x_journal") or \
        bool(case.get("_top") or case.get("_nan_at"))


def nontrivial(case, mo):
    return any(nontrivial_one(c) for c in subcases(case))


def classify_one(case):
    op = case["op"]
    tags = set()
    for c in case_cols(case)[:4]:
        tags.add(op + ":" + dclass(col_tag(c)))
    for k in ("idtype", "fdtype", "sdtype"):
        if case.get(k):
            tags.add(op + ":" + k[0] + "=" + case[k])
    tags.add(op)
    if case.get("entry") or case.get("level"):
        tags.add(op + "/" + str(case.get("entry") or case.get("level")))
    return sorted(tags)


def classify(case, mo):
    """tags per family x dtype class x entry point; a batch contributes the tags of each of its sub-cases (with multiplicity)"""
    out = []
    for c in subcases(case):
        out += classify_one(c)
    return out


def select_for_mode(case, mode, tier):
    return True


if __name__ == "__main__":
    # python -m checks.harness.c11x <replay.json>: run the case of a replay file in both modes, print the differing sub-cases
    import json
    import sys
    sys.path.insert(0, os.path.dirname(os.path.dirname(os.path.dirname(os.path.abspath(__file__)))))
    from checks import lib
    rec = json.load(open(sys.argv[1]))
    case = {k: v for k, v in rec["case"].items() if k != "_h"}
    flat = subcases(case)
    outs = {m: lib.run_impl("c11x", flat, mode=m) for m in ("jit", "nojit")}
    n = 0
    for c, a, b in zip(flat, outs["jit"], outs["nojit"]):
        if strip(a) != strip(b) and not one_diff_ok(c, a, b, "nojit"):
            n += 1
            print("case :", json.dumps(c, ensure_ascii=True))
            print("jit  :", json.dumps(a, ensure_ascii=True)[:1500])
            print("nojit:", json.dumps(b, ensure_ascii=True)[:1500])
            print("known:", match_one(c, a, b, "nojit"))
    print(f"{n} of {len(flat)} sub-case(s) differ between the modes")
    sys.exit(1 if n else 0)
