import Exetera.Model.IndexedWriter
import Exetera.Model.Storage
import Exetera.Spec.Storage
/-!
  Counterexamples for the `asFound` variants of the C01 model: the four defects that the fix: patches in /verif/fixes
  repair (D1, D2, D32, NC01a). They stay in the tree so that a regression has its witness at hand
  (`corpus/C01/defects.json` holds the same inputs for the real code).
-/
namespace Exetera.Witness.C01

open Exetera Exetera.Storage Exetera.IndexedWriter Exetera.Spec

/-- D1: `MemoryFieldArray.write_part(empty)` after data: `new[-0:] = part` addresses the whole array → ValueError. -/
theorem d1_empty_part_raises :
    writeParts .asFound (0 : Int) (.mem none) [[1, 2], []] = .error (.valueError "could not broadcast input array") := rfl

/-- …whereas the repaired append stores `[1, 2]`. -/
theorem d1_repaired : (writeParts .repaired (0 : Int) (.mem none) [[1, 2], []]).toOption.map Arr.contents = some [1, 2] := rfl

/-- D2: an indexed field completed without any entry keeps `indices = []`: the offsets neither start at 0 nor number
    one more than the entries (`offsets [] = [0]`). -/
theorem d2_empty_field_has_no_offset :
    (writeField .asFound 2 true []).toOption.map (fun s => s.indices.contents) = some [] ∧
    offsets ([] : List Bytes) = [0] := ⟨rfl, rfl⟩

/-- D2, consequence: on that state the read-only reader's `data[:]` and `data[0:0]` fail on `index[0]`. -/
theorem d2_readonly_reader_raises :
    getAll false [] [] = .error (.oob "index[0]") ∧ getSlice false [] [] 0 0 = .error (.oob "index[0]") := ⟨rfl, rfl⟩

/-- D32: a categorical key value outside int8 cannot be stored, whatever the field's nformat. -/
theorem d32_key_overflow : storeKeyValues .asFound "int32" [1000] = .error (.other "overflow_error") := by simp [storeKeyValues, storeInts, intRange]

theorem d32_repaired : storeKeyValues .repaired "int32" [1000] = .ok [1000] := by simp [storeKeyValues, storeInts, intRange]

/-- NC01a: a memory field nothing was written to reads back as uint8, not as its declared dtype. -/
theorem nc01a_empty_read_dtype : readDtype .asFound false "int32" false = "uint8" := rfl

end Exetera.Witness.C01
