import Exetera.Lemmas.JoinFlatSession
import Exetera.Lemmas.MapValidFlat2
/-!
  C19, `Session.merge_left / merge_right / merge_inner`: `pandas.merge` is a parameter; whatever row pairs it returns (in
  range), the payload columns — numeric or indexed-string — are mapped through exactly those rows
  (`safe_map_values` / `safe_map_indexed_values` with the filter "row has a partner").
-/
namespace Exetera.JoinOld
open Exetera Exetera.Spec Exetera.MapValid

/-- a payload column of a table with `n` rows -/
def PayloadOK (n : Nat) : Payload → Prop
  | .numeric xs => xs.length = n
  | .indexed indices values => IndexedOK indices values ∧ (entries indices values).length = n

/-- the mapped payload: `Spec.mapSpec` (numeric, empty value 0) resp. `Spec.mapIndexedSpec` (indexed string, empty
    string) through the map `m` with marker `inv` -/
def MappedPayload (m : List Int) (inv : Int) : Payload → POut → Prop
  | .numeric xs, .numeric col => mapSpec xs inv 0 m = some col
  | .indexed indices values, .indexed oi ov => mapIndexedSpec indices values inv m = some (oi, ov)
  | _, _ => False

/-- payload by payload -/
def MappedPayloads (m : List Int) (inv : Int) : List Payload → List POut → Prop
  | [], [] => True
  | p :: ps, o :: os => MappedPayload m inv p o ∧ MappedPayloads m inv ps os
  | _, _ => False

theorem mapM_safeMap (m : List Int) (inv : Int) (n : Nat) (hr : InRange n m inv) :
    ∀ (ps : List Payload), (∀ p ∈ ps, PayloadOK n p) →
      ∃ outs, mapM' (safeMapPayload m (m.map (fun k => k != inv))) ps = .ok outs ∧
        MappedPayloads m inv ps outs
  | [], _ => ⟨[], rfl, trivial⟩
  | p :: rest, h => by
    obtain ⟨outs, h1, h2⟩ := mapM_safeMap m inv n hr rest (fun q hq => h q (by simp [hq]))
    have hp := h p (by simp)
    cases p with
    | numeric xs =>
      simp only [PayloadOK] at hp
      obtain ⟨col, c1, c2⟩ := safeMapValues_mapSpec xs m inv none (0 : Int) (by rw [hp]; exact hr)
      refine ⟨.numeric col :: outs, ?_, ⟨by simpa [MappedPayload] using c2, h2⟩⟩
      simp only [mapM', safeMapPayload, c1, h1]
    | indexed indices values =>
      simp only [PayloadOK] at hp
      obtain ⟨o, c1, c2⟩ := safeMapIndexedValues_mapSpec indices values m inv hp.1 (by rw [hp.2]; exact hr)
      refine ⟨.indexed o.1 o.2 :: outs, ?_, ⟨by simpa [MappedPayload] using c2, h2⟩⟩
      simp only [mapM', safeMapPayload, c1, h1]

/-- **`merge_left`**: the right payloads mapped through the rows `pandas.merge(how='left')` returned -/
theorem mergeLeft_rows (pd : List Int → List Int → List (Nat × Option Nat)) (L R : List Int) (ps : List Payload)
    (hrows : ∀ p ∈ pd L R, ∀ j, p.2 = some j → j < R.length) (hps : ∀ p ∈ ps, PayloadOK R.length p) :
    ∃ outs, mergeLeft pd L R ps = .ok outs ∧
      MappedPayloads (encR NAN_AS_INT (pd L R)) NAN_AS_INT ps outs := by
  have hfilt : (pd L R).map (fun p => p.2.isSome) = (encR NAN_AS_INT (pd L R)).map (fun k => k != NAN_AS_INT) := by
    simp only [encR, List.map_map]
    apply List.map_congr_left
    intro p _
    cases h : p.2 with
    | none => simp [encCell, h]
    | some j =>
      have : (j : Int) ≠ NAN_AS_INT := by simp only [NAN_AS_INT]; omega
      simp [encCell, h, this]
  have hr : InRange R.length (encR NAN_AS_INT (pd L R)) NAN_AS_INT := by
    intro i k hk hne
    simp only [encR, List.getElem?_map, Option.map_eq_some_iff] at hk
    obtain ⟨p, hp, rfl⟩ := hk
    cases h2 : p.2 with
    | none => simp [h2, encCell] at hne
    | some j =>
      have := hrows p (List.mem_of_getElem? hp) j h2
      simp only [encCell]
      omega
  obtain ⟨outs, h1, h2⟩ := mapM_safeMap _ NAN_AS_INT R.length hr ps hps
  refine ⟨outs, ?_, h2⟩
  simp only [mergeLeft, hfilt]
  exact h1

/-- **`merge_inner`**: both tables' payloads mapped through the row pairs `pandas.merge(how='inner')` returned (no row
    is a marker: `-1` never occurs in the maps) -/
theorem mergeInner_rows (pdi : List Int → List Int → List (Nat × Nat)) (L R : List Int) (lps rps : List Payload)
    (hrows : ∀ p ∈ pdi L R, p.1 < L.length ∧ p.2 < R.length)
    (hl : ∀ p ∈ lps, PayloadOK L.length p) (hr : ∀ p ∈ rps, PayloadOK R.length p) :
    ∃ louts routs, mergeInner pdi L R lps rps = .ok (louts, routs) ∧
      MappedPayloads ((pdi L R).map (fun p => (p.1 : Int))) (-1) lps louts ∧
      MappedPayloads ((pdi L R).map (fun p => (p.2 : Int))) (-1) rps routs := by
  have hf1 : (pdi L R).map (fun _ => true) = ((pdi L R).map (fun p => (p.1 : Int))).map (fun k => k != -1) := by
    simp only [List.map_map]
    apply List.map_congr_left
    intro p _
    have : (p.1 : Int) ≠ -1 := by omega
    simp [this]
  have hf2 : (pdi L R).map (fun _ => true) = ((pdi L R).map (fun p => (p.2 : Int))).map (fun k => k != -1) := by
    simp only [List.map_map]
    apply List.map_congr_left
    intro p _
    have : (p.2 : Int) ≠ -1 := by omega
    simp [this]
  have hr1 : InRange L.length ((pdi L R).map (fun p => (p.1 : Int))) (-1) := by
    intro i k hk _
    simp only [List.getElem?_map, Option.map_eq_some_iff] at hk
    obtain ⟨p, hp, rfl⟩ := hk
    have := (hrows p (List.mem_of_getElem? hp)).1
    omega
  have hr2 : InRange R.length ((pdi L R).map (fun p => (p.2 : Int))) (-1) := by
    intro i k hk _
    simp only [List.getElem?_map, Option.map_eq_some_iff] at hk
    obtain ⟨p, hp, rfl⟩ := hk
    have := (hrows p (List.mem_of_getElem? hp)).2
    omega
  obtain ⟨louts, a1, a2⟩ := mapM_safeMap _ (-1) L.length hr1 lps hl
  obtain ⟨routs, b1, b2⟩ := mapM_safeMap _ (-1) R.length hr2 rps hr
  refine ⟨louts, routs, ?_, a2, b2⟩
  rw [← hf1] at a1
  rw [← hf2] at b1
  simp only [mergeInner, a1, b1]

end Exetera.JoinOld
