import Exetera.Lemmas.JournalSortBase
/-! The sorted indices of `journal_table` (C17, sorting part): `argsortStable`, `sortIndex2` as "sort the row numbers by a key
    function", what the gathers return, and the link to `positions` / `history`. -/
namespace Exetera.Journal
open Exetera Exetera.Spec.Journal

/-! ### `filterMap` with a function that is defined on every element -/

theorem filterMap_eq_map_of {α β} {f : α → Option β} {g : α → β} {l : List α} (h : ∀ x, x ∈ l → f x = some (g x)) :
    l.filterMap f = l.map g := by
  induction l with
  | nil => rfl
  | cons a t ih =>
    rw [List.filterMap_cons, h a (by simp), List.map_cons, ih (fun x hx => h x (by simp [hx]))]

theorem getElem?_filterMap_all {α β} {f : α → Option β} {l : List α} (h : ∀ x, x ∈ l → (f x).isSome) (i : Nat) :
    (l.filterMap f)[i]? = l[i]?.bind f := by
  induction l generalizing i with
  | nil => rfl
  | cons a t ih =>
    obtain ⟨b, hb⟩ := Option.isSome_iff_exists.1 (h a (by simp))
    rw [List.filterMap_cons, hb]
    cases i with
    | zero => simp [hb]
    | succ i => simpa using ih (fun x hx => h x (by simp [hx])) i

theorem length_filterMap_all {α β} {f : α → Option β} {l : List α} (h : ∀ x, x ∈ l → (f x).isSome) :
    (l.filterMap f).length = l.length := by
  induction l with
  | nil => rfl
  | cons a t ih =>
    obtain ⟨b, hb⟩ := Option.isSome_iff_exists.1 (h a (by simp))
    rw [List.filterMap_cons, hb, List.length_cons, List.length_cons, ih (fun x hx => h x (by simp [hx]))]

theorem head?_filterMap_all {α β} {f : α → Option β} {l : List α} (h : ∀ x, x ∈ l → (f x).isSome) :
    (l.filterMap f).head? = l.head?.bind f := by
  cases l with
  | nil => rfl
  | cons a t =>
    obtain ⟨b, hb⟩ := Option.isSome_iff_exists.1 (h a (by simp))
    simp [hb]

theorem getLast?_filterMap_all {α β} {f : α → Option β} {l : List α} (h : ∀ x, x ∈ l → (f x).isSome) :
    (l.filterMap f).getLast? = l.getLast?.bind f := by
  rw [← List.head?_reverse, ← List.filterMap_reverse, head?_filterMap_all (by simpa using h), List.head?_reverse]

/-! ### gather -/

theorem gatherE_ok {α} {xs : List α} {p : List Nat} (h : ∀ r, r ∈ p → r < xs.length) :
    gatherE xs p = .ok (p.filterMap (xs[·]?)) := by
  induction p with
  | nil => rfl
  | cons r rs ih =>
    have hr := h r (by simp)
    simp only [gatherE, getE_of_lt _ hr, ih (fun x hx => h x (by simp [hx])), List.filterMap_cons,
      List.getElem?_eq_getElem hr]

/-- the key of row `r` (rows are always in range where this is used) -/
def keyAt (xs : List Int) (r : Nat) : Int := xs[r]?.getD 0

theorem getElem?_eq_keyAt {xs : List Int} {r : Nat} (h : r < xs.length) : xs[r]? = some (keyAt xs r) := by
  simp [keyAt, List.getElem?_eq_getElem h]

theorem gatherE_keys {xs : List Int} {p : List Nat} (h : ∀ r, r ∈ p → r < xs.length) :
    gatherE xs p = .ok (p.map (keyAt xs)) := by
  rw [gatherE_ok h, filterMap_eq_map_of (fun r hr => getElem?_eq_keyAt (h r hr))]

/-! ### sorting row numbers by a key function -/

/-- the rows `l` stably sorted by the key `g` -/
def sortRowsBy (g : Nat → Int) (l : List Nat) : List Nat := (sortStable (l.map (fun r => (g r, r)))).map (·.2)

theorem sortRowsBy_perm (g : Nat → Int) (l : List Nat) : (sortRowsBy g l).Perm l := by
  have := (sortStable_perm (l.map (fun r => (g r, r)))).map (·.2)
  simpa [sortRowsBy, List.map_map, Function.comp_def] using this

theorem mem_sortRowsBy {g : Nat → Int} {l : List Nat} {r : Nat} : r ∈ sortRowsBy g l ↔ r ∈ l :=
  (sortRowsBy_perm g l).mem_iff

theorem length_sortRowsBy (g : Nat → Int) (l : List Nat) : (sortRowsBy g l).length = l.length :=
  (sortRowsBy_perm g l).length_eq

theorem sortRowsBy_map_key (g : Nat → Int) (l : List Nat) :
    (sortRowsBy g l).map g = (sortStable (l.map (fun r => (g r, r)))).map (·.1) := by
  unfold sortRowsBy
  rw [List.map_map]
  apply List.map_congr_left
  intro p hp
  have := (sortStable_perm _).mem_iff.1 hp
  obtain ⟨r, _, rfl⟩ := List.mem_map.1 this
  rfl

theorem sortRowsBy_sorted (g : Nat → Int) (l : List Nat) : ((sortRowsBy g l).map g).Pairwise (· ≤ ·) := by
  rw [sortRowsBy_map_key, List.pairwise_map]
  exact sortStable_sorted _

theorem sortRowsBy_filter (g : Nat → Int) (q : Nat → Bool) (l : List Nat) :
    (sortRowsBy g l).filter q = sortRowsBy g (l.filter q) := by
  unfold sortRowsBy
  rw [List.filter_map, sortStable_filter, List.filter_map]
  rfl

theorem pairwise_of_mem {α} {R : α → α → Prop} {l : List α} (h : ∀ a b, a ∈ l → b ∈ l → R a b) : l.Pairwise R := by
  induction l with
  | nil => exact List.Pairwise.nil
  | cons x t ih =>
    rw [List.pairwise_cons]
    exact ⟨fun b hb => h x b (by simp) (by simp [hb]), ih (fun a b ha hb => h a b (by simp [ha]) (by simp [hb]))⟩

theorem sortRowsBy_const {g : Nat → Int} {l : List Nat} {k : Int} (h : ∀ r, r ∈ l → g r = k) : sortRowsBy g l = l := by
  unfold sortRowsBy
  rw [sortStable_of_sorted]
  · simp [List.map_map, Function.comp_def]
  · unfold KeySorted
    rw [List.pairwise_map]
    exact pairwise_of_mem (fun a b ha hb => by simp only [h a ha, h b hb]; omega)

/-! ### `argsortStable`, `positions` through `List.range` -/

theorem zipIdx_eq_range_map (xs : List Int) :
    xs.zipIdx = (List.range xs.length).map (fun r => (keyAt xs r, r)) := by
  apply List.ext_getElem?
  intro i
  rw [List.getElem?_zipIdx, List.getElem?_map]
  by_cases h : i < xs.length
  · simp [List.getElem?_range h, getElem?_eq_keyAt h]
  · have h2 : (List.range xs.length)[i]? = none := List.getElem?_eq_none (by simp; omega)
    simp [List.getElem?_eq_none (Nat.le_of_not_lt h), h2]

theorem argsortStable_eq (xs : List Int) : argsortStable xs = sortRowsBy (keyAt xs) (List.range xs.length) := by
  unfold argsortStable sortRowsBy
  rw [zipIdx_eq_range_map]

theorem positionsFrom_eq_zipIdx (k : Int) (xs : List Int) (base : Nat) :
    positionsFrom k base xs = ((xs.zipIdx base).filter (fun p => p.1 == k)).map (·.2) := by
  induction xs generalizing base with
  | nil => rfl
  | cons x t ih =>
    simp only [positionsFrom, List.zipIdx_cons, List.filter_cons, beq_iff_eq]
    split
    · simp only [List.map_cons, ih]
    · exact ih _

theorem positions_eq_filter_range (k : Int) (xs : List Int) :
    positions k xs = (List.range xs.length).filter (fun r => keyAt xs r == k) := by
  unfold positions
  rw [positionsFrom_eq_zipIdx, zipIdx_eq_range_map, List.filter_map, List.map_map]
  simp [Function.comp_def]

/-- positions in a gathered key column, mapped back through the gather index -/
theorem positionsFrom_map_back (k : Int) (g : Nat → Int) (l pre : List Nat) :
    (positionsFrom k pre.length (l.map g)).filterMap ((pre ++ l)[·]?) = l.filter (fun r => g r == k) := by
  induction l generalizing pre with
  | nil => rfl
  | cons r t ih =>
    have ih' := ih (pre ++ [r])
    simp only [List.length_append, List.length_singleton, List.append_assoc, List.singleton_append] at ih'
    simp only [List.map_cons, positionsFrom, List.filter_cons, beq_iff_eq]
    split
    · simp only [List.filterMap_cons, List.getElem?_append_right (Nat.le_refl _), Nat.sub_self,
        List.getElem?_cons_zero, ih']
    · exact ih'

theorem positions_map_back (k : Int) (g : Nat → Int) (l : List Nat) :
    (positions k (l.map g)).filterMap (l[·]?) = l.filter (fun r => g r == k) := by
  simpa [positions] using positionsFrom_map_back k g l []

theorem positions_lt {k : Int} {xs : List Int} {r : Nat} (h : r ∈ positions k xs) : r < xs.length := by
  rw [positions_eq_filter_range] at h
  exact List.mem_range.1 (List.mem_filter.1 h).1

/-! ### the two sorted indices -/

/-- `old_sorted_index` -/
def oldIndex (ids vf : List Int) : List Nat :=
  sortRowsBy (keyAt ids) (sortRowsBy (keyAt vf) (List.range vf.length))

/-- `new_sorted_index` -/
def newIndex (ids : List Int) : List Nat := sortRowsBy (keyAt ids) (List.range ids.length)

theorem mem_oldIndex {ids vf : List Int} {r : Nat} : r ∈ oldIndex ids vf ↔ r < vf.length := by
  simp [oldIndex, mem_sortRowsBy]

theorem mem_newIndex {ids : List Int} {r : Nat} : r ∈ newIndex ids ↔ r < ids.length := by
  simp [newIndex, mem_sortRowsBy]

theorem length_oldIndex (ids vf : List Int) : (oldIndex ids vf).length = vf.length := by
  simp [oldIndex, length_sortRowsBy]

theorem length_newIndex (ids : List Int) : (newIndex ids).length = ids.length := by
  simp [newIndex, length_sortRowsBy]

theorem zipIdx_map_reindex (g : Nat → Int) (l : List Nat) :
    ((l.map g).zipIdx).map (fun p => (p.1, l[p.2]?.getD 0)) = l.map (fun r => (g r, r)) := by
  apply List.ext_getElem?
  intro i
  rw [List.getElem?_map, List.getElem?_zipIdx, List.getElem?_map, List.getElem?_map]
  by_cases h : i < l.length
  · simp [List.getElem?_eq_getElem h]
  · simp [List.getElem?_eq_none (Nat.le_of_not_lt h)]

theorem sortIndex2_ok {ids vf : List Int} (hvf : vf.length = ids.length) :
    sortIndex2 ids vf = .ok (oldIndex ids vf) := by
  have hacc : ∀ r, r ∈ argsortStable vf → r < ids.length := by
    intro r hr
    rw [argsortStable_eq, mem_sortRowsBy, List.mem_range] at hr
    omega
  unfold sortIndex2
  simp only [gatherE_keys hacc, bind, Except.bind]
  have hidx : ∀ i, i ∈ argsortStable ((argsortStable vf).map (keyAt ids)) → i < (argsortStable vf).length := by
    intro i hi
    rw [argsortStable_eq, mem_sortRowsBy, List.mem_range, List.length_map] at hi
    exact hi
  rw [gatherE_ok hidx,
    filterMap_eq_map_of (g := fun i => (argsortStable vf)[i]?.getD 0)
      (fun i hi => by simp [List.getElem?_eq_getElem (hidx i hi)])]
  congr 1
  unfold oldIndex
  rw [← argsortStable_eq]
  generalize argsortStable vf = acc
  unfold argsortStable sortRowsBy
  rw [← zipIdx_map_reindex, sortStable_mapSnd (fun i => acc[i]?.getD 0), List.map_map, List.map_map]
  rfl

/-! ### the key columns after the sort -/

theorem mem_map_keyAt_of_perm {xs : List Int} {l : List Nat} (h : l.Perm (List.range xs.length)) (x : Int) :
    x ∈ l.map (keyAt xs) ↔ x ∈ xs := by
  rw [List.mem_map, List.mem_iff_getElem]
  constructor
  · rintro ⟨r, hr, rfl⟩
    have hr' := List.mem_range.1 (h.mem_iff.1 hr)
    exact ⟨r, hr', by simp [keyAt, List.getElem?_eq_getElem hr']⟩
  · rintro ⟨r, hr, rfl⟩
    exact ⟨r, h.mem_iff.2 (List.mem_range.2 hr), by simp [keyAt, List.getElem?_eq_getElem hr]⟩

theorem oldIndex_perm {ids vf : List Int} (hvf : vf.length = ids.length) :
    (oldIndex ids vf).Perm (List.range ids.length) := by
  unfold oldIndex
  rw [← hvf]
  exact (sortRowsBy_perm _ _).trans (sortRowsBy_perm _ _)

theorem newIndex_perm (ids : List Int) : (newIndex ids).Perm (List.range ids.length) := sortRowsBy_perm _ _

theorem newKeys_perm (ids : List Int) : ((newIndex ids).map (keyAt ids)).Perm ids := by
  have h := (newIndex_perm ids).map (keyAt ids)
  refine h.trans ?_
  have : (List.range ids.length).map (keyAt ids) = ids := by
    apply List.ext_getElem?
    intro i
    rw [List.getElem?_map]
    by_cases h : i < ids.length
    · simp [List.getElem?_range h, getElem?_eq_keyAt h]
    · have h2 : (List.range ids.length)[i]? = none := List.getElem?_eq_none (by simp; omega)
      simp [List.getElem?_eq_none (Nat.le_of_not_lt h), h2]
  rw [this]

theorem newKeys_strict {ids : List Int} (hu : ids.Nodup) : ((newIndex ids).map (keyAt ids)).Pairwise (· < ·) := by
  have h1 : ((newIndex ids).map (keyAt ids)).Pairwise (· ≤ ·) := sortRowsBy_sorted _ _
  have h2 := List.nodup_iff_pairwise_ne.1 ((newKeys_perm ids).nodup_iff.2 hu)
  exact List.Pairwise.imp₂ (fun a b hab hne => by omega) h1 h2

/-! ### the rows of a key in the sorted indices -/

theorem oldIndex_filter (ids vf : List Int) (k : Int) :
    (oldIndex ids vf).filter (fun r => keyAt ids r == k) =
      sortRowsBy (keyAt vf) ((List.range vf.length).filter (fun r => keyAt ids r == k)) := by
  unfold oldIndex
  rw [sortRowsBy_filter, sortRowsBy_const (k := k) (fun r hr => by simpa using (List.mem_filter.1 hr).2),
    sortRowsBy_filter]

theorem history_eq {ids vf : List Int} (hvf : vf.length = ids.length) (k : Int) :
    history ids vf k = (oldIndex ids vf).filter (fun r => keyAt ids r == k) := by
  rw [oldIndex_filter, hvf, ← positions_eq_filter_range]
  unfold history sortRowsBy
  rw [sortByTime_eq, filterMap_eq_map_of (g := fun r => (keyAt vf r, r))]
  intro r hr
  have := positions_lt hr
  rw [getElem?_eq_keyAt (by omega)]
  rfl

theorem newIndex_filter (ids : List Int) (k : Int) :
    (newIndex ids).filter (fun r => keyAt ids r == k) = positions k ids := by
  unfold newIndex
  rw [sortRowsBy_filter, sortRowsBy_const (k := k) (fun r hr => by simpa using (List.mem_filter.1 hr).2),
    positions_eq_filter_range]

end Exetera.Journal
