import Exetera.Lemmas.JoinTail
/-! Whole-driver theorems for the two general variants. -/
namespace Exetera.Join
open Exetera Exetera.Spec

variable {emit : Bool} {L R : List Int} {cs : Nat} {inv : Int}

theorem rest_all_unmatched (hL : Sorted L) (hR : Sorted R) :
    ∀ (n I : Nat), L.length - I = n → (I < L.length → AllBelow L R I) → ∀ p ∈ rest L R I, p.2 = none := by
  intro n
  induction n with
  | zero =>
    intro I hn _ p hp
    rw [rest_of_ge L R (by omega)] at hp
    cases hp
  | succ n ih =>
    intro I hn hb p hp
    have hI : I < L.length := by omega
    rw [rest_allBelow hR hI (hb hI)] at hp
    rcases List.mem_cons.mp hp with h | h
    · rw [h]
    · exact ih (I + 1) (by omega) (fun _ => (hb hI).succ hL) p h

theorem sel_false_eq_nil {rows : List (Nat × Option Nat)} (h : ∀ p ∈ rows, p.2 = none) : sel false rows = [] := by
  simp only [sel, Bool.false_eq_true, if_false, List.filter_eq_nil_iff]
  intro p hp
  rw [h p hp]; simp

/-- initial driver state -/
theorem init_inv (hcs : 0 < cs) :
    ∃ lch rch, fetchChunk (gvariant emit).ltrim L 0 cs = .ok lch ∧ fetchChunk (gvariant emit).rtrim R 0 cs = .ok rch ∧
      MInv emit L R cs inv { lch := lch, rch := rch, k := {} } ∧
      gmu emit L R { lch := lch, rch := rch, k := {} } ≤ L.length + R.length + 2 * (sel emit (leftJoin L R)).length + 1 := by
  obtain ⟨lch, hl1, hl2, hl3, hl4⟩ := fetchChunk_ok (gvariant emit).ltrim L 0 cs hcs (Nat.zero_le _)
  obtain ⟨rch, hr1, hr2, hr3, hr4⟩ := fetchChunk_ok (gvariant emit).rtrim R 0 cs hcs (Nat.zero_le _)
  refine ⟨lch, rch, hl1, hr1, ⟨⟨hl3, hr3, hl4 (gvariant_ltrim emit), hr4 (gvariant_rtrim emit), Nat.zero_le _, Nat.zero_le _,
    rfl, Nat.zero_le _, ?_, ?_, ?_, ?_⟩, ?_, ?_, rfl⟩, ?_⟩
  · simp [pendRows, D.I, hl2, rest_zero]
  · simp [pendRows, D.I, hl2, rest_zero]
  · intro _ j b a hj; simp [D.J, hr2] at hj
  · intro h; cases h
  · intro h; have := hl3.nonempty; simp only [] at h ⊢; omega
  · intro h; have := hr3.nonempty; simp only [] at h ⊢; omega
  · simp only [gmu, D.I, D.J]; simp; omega

/-- what is known when the main loop stops -/
theorem main_exit {d : D} (hm : MInv emit L R cs inv d) (hg : mainGuard L R d = false) :
    d.k.inner = false ∧ (d.I < L.length → AllBelow L R d.I) := by
  have hlo := hm.g.lok.lo_le
  have hlh := hm.g.lok.hi_le
  have hro := hm.g.rok.lo_le
  have hrh := hm.g.rok.hi_le
  have hng : ¬ (d.k.i + d.lch.lo < L.length ∧ d.k.j + d.rch.lo < R.length) := by
    intro h
    have : mainGuard L R d = true := by simp [mainGuard, h.1, h.2]
    rw [this] at hg; cases hg
  have hni : d.k.inner = false := by
    cases h : d.k.inner with
    | false => rfl
    | true =>
      have hb := hm.g.blk h
      have := hb.i_in; have := hb.j_in; have := hb.n_pos; have := hb.m_pos
      exfalso; apply hng; constructor <;> omega
  refine ⟨hni, ?_⟩
  intro hI j b a hj hb ha
  have hJ : R.length ≤ d.J := by
    simp only [D.I, D.J] at *
    apply Decidable.byContradiction
    intro hc
    apply hng; constructor <;> omega
  exact hm.g.h1 hni j b a (by omega) hb ha

/-- `generate_ordered_map_to_{left,inner}_streamed` return the relational join for every chunk size -/
theorem general_streamed (hcs : 0 < cs) (hL : Sorted L) (hR : Sorted R) (fuel : Nat)
    (hfuel : L.length + R.length + 2 * (sel emit (leftJoin L R)).length + 1 ≤ fuel) :
    ∃ calls, streamed (gvariant emit) fuel cs inv L R =
      .ok ⟨encL (sel emit (leftJoin L R)), encR inv (sel emit (leftJoin L R)), calls⟩ := by
  obtain ⟨lch, rch, hf1, hf2, hm0, hg0⟩ := init_inv (emit := emit) (L := L) (R := R) (inv := inv) hcs
  -- main loop
  obtain ⟨d1, hw1, hm1, hgf1⟩ := whileE_rule (mainGuard L R) (mainBody (gvariant emit) L R cs inv)
    (MInv emit L R cs inv) (gmu emit L R)
    (fun d hm hg => main_step hcs hL hR d hm hg) fuel _ hm0 (by omega)
  obtain ⟨hni, hbelow⟩ := main_exit hm1 hgf1
  have hlb1 : d1.k.lb = [] := by
    have := hm1.g.blen; rw [hm1.flushed] at this; simpa using this
  cases emit with
  | false =>
    have hnil : sel false (pendRows L R d1) = [] := by
      apply sel_false_eq_nil
      simp only [pendRows, hni]
      exact rest_all_unmatched hL hR _ _ rfl hbelow
    have hoL := hm1.g.outL
    have hoR := hm1.g.outR
    rw [hnil, hlb1] at hoL
    rw [hnil, hm1.flushed] at hoR
    refine ⟨d1.calls, ?_⟩
    simp only [streamed, hf1, hf2, hw1, bind, Except.bind, pure, Except.pure]
    simp [gvariant, Variant.isLeft, Variant.hasL] at hoL hoR ⊢
    simp [encL, encR] at hoL hoR
    exact ⟨hoL, hoR⟩
  | true =>
    have ht1 : TTop L R cs inv d1 := by
      refine ⟨⟨hm1.g.lok.lo_le, hm1.g.lok.hi_le, hm1.g.ile, hm1.g.blen, hm1.g.bcap, ?_, ?_, hbelow⟩, hm1.li, hm1.flushed⟩
      · have := hm1.g.outL; simpa [pendRows, hni, sel] using this
      · have := hm1.g.outR; simpa [pendRows, hni, sel] using this
    obtain ⟨d2, hw2, ht2, hgf2⟩ := whileE_rule (tailGuard L) (tailBody L R cs inv)
      (TTop L R cs inv) (fun d => L.length - d.I)
      (fun d ht hg => tail_step hcs hL hR d ht hg) fuel _ ht1 (by omega)
    have hI2 : L.length ≤ d2.I := by
      simp only [tailGuard] at hgf2
      have := of_decide_eq_false hgf2
      simp only [D.I]; omega
    have hlb2 : d2.k.lb = [] := by
      have := ht2.t.blen; rw [ht2.flushed] at this; simpa using this
    have hoL := ht2.t.outL
    have hoR := ht2.t.outR
    rw [rest_of_ge L R hI2, hlb2] at hoL
    rw [rest_of_ge L R hI2, ht2.flushed] at hoR
    refine ⟨d2.calls, ?_⟩
    simp only [streamed, hf1, hf2, hw1, bind, Except.bind, pure, Except.pure]
    simp [gvariant, Variant.isLeft, Variant.hasL, hw2, sel] at hoL hoR ⊢
    simp [encL, encR] at hoL hoR
    exact ⟨hoL, hoR⟩

end Exetera.Join
