import Exetera.Model.Basic
/-!
  Model of span concatenation:

    exetera/core/operations.py  `_apply_spans_concat_2`   (`@exetera_njit` kernel)          → `kernel`
    exetera/core/session.py     `Session.apply_spans_concat` (batch loop around the kernel)   → `applySpansConcat`

  Conventions
  * The alphabet `α` is any type with decidable equality (the kernel only compares bytes with `separator` and
    `delimiter`); the driver instantiates it with `Nat` (bytes). Offsets and span boundaries are `Nat` (the real
    arrays are int64 and non-negative; `e_end - e_start > 0` is rendered `e_end > e_start`, `range(a, b)` has
    `b - a` iterations in truncated subtraction, exactly Python's empty range for `b ≤ a`).
  * The two reusable output buffers are modelled by the prefix written in the current call: every write to
    `dest_values` is `dest_values[d_index_v + delta] = x; delta += 1` with `d_index_v + delta` starting at 0, every
    write to `dest_index` is `dest_index[d_index_i] = …; d_index_i += 1`, and the caller only ever reads
    `dest_index[:index_i]` / `dest_values[:index_v]`. So `Buf.vb` is `dest_values[:d_index_v + delta]`, `Buf.ib` is
    `dest_index[:d_index_i]`, a write is `push` with the capacity check `length < cap` (→ `Err.oob`, C10), and the stale
    content beyond the prefix is never observed. In the first batch (`sp_start == 0`) `d_index_i` starts at 1 and
    `dest_index[0]` is what the caller allocated (`np.zeros` → 0): `Buf.ib` starts as `[index0]`.
  * Every subscript of the kernel goes through `getE` / `pushV` / the `capI` check.
  * The two textually identical "scan for comma/quote, then copy with quotes doubled" blocks of the kernel (single
    entry case and multi entry case) share `scanFlags` / `emitBody`.
  * `Variant.asFound` mirrors the code before the three `fix:` patches (D25: `dest_start_v` = size of the previous
    batch; NC16a: index buffer and limit one short; NC16b: value buffer not sized for the longest span);
    `Variant.repaired` is the code with the patches applied.
-/
namespace Exetera.Concat

open Exetera

variable {α : Type} [DecidableEq α]

/-- results of the model can be compared by `decide` (used by the witness theorems and the examples) -/
instance decEqExcept {ε β : Type} [DecidableEq ε] [DecidableEq β] : DecidableEq (Except ε β)
  | .ok a, .ok b => if h : a = b then isTrue (by rw [h]) else isFalse (by intro h'; cases h'; exact h rfl)
  | .error a, .error b => if h : a = b then isTrue (by rw [h]) else isFalse (by intro h'; cases h'; exact h rfl)
  | .ok _, .error _ => isFalse (by intro h; cases h)
  | .error _, .ok _ => isFalse (by intro h; cases h)

/-- `dest_values[d_index_v + delta] = x; delta += 1` -/
def pushV (cap : Nat) (vb : List α) (x : α) (site : String) : Except Err (List α) :=
  if vb.length < cap then .ok (vb ++ [x]) else .error (.oob site)

/-- `for i_c in range(a, a+n): if src_values[i_c] == separator: comma = True elif … == delimiter: quotes = True` -/
def scanFlags (vals : List α) (sep delim : α) : Nat → Nat → Bool → Bool → Except Err (Bool × Bool)
  | 0, _, c, q => .ok (c, q)
  | n + 1, i, c, q =>
    match getE vals i "src_values[i_c]" with
    | .error e => .error e
    | .ok x =>
      if x = sep then scanFlags vals sep delim n (i + 1) true q
      else if x = delim then scanFlags vals sep delim n (i + 1) c true
      else scanFlags vals sep delim n (i + 1) c q

/-- `for i_c in range(a, a+n): if src_values[i_c] == delimiter: emit delimiter; emit src_values[i_c]` -/
def copyEsc (vals : List α) (delim : α) (cap : Nat) : Nat → Nat → List α → Except Err (List α)
  | 0, _, vb => .ok vb
  | n + 1, i, vb =>
    match getE vals i "src_values[i_c]" with
    | .error e => .error e
    | .ok x =>
      if x = delim then
        match pushV cap vb delim "dest_values[esc]" with
        | .error e => .error e
        | .ok vb1 =>
          match pushV cap vb1 x "dest_values[copy]" with
          | .error e => .error e
          | .ok vb2 => copyEsc vals delim cap n (i + 1) vb2
      else
        match pushV cap vb x "dest_values[copy]" with
        | .error e => .error e
        | .ok vb1 => copyEsc vals delim cap n (i + 1) vb1

/-- opening quote if flagged, escaped copy of `src_values[a:b]`, closing quote if flagged -/
def emitBody (vals : List α) (delim : α) (cap : Nat) (quoted : Bool) (a b : Nat) (vb : List α) :
    Except Err (List α) :=
  match (if quoted then pushV cap vb delim "dest_values[open]" else .ok vb) with
  | .error e => .error e
  | .ok vb1 =>
    match copyEsc vals delim cap (b - a) a vb1 with
    | .error e => .error e
    | .ok vb2 => if quoted then pushV cap vb2 delim "dest_values[close]" else .ok vb2

/-- `for e in range(sp_cur, sp_next): if src_index[e+1] - src_index[e] > 0: non_empties += 1` -/
def countNonEmpty (idx : List Nat) : Nat → Nat → Nat → Except Err Nat
  | 0, _, acc => .ok acc
  | n + 1, e, acc =>
    match getE idx e "src_index[e]", getE idx (e + 1) "src_index[e+1]" with
    | .error er, _ => .error er
    | .ok _, .error er => .error er
    | .ok a, .ok b => countNonEmpty idx n (e + 1) (if b > a then acc + 1 else acc)

/-- the `non_empties > 1` branch: `for e in range(sp_cur, sp_next)` with the carried `prev_empty` -/
def multiLoop (idx : List Nat) (vals : List α) (sep delim : α) (cap spCur : Nat) :
    Nat → Nat → Bool → List α → Except Err (List α)
  | 0, _, _, vb => .ok vb
  | n + 1, e, prevEmpty, vb =>
    match getE idx e "src_index[e]", getE idx (e + 1) "src_index[e+1]" with
    | .error er, _ => .error er
    | .ok _, .error er => .error er
    | .ok a, .ok b =>
      let curEmpty := b == a
      match scanFlags vals sep delim (b - a) a false false with
      | .error er => .error er
      | .ok (comma, quotes) =>
        match (if !prevEmpty && !curEmpty && decide (e > spCur) then pushV cap vb sep "dest_values[sep]"
               else .ok vb) with
        | .error er => .error er
        | .ok vb1 =>
          match emitBody vals delim cap (comma || quotes) a b vb1 with
          | .error er => .error er
          | .ok vb2 => multiLoop idx vals sep delim cap spCur n (e + 1) (if curEmpty then prevEmpty else false) vb2

/-- arguments of one `_apply_spans_concat_2` call -/
structure Params (α : Type) where
  spans : List Nat
  idx : List Nat          -- src_index
  vals : List α           -- src_values
  sep : α
  delim : α
  capI : Nat              -- len(dest_index)
  capV : Nat              -- len(dest_values)
  maxI : Nat              -- max_index_i
  maxV : Nat              -- max_value_i
  destStartV : Nat        -- dest_start_v
  index0 : Nat := 0       -- dest_index[0] as allocated by the caller

/-- the written prefixes of `dest_index` and `dest_values` -/
structure Buf (α : Type) where
  ib : List Nat
  vb : List α
  deriving Repr, DecidableEq

/-- the `non_empties` computation of one span: a one-entry span is decided from its two offsets, a longer one
    is counted, an empty (or inverted) one has none -/
def spanNonEmpties (P : Params α) (spCur spNext curI nextI : Nat) : Except Err Nat :=
  if spNext = spCur + 1 then .ok (if nextI > curI then 1 else 0)
  else if spNext > spCur + 1 then countNonEmpty P.idx (spNext - spCur) spCur 0
  else .ok 0

/-- the `if non_empties == 1: … elif non_empties > 1: …` block: what one span appends to `dest_values` -/
def spanEmit (P : Params α) (spCur spNext curI nextI nonEmpties : Nat) (vb : List α) : Except Err (List α) :=
  if nonEmpties = 1 then
    match scanFlags P.vals P.sep P.delim (nextI - curI) curI false false with
    | .error e => .error e
    | .ok (comma, quotes) => emitBody P.vals P.delim P.capV (comma || quotes) curI nextI vb
  else if nonEmpties > 1 then
    multiLoop P.idx P.vals P.sep P.delim P.capV spCur (spNext - spCur) spCur true vb
  else .ok vb

/-- body of `for s in range(sp_start, sp_end)` up to and including `d_index_i += 1` -/
def oneSpan (P : Params α) (s : Nat) (st : Buf α) : Except Err (Buf α) :=
  match getE P.spans s "spans[s]", getE P.spans (s + 1) "spans[s+1]" with
  | .error e, _ => .error e
  | .ok _, .error e => .error e
  | .ok spCur, .ok spNext =>
    match getE P.idx spCur "src_index[sp_cur]", getE P.idx spNext "src_index[sp_next]" with
    | .error e, _ => .error e
    | .ok _, .error e => .error e
    | .ok curI, .ok nextI =>
      match spanNonEmpties P spCur spNext curI nextI with
      | .error e => .error e
      | .ok nonEmpties =>
        match spanEmit P spCur spNext curI nextI nonEmpties st.vb with
        | .error e => .error e
        | .ok vb' =>
          -- `d_index_v += delta; dest_index[d_index_i] = d_index_v + dest_start_v; d_index_i += 1`
          if st.ib.length < P.capI then .ok ⟨st.ib ++ [vb'.length + P.destStartV], vb'⟩
          else .error (.oob "dest_index[d_index_i]")

/-- `for s in range(sp_start, sp_end): …; if d_index_i >= max_index_i or d_index_v >= max_value_i: break`;
    returns the kernel's `s + 1` -/
def spanLoop (P : Params α) : Nat → Nat → Buf α → Except Err (Nat × Buf α)
  | 0, s, st => .ok (s, st)
  | n + 1, s, st =>
    match oneSpan P s st with
    | .error e => .error e
    | .ok st' =>
      if st'.ib.length ≥ P.maxI || st'.vb.length ≥ P.maxV then .ok (s + 1, st')
      else spanLoop P n (s + 1) st'

/-- `_apply_spans_concat_2`: returns `(s + 1, dest_index[:d_index_i], dest_values[:d_index_v])`.
    With an empty range the Python function reads the unbound loop variable `s`. -/
def kernel (P : Params α) (spStart : Nat) : Except Err (Nat × Buf α) :=
  let spEnd := P.spans.length - 1
  if spStart < spEnd then
    spanLoop P (spEnd - spStart) spStart ⟨if spStart = 0 then [P.index0] else [], []⟩
  else .error (.other "UnboundLocalError")

/-! ### `Session.apply_spans_concat` -/

inductive Variant where
  | asFound | repaired
  deriving Repr, DecidableEq, Inhabited

/-- `dest.indices`, `dest.values` (append-only, C01) -/
structure Dest (α : Type) where
  indices : List Nat
  values : List α
  deriving Repr, DecidableEq

/-- loop variables of the batch loop; `calls` counts kernel calls (a trace, not part of the result) -/
structure S (α : Type) where
  s : Nat := 0
  indexV : Nat := 0        -- `index_v` of the previous batch
  total : Nat := 0         -- running number of value bytes written (`dest_start_v` after the fix)
  dest : Dest α := ⟨[], []⟩
  calls : Nat := 0

/-- number of slots of `dest_index` and `max_index_i` -/
def indexCap : Variant → Nat → Nat
  | .asFound, srcChunk => srcChunk
  | .repaired, srcChunk => srcChunk + 1

def batchParams (v : Variant) (sep delim : α) (spans idx : List Nat) (vals : List α) (srcChunk valueCap : Nat)
    (st : S α) : Params α :=
  { spans := spans, idx := idx, vals := vals, sep := sep, delim := delim,
    capI := indexCap v srcChunk, capV := valueCap,
    maxI := indexCap v srcChunk, maxV := valueCap / 2,
    destStartV := (match v with | .asFound => st.indexV | .repaired => st.total),
    index0 := 0 }

/-- one iteration of `while s < len(spans) - 1` -/
def batchBody (v : Variant) (sep delim : α) (spans idx : List Nat) (vals : List α) (srcChunk valueCap : Nat)
    (st : S α) : Except Err (S α) :=
  match kernel (batchParams v sep delim spans idx vals srcChunk valueCap st) st.s with
  | .error e => .error e
  | .ok (s', buf) =>
    let dest : Dest α :=
      if buf.ib.length > 0 || buf.vb.length > 0 then ⟨st.dest.indices ++ buf.ib, st.dest.values ++ buf.vb⟩
      else st.dest
    .ok { s := s', indexV := buf.vb.length, total := st.total + buf.vb.length, dest := dest, calls := st.calls + 1 }

def batchGuard (spans : List Nat) (st : S α) : Bool := decide (st.s < spans.length - 1)

/-- the batch loop; `valueCap = len(dest_values)` -/
def runBatches (v : Variant) (sep delim : α) (spans idx : List Nat) (vals : List α) (srcChunk valueCap : Nat) :
    Except Err (S α) :=
  whileE (batchGuard spans) (batchBody v sep delim spans idx vals srcChunk valueCap) spans.length {}

/-- `2 * (src_index[b] - src_index[a]) + 3 * (b - a)`: every byte doubled, two quotes and a separator per entry — an
    upper bound of the output length of the span `[a, b)`. Numpy evaluates it in int64: it is negative for an inverted
    span, so the model uses `Int`. Fancy indexing raises IndexError for a boundary outside `src_index`. -/
def spanBound (idx : List Nat) (p : Nat × Nat) : Except Err Int :=
  match getE idx p.2 "src_index[span_ends]", getE idx p.1 "src_index[span_starts]" with
  | .error e, _ => .error e
  | .ok _, .error e => .error e
  | .ok ib, .ok ia => .ok (2 * ((ib : Int) - (ia : Int)) + 3 * ((p.2 : Int) - (p.1 : Int)))

/-- `np.max` of the span bounds, `m` being the maximum so far -/
def longestBound (idx : List Nat) : List (Nat × Nat) → Int → Except Err Int
  | [], m => .ok m
  | p :: rest, m =>
    match spanBound idx p with
    | .error e => .error e
    | .ok w => longestBound idx rest (if w > m then w else m)

/-- `len(dest_values)`. As found: `dest_chunksize * chunksize_mult`. Repaired (NC16b): grown to twice the longest
    span bound when that is larger (`if len(spans) > 1: longest = …; if 2 * longest > len(dest_values): …`). -/
def valueCap (v : Variant) (spans idx : List Nat) (destChunk mult : Nat) : Except Err Nat :=
  match v with
  | .asFound => .ok (destChunk * mult)
  | .repaired =>
    match spans.zip spans.tail with
    | [] => .ok (destChunk * mult)
    | p :: rest =>
      match spanBound idx p with
      | .error e => .error e
      | .ok w =>
        match longestBound idx rest w with
        | .error e => .error e
        | .ok longest =>
          .ok (if 2 * longest > ((destChunk * mult : Nat) : Int) then (2 * longest).toNat else destChunk * mult)

/-- `Session.apply_spans_concat(spans, target, dest, src_chunksize, dest_chunksize, chunksize_mult)` on a fresh `dest`;
    `idx`, `vals` are `target.indices[:]`, `target.values[:]`. (`max_value_i` is `len(dest_values) // 2` in either
    branch of the repaired sizing.) Returns the final loop state (`dest` and the number of kernel calls). -/
def applySpansConcatS (v : Variant) (sep delim : α) (spans idx : List Nat) (vals : List α)
    (srcChunk destChunk mult : Nat) : Except Err (S α) :=
  match valueCap v spans idx destChunk mult with
  | .error e => .error e
  | .ok cap => runBatches v sep delim spans idx vals srcChunk cap

def applySpansConcat (v : Variant) (sep delim : α) (spans idx : List Nat) (vals : List α)
    (srcChunk destChunk mult : Nat) : Except Err (Dest α) :=
  match applySpansConcatS v sep delim spans idx vals srcChunk destChunk mult with
  | .error e => .error e
  | .ok st => .ok st.dest

end Exetera.Concat
