import Exetera.Model.Journal
/-! The total-correctness rule for `forE`: an invariant indexed by the loop counter. -/
namespace Exetera.Journal
open Exetera

theorem forE_rule {σ} (body : Nat → σ → Except Err σ) (Inv : Nat → σ → Prop) :
    ∀ (n i₀ : Nat) (s : σ),
      (∀ i s, i₀ ≤ i → i < i₀ + n → Inv i s → ∃ s', body i s = .ok s' ∧ Inv (i + 1) s') →
      Inv i₀ s → ∃ s', forE body n i₀ s = .ok s' ∧ Inv (i₀ + n) s' := by
  intro n
  induction n with
  | zero => intro i₀ s _ h; exact ⟨s, rfl, h⟩
  | succ n ih =>
    intro i₀ s step h
    obtain ⟨s1, hb, h1⟩ := step i₀ s (Nat.le_refl _) (by omega) h
    obtain ⟨s2, hf, h2⟩ := ih (i₀ + 1) s1 (fun i s hi hlt => step i s (by omega) (by omega)) h1
    refine ⟨s2, ?_, ?_⟩
    · simp only [forE, hb, hf]
    · have : i₀ + (n + 1) = i₀ + 1 + n := by omega
      rw [this]; exact h2

theorem getI_of_nat {α} {xs : List α} {r : Nat} (site : String) (h : r < xs.length) :
    getI xs (r : Int) site = .ok xs[r] := by
  unfold getI
  rw [if_pos (Int.natCast_nonneg r)]
  simp [getE_of_lt site h]

end Exetera.Journal
