import Exetera.Lemmas.CatalogueReturns
/-! When a call returns, part 2: every client call returns exactly when the abstract pre-condition `specOk` holds. -/
namespace Exetera.Catalogue

/-- what is known about the field object a call is handed -/
inductive Resolved (s : State) (r : FRef) : Prop where
  /-- it cannot be used: the look-up fails, or the object is closed / invalid — and abstractly there is no such field -/
  | dead (hlive : srcLive (refPos s r) (absH5 s) = false)
         (h : (∃ e, getField s r = .error e) ∨ ∃ h e, getField s r = .ok h ∧ ensureValid s h = .error e)
  /-- it wraps the group linked as column `k` of frame `(d, fn)` = group `g` -/
  | live (h : Nat) (hd : Handle) (k : Name) (d : Nat) (fn : Name) (g : Nat) (hr : getField s r = .ok h)
         (hv : ensureValid s h = .ok hd) (hn : fieldName s h = .ok k) (hpos : refPos s r = some ⟨d, fn, k⟩)
         (hf : ((d, fn), g) ∈ s.file) (ho : hd.owner = some g) (hl : ((g, k), hd.oid) ∈ s.links)
         (hlive : srcLive (refPos s r) (absH5 s) = true)

theorem resolve {s : State} (hI : Inv s) (r : FRef) (hz : ∀ h, getField s r = .ok h → Linked s h) : Resolved s r := by
  cases hr : getField s r with
  | error e =>
    refine .dead ?_ (Or.inl ⟨e, hr⟩)
    cases r with
    | byHandle h =>
      simp only [getField] at hr
      split at hr
      · cases hr
      · next hlt =>
        have : s.handles[h]? = none := List.getElem?_eq_none (by omega)
        simp only [refPos, this, Option.bind_none, srcLive]
    | byName d fn c =>
      simp only [refPos, srcLive]
      have : (absH5 s).hasCol d fn c = false := by
        simp only [getField] at hr
        split at hr
        · next e' hg => exact hasCol_noframe hI (getFrame_err hg) c
        · next g hg =>
          split at hr
          · cases hr
          · next hl =>
            rw [hasCol_eq hI (getFrame_file hI hg)]
            simpa using look_eq_none.1 hl
      exact this
  | ok h =>
    cases hv : ensureValid s h with
    | error e =>
      refine .dead ?_ (Or.inr ⟨h, e, hr, hv⟩)
      cases r with
      | byName d fn c =>
        exfalso
        simp only [getField] at hr
        split at hr
        · cases hr
        · next g hg =>
          split at hr
          · next h0 hl0 =>
            cases hr
            obtain ⟨hd0, h1, h2, h3, _⟩ := hI.sameObj _ _ (look_mem hl0)
            unfold ensureValid at hv
            simp [h1, h2, h3] at hv
          · cases hr
      | byHandle h' =>
        simp only [getField] at hr
        split at hr
        · cases hr
          cases hh : s.handles[h]? with
          | none => simp only [refPos, hh, Option.bind_none, srcLive]
          | some hd =>
            simp only [refPos, hh, Option.bind_some]
            cases hc : hd.closed with
            | true => simp only [if_true, srcLive]
            | false =>
              simp only [Bool.false_eq_true, if_false]
              -- open and refused, hence invalid, hence its group is not linked any more
              have hinv : hd.valid = false := by
                unfold ensureValid at hv
                simp only [hh, hc, Bool.false_eq_true, if_false] at hv
                cases hval : hd.valid with
                | false => rfl
                | true => simp [hval] at hv
              have : keyOfVal s.links hd.oid = none := by
                cases hk : keyOfVal s.links hd.oid with
                | none => rfl
                | some k =>
                  have := (hI.handleLink h hd hh hc k ((keyOfVal_eq_some hI.oidInj).1 hk)).1
                  rw [hinv] at this; cases this
              simp only [posOfOid, this, Option.bind_none, srcLive]
        · cases hr
    | ok hd =>
      obtain ⟨k, hn⟩ := hz h hr hd hv
      obtain ⟨d, fn, g, hpos, hf, ho, hl⟩ := getField_pos hI hr hv hn
      refine .live h hd k d fn g hr hv hn hpos hf ho hl ?_
      simp only [hpos, srcLive, Cat.col, absH5_frame hI hf, Option.bind_some]
      rw [frameH5_isSome hI.toInvCore]
      simpa using (hI.sameKeys _).2 (mem_keys_of_mem hl)

theorem isOk_withFrame_err {α} {s : State} {d : Nat} {fn : Name} {k : Nat → Res α} {e : Err} (h : getFrame s d fn = .error e) :
    (withFrame s d fn k).isOk = false := by
  simp only [withFrame, h, Res.isOk]

theorem isOk_withFrame_ok {α} {s : State} {d : Nat} {fn : Name} {k : Nat → Res α} {g : Nat} (h : getFrame s d fn = .ok g) :
    withFrame s d fn k = k g := by
  simp only [withFrame, h]

theorem isOk_withField_ok {α} {s : State} {r : FRef} {k : Nat → Res α} {h : Nat} (hr : getField s r = .ok h) :
    withField s r k = k h := by
  simp only [withField, hr]

theorem fieldContent_of_valid {s : State} (hI : InvCore s) {h : Nat} {hd : Handle} (hv : ensureValid s h = .ok hd) :
    ∃ c, fieldContent s h = .ok c := by
  have hlt := hI.handleOidLt h hd (ensureValid_ok hv).1
  unfold fieldContent
  simp only [hv, List.getElem?_eq_getElem hlt]
  exact ⟨_, rfl⟩

theorem copyField_isOk {s : State} (hI : InvCore s) {h : Nat} {hd : Handle} (hv : ensureValid s h = .ok hd) (g : Nat) (n : Name) :
    (copyField .repaired s h g n).isOk = !decide ((g, n) ∈ keys s.cols) := by
  obtain ⟨c, hc⟩ := fieldContent_of_valid hI hv
  unfold copyField
  simp only [hc]
  exact addField_isOk hI g n c

/-- across frames: once the copy is made nothing can fail -/
theorem moveField_cross_isOk {s : State} (hI : InvCore s) {h g : Nat} {n : Name} {hd : Handle} (hg : g ∈ s.file.map (·.2))
    (hv : ensureValid s h = .ok hd) (hne : hd.owner ≠ some g) (hz : Linked s h) :
    (moveField .repaired s h g n).isOk = !decide ((g, n) ∈ keys s.cols) := by
  have hcp := copyField_isOk hI hv g n
  have hek := moveField_errKeeps hI h g n hg hz
  unfold moveField at hek ⊢
  simp only [hv, hne, if_false] at hek ⊢
  cases hc : copyField .repaired s h g n with
  | err e s1 => rw [hc] at hcp; simp only [Res.andThen]; exact hcp
  | ok a s1 =>
    rw [hc] at hcp hek
    rw [← hcp]
    have hnot : (g, n) ∉ keys s.cols := by
      intro hm; simp [hm, Res.isOk] at hcp
    have hnew : (g, n) ∈ keys s1.cols := by
      unfold copyField at hc
      split at hc
      · cases hc
      · unfold addField at hc
        split at hc
        · cases hc
        split at hc
        · cases hc
        simp only [Res.ok.injEq] at hc
        obtain ⟨_, rfl⟩ := hc
        simp
    have hI1 : InvCore s1 := by have := copyField_inv hI h g n hg; rw [hc] at this; exact this
    -- a failure after the copy would leave a changed state behind, which `moveField_errKeeps` excludes
    simp only [Res.andThen] at hek ⊢
    revert hek
    split
    · intro hek; exact absurd ((hek _ _ rfl) ▸ hnew) hnot
    · next og _ =>
      split
      · intro hek; exact absurd ((hek _ _ rfl) ▸ hnew) hnot
      · next k _ =>
        by_cases hk : (og, k) ∈ keys s1.cols
        · rw [dropField_ok hI1 hk]; intro _; rfl
        · unfold dropField
          simp only [hk, not_false_eq_true, if_true]
          intro hek; exact absurd ((hek _ _ rfl) ▸ hnew) hnot

/-- Every client call (other than `writeable()`) returns exactly when the abstract catalogue says it may. -/
theorem step_isOk {s : State} (hI : Inv s) (op : Op) (hz : op.refsLinked s) (hnv : op.isView = false) :
    (step .repaired s op).isOk = specOk (srcOf s op) (absH5 s) op := by
  cases op with
  | create d fn n c =>
    simp only [step, specOk]
    cases hg : getFrame s d fn with
    | error e => rw [isOk_withFrame_err hg, hasFrame_eq hI]; simp [getFrame_err hg]
    | ok g =>
      rw [isOk_withFrame_ok hg, isOk_void, addField_isOk hI.toInvCore, hasFrame_eq hI, hasCol_eq hI (getFrame_file hI hg)]
      simp [getFrame_ok_key hg]
  | setItem d fn n r =>
    have hz' : ∀ h, getField s r = .ok h → Linked s h := hz
    simp only [step, specOk, srcOf, Op.ref, Option.bind_some]
    cases resolve hI r hz' with
    | dead hlive h =>
      rw [hlive]
      rcases h with ⟨e, he⟩ | ⟨h, e, hr, hv⟩
      · simp [withField, he, Res.isOk]
      · rw [isOk_withField_ok hr]
        cases hg : getFrame s d fn with
        | error e' => rw [isOk_withFrame_err hg]; simp
        | ok g => rw [isOk_withFrame_ok hg, isOk_void]; simp [copyField, fieldContent, hv, Res.isOk]
    | live h hd k d' fn' g' hr hv hn hpos hf ho hl hlive =>
      rw [hlive, isOk_withField_ok hr]
      cases hg : getFrame s d fn with
      | error e => rw [isOk_withFrame_err hg, hasFrame_eq hI]; simp [getFrame_err hg]
      | ok g =>
        rw [isOk_withFrame_ok hg, isOk_void, copyField_isOk hI.toInvCore hv, hasFrame_eq hI, hasCol_eq hI (getFrame_file hI hg)]
        simp [getFrame_ok_key hg]
  | copyField r d fn n =>
    have hz' : ∀ h, getField s r = .ok h → Linked s h := hz
    simp only [step, specOk, srcOf, Op.ref, Option.bind_some]
    cases resolve hI r hz' with
    | dead hlive h =>
      rw [hlive]
      rcases h with ⟨e, he⟩ | ⟨h, e, hr, hv⟩
      · simp [withField, he, Res.isOk]
      · rw [isOk_withField_ok hr]
        cases hg : getFrame s d fn with
        | error e' => rw [isOk_withFrame_err hg]; simp
        | ok g => rw [isOk_withFrame_ok hg, isOk_void]; simp [copyField, fieldContent, hv, Res.isOk]
    | live h hd k d' fn' g' hr hv hn hpos hf ho hl hlive =>
      rw [hlive, isOk_withField_ok hr]
      cases hg : getFrame s d fn with
      | error e => rw [isOk_withFrame_err hg, hasFrame_eq hI]; simp [getFrame_err hg]
      | ok g =>
        rw [isOk_withFrame_ok hg, isOk_void, copyField_isOk hI.toInvCore hv, hasFrame_eq hI, hasCol_eq hI (getFrame_file hI hg)]
        simp [getFrame_ok_key hg]
  | add d fn r =>
    have hz' : ∀ h, getField s r = .ok h → Linked s h := hz
    simp only [step, srcOf, Op.ref, Option.bind_some]
    cases resolve hI r hz' with
    | dead hlive h =>
      have hsp : specOk (refPos s r) (absH5 s) (.add d fn r) = false := by
        cases hp : refPos s r with
        | none => rfl
        | some p => rw [hp] at hlive; simp only [specOk, hlive, Bool.false_and]
      rw [hsp]
      rcases h with ⟨e, he⟩ | ⟨h, e, hr, hv⟩
      · simp [withField, he, Res.isOk]
      · rw [isOk_withField_ok hr]
        cases hg : getFrame s d fn with
        | error e' => rw [isOk_withFrame_err hg]
        | ok g => rw [isOk_withFrame_ok hg, isOk_void]; simp [addCopy, fieldName, hv, Res.isOk]
    | live h hd k d' fn' g' hr hv hn hpos hf ho hl hlive =>
      rw [isOk_withField_ok hr]
      simp only [hpos] at hlive ⊢
      simp only [specOk, hlive]
      cases hg : getFrame s d fn with
      | error e => rw [isOk_withFrame_err hg, hasFrame_eq hI]; simp [getFrame_err hg]
      | ok g =>
        rw [isOk_withFrame_ok hg, isOk_void, hasFrame_eq hI, hasCol_eq hI (getFrame_file hI hg)]
        simp only [addCopy, hn]
        rw [copyField_isOk hI.toInvCore hv]
        simp [getFrame_ok_key hg]
  | delItem d fn n =>
    simp only [step, specOk]
    cases hg : getFrame s d fn with
    | error e => rw [isOk_withFrame_err hg, hasCol_noframe hI (getFrame_err hg)]
    | ok g => rw [isOk_withFrame_ok hg, delItem_isOk hI.toInvCore, hasCol_eq hI (getFrame_file hI hg)]
  | drop d fn n =>
    simp only [step, specOk]
    cases hg : getFrame s d fn with
    | error e => rw [isOk_withFrame_err hg, hasCol_noframe hI (getFrame_err hg)]
    | ok g => rw [isOk_withFrame_ok hg, dropField_isOk hI.toInvCore, hasCol_eq hI (getFrame_file hI hg)]
  | deleteField d fn r =>
    have hz' : ∀ h, getField s r = .ok h → Linked s h := hz
    simp only [step, srcOf, Op.ref, Option.bind_some]
    cases resolve hI r hz' with
    | dead hlive h =>
      have hsp : specOk (refPos s r) (absH5 s) (.deleteField d fn r) = false := by
        cases hp : refPos s r with
        | none => rfl
        | some p => rw [hp] at hlive; simp only [specOk, hlive, Bool.false_and]
      rw [hsp]
      rcases h with ⟨e, he⟩ | ⟨h, e, hr, hv⟩
      · simp [withField, he, Res.isOk]
      · rw [isOk_withField_ok hr]
        cases hg : getFrame s d fn with
        | error e' => rw [isOk_withFrame_err hg]
        | ok g => rw [isOk_withFrame_ok hg]; simp [deleteField, hv, Res.isOk]
    | live h hd k d' fn' g' hr hv hn hpos hf ho hl hlive =>
      rw [isOk_withField_ok hr]
      simp only [hpos] at hlive ⊢
      simp only [specOk, hlive]
      cases hg : getFrame s d fn with
      | error e =>
        rw [isOk_withFrame_err hg]
        have : ¬ (d', fn') = (d, fn) := fun e' => getFrame_err hg ((dfs_file_keys hI _).2 (e' ▸ mem_keys_of_mem hf))
        simp [this]
      | ok g =>
        rw [isOk_withFrame_ok hg]
        have hfg := getFrame_file hI hg
        by_cases hgg : g' = g
        · subst hgg
          have hkey : (d', fn') = (d, fn) := file_frame_eq hI.toInvCore hf hfg
          simp only [deleteField, hv, ho, ne_eq, not_true_eq_false, if_false, hn]
          rw [delItem_isOk hI.toInvCore]
          simp [hkey, (hI.sameKeys _).2 (mem_keys_of_mem hl)]
        · have hkey : ¬ (d', fn') = (d, fn) := by
            intro e'; rw [e'] at hf; exact hgg (functional hI.fileNodup hf hfg)
          have hown : hd.owner ≠ some g := by rw [ho]; intro e'; exact hgg (Option.some.inj e')
          simp [deleteField, hv, hown, hkey, Res.isOk]
  | rename d fn dict =>
    simp only [step, specOk]
    by_cases hkn : (dict.map (·.1)).Nodup
    · simp only [hkn, not_true_eq_false, if_false]
      cases hg : getFrame s d fn with
      | error e =>
        rw [isOk_withFrame_err hg]
        have : absH5 s d fn = none := by
          have := hasFrame_eq hI d fn
          simp only [getFrame_err hg, decide_false, Cat.hasFrame] at this
          cases h : absH5 s d fn with
          | none => rfl
          | some F => rw [h] at this; cases this
        rw [this]
      | ok g =>
        rw [isOk_withFrame_ok hg, renameFields_isOk hI.toInvCore g dict hkn, absH5_frame hI (getFrame_file hI hg)]
    · simp only [hkn, not_false_eq_true, if_true, Res.isOk]
      cases absH5 s d fn with
      | none => rfl
      | some F => simp [renameOkF, hkn]
  | moveField r d fn n =>
    have hz' : ∀ h, getField s r = .ok h → Linked s h := hz
    simp only [step, srcOf, Op.ref, Option.bind_some]
    cases resolve hI r hz' with
    | dead hlive h =>
      have hsp : specOk (refPos s r) (absH5 s) (.moveField r d fn n) = false := by
        cases hp : refPos s r with
        | none => rfl
        | some p => rw [hp] at hlive; simp only [specOk, hlive, Bool.false_and]
      rw [hsp]
      rcases h with ⟨e, he⟩ | ⟨h, e, hr, hv⟩
      · simp [withField, he, Res.isOk]
      · rw [isOk_withField_ok hr]
        cases hg : getFrame s d fn with
        | error e' => rw [isOk_withFrame_err hg]
        | ok g => rw [isOk_withFrame_ok hg]; simp [moveField, hv, Res.isOk]
    | live h hd k d' fn' g' hr hv hn hpos hf ho hl hlive =>
      rw [isOk_withField_ok hr]
      simp only [hpos] at hlive ⊢
      simp only [specOk, hlive]
      cases hg : getFrame s d fn with
      | error e =>
        rw [isOk_withFrame_err hg]
        have : absH5 s d fn = none := by
          have := hasFrame_eq hI d fn
          simp only [getFrame_err hg, decide_false, Cat.hasFrame] at this
          cases h : absH5 s d fn with
          | none => rfl
          | some F => rw [h] at this; cases this
        rw [this]; rfl
      | ok g =>
        rw [isOk_withFrame_ok hg]
        have hfg := getFrame_file hI hg
        rw [absH5_frame hI hfg]
        simp only [Bool.true_and]
        by_cases hgg : g' = g
        · subst hgg
          have hkey : (d', fn') = (d, fn) := file_frame_eq hI.toInvCore hf hfg
          simp only [hkey, if_true]
          simp only [moveField, hv, ho, if_true, hn]
          exact renameFields_isOk hI.toInvCore g' [(k, n)] (by simp)
        · have hkey : ¬ (d', fn') = (d, fn) := by
            intro e'; rw [e'] at hf; exact hgg (functional hI.fileNodup hf hfg)
          have hown : hd.owner ≠ some g := by rw [ho]; intro e'; exact hgg (Option.some.inj e')
          simp only [hkey, if_false]
          rw [moveField_cross_isOk hI.toInvCore (List.mem_map.2 ⟨_, hfg, rfl⟩) hv hown (hz' h hr), frameH5_isSome hI.toInvCore]
  | createFrame d fn src =>
    cases src with
    | none =>
      simp only [step, specOk]
      rw [isOk_void, createFrame_isOk hI, hasFrame_eq hI]
    | some sr =>
      obtain ⟨sd, sfn⟩ := sr
      simp only [step, specOk]
      cases hg : getFrame s sd sfn with
      | error e => rw [isOk_withFrame_err hg, hasFrame_eq hI]; simp [getFrame_err hg]
      | ok sg =>
        rw [isOk_withFrame_ok hg, isOk_void, createFrame_isOk hI, hasFrame_eq hI, hasFrame_eq hI]
        simp [getFrame_ok_key hg]
  | requireFrame d fn =>
    simp only [step, specOk]
    split
    · rfl
    · next hk => rw [isOk_void, createFrame_isOk hI]; simp [hk]
  | copyFrame sd sfn d fn =>
    simp only [step, specOk]
    cases hg : getFrame s sd sfn with
    | error e => rw [isOk_withFrame_err hg, hasFrame_eq hI]; simp [getFrame_err hg]
    | ok sg =>
      rw [isOk_withFrame_ok hg, copyFrame_isOk hI, hasFrame_eq hI, hasFrame_eq hI]
      simp [getFrame_ok_key hg]
  | setFrame d fn sd sfn =>
    simp only [step, specOk]
    cases hg : getFrame s sd sfn with
    | error e => rw [isOk_withFrame_err hg, hasFrame_eq hI]; simp [getFrame_err hg]
    | ok sg =>
      rw [isOk_withFrame_ok hg, setFrame_isOk hI d fn (getFrame_ok hI hg).1, hasFrame_eq hI, hasFrame_eq hI]
      simp [getFrame_ok_key hg]
  | delFrame d fn => simp only [step, specOk]; rw [delFrame_isOk hI, hasFrame_eq hI]
  | dropFrame d fn => simp only [step, specOk]; rw [dropFrame_isOk hI, hasFrame_eq hI]
  | deleteFrame d sd sfn =>
    simp only [step, specOk]
    cases hg : getFrame s sd sfn with
    | error e => rw [isOk_withFrame_err hg, hasFrame_eq hI]; simp [getFrame_err hg]
    | ok sg =>
      rw [isOk_withFrame_ok hg]
      simp only [hI.frameName _ _ (getFrame_file hI hg)]
      rw [delFrame_isOk hI, hasFrame_eq hI, hasFrame_eq hI]
      simp [getFrame_ok_key hg]
  | moveFrame sd sfn d fn =>
    simp only [step, specOk]
    cases hg : getFrame s sd sfn with
    | error e => rw [isOk_withFrame_err hg, hasFrame_eq hI]; simp [getFrame_err hg]
    | ok sg =>
      rw [isOk_withFrame_ok hg, moveFrame_isOk hI d fn (getFrame_ok hI hg).1, hasFrame_eq hI, hasFrame_eq hI]
      simp [getFrame_ok_key hg]
  | reopen d => rfl
  | view r => cases hnv

/-- one call, whatever it is and however it ends, is one step of the abstract machine -/
theorem step_refines_total {s : State} (hI : Inv s) (op : Op) (hz : op.refsLinked s) :
    absH5 (step .repaired s op).state = specNext (absH5 s) (op, srcOf s op) := by
  rw [step_refines hI op hz]
  unfold specCall callOf specNext
  cases hv : op.isView with
  | false => simp only [step_isOk hI op hz hv]
  | true =>
    cases op with
    | view r => simp only [specStep, ite_self]
    | _ => cases hv

theorem specExec_cons (A : Cat) (c : Op × Option Src) (cs : List (Op × Option Src)) :
    specExec A (c :: cs) = specExec (specNext A c) cs := rfl

theorem run_refines_total (ops : List Op) {s : State} (hI : Inv s) (hz : HistLinked .repaired s ops) :
    absH5 (run .repaired s ops) = specExec (absH5 s) (srcLog .repaired s ops) := by
  induction ops generalizing s with
  | nil => rfl
  | cons op ops ih =>
    simp only [run, srcLog, specExec_cons]
    rw [ih (step_inv hI op) hz.2, step_refines_total hI op hz.1]

end Exetera.Catalogue
