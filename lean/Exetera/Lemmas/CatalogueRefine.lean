import Exetera.Lemmas.CatalogueAtomic
/-! Refinement, part 1: how the file catalogue `absH5` changes under the building blocks of the model. -/
namespace Exetera.Catalogue

theorem absH5_apply (s : State) (d : Nat) (fn : Name) : absH5 s d fn = (look s.file (d, fn)).map (frameH5 s) := rfl

theorem frameH5_congr {s s' : State} (hl : s'.links = s.links) (ho : s'.objs = s.objs) : frameH5 s' = frameH5 s := by
  funext g n; simp only [frameH5, hl, ho]

/-! ### more table lemmas -/

theorem keyOfVal_eq_some {t : Table} (hn : (t.map (·.2)).Nodup) {v : Nat} {k : Key} : keyOfVal t v = some k ↔ (k, v) ∈ t := by
  induction t with
  | nil => simp [keyOfVal]
  | cons e t ih =>
    obtain ⟨k', v'⟩ := e
    simp only [List.map_cons, List.nodup_cons, List.mem_map, not_exists, not_and] at hn
    simp only [keyOfVal]
    split
    · next h =>
      subst h
      simp only [Option.some.injEq, List.mem_cons, Prod.mk.injEq]
      constructor
      · intro h; left; simp [h]
      · rintro (h | h)
        · exact h.1.symm
        · exact absurd rfl (hn.1 _ h)
    · next h =>
      rw [ih hn.2]
      simp only [List.mem_cons, Prod.mk.injEq]
      constructor
      · intro h1; exact Or.inr h1
      · rintro (⟨_, h1⟩ | h1)
        · exact absurd h1.symm h
        · exact h1

theorem look_dropOwner {t : Table} {g g' : Nat} {n : Name} :
    look (dropOwner t g) (g', n) = if g' = g then none else look t (g', n) := by
  induction t with
  | nil => simp [dropOwner, look]
  | cons e t ih =>
    obtain ⟨⟨g0, n0⟩, v0⟩ := e
    unfold dropOwner at ih ⊢
    simp only [List.filter_cons]
    by_cases h0 : g0 = g
    · subst h0
      simp only [ne_eq, not_true_eq_false, decide_false, Bool.false_eq_true, if_false, ih, look]
      by_cases h1 : g' = g0
      · simp [h1]
      · have : ¬ (g0, n0) = (g', n) := fun e => h1 (Prod.mk.inj e).1.symm
        simp [h1, this]
    · simp only [ne_eq, h0, not_false_eq_true, decide_true, if_true, look, ih]
      by_cases h1 : (g0, n0) = (g', n)
      · have : ¬ g' = g := fun e => h0 (by rw [← e]; exact (Prod.mk.inj h1).1)
        simp [h1, this]
      · simp [h1]

theorem look_rekey {t : Table} {k k' x : Key} (hk' : k' ∉ keys t) :
    look (rekey t k k') x = if x = k' then look t k else if x = k then none else look t x := by
  induction t with
  | nil => simp [rekey, look]
  | cons e t ih =>
    obtain ⟨k0, v0⟩ := e
    simp only [keys_cons, List.mem_cons, not_or] at hk'
    have ih' := ih hk'.2
    unfold rekey at ih' ⊢
    simp only [List.map_cons, look, ih']
    by_cases h0 : k0 = k
    · subst h0
      simp only [if_true]
      by_cases hx : x = k'
      · subst hx; simp
      · have : ¬ k' = x := fun e => hx e.symm
        simp only [this, if_false, hx]
        by_cases hx0 : x = k0
        · subst hx0; simp
        · have : ¬ k0 = x := fun e => hx0 e.symm
          simp [hx0, this]
    · simp only [h0, if_false]
      by_cases hx0 : k0 = x
      · subst hx0
        have : ¬ k0 = k' := fun e => hk'.1 e.symm
        simp [this, h0]
      · simp [hx0]

/-! ### the file catalogue under a change of one column / one frame -/

theorem file_frame_eq {s : State} (hI : InvCore s) {k k' : Key} {g : Nat} (h1 : (k, g) ∈ s.file) (h2 : (k', g) ∈ s.file) : k = k' :=
  injective hI.frameInj h1 h2

/-- one column of frame `(d, fn)` changes, nothing else -/
theorem absH5_setCol {s s' : State} (hI : InvCore s) (hfile : s'.file = s.file) {d : Nat} {fn : Name} {g : Nat}
    (hg : ((d, fn), g) ∈ s.file) {n : Name} {x : Option Content}
    (h : ∀ g' n', frameH5 s' g' n' = if (g', n') = (g, n) then x else frameH5 s g' n') :
    absH5 s' = (absH5 s).setCol d fn n x := by
  funext d' fn'
  simp only [Cat.setCol, absH5_apply, hfile]
  by_cases hk : (d', fn') = (d, fn)
  · rw [if_pos hk, hk, (look_eq_some hI.fileNodup).2 hg]
    simp only [Option.map_some]
    congr 1; funext n'
    rw [h]
    by_cases hn : n' = n <;> simp [hn]
  · rw [if_neg hk]
    cases hl : look s.file (d', fn') with
    | none => rfl
    | some g' =>
      simp only [Option.map_some]
      congr 1; funext n'
      have hne : g' ≠ g := fun e => hk (file_frame_eq hI (by rw [← e]; exact look_mem hl) hg)
      rw [h]; simp [hne]

/-- frame `(d, fn)` is replaced as a whole (same group), nothing else changes -/
theorem absH5_setFrame_same {s s' : State} (hI : InvCore s) (hfile : s'.file = s.file) {d : Nat} {fn : Name} {g : Nat}
    (hg : ((d, fn), g) ∈ s.file) {F : Frame} (hF : frameH5 s' g = F) (hoth : ∀ g', g' ≠ g → frameH5 s' g' = frameH5 s g') :
    absH5 s' = (absH5 s).setFrame d fn (some F) := by
  funext d' fn'
  simp only [Cat.setFrame, absH5_apply, hfile]
  by_cases hk : (d', fn') = (d, fn)
  · rw [if_pos hk, hk, (look_eq_some hI.fileNodup).2 hg]
    simp only [Option.map_some, hF]
  · rw [if_neg hk]
    cases hl : look s.file (d', fn') with
    | none => rfl
    | some g' =>
      have hne : g' ≠ g := fun e => hk (file_frame_eq hI (by rw [← e]; exact look_mem hl) hg)
      simp only [Option.map_some, hoth g' hne]

/-- a new frame appears -/
theorem absH5_addFrame {s s' : State} {d : Nat} {fn : Name} {g : Nat} (hfile : s'.file = s.file ++ [((d, fn), g)])
    (hfresh : (d, fn) ∉ keys s.file) {F : Frame} (hF : frameH5 s' g = F)
    (hold : ∀ k g', (k, g') ∈ s.file → frameH5 s' g' = frameH5 s g') :
    absH5 s' = (absH5 s).setFrame d fn (some F) := by
  funext d' fn'
  simp only [Cat.setFrame, absH5_apply, hfile, look_snoc hfresh]
  by_cases hk : (d', fn') = (d, fn)
  · simp only [if_pos hk, Option.map_some, hF]
  · simp only [if_neg hk]
    cases hl : look s.file (d', fn') with
    | none => rfl
    | some g' => simp only [Option.map_some, hold _ g' (look_mem hl)]

/-- a frame disappears -/
theorem absH5_delFrame {s s' : State} (hI : InvCore s) {d : Nat} {fn : Name} {g : Nat} (hg : ((d, fn), g) ∈ s.file)
    (hfile : s'.file = erase s.file (d, fn)) (hold : ∀ g', g' ≠ g → frameH5 s' g' = frameH5 s g') :
    absH5 s' = (absH5 s).setFrame d fn none := by
  funext d' fn'
  simp only [Cat.setFrame, absH5_apply, hfile, look_erase]
  by_cases hk : (d', fn') = (d, fn)
  · simp only [if_pos hk, Option.map_none]
  · simp only [if_neg hk]
    cases hl : look s.file (d', fn') with
    | none => rfl
    | some g' =>
      have hne : g' ≠ g := fun e => hk (file_frame_eq hI (by rw [← e]; exact look_mem hl) hg)
      simp only [Option.map_some, hold g' hne]

/-- a frame changes its name inside its dataset -/
theorem absH5_renameFrame {s s' : State} (hI : InvCore s) {d : Nat} {old fn : Name}
    (hfresh : (d, fn) ∉ keys s.file) (hfile : s'.file = rekey s.file (d, old) (d, fn)) (hfr : frameH5 s' = frameH5 s) :
    absH5 s' = ((absH5 s).setFrame d old none).setFrame d fn (absH5 s d old) := by
  funext d' fn'
  simp only [Cat.setFrame, absH5_apply, hfile, look_rekey hfresh, hfr]
  by_cases hk : (d', fn') = (d, fn)
  · simp only [if_pos hk]
  · simp only [if_neg hk]
    by_cases hk2 : (d', fn') = (d, old)
    · simp only [if_pos hk2, Option.map_none]
    · simp only [if_neg hk2]

/-! ### contents read through a field object -/

theorem fieldContent_ok_iff {s : State} {h : Nat} {c : Content} (hc : fieldContent s h = .ok c) :
    ∃ hd, ensureValid s h = .ok hd ∧ s.objs[hd.oid]? = some c := by
  unfold fieldContent at hc
  split at hc
  · cases hc
  · next hd hv =>
    split at hc
    · next c' hc' => cases hc; exact ⟨hd, hv, hc'⟩
    · cases hc

/-- what a linked field object reads is what the file catalogue holds at that place -/
theorem fieldContent_linked {s : State} (hI : InvCore s) {h : Nat} {hd : Handle} (hv : ensureValid s h = .ok hd) {g : Nat} {n : Name}
    (hl : ((g, n), hd.oid) ∈ s.links) {c : Content} (hc : fieldContent s h = .ok c) : frameH5 s g n = some c := by
  obtain ⟨hd', hv', hc'⟩ := fieldContent_ok_iff hc
  rw [hv] at hv'; cases hv'
  simp only [frameH5, (look_eq_some hI.linksNodup).2 hl, Option.bind_some, hc']

/-- the name a field object reports is the name its group is linked under, in the frame that owns it -/
theorem fieldName_link {s : State} (hI : InvCore s) {h : Nat} {hd : Handle} (hv : ensureValid s h = .ok hd) {k : Name}
    (hn : fieldName s h = .ok k) : ∃ g, hd.owner = some g ∧ ((g, k), hd.oid) ∈ s.links := by
  obtain ⟨hd', g, hh, ho, hlk⟩ := fieldName_ok hI hn
  rw [(ensureValid_ok hv).1] at hh; cases hh
  exact ⟨g, ho, hlk⟩

theorem fieldName_of_link {s : State} (hI : InvCore s) {h : Nat} {hd : Handle} (hv : ensureValid s h = .ok hd) {g : Nat} {k : Name}
    (hl : ((g, k), hd.oid) ∈ s.links) : fieldName s h = .ok k := by
  unfold fieldName
  rw [hv]
  simp only [(nameOfVal_eq_some hI.oidInj).2 ⟨g, hl⟩]

/-- where the field a call is handed sits in the abstract catalogue -/
theorem getField_pos {s : State} (hI : Inv s) {r : FRef} {h : Nat} (hr : getField s r = .ok h) {hd : Handle}
    (hv : ensureValid s h = .ok hd) {k : Name} (hn : fieldName s h = .ok k) :
    ∃ d fn g, refPos s r = some ⟨d, fn, k⟩ ∧ ((d, fn), g) ∈ s.file ∧ hd.owner = some g ∧ ((g, k), hd.oid) ∈ s.links := by
  obtain ⟨g, ho, hl⟩ := fieldName_link hI.toInvCore hv hn
  obtain ⟨e, he, hee⟩ := List.mem_map.1 (hI.linkFrame _ _ hl)
  obtain ⟨⟨d, fn⟩, g'⟩ := e
  simp only at hee; subst hee
  have hpos : posOfOid s hd.oid = some ⟨d, fn, k⟩ := by
    simp only [posOfOid, (keyOfVal_eq_some hI.oidInj).2 hl, Option.bind_some, (keyOfVal_eq_some hI.frameInj).2 he, Option.map_some]
  cases r with
  | byHandle h' =>
    simp only [getField] at hr
    split at hr
    · cases hr
      refine ⟨d, fn, g', ?_, he, ho, hl⟩
      simp only [refPos, (ensureValid_ok hv).1, Option.bind_some, (ensureValid_ok hv).2.1, Bool.false_eq_true, if_false, hpos]
    · cases hr
  | byName d' fn' c =>
    simp only [getField] at hr
    split at hr
    · cases hr
    · next g0 hg0 =>
      split at hr
      · next h0 hl0 =>
        cases hr
        obtain ⟨hd0, h1, _, _, _, _, h6⟩ := hI.sameObj _ _ (look_mem hl0)
        rw [(ensureValid_ok hv).1] at h1; cases h1
        have hkey : (g0, c) = (g', k) := injective hI.oidInj h6 hl
        obtain ⟨rfl, rfl⟩ := Prod.mk.inj hkey
        have hf0 := (hI.sameFrames _).1 (getFrame_ok hI hg0).1
        have hkey2 : (d', fn') = (d, fn) := file_frame_eq hI.toInvCore hf0 he
        obtain ⟨rfl, rfl⟩ := Prod.mk.inj hkey2
        exact ⟨d', fn', g0, rfl, he, ho, hl⟩
      · cases hr

/-- the abstract content at the source position is what the field object reads -/
theorem src_content {s : State} (hI : Inv s) {d : Nat} {fn k : Name} {g : Nat} (hf : ((d, fn), g) ∈ s.file) {h : Nat} {hd : Handle}
    (hv : ensureValid s h = .ok hd) (hl : ((g, k), hd.oid) ∈ s.links) {c : Content} (hc : fieldContent s h = .ok c) :
    (absH5 s).col ⟨d, fn, k⟩ = some c := by
  simp only [Cat.col, absH5_apply, (look_eq_some hI.fileNodup).2 hf, Option.map_some, Option.bind_some]
  exact fieldContent_linked hI.toInvCore hv hl hc

end Exetera.Catalogue
