import Exetera.Lemmas.DatesDays
import Exetera.Lemmas.DatesPeriods
import Exetera.Lemmas.DatesMap
/-! The documented pipeline of the four date helpers (C20): each timestamp gets the index of the period containing it. -/
namespace Exetera.Dates
open Exetera Exetera.Spec.Dates

/-- the boundaries are whole days apart from the first one -/
def DayAligned (bs : List Int) : Prop := ∀ first, bs.head? = some first → ∀ p ∈ bs, (p - first) % 86400 = 0

/-- a timestamp inside a day-aligned period has its day number inside the period's day interval -/
theorem inPeriod_days {bs : List Int} {first : Int} (hal : ∀ p ∈ bs, (p - first) % 86400 = 0) {k : Nat} {t : Int}
    (h : InPeriod bs k t) : InPeriod (bs.map (fun p => (p - first) / 86400)) k ((t - first) / 86400) := by
  obtain ⟨lo, hi, h1, h2, h3, h4⟩ := h
  have a1 := hal lo (List.mem_of_getElem? h1)
  have a2 := hal hi (List.mem_of_getElem? h2)
  refine ⟨(lo - first) / 86400, (hi - first) / 86400, by simp [h1], by simp [h2], ?_, ?_⟩ <;> omega

theorem boolToInt_mask (fl : List Bool) :
    (fl.map (fun b => if b then (1 : Int) else 0)).map (fun v => v != 0) = fl := by
  induction fl with
  | nil => rfl
  | cons b bs ih => cases b <;> simp [ih]

/-- `bucket` on ascending, day-aligned boundaries -/
theorem bucket_spec {ts : List Int} {filt : Option (List Int)} {bs : List Int} (hne : bs ≠ [])
    (hasc : Ascending bs) (hal : DayAligned bs) (hlen : ∀ f, filt = some f → f.length = ts.length) :
    ∃ out, bucket ts filt bs = .ok out ∧ out.length = ts.length ∧
      ∀ (i : Nat) (t : Int), ts[i]? = some t →
        (∀ k : Nat, passes filt i = true → InPeriod bs k t → out[i]? = some (k : Int)) ∧
        ((passes filt i = false ∨ ∀ k, ¬ InPeriod bs k t) → out[i]? = some (-1)) := by
  cases bs with
  | nil => exact absurd rfl hne
  | cons p0 rest =>
    have hal' : ∀ p ∈ p0 :: rest, (p - p0) % 86400 = 0 := hal p0 rfl
    obtain ⟨m, l, hl, hm, hmlen, hmget⟩ := offsetMap_spec p0 rest hasc
    have hlmem : l ∈ p0 :: rest := List.mem_of_getLast? hl
    have hp0l : p0 ≤ l := ascending_head_le hasc hlmem
    have hlal := hal' l hlmem
    obtain ⟨dout, hd⟩ := getDays_ok_of_origin (ts := ts) (filt := filt) (some p0) (some l) hlen (by simp)
    obtain ⟨o, ho, hdays, _, hfl⟩ := getDays_spec hd
    have ho' : o = p0 := ho
    subst ho'
    obtain ⟨fl, hflr, hfllen, hflget⟩ := hfl (by simp)
    have hdl : dout.days.length = ts.length := by simp [hdays]
    -- the masked lookup
    have hflag : ∀ (i : Nat) (t : Int), ts[i]? = some t →
        (fl[i]? = some true ↔ (passes filt i = true ∧ o ≤ t ∧ t < l)) := by
      intro i t ht
      rw [hflget i t ht]
      simp [inRangeFlag, afterStart, beforeEnd, and_assoc]
    have hdget : ∀ (i : Nat) (d : Int), dout.days[i]? = some d → ∃ t, ts[i]? = some t ∧ d = (t - o) / 86400 := by
      intro i d hdi
      rw [hdays, List.getElem?_map] at hdi
      cases hti : ts[i]? with
      | none => simp [hti] at hdi
      | some t =>
        simp only [hti, Option.map_some, Option.some.injEq] at hdi
        exact ⟨t, rfl, by rw [← hdi]; rfl⟩
    obtain ⟨out, hout, holen, hoget⟩ := lookupMasked_spec m dout.days fl (by rw [hfllen, hdl])
      (by
        intro i d hdi hfi
        obtain ⟨t, ht, rfl⟩ := hdget i d hdi
        obtain ⟨_, h1, h2⟩ := (hflag i t ht).mp hfi
        omega)
    refine ⟨out, ?_, by rw [holen, hdl], ?_⟩
    · unfold bucket
      simp only [hm, List.head?_cons, hl, hd, hflr, Option.map_some, getPeriodOffsets, boolToInt_mask]
      exact hout
    · intro i t ht
      have hdi : dout.days[i]? = some ((t - o) / 86400) := by
        rw [hdays, List.getElem?_map, ht]; rfl
      have hres := hoget i _ hdi
      constructor
      · intro k hp hk
        obtain ⟨lo, hi, h1, h2, h3, h4⟩ := hk
        have hlo : o ≤ lo := ascending_head_le hasc (List.mem_of_getElem? h1)
        have hhi : hi ≤ l := ascending_le_getLast _ _ hasc l hl hi (List.mem_of_getElem? h2)
        have hf : fl[i]? = some true := (hflag i t ht).mpr ⟨hp, by omega, by omega⟩
        rw [hres, if_pos hf]
        have hd0 : 0 ≤ (t - o) / 86400 ∧ (t - o) / 86400 < (l - o) / 86400 := by omega
        have hdlt : ((t - o) / 86400).toNat < m.length := by omega
        obtain ⟨k', hk', hin'⟩ := hmget _ hdlt
        have hpd : periodDeltas (o :: rest) = (o :: rest).map (fun p => (p - o) / 86400) := rfl
        have hcast : ((((t - o) / 86400).toNat : Nat) : Int) = (t - o) / 86400 := by omega
        rw [hpd, hcast] at hin'
        have hin := inPeriod_days hal' (⟨lo, hi, h1, h2, h3, h4⟩ : InPeriod (o :: rest) k t)
        have hasc' := periodDeltas_ascending hasc
        rw [hpd] at hasc'
        have := inPeriod_unique hasc' hin hin'
        rw [hk', this]
      · intro hno
        have hf : ¬ fl[i]? = some true := by
          intro hf
          obtain ⟨hp, h1, h2⟩ := (hflag i t ht).mp hf
          rcases hno with hno | hno
          · rw [hp] at hno; exact Bool.noConfusion hno
          · obtain ⟨j, hj⟩ := exists_inPeriod rest o hasc l hl t h1 h2
            exact hno j hj
        rw [hres, if_neg hf]

/-! ### boundaries generated by `get_periods` are ascending (after the reversal) and day-aligned -/

theorem boundaries_pairwise_le (start step : Int) (n : Nat) (hstep : 0 ≤ step) :
    (boundaries start step n).Pairwise (· ≤ ·) := by
  unfold boundaries
  rw [List.pairwise_map]
  refine List.Pairwise.imp ?_ (List.pairwise_lt_range (n := n + 1))
  intro a b hab
  have : (a : Int) * step ≤ (b : Int) * step := Int.mul_le_mul_of_nonneg_right (by omega) hstep
  omega

theorem boundaries_pairwise_ge (start step : Int) (n : Nat) (hstep : step ≤ 0) :
    (boundaries start step n).Pairwise (fun a b => b ≤ a) := by
  unfold boundaries
  rw [List.pairwise_map]
  refine List.Pairwise.imp ?_ (List.pairwise_lt_range (n := n + 1))
  intro a b hab
  have : (a : Int) * (-step) ≤ (b : Int) * (-step) := Int.mul_le_mul_of_nonneg_right (by omega) (by omega)
  rw [Int.mul_neg, Int.mul_neg] at this
  omega

theorem boundaries_aligned (start c : Int) (n : Nat) :
    ∀ p ∈ boundaries start (c * 86400) n, ∀ r ∈ boundaries start (c * 86400) n, (p - r) % 86400 = 0 := by
  intro p hp r hr
  obtain ⟨k, _, rfl⟩ := mem_boundaries hp
  obtain ⟨j, _, rfl⟩ := mem_boundaries hr
  have : start + (k : Int) * (c * 86400) - (start + (j : Int) * (c * 86400)) = (((k : Int) - j) * c) * 86400 := by
    rw [Int.sub_mul, Int.sub_mul, Int.mul_assoc, Int.mul_assoc]
    omega
  rw [this]
  exact Int.mul_emod_left _ _

/-- the ascending list of boundaries the pipeline works with -/
def ascBoundaries (start step : Int) (n : Nat) : List Int :=
  if step < 0 then (boundaries start step n).reverse else boundaries start step n

theorem ascBoundaries_ne (start step : Int) (n : Nat) : ascBoundaries start step n ≠ [] := by
  unfold ascBoundaries
  split <;> simp [boundaries]

theorem ascBoundaries_ascending (start step : Int) (n : Nat) : Ascending (ascBoundaries start step n) := by
  unfold ascBoundaries Ascending
  split
  · rw [List.pairwise_reverse]
    exact boundaries_pairwise_ge start step n (by omega)
  · exact boundaries_pairwise_le start step n (by omega)

theorem ascBoundaries_aligned (start c : Int) (n : Nat) : DayAligned (ascBoundaries start (c * 86400) n) := by
  intro first hfirst p hp
  have hmem : ∀ x, x ∈ ascBoundaries start (c * 86400) n → x ∈ boundaries start (c * 86400) n := by
    intro x hx
    unfold ascBoundaries at hx
    split at hx
    · exact List.mem_reverse.mp hx
    · exact hx
  exact boundaries_aligned start c n p (hmem p hp) first (hmem first (List.mem_of_mem_head? hfirst))

/-- the whole pipeline on a valid `get_periods` call -/
theorem pipeline_spec {ts : List Int} {filt : Option (List Int)} {start end_ : Int} {period : String} {delta u : Int}
    (hu : unitDays period = some u) (hdelta : delta ≠ 0)
    (hdir : (0 < delta → start ≤ end_) ∧ (delta < 0 → end_ ≤ start))
    (htd : (delta * u).natAbs ≤ TD_MAX_DAYS)
    (hs : 0 ≤ start ∧ start ≤ DT_MAX) (he : 0 ≤ end_ ∧ end_ ≤ DT_MAX)
    (hlen : ∀ f, filt = some f → f.length = ts.length) :
    ∃ out, pipeline ts filt start end_ period delta = .ok out ∧ out.length = ts.length ∧
      ∀ (i : Nat) (t : Int), ts[i]? = some t →
        (∀ k : Nat, passes filt i = true →
          InPeriod (ascBoundaries start (delta * u * 86400) ((end_ - start).natAbs / (delta * u * 86400).natAbs)) k t →
          out[i]? = some (k : Int)) ∧
        ((passes filt i = false ∨ ∀ k,
          ¬ InPeriod (ascBoundaries start (delta * u * 86400) ((end_ - start).natAbs / (delta * u * 86400).natAbs)) k t) →
          out[i]? = some (-1)) := by
  have hsign : (delta * u * 86400 < 0 ↔ delta < 0) := by
    rcases unitDays_cases hu with rfl | rfl <;> omega
  have hps := getPeriods_eq hu hdelta hdir htd hs he
  have hpipe : pipeline ts filt start end_ period delta =
      bucket ts filt (ascBoundaries start (delta * u * 86400) ((end_ - start).natAbs / (delta * u * 86400).natAbs)) := by
    unfold pipeline ascBoundaries
    rw [hps]
    simp only []
    by_cases hneg : delta < 0
    · rw [if_pos hneg, if_pos (hsign.mpr hneg)]
    · rw [if_neg hneg, if_neg (fun h => hneg (hsign.mp h))]
  rw [hpipe]
  exact bucket_spec (ascBoundaries_ne _ _ _) (ascBoundaries_ascending _ _ _)
    (by have := ascBoundaries_aligned start (delta * u) ((end_ - start).natAbs / (delta * u * 86400).natAbs); exact this) hlen

end Exetera.Dates
