import Exetera.Model.Concat
import Exetera.Spec.CsvLine
namespace Exetera.Props.C16
end Exetera.Props.C16
