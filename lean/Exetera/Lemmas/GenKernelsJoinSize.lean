import Exetera.Gen.Kernels
import Exetera.Model.JoinFlat
import Exetera.Lemmas.While
import Exetera.Lemmas.GenKernels
import Exetera.Lemmas.GenKernelsJoin
import Exetera.Lemmas.GenKernelsJoinGeneral
/-!
  The TRANSLATED `ordered_inner_map_result_size` (outer `while`, two run-counting `while` loops whose conditions subscript) against
  `JoinFlat.innerResultSize` — transfer form by `whileE` simulation; the model counts a key run by a fuel-bounded recursion
  (`runCount`), the translated kernel runs the code's `while` loops on the kernel's fuel.
-/
namespace Exetera.GenK

open Exetera Exetera.PyRt Exetera.Gen.Kernels Exetera.Join Exetera.JoinFlat

namespace ISZ

abbrev St := ordered_inner_map_result_size.St

/-- the left run count: `while i + 1 < len(left) and left[i+1] == left[i]: cur_i_count += 1; i += 1` -/
theorem countL (xs : List Int) :
    ∀ (f F k c c' : Nat) (s : St), s.p0 = xs → s.v0 = (k : Int) → s.v3 = (c : Int) →
      xs.length - (k + 1) ≤ f → xs.length - (k + 1) ≤ F → runCount xs xs.length f k c = .ok c' →
      c ≤ c' ∧ whileG ordered_inner_map_result_size.guardE_L2 ordered_inner_map_result_size.body_L2 F s
        = .ok { s with v0 := ((k + (c' - c) : Nat) : Int), v3 := (c' : Int) } := by
  intro f
  induction f with
  | zero =>
    intro F k c c' s h0 hv0 hv3 hf _ h
    obtain ⟨q0, q1, w0, w1, w2, w3, w4⟩ := s
    simp only at h0 hv0 hv3
    subst h0 hv0 hv3
    simp only [runCount, Except.ok.injEq] at h
    subst h
    have hg : ordered_inner_map_result_size.guardE_L2 ⟨q0, q1, (k : Int), w1, w2, (c : Int), w4⟩ = .ok false := by
      have : decide ((k : Int) + 1 < pyLen q0) = false := decide_eq_false (by simp only [pyLen]; omega)
      simp only [ordered_inner_map_result_size.guardE_L2, this, Bool.false_eq_true, if_false]
    refine ⟨Nat.le_refl _, ?_⟩
    simp only [Nat.sub_self, Nat.add_zero]
    cases F <;> simp [whileG, hg]
  | succ f ih =>
    intro F k c c' s h0 hv0 hv3 hf hF h
    obtain ⟨q0, q1, w0, w1, w2, w3, w4⟩ := s
    simp only at h0 hv0 hv3
    subst h0 hv0 hv3
    simp only [runCount] at h
    by_cases hk : k + 1 < q0.length
    · simp only [hk, if_true] at h
      have hlt : decide (((k + 1 : Nat) : Int) < pyLen q0) = true := decide_eq_true (by simp only [pyLen]; omega)
      have hc1 : ((k : Int) + 1) = ((k + 1 : Nat) : Int) := by omega
      cases ha : getE q0 (k + 1) "run[k+1]" with
      | error e => simp [ha] at h
      | ok a =>
        cases hb : getE q0 k "run[k]" with
        | error e => simp [ha, hb] at h
        | ok b =>
          simp only [ha, hb] at h
          by_cases hab : a = b
          · subst hab
            simp only [beq_self_eq_true, if_true] at h
            have hg : ordered_inner_map_result_size.guardE_L2 ⟨q0, q1, (k : Int), w1, w2, (c : Int), w4⟩ = .ok true := by
              simp only [ordered_inner_map_result_size.guardE_L2, hc1, hlt, if_true, idxE_nat,
                Gen.getE_site "p0[v0 + 1]" ha, Gen.getE_site "p0[v0]" hb, bindE_ok, beq_self_eq_true]
            obtain ⟨F', rfl⟩ : ∃ F', F = F' + 1 := ⟨F - 1, by omega⟩
            have e1 : (c : Int) + 1 = ((c + 1 : Nat) : Int) := by omega
            have hbody : ordered_inner_map_result_size.body_L2 ⟨q0, q1, (k : Int), w1, w2, (c : Int), w4⟩
                = .ok ⟨q0, q1, ((k + 1 : Nat) : Int), w1, w2, ((c + 1 : Nat) : Int), w4⟩ := by
              simp only [ordered_inner_map_result_size.body_L2, hc1, e1]
            obtain ⟨hle, hw⟩ := ih F' (k + 1) (c + 1) c' ⟨q0, q1, ((k + 1 : Nat) : Int), w1, w2, ((c + 1 : Nat) : Int), w4⟩
              rfl rfl rfl (by omega) (by omega) h
            refine ⟨by omega, ?_⟩
            simp only [whileG, hg, if_true, hbody]
            rw [hw]
            have : k + 1 + (c' - (c + 1)) = k + (c' - c) := by omega
            simp only [this]
          · have hne : (a == b) = false := by simp [hab]
            simp only [hne, Bool.false_eq_true, if_false, Except.ok.injEq] at h
            subst h
            have hg : ordered_inner_map_result_size.guardE_L2 ⟨q0, q1, (k : Int), w1, w2, (c : Int), w4⟩ = .ok false := by
              simp only [ordered_inner_map_result_size.guardE_L2, hc1, hlt, if_true, idxE_nat,
                Gen.getE_site "p0[v0 + 1]" ha, Gen.getE_site "p0[v0]" hb, bindE_ok, hne]
            refine ⟨Nat.le_refl _, ?_⟩
            simp only [Nat.sub_self, Nat.add_zero]
            cases F <;> simp [whileG, hg]
    · simp only [hk, if_false, Except.ok.injEq] at h
      subst h
      have hg : ordered_inner_map_result_size.guardE_L2 ⟨q0, q1, (k : Int), w1, w2, (c : Int), w4⟩ = .ok false := by
        have : decide ((k : Int) + 1 < pyLen q0) = false := decide_eq_false (by simp only [pyLen]; omega)
        simp only [ordered_inner_map_result_size.guardE_L2, this, Bool.false_eq_true, if_false]
      refine ⟨Nat.le_refl _, ?_⟩
      simp only [Nat.sub_self, Nat.add_zero]
      cases F <;> simp [whileG, hg]

/-- the right run count -/
theorem countR (xs : List Int) :
    ∀ (f F k c c' : Nat) (s : St), s.p1 = xs → s.v1 = (k : Int) → s.v4 = (c : Int) →
      xs.length - (k + 1) ≤ f → xs.length - (k + 1) ≤ F → runCount xs xs.length f k c = .ok c' →
      c ≤ c' ∧ whileG ordered_inner_map_result_size.guardE_L3 ordered_inner_map_result_size.body_L3 F s
        = .ok { s with v1 := ((k + (c' - c) : Nat) : Int), v4 := (c' : Int) } := by
  intro f
  induction f with
  | zero =>
    intro F k c c' s h0 hv0 hv3 hf _ h
    obtain ⟨q0, q1, w0, w1, w2, w3, w4⟩ := s
    simp only at h0 hv0 hv3
    subst h0 hv0 hv3
    simp only [runCount, Except.ok.injEq] at h
    subst h
    have hg : ordered_inner_map_result_size.guardE_L3 ⟨q0, q1, w0, (k : Int), w2, w3, (c : Int)⟩ = .ok false := by
      have : decide ((k : Int) + 1 < pyLen q1) = false := decide_eq_false (by simp only [pyLen]; omega)
      simp only [ordered_inner_map_result_size.guardE_L3, this, Bool.false_eq_true, if_false]
    refine ⟨Nat.le_refl _, ?_⟩
    simp only [Nat.sub_self, Nat.add_zero]
    cases F <;> simp [whileG, hg]
  | succ f ih =>
    intro F k c c' s h0 hv0 hv3 hf hF h
    obtain ⟨q0, q1, w0, w1, w2, w3, w4⟩ := s
    simp only at h0 hv0 hv3
    subst h0 hv0 hv3
    simp only [runCount] at h
    by_cases hk : k + 1 < q1.length
    · simp only [hk, if_true] at h
      have hlt : decide (((k + 1 : Nat) : Int) < pyLen q1) = true := decide_eq_true (by simp only [pyLen]; omega)
      have hc1 : ((k : Int) + 1) = ((k + 1 : Nat) : Int) := by omega
      cases ha : getE q1 (k + 1) "run[k+1]" with
      | error e => simp [ha] at h
      | ok a =>
        cases hb : getE q1 k "run[k]" with
        | error e => simp [ha, hb] at h
        | ok b =>
          simp only [ha, hb] at h
          by_cases hab : a = b
          · subst hab
            simp only [beq_self_eq_true, if_true] at h
            have hg : ordered_inner_map_result_size.guardE_L3 ⟨q0, q1, w0, (k : Int), w2, w3, (c : Int)⟩ = .ok true := by
              simp only [ordered_inner_map_result_size.guardE_L3, hc1, hlt, if_true, idxE_nat,
                Gen.getE_site "p1[v1 + 1]" ha, Gen.getE_site "p1[v1]" hb, bindE_ok, beq_self_eq_true]
            obtain ⟨F', rfl⟩ : ∃ F', F = F' + 1 := ⟨F - 1, by omega⟩
            have e1 : (c : Int) + 1 = ((c + 1 : Nat) : Int) := by omega
            have hbody : ordered_inner_map_result_size.body_L3 ⟨q0, q1, w0, (k : Int), w2, w3, (c : Int)⟩
                = .ok ⟨q0, q1, w0, ((k + 1 : Nat) : Int), w2, w3, ((c + 1 : Nat) : Int)⟩ := by
              simp only [ordered_inner_map_result_size.body_L3, hc1, e1]
            obtain ⟨hle, hw⟩ := ih F' (k + 1) (c + 1) c' ⟨q0, q1, w0, ((k + 1 : Nat) : Int), w2, w3, ((c + 1 : Nat) : Int)⟩
              rfl rfl rfl (by omega) (by omega) h
            refine ⟨by omega, ?_⟩
            simp only [whileG, hg, if_true, hbody]
            rw [hw]
            have : k + 1 + (c' - (c + 1)) = k + (c' - c) := by omega
            simp only [this]
          · have hne : (a == b) = false := by simp [hab]
            simp only [hne, Bool.false_eq_true, if_false, Except.ok.injEq] at h
            subst h
            have hg : ordered_inner_map_result_size.guardE_L3 ⟨q0, q1, w0, (k : Int), w2, w3, (c : Int)⟩ = .ok false := by
              simp only [ordered_inner_map_result_size.guardE_L3, hc1, hlt, if_true, idxE_nat,
                Gen.getE_site "p1[v1 + 1]" ha, Gen.getE_site "p1[v1]" hb, bindE_ok, hne]
            refine ⟨Nat.le_refl _, ?_⟩
            simp only [Nat.sub_self, Nat.add_zero]
            cases F <;> simp [whileG, hg]
    · simp only [hk, if_false, Except.ok.injEq] at h
      subst h
      have hg : ordered_inner_map_result_size.guardE_L3 ⟨q0, q1, w0, (k : Int), w2, w3, (c : Int)⟩ = .ok false := by
        have : decide ((k : Int) + 1 < pyLen q1) = false := decide_eq_false (by simp only [pyLen]; omega)
        simp only [ordered_inner_map_result_size.guardE_L3, this, Bool.false_eq_true, if_false]
      refine ⟨Nat.le_refl _, ?_⟩
      simp only [Nat.sub_self, Nat.add_zero]
      cases F <;> simp [whileG, hg]

def R (left right : List Int) (s : St) (t : ZS) : Prop :=
  s.p0 = left ∧ s.p1 = right ∧ s.v0 = (t.i : Int) ∧ s.v1 = (t.j : Int) ∧ s.v2 = (t.size : Int)

theorem step (left right : List Int) (F : Nat) (hF : left.length + right.length ≤ F) (s : St) (t t' : ZS)
    (hR : R left right s t) (hb : sizeBody left right t = .ok t') :
    ∃ s', ordered_inner_map_result_size.body_L1 F s = .ok s' ∧ R left right s' t' := by
  obtain ⟨q0, q1, w0, w1, w2, w3, w4⟩ := s
  obtain ⟨ti, tj, tsz⟩ := t
  obtain ⟨h0, h1, hv0, hv1, hv2⟩ := hR
  simp only at h0 h1 hv0 hv1 hv2
  subst h0 h1 hv0 hv1 hv2
  simp only [sizeBody] at hb
  cases ha : getE q0 ti "left[i]" with
  | error e => simp [ha] at hb
  | ok a =>
    cases hbb : getE q1 tj "right[j]" with
    | error e => simp [ha, hbb] at hb
    | ok b =>
      simp only [ha, hbb] at hb
      simp only [ordered_inner_map_result_size.body_L1, idxE_nat, Gen.getE_site "p0[v0]" ha, Gen.getE_site "p1[v1]" hbb, bindE_ok]
      have e1 : (ti : Int) + 1 = ((ti + 1 : Nat) : Int) := by omega
      have e2 : (tj : Int) + 1 = ((tj + 1 : Nat) : Int) := by omega
      by_cases hlt : a < b
      · simp only [hlt, if_true, Except.ok.injEq] at hb
        subst hb
        simp only [hlt, decide_true, if_true, e1]
        exact ⟨_, rfl, rfl, rfl, rfl, rfl, rfl⟩
      · simp only [hlt, if_false] at hb
        simp only [hlt, decide_false, Bool.false_eq_true, if_false]
        by_cases hgt : a > b
        · simp only [hgt, if_true, Except.ok.injEq] at hb
          subst hb
          simp only [hgt, decide_true, if_true, e2]
          exact ⟨_, rfl, rfl, rfl, rfl, rfl, rfl⟩
        · simp only [hgt, if_false, runLen, if_true] at hb
          simp only [hgt, decide_false, Bool.false_eq_true, if_false]
          cases hn : runCount q0 q0.length q0.length ti 1 with
          | error e => simp [hn] at hb
          | ok n =>
            cases hm : runCount q1 q1.length q1.length tj 1 with
            | error e => simp [hn, hm] at hb
            | ok m =>
              simp only [hn, hm, Except.ok.injEq] at hb
              subst hb
              obtain ⟨hn1, hwL⟩ := countL q0 q0.length F ti 1 n ⟨q0, q1, (ti : Int), (tj : Int), (tsz : Int), 1, w4⟩ rfl rfl rfl
                (by omega) (by omega) hn
              rw [hwL]
              simp only [bindE_ok]
              obtain ⟨hm1, hwR⟩ := countR q1 q1.length F tj 1 m
                ⟨q0, q1, ((ti + (n - 1) : Nat) : Int), (tj : Int), (tsz : Int), (n : Int), 1⟩ rfl rfl rfl (by omega) (by omega) hm
              rw [hwR]
              simp only [bindE_ok]
              refine ⟨_, rfl, rfl, rfl, ?_, ?_, ?_⟩
              · simp only; omega
              · simp only; omega
              · simp only [Int.natCast_add, Int.natCast_mul]

end ISZ

/-- every `.ok` run of the model is a run of the translated kernel with the same size; any fuel ≥ len(left) + len(right) -/
theorem ordered_inner_map_result_size_ok (left right : List Int) (r fuel : Nat) (hfuel : left.length + right.length ≤ fuel)
    (h : innerResultSize left right = .ok r) :
    ordered_inner_map_result_size.run left right fuel = .ok (r : Int) := by
  unfold innerResultSize at h
  cases hw : whileE (fun s : ZS => decide (s.i < left.length) && decide (s.j < right.length)) (sizeBody left right)
      (left.length + right.length) {} with
  | error e => simp [hw] at h
  | ok t' =>
    simp only [hw, Except.ok.injEq] at h
    obtain ⟨s', hrun, hR⟩ := whileE_sim (fun (s : ISZ.St) (t : ZS) => ISZ.R left right s t)
      ordered_inner_map_result_size.guard_L1 (ordered_inner_map_result_size.body_L1 fuel)
      (fun s : ZS => decide (s.i < left.length) && decide (s.j < right.length)) (sizeBody left right)
      (by
        rintro s t ⟨h0, h1, hv0, hv1, _⟩
        simp only [ordered_inner_map_result_size.guard_L1, h0, h1, hv0, hv1, pyLen, Int.ofNat_lt])
      (fun s t t' hR _ hb => ISZ.step left right fuel hfuel s t t' hR hb)
      (left.length + right.length) ⟨left, right, 0, 0, 0, 0, 0⟩ {} t' ⟨rfl, rfl, rfl, rfl, rfl⟩ hw
    have hrun' := whileE_mono _ _ _ _ _ hrun fuel hfuel
    unfold ordered_inner_map_result_size.run
    simp only [hrun', bindE_ok, hR.2.2.2.2, h]

end Exetera.GenK
