import Exetera.Props.C06
import Exetera.Lemmas.GenKernelsCategorical
import Exetera.Lemmas.GenKernelsLeaky
import Exetera.Lemmas.GenKernelsFixedString
import Exetera.Lemmas.GenKernelsToValues
import Exetera.Lemmas.GenKernelsNumericBool
/-!
  C06 over the TRANSLATED import transforms (`Gen/Kernels.lean`, regenerated from operations.py by tools/translate_njit.py on every
  run).

  * `gen_categorical_transform_ok` (transfer form): every `.ok` run of the model `categoricalTransform` is a run of the translated
    `categorical_transform` — called with a zero-filled `chunk` of `written_row_count` entries and with staging arrays
    `column_inds` / `column_offsets` whose entry `col_idx` is the chunk's (`GenK.Staged`) — ending with the same `chunk`. Transfer
    and not refinement because the model folds the subscript of the column (`withCol`) and reports the key loop's stores as one
    optional value per row.
  * `gen_categorical_exact_match`: the property statement `C06.categorical_exact_match` for the translated kernel itself.
  * `gen_leaky_categorical_transform_ok` (transfer, for chunks whose row offsets do not decrease at the rows written: the model computes
    the length of a free-text cell in `Nat`, the code in signed arithmetic), `gen_leaky_transform_chunk` (the statement of
    `C06.leaky_transform_chunk` for the translated `leaky_categorical_transform`).
  * `gen_fixed_string_transform_ok`, `gen_fixed_truncates_to_n`; `gen_transform_to_values_ok` (transfer from `cellsE`),
    `gen_transform_to_values_cells` (the translated `transform_to_values` returns exactly the cells a chunk `Encodes`).
-/
namespace Exetera.Props.C06Gen

open Exetera Exetera.Transforms Exetera.Spec.Transforms Exetera.GenK Exetera.Gen.Kernels

theorem gen_categorical_transform_ok (bm : ByteMap) (c : Chunk) (cinds : List (List Int)) (coffs : List Int)
    (hst : Staged c cinds coffs) (r : List Int) (h : categoricalTransform bm c = .ok r) :
    categorical_transform.run (List.replicate c.rows 0) (c.col : Int) cinds (ints c.vals) coffs (ints bm.keys) (ints bm.index)
      bm.values = .ok r :=
  categorical_transform_ok bm c cinds coffs hst r h

/-- `categorical_transform` as translated, over `get_byte_map`'s packed table, on any chunk the reader filled (`Encodes`, C05) held
    at subscript `col_idx` of the staging arrays: it returns normally (no subscript out of range or negative, all three loops end)
    and every row gets the value of the one key that equals the whole cell, `0` when there is none -/
theorem gen_categorical_exact_match (cats : List (Bytes × Int)) (hnd : (cats.map (·.1)).Nodup) (c : Chunk)
    (cells : List Bytes) (h : Encodes c cells) (cinds : List (List Int)) (coffs : List Int) (hst : Staged c cinds coffs) :
    categorical_transform.run (List.replicate c.rows 0) (c.col : Int) cinds (ints c.vals) coffs
      (ints (getByteMap cats).keys) (ints (getByteMap cats).index) (getByteMap cats).values
      = .ok (cells.map (catCode cats)) :=
  categorical_transform_ok _ c cinds coffs hst _ (C06.categorical_exact_match cats hnd c cells h)

/-! ## leaky_categorical_transform -/

theorem gen_leaky_categorical_transform_ok (bm : ByteMap) (c : Chunk) (cinds : List (List Int)) (coffs : List Int)
    (hst : Staged c cinds coffs) (hmono : NonDecreasingBelow c.rows c.inds) (r : LeakyBuf) (h : leakyTransform bm c = .ok r) :
    leaky_categorical_transform.run (List.replicate c.rows 0) (List.replicate (c.rows + 1) 0) (List.replicate c.cap 0)
      (c.col : Int) cinds (ints c.vals) coffs (ints bm.keys) (ints bm.index) bm.values
      = .ok (r.chunk, ints r.ftIdx, ints r.ftVals) :=
  leaky_categorical_transform_ok bm c cinds coffs hst hmono r h

/-- `leaky_categorical_transform` as translated, on a chunk the reader filled, with the three zero-filled buffers
    `LeakyCategoricalImporter.import_part` allocates: it returns normally (every subscript and both slices in range) with the codes
    (`-1` for a cell that is no key), the free-text offsets counted from 0, and the free-text bytes followed by zero padding -/
theorem gen_leaky_transform_chunk (cats : List (Bytes × Int)) (hnd : (cats.map (·.1)).Nodup) (c : Chunk)
    (cells : List Bytes) (h : Encodes c cells) (cinds : List (List Int)) (coffs : List Int) (hst : Staged c cinds coffs) :
    ∃ pad, leaky_categorical_transform.run (List.replicate c.rows 0) (List.replicate (c.rows + 1) 0) (List.replicate c.cap 0)
        (c.col : Int) cinds (ints c.vals) coffs (ints (getByteMap cats).keys) (ints (getByteMap cats).index)
        (getByteMap cats).values
      = .ok (cells.map (leakyCode cats), ints (offsets 0 (cells.map (fun x => (freeText cats x).length))),
          ints ((cells.map (freeText cats)).flatten ++ List.replicate pad 0)) := by
  obtain ⟨pad, hm⟩ := C06.leaky_transform_chunk cats hnd c cells h
  exact ⟨pad, leaky_categorical_transform_ok _ c cinds coffs hst (encodes_nonDecreasingBelow c cells h) _ hm⟩

example : leaky_categorical_transform.run [0, 0, 0] [0, 0, 0, 0] [0, 0, 0, 0, 0, 0, 0] 1 [[0, 0, 0, 0, 0], [0, 2, 2, 5, 9]]
    [88, 88, 97, 98, 97, 98, 99, 88, 88] [0, 2, 9] [97, 97, 98, 99] [0, 1, 4] [1, 7]
    = .ok ([-1, -1, 7], [0, 2, 2, 2], [97, 98, 0, 0, 0, 0, 0]) := by rfl
example : NonDecreasingBelow C06.demoChunk.rows C06.demoChunk.inds :=
  encodes_nonDecreasingBelow _ _ C06.demo_encodes

/-! ## fixed_string_transform

  The model keeps the bytes of the `S<n>` buffer as naturals; the kernel writes `np.int8(b)` into the int8 view of that buffer. The
  translation renders the cast (`PyRt.pyInt8`), so the translated kernel's memory is the model's read as signed bytes
  (`GenK.asInt8`; the identity below 128). -/

theorem gen_fixed_string_transform_ok (c : Chunk) (strlen : Nat) (cinds : List (List Int)) (coffs : List Int)
    (hst : Staged c cinds coffs) (mem : Bytes) (h : fixedStringTransform c strlen = .ok mem) :
    fixed_string_transform.run cinds (ints c.vals) coffs (c.col : Int) (c.rows : Int) (strlen : Int)
      (List.replicate (c.rows * strlen) 0) = .ok (mem.map asInt8) :=
  fixed_string_transform_ok c strlen cinds coffs hst mem h

/-- `fixed_string_transform` as translated, on a chunk the reader filled: it returns normally and each row of the buffer is the
    first `n` bytes of its cell, zero padded (as signed bytes) -/
theorem gen_fixed_truncates_to_n (c : Chunk) (n : Nat) (cells : List Bytes) (h : Encodes c cells) (cinds : List (List Int))
    (coffs : List Int) (hst : Staged c cinds coffs) :
    fixed_string_transform.run cinds (ints c.vals) coffs (c.col : Int) (c.rows : Int) (n : Int) (List.replicate (c.rows * n) 0)
      = .ok (((cells.map (fixedCell n)).flatten).map asInt8) :=
  fixed_string_transform_ok c n cinds coffs hst _ (C06.fixed_truncates_to_n c n cells h)

example : fixed_string_transform.run [[0, 0, 0, 0, 0], [0, 2, 2, 5, 9]] [88, 88, 97, 98, 97, 98, 99, 88, 200] [0, 2, 9] 1 3 2
    [0, 0, 0, 0, 0, 0] = .ok [97, 98, 0, 0, 97, 98] := by rfl
example : asInt8 200 = -56 ∧ asInt8 97 = 97 := by decide

example : Staged C06.demoChunk [[0, 0, 0, 0, 0], [0, 2, 2, 5, 9]] [0, 2, 9] := ⟨rfl, rfl⟩
example : categorical_transform.run [0, 0, 0] 1 [[0, 0, 0, 0, 0], [0, 2, 2, 5, 9]] [88, 88, 97, 98, 97, 98, 99, 88, 88] [0, 2, 9]
    [97, 97, 98, 97, 98, 99] [0, 1, 3, 6] [1, 2, 3] = .ok [2, 0, 3] := by rfl
-- the column subscript is really checked: `i_c` = number of columns fails at `column_inds[i_c]`
example : categorical_transform.run [0, 0, 0] 2 [[0, 0, 0, 0, 0], [0, 2, 2, 5, 9]] [88, 88, 97, 98, 97, 98, 99, 88, 88] [0, 2, 9]
    [] [0] [] = .error (.oob "p2[p1]") := by rfl

/-! ## transform_to_values

  The model reads a cell with `sliceE` (the end of the slice must lie inside `column_vals`); the code is a Python slice, which clamps
  (`PyRt.pySlice`) and never raises. The two slices are the same list (`GenK.pySlice_ints_nat`); only the model's range check
  differs, hence transfer form: nothing is said where the model reports the end of a cell beyond the buffer (the translated kernel
  returns the shortened cell there; last `example`). -/

theorem gen_transform_to_values_ok (c : Chunk) (cinds : List (List Int)) (coffs : List Int) (hst : Staged c cinds coffs)
    {cells : List Bytes} (h : cellsE c = .ok cells) :
    transform_to_values.run cinds (ints c.vals) coffs (c.col : Int) (c.rows : Int) = .ok (cells.map ints) :=
  transform_to_values_ok c cinds coffs hst h

/-- `transform_to_values` as translated, on a chunk the reader filled (`Encodes`, C05) held at subscript `col_idx` of the staging
    arrays: it returns normally (no subscript out of range or negative) and `data` is exactly the cells of the column, one byte
    string per row written, in row order -/
theorem gen_transform_to_values_cells (c : Chunk) (cells : List Bytes) (h : Encodes c cells) (cinds : List (List Int))
    (coffs : List Int) (hst : Staged c cinds coffs) :
    transform_to_values.run cinds (ints c.vals) coffs (c.col : Int) (c.rows : Int) = .ok (cells.map ints) :=
  transform_to_values_ok c cinds coffs hst (cellsE_spec c cells h)

example : cellsE C06.demoChunk = .ok [[97, 98], [], [97, 98, 99]] := by rfl
example : transform_to_values.run [[0, 0, 0, 0, 0], [0, 2, 2, 5, 9]] [88, 88, 97, 98, 97, 98, 99, 88, 88] [0, 2, 9] 1 3
    = .ok [[97, 98], [], [97, 98, 99]] :=
  gen_transform_to_values_cells C06.demoChunk _ C06.demo_encodes _ _ ⟨rfl, rfl⟩
example : transform_to_values.run [[0, 0, 0, 0, 0], [0, 2, 2, 5, 9]] [88, 88, 97, 98, 97, 98, 99, 88, 88] [0, 2, 9] 1 3
    = .ok [[97, 98], [], [97, 98, 99]] := by rfl
-- where the model and the code part: a cell that ends beyond `column_vals` — `sliceE` reports it, the Python slice is cut short
example : cellsE { C06.demoChunk with inds := [0, 2, 2, 5, 9], vals := [88, 88, 97, 98, 97, 98] }
      = .error (.oob "column_vals[start_idx:end_idx]") ∧
    transform_to_values.run [[0, 0, 0, 0, 0], [0, 2, 2, 5, 9]] [88, 88, 97, 98, 97, 98] [0, 2, 9] 1 3
      = .ok [[97, 98], [], [97, 98]] := ⟨by rfl, by rfl⟩

/-! ## numeric_bool_transform (translated; tied to the hand model at the level of its two trimming loops only) -/

/-- **partial.** FULL statement (not proved): every `.ok` run of `Transforms.boolTransform` is a run of the translated
    `numeric_bool_transform` ending with the same `elements` / `validity` and exception code.  PROVED: the first trimming loop of the
    row body (`while byte_start_idx < length and column_vals[col_offset + row_start_idx + byte_start_idx] == 32`, a `while` whose
    condition subscripts) follows every successful run of the model's `skipLead` — no subscript out of range or negative, the loop
    ends within any fuel ≥ its trip count, `byte_start_idx` ends on the model's value and nothing else of the state changes.
    MISSING: the row loop `body_L1` (the literal cascade against `boolLitIn Gen.boolLiterals`, the two stores, the three
    validation modes) and the call.  The translation itself is validated differentially on every run (checks/harness/genkernels.py). -/
theorem gen_numeric_bool_lead_partial (vals : Bytes) (base n b r fuel : Nat) (s : numeric_bool_transform.St)
    (h : skipLead vals base n b = .ok r) (hf : n ≤ fuel) (h3 : s.p3 = ints vals) (hb : s.v0 + s.v7 = (base : Int))
    (h10 : s.v10 = (b : Int)) (h9 : s.v9 = ((b + n : Nat) : Int)) :
    PyRt.whileG numeric_bool_transform.guardE_L2 numeric_bool_transform.body_L2 fuel s = .ok { s with v10 := (r : Int) } :=
  NumericBool.lead_transfer vals base n b r fuel s h hf h3 hb h10 h9

/-- **partial** (see `gen_numeric_bool_lead_partial` for the full statement and what is missing): the second trimming loop
    (`while byte_end_idx >= 0 and column_vals[col_offset + row_start_idx + byte_end_idx] == 32: byte_end_idx -= 1`) follows every
    successful run of the model's `skipTrail` -/
theorem gen_numeric_bool_trail_partial (vals : Bytes) (base e r fuel : Nat) (s : numeric_bool_transform.St)
    (h : skipTrail vals base e = .ok r) (hf : e ≤ fuel) (h3 : s.p3 = ints vals) (hb : s.v0 + s.v7 = (base : Int))
    (h11 : s.v11 = (e : Int) - 1) :
    PyRt.whileG numeric_bool_transform.guardE_L3 numeric_bool_transform.body_L3 fuel s = .ok { s with v11 := (r : Int) - 1 } :=
  NumericBool.trail_transfer vals base e r fuel s h hf h3 hb h11

/-- the hypotheses are satisfiable: the cell `"  1 "` -/
example : skipLead [32, 32, 49, 32] 0 4 0 = .ok 2 ∧ skipTrail [32, 32, 49, 32] 0 4 = .ok 3 := ⟨rfl, rfl⟩

end Exetera.Props.C06Gen
