import Exetera.Lemmas.JoinFlatInner
/-! `ordered_inner_map_result_size` returns the number of matching pairs (C19). -/
namespace Exetera.JoinFlat
open Exetera Exetera.Spec Exetera.Join

structure ZInv (L R : List Int) (s : ZS) : Prop where
  ile : s.i ≤ L.length
  jle : s.j ≤ R.length
  cnt : s.size + (irest L R s.i).length = (irest L R 0).length
  below : Below L R s.i s.j

theorem sizeBody_step {L R : List Int} {s : ZS} (hL : Sorted L) (hR : Sorted R) (hinv : ZInv L R s)
    (hg : (decide (s.i < L.length) && decide (s.j < R.length)) = true) :
    ∃ s', sizeBody L R s = .ok s' ∧ ZInv L R s' ∧ imu L R s'.i s'.j < imu L R s.i s.j := by
  simp only [Bool.and_eq_true, decide_eq_true_eq] at hg
  obtain ⟨hi, hj⟩ := hg
  have ha := get?_some_of_lt hi
  have hb := get?_some_of_lt hj
  simp only [sizeBody, getE_of_lt _ hi, getE_of_lt _ hj]
  by_cases hlt : L[s.i] < R[s.j]
  · simp only [hlt, if_true]
    have hr := irest_unmatched hR hinv.below ha (by omega) (fun b hb' => by rw [hb] at hb'; cases hb'; exact hlt)
    refine ⟨_, rfl, ⟨by simp only []; omega, hinv.jle, ?_, Below.step_left hL hinv.below⟩, by simp only [imu]; omega⟩
    simp only []; rw [← hr]; exact hinv.cnt
  · simp only [hlt, if_false]
    by_cases hgt : L[s.i] > R[s.j]
    · simp only [hgt, if_true]
      refine ⟨_, rfl, ⟨hinv.ile, by simp only []; omega, hinv.cnt, ?_⟩, by simp only [imu]; omega⟩
      apply Below.step_right hinv.below
      intro a b ha' hb'
      rw [ha] at ha'; rw [hb] at hb'; cases ha'; cases hb'; exact hgt
    · simp only [hgt, if_false]
      have heq : R[s.j] = L[s.i] := by omega
      have hb' : R[s.j]? = some L[s.i] := by rw [hb, heq]
      obtain ⟨n, hn, hln⟩ := runLen_isRun true hL (by simp) ha
      obtain ⟨m, hm, hrm⟩ := runLen_isRun true hR (by simp) hb'
      have hrun := irest_run hL hR hinv.below hln hrm
      have hbel := (rest_run hL hR hinv.below hln hrm).2
      have hc := hinv.cnt
      rw [hrun, List.length_append, blockRows_length] at hc
      simp only [hn, hm]
      have hnp := hln.pos
      have hmp := hrm.pos
      have hnl := hln.le
      have hml := hrm.le
      exact ⟨_, rfl, ⟨by simp only []; omega, by simp only []; omega, by simp only []; omega, hbel⟩,
        by simp only [imu]; omega⟩

theorem irest_exhausted {L R : List Int} (hL : Sorted L) (hR : Sorted R) :
    ∀ k I, I + k = L.length → Below L R I R.length → irest L R I = [] := by
  intro k
  induction k with
  | zero => intro I hI _; simp [irest, rest_of_ge L R (by omega : L.length ≤ I), sel_nil]
  | succ k ih =>
    intro I hI hb
    have hIl : I < L.length := by omega
    rw [irest_unmatched hR hb (get?_some_of_lt hIl) (by omega) (fun b hb' => by
      have := (List.getElem?_eq_some_iff.mp hb').1; omega)]
    exact ih (I + 1) (by omega) (Below.step_left hL hb)

theorem irest_zero_length (L R : List Int) : (irest L R 0).length = (innerJoin L R).length := by
  have hspec := inner_eq_sel_left R L 0
  simp only [encodeInner, Prod.mk.injEq] at hspec
  have := congrArg List.length hspec.1
  simp only [List.length_map, encL_length] at this
  simp only [irest, rest, List.drop_zero]
  exact this.symm

/-- **`ordered_inner_map_result_size` is the number of matching pairs** -/
theorem innerResultSize_eq {L R : List Int} (hL : Sorted L) (hR : Sorted R) :
    innerResultSize L R = .ok (innerJoin L R).length := by
  have h0 : ZInv L R ({} : ZS) := ⟨by simp, by simp, by simp, Below.zero L R 0⟩
  obtain ⟨s1, hw1, hI1, hg1⟩ := whileE_rule (fun s : ZS => decide (s.i < L.length) && decide (s.j < R.length))
    (sizeBody L R) (ZInv L R) (fun s => imu L R s.i s.j)
    (fun s hI hg => sizeBody_step hL hR hI hg) (L.length + R.length) {} h0 (by simp [imu])
  have hrest : irest L R s1.i = [] := by
    have h1 := hI1.ile
    have h2 := hI1.jle
    simp only [Bool.and_eq_false_iff, decide_eq_false_iff_not] at hg1
    by_cases hi : s1.i < L.length
    · have hj : s1.j = R.length := by omega
      have hb := hI1.below
      rw [hj] at hb
      exact irest_exhausted hL hR (L.length - s1.i) s1.i (by omega) hb
    · simp [irest, rest_of_ge L R (by omega : L.length ≤ s1.i), sel_nil]
  have hc := hI1.cnt
  rw [hrest, irest_zero_length] at hc
  simp only [innerResultSize, hw1]
  simp only [List.length_nil, Nat.add_zero] at hc
  rw [hc]
