import Exetera.Lemmas.CsvLoop
/-! `read_file_using_fast_csv_reader` over any number of windows (no buffer regrowth) (C05). -/
namespace Exetera.Csv
open Exetera Spec

abbrev dguard (file : Bytes) : DS → Bool := fun s => decide (s.ci < file.length) && !s.stop

theorem windows_loop {file : Bytes} {crs ncols : Nat} {offs im : List Nat} {hrow : List Cell} {rows : List (List Cell)}
    (st : Setting file crs ncols offs im hrow rows) (hfile : file ≠ []) :
    ∀ (n : Nat) (s : DS) (ci d : Nat) (hh : Bool),
      DInv ncols (crs * Gen.Csv.CHUNK_ROW_FACTOR) offs im s ci hh d (doneCols rows d) →
      (ci = if hh then 0 else (renderCells hrow ++ render (rows.take d)).length) → (hh = true → d = 0) →
      d ≤ rows.length → rows.length - d + (if hh then 1 else 0) ≤ n →
      ∀ fuel, n + 1 ≤ fuel →
        ∃ s', whileE (dguard file) (driverStep file (crs * Gen.Csv.CHUNK_ROW_FACTOR * ncols) ncols im) fuel s = .ok s' ∧
          s'.rows = (rows.length : Int) ∧ s'.imps = im.map (fun c => fieldOf' (column (values rows) c)) := by
  intro n
  induction n with
  | zero =>
    intro s ci d hh hinv hpos hd0 hd hn fuel hfuel
    -- nothing is left: the loop is over
    have hhf : hh = false := by cases hh <;> simp at hn ⊢
    subst hhf
    have hdeq : d = rows.length := by simp at hn; omega
    subst hdeq
    simp only [Bool.false_eq_true, if_false] at hpos
    have hci : ¬ s.ci < file.length := by
      rw [hinv.ci, hpos, List.take_of_length_le (Nat.le_refl _)]
      have := isFile_length st.isFile
      have : (renderCells hrow ++ render rows) = render (hrow :: rows) := rfl
      rw [this]; omega
    refine ⟨s, ?_, hinv.rows, ?_⟩
    · cases fuel <;> simp [whileE, dguard, hci]
    · rw [hinv.imps]
      apply List.map_congr_left
      intro c _
      simp [doneCols]
  | succ n ih =>
    intro s ci d hh hinv hpos hd0 hd hn fuel hfuel
    obtain ⟨f, rfl⟩ : ∃ f, fuel = f + 1 := ⟨fuel - 1, by omega⟩
    by_cases hlt : ci < file.length
    · have hg : dguard file s = true := by simp [dguard, hinv.ci, hlt, hinv.stop]
      by_cases hend : file.length ≤ ci + crs * Gen.Csv.CHUNK_ROW_FACTOR * ncols
      · obtain ⟨s', hstep, hci', hstop', hrows', himps'⟩ := last_step st hinv hpos hd0 hd hlt hend
        refine ⟨s', ?_, hrows', himps'⟩
        simp only [whileE, hg, if_true, hstep]
        have : ¬ s'.ci < file.length := by omega
        cases f <;> simp [whileE, dguard, this]
      · obtain ⟨s', a, hstep, hda, hprog, hinv'⟩ := window_step st hinv hpos hd0 (by omega)
        obtain ⟨s'', hloop, hr, hi⟩ :=
          ih s' _ (d + a) false hinv' (by simp) (fun h => by cases h) hda
            (by
              simp only [Bool.false_eq_true, if_false, Nat.add_zero]
              rcases hprog with h | h
              · subst h; simp at hn; omega
              · cases hh <;> simp at hn <;> omega)
            f (by omega)
        refine ⟨s'', ?_, hr, hi⟩
        simp only [whileE, hg, if_true, hstep]
        exact hloop
    · -- the position is already at the end of the file: all records are imported
      have hhf : hh = false := by
        cases hh with
        | false => rfl
        | true =>
          simp only [if_true] at hpos
          subst hpos
          exact absurd (List.length_pos_iff.mpr hfile) hlt
      subst hhf
      simp only [Bool.false_eq_true, if_false] at hpos
      have hdeq : d = rows.length := by
        have hT : render (hrow :: rows) = renderCells hrow ++ render (rows.take d) ++ render (rows.drop d) := by
          rw [List.append_assoc, ← render_take_drop]; rfl
        have hTlen2 : (render (hrow :: rows)).length ≤ file.length + 1 := by
          rcases st.isFile with h | ⟨h, _⟩
          · rw [← h]; omega
          · rw [← h]; simp
        have h1 := render_length_ge ncols (rows.drop d) (fun l hl => st.min l (by simp [List.mem_of_mem_drop hl]))
        have h2 : (render (hrow :: rows)).length = ci + (render (rows.drop d)).length := by
          rw [hT, hpos]; simp; omega
        have h3 : (rows.drop d).length * (ncols + 1) ≤ 1 := by omega
        have hnc := st.nc
        have h4 : (rows.drop d).length = 0 := by
          rcases Nat.eq_zero_or_pos (rows.drop d).length with h | h
          · exact h
          · exfalso
            have : 1 * (ncols + 1) ≤ (rows.drop d).length * (ncols + 1) := Nat.mul_le_mul_right _ h
            omega
        simp at h4
        omega
      subst hdeq
      have hci : ¬ s.ci < file.length := by rw [hinv.ci]; exact hlt
      refine ⟨s, ?_, hinv.rows, ?_⟩
      · simp [whileE, dguard, hci]
      · rw [hinv.imps]
        apply List.map_congr_left
        intro c _
        simp [doneCols]

/-- **the driver over any number of windows** (supported regime, no record of empty cells only, budgets that never fill):
    the destination fields are exactly the file's columns, for every chunk size -/
theorem readFile_windows {file : Bytes} {crs ncols : Nat} {offs im : List Nat} {hrow : List Cell} {rows : List (List Cell)}
    (st : Setting file crs ncols offs im hrow rows) (hfile : file ≠ []) (fuel : Nat) (hfuel : rows.length + 2 ≤ fuel) :
    ∃ calls, readFile file crs ncols offs im (im.map (fun _ => ({ kind := .indexed } : Imp))) fuel =
      .ok ⟨rows.length, im.map (fun c => fieldOf (column (values rows) c)), calls⟩ := by
  have hsh := shape_zeros (maxrow := crs * Gen.Csv.CHUNK_ROW_FACTOR) st.offsLen st.offs0 st.mono
  have hinv0 : DInv ncols (crs * Gen.Csv.CHUNK_ROW_FACTOR) offs im
      ({ ci := 0, hasHeader := true, rows := 0, inds := zeros2 ncols (crs * Gen.Csv.CHUNK_ROW_FACTOR + 1), vals := List.replicate (offs.getLastD 0) 0, offs := offs, indsFull := false, valsFull := false, content := [], start := 0, imps := im.map (fun _ => ({ kind := .indexed } : Imp)), calls := [], stop := false } : DS)
      0 true 0 (doneCols rows 0) := {
    ci := rfl
    hh := rfl
    rows := rfl
    offsEq := rfl
    indsFull := rfl
    valsFull := rfl
    stop := rfl
    shape := hsh
    zero := fun c hc => zeros_first c hc
    imps := by
      apply List.map_congr_left
      intro c _
      simp [doneCols, values, column, fieldOf', indexOf, bytesOf, offsetsFrom] }
  obtain ⟨s', hloop, hr, hi⟩ :=
    windows_loop st hfile (rows.length + 1) _ 0 0 true hinv0 rfl (fun _ => rfl) (Nat.zero_le _) (by simp) fuel (by omega)
  refine ⟨s'.calls, ?_⟩
  unfold readFile
  dsimp only
  rw [hloop]
  simp only [hr, hi]
  rfl

end Exetera.Csv
