import Exetera.Lemmas.Spans
import Exetera.Lemmas.SpansScan
import Exetera.Lemmas.SpansMerge
/-! Helper lemmas for C08, part 5: the entry points (`Field.get_spans`, `Session.get_spans`) against one notion of row. -/
namespace Exetera.Spans

open Exetera Exetera.Spec

/-- a row of any column kind: a number, or a byte string -/
inductive Row where
  | num (x : Int)
  | str (s : List Nat)
  deriving DecidableEq, Repr

/-- the rows of a column as the property sees them (fixed strings and indexed strings are byte strings) -/
def Column.rows : Column → List Row
  | .numeric xs => xs.map .num
  | .fixed xs => xs.map .str
  | .indexed i v => (decodeRows i v).map .str

/-- what has to hold of a column for its spans to be defined: an indexed column needs a well-formed index -/
def Column.Valid : Column → Prop
  | .indexed i v => ValidIndex i v
  | _ => True

theorem isBoundary_map {α β} [BEq α] [LawfulBEq α] [BEq β] [LawfulBEq β] (f : α → β)
    (hf : ∀ a b, f a = f b → a = b) (xs : List α) (i : Nat) :
    isBoundary neq (xs.map f) i = isBoundary neq xs i := by
  cases i with
  | zero => simp [isBoundary_zero]
  | succ i =>
    rw [isBoundary_succ, isBoundary_succ, List.getElem?_map, List.getElem?_map]
    cases h1 : xs[i]? <;> cases h2 : xs[i + 1]? <;> simp [neq]
    rename_i a b
    by_cases hab : a = b
    · simp [hab]
    · have hfab : f a ≠ f b := fun h => hab (hf _ _ h)
      have e1 : (a == b) = false := by simpa using hab
      have e2 : (f a == f b) = false := by simpa using hfab
      simp [bne, e1, e2]

theorem spans_map {α β} [BEq α] [LawfulBEq α] [BEq β] [LawfulBEq β] (f : α → β)
    (hf : ∀ a b, f a = f b → a = b) (xs : List α) : spans neq (xs.map f) = spans neq xs :=
  spans_congr _ _ _ _ (by simp) (isBoundary_map f hf xs)

/-- `Field.get_spans()` / `get_spans_for_field(ndarray)` of every column kind = spans of its rows -/
theorem columnSpans_eq_spec (c : Column) (hv : c.Valid) : columnSpans .repaired c = .ok (spans neq c.rows) := by
  cases c with
  | numeric xs =>
    simp only [columnSpans, Column.rows]
    rw [spans_map Row.num (fun a b h => by injection h), ← getSpansForField_eq_spec]; rfl
  | fixed xs =>
    simp only [columnSpans, Column.rows, fixedNe]
    rw [spans_map Row.str (fun a b h => by injection h), ← getSpansForField_eq_spec]; rfl
  | indexed i v =>
    simp only [columnSpans, Column.rows]
    rw [spans_map Row.str (fun a b h => by injection h)]
    exact getSpansForIndexStringField_eq_spec i v hv

/-- `Session.get_spans(fields=(f0, f1))` = spans of the zipped rows -/
theorem sessionGetSpansFields_eq_spec (c0 c1 : Column) (h0 : c0.Valid) (h1 : c1.Valid)
    (hl : c0.rows.length = c1.rows.length) :
    sessionGetSpansFields .repaired [c0, c1] = .ok (spans neq (c0.rows.zip c1.rows)) := by
  simp only [sessionGetSpansFields, foldColumnSpans, columnSpans_eq_spec c0 h0, columnSpans_eq_spec c1 h1,
    getSpansFor2FieldsBySpans_eq_spec c0.rows c1.rows hl]

theorem isBoundary_jointRows2 (a b : List Int) (hl : a.length = b.length) (i : Nat) :
    isBoundary neq (jointRows [a, b] a.length) i = isBoundary neq (a.zip b) i := by
  rw [isBoundary_zip a b hl]
  cases i with
  | zero => simp [isBoundary_zero]
  | succ i =>
    by_cases hi : i + 1 < a.length
    · rw [isBoundary_succ, getElem?_jointRows _ _ i (by omega), getElem?_jointRows _ _ (i + 1) hi]
      rw [isBoundary_eq _ a _ (by omega) hi, isBoundary_eq _ b _ (by omega) (by omega)]
      simp only [List.map_cons, List.map_nil, Nat.add_sub_cancel]
      rw [List.getElem?_eq_getElem (by omega : i < a.length), List.getElem?_eq_getElem hi,
        List.getElem?_eq_getElem (by omega : i < b.length), List.getElem?_eq_getElem (by omega : i + 1 < b.length)]
      simp only [neq, bne, List.cons_beq_cons, Option.some_beq_some]
      cases a[i] == a[i + 1] <;> cases b[i] == b[i + 1] <;> rfl
    · have h1 : isBoundary neq a (i + 1) = false := by
        cases h : isBoundary neq a (i + 1) with
        | false => rfl
        | true => have := isBoundary_lt h; omega
      have h2 : isBoundary neq b (i + 1) = false := by
        cases h : isBoundary neq b (i + 1) with
        | false => rfl
        | true => have := isBoundary_lt h; omega
      have h3 : isBoundary neq (jointRows [a, b] a.length) (i + 1) = false := by
        cases h : isBoundary neq (jointRows [a, b] a.length) (i + 1) with
        | false => rfl
        | true => have := isBoundary_lt h; rw [jointRows_length] at this; omega
      rw [h1, h2, h3]; rfl

end Exetera.Spans
