import Exetera.Gen.Kernels
import Exetera.Model.Transforms
import Exetera.Lemmas.GenKernels
import Exetera.Lemmas.GenKernelsSpans
import Exetera.Lemmas.GenKernelsSpansIdxMinIndexed
import Exetera.Lemmas.GenKernelsCategorical
/-!
  The TRANSLATED `fixed_string_transform` (rows, then the bytes of a row; `memory[a] = np.int8(column_vals[c])`) against
  `Transforms.fixedStringTransform` — transfer form. The model keeps bytes as naturals, the kernel stores `np.int8(b)` into the int8
  view of the `S<n>` buffer: the translated kernel's memory is the model's, byte for byte, read as signed bytes (`asInt8`).
-/
namespace Exetera.GenK

open Exetera Exetera.PyRt Exetera.Transforms Exetera.Gen.Kernels

/-- a byte as the int8 view of the fixed-string buffer holds it -/
def asInt8 (b : Nat) : Int := pyInt8 (b : Int)

theorem asInt8_lt_128 {b : Nat} (h : b < 128) : asInt8 b = (b : Int) := by
  simp only [asInt8, pyInt8, Int.fmod_eq_emod_of_nonneg _ (by omega : (0 : Int) ≤ 256)]
  omega

namespace FS

abbrev St := fixed_string_transform.St

abbrev loop2 (n : Nat) (k : Int) (s : St) : Except Err St :=
  forRangeAux (fun _ => false) (fun k s => fixed_string_transform.body_L2 { s with v5 := k }) n k s

abbrev loop1 (n : Nat) (k : Int) (s : St) : Except Err St :=
  forRangeAux (fun _ => false) (fun k s => fixed_string_transform.body_L1 { s with v1 := k }) n k s

theorem copy_sim (vals : List Nat) :
    ∀ (n p a : Nat) (mem : Bytes) (s : St), s.p1 = ints vals → s.p6 = mem.map asInt8 → s.v2 = (a : Int) →
      match copyBytes vals n p a mem with
      | .ok mem' => ∃ s', loop2 n (p : Int) s = .ok s' ∧ s'.p6 = mem'.map asInt8 ∧ s'.p0 = s.p0 ∧ s'.p1 = s.p1 ∧ s'.p2 = s.p2 ∧
          s'.p3 = s.p3 ∧ s'.p4 = s.p4 ∧ s'.p5 = s.p5 ∧ s'.v0 = s.v0
      | .error _ => True := by
  intro n
  induction n with
  | zero => intro p a mem s _ h6 _; exact ⟨s, rfl, h6, rfl, rfl, rfl, rfl, rfl, rfl, rfl⟩
  | succ n ih =>
    intro p a mem s h1 h6 hv2
    obtain ⟨q0, q1, q2, q3, q4, q5, q6, w0, w1, w2, w3, w4, w5⟩ := s
    simp only at h1 h6 hv2
    subst h1 h6 hv2
    have e3 : ((p : Int) + 1) = ((p + 1 : Nat) : Int) := by omega
    have e4 : ((a : Int) + 1) = ((a + 1 : Nat) : Int) := by omega
    simp only [copyBytes, loop2, forRangeAux, fixed_string_transform.body_L2, idxE_nat, setIdxE_nat]
    cases hb : vals[p]? with
    | none => simp [getE, hb]
    | some b =>
      simp only [getE, List.getElem?_map, hb, Option.map_some, bindE_ok, setE, List.length_map, Int.ofNat_eq_natCast]
      by_cases ha : a < mem.length
      · simp only [ha, if_true, bindE_ok, Bool.false_eq_true, if_false, e3, e4]
        have := ih (p + 1) (a + 1) (mem.set a b)
          ⟨q0, ints vals, q2, q3, q4, q5, (mem.map asInt8).set a (pyInt8 (b : Int)), w0, w1, ((a + 1 : Nat) : Int), w3, w4, (p : Int)⟩
          rfl (by simp [List.map_set, asInt8]) rfl
        simp only [loop2] at this
        exact this
      · simp [ha]

theorem rows_sim (c : Chunk) (strlen : Nat) (cinds : List (List Int)) (hinds : cinds[c.col]? = some (ints c.inds)) :
    ∀ (n i : Nat) (mem : Bytes) (s : St), s.p0 = cinds → s.p1 = ints c.vals → s.p3 = (c.col : Int) → s.p5 = (strlen : Int) →
      s.p6 = mem.map asInt8 → s.v0 = (c.off : Int) →
      match fixedRows c strlen n i mem with
      | .ok mem' => ∃ s', loop1 n (i : Int) s = .ok s' ∧ s'.p6 = mem'.map asInt8
      | .error _ => True := by
  intro n
  induction n with
  | zero => intro i mem s _ _ _ _ h6 _; exact ⟨s, rfl, h6⟩
  | succ n ih =>
    intro i mem s h0 h1 h3 h5 h6 hv0
    obtain ⟨q0, q1, q2, q3, q4, q5, q6, w0, w1, w2, w3, w4, w5⟩ := s
    simp only at h0 h1 h3 h5 h6 hv0
    subst h0 h1 h3 h5 h6 hv0
    have e3 : ((i : Int) + 1) = ((i + 1 : Nat) : Int) := by omega
    rw [loop1, forRangeAux_succ, e3]
    generalize hL : (fun s' : St => if (fun _ : St => false) s' = true then Except.ok s' else
      forRangeAux (fun _ => false) (fun k s => fixed_string_transform.body_L1 { s with v1 := k }) n
        ((i + 1 : Nat) : Int) s') = L
    simp only [fixedRows, fixed_string_transform.body_L1, idxE_nat, getE, hinds, bindE_ok, e3]
    cases hs0 : c.inds[i]? with
    | none => simp
    | some s0 =>
      cases he0 : c.inds[i + 1]? with
      | none => simp
      | some e0 =>
        simp only [List.getElem?_map, hs0, he0, Option.map_some, bindE_ok, Int.ofNat_eq_natCast, forRangeE]
        have hst : ((s0 : Int) + (c.off : Int)) = ((s0 + c.off : Nat) : Int) := by omega
        have hcnt : (min ((e0 : Int) + (c.off : Int)) ((s0 : Int) + (c.off : Int) + (strlen : Int)) - ((s0 : Int) + (c.off : Int))).toNat
            = min (e0 + c.off) (s0 + c.off + strlen) - (s0 + c.off) := by omega
        have hmul : (i : Int) * (strlen : Int) = ((i * strlen : Nat) : Int) := by simp
        rw [hcnt, hst]
        have hcp := copy_sim c.vals (min (e0 + c.off) (s0 + c.off + strlen) - (s0 + c.off)) (s0 + c.off) (i * strlen) mem
          ⟨q0, ints c.vals, q2, (c.col : Int), q4, (strlen : Int), mem.map asInt8, (c.off : Int), (i : Int), (i : Int) * (strlen : Int),
            ((s0 + c.off : Nat) : Int), min ((e0 : Int) + (c.off : Int)) (((s0 + c.off : Nat) : Int) + (strlen : Int)), w5⟩
          rfl rfl hmul
        simp only [loop2] at hcp
        cases hc : copyBytes c.vals (min (e0 + c.off) (s0 + c.off + strlen) - (s0 + c.off)) (s0 + c.off) (i * strlen) mem with
        | error e => simp
        | ok mem' =>
          rw [hc] at hcp
          obtain ⟨s', hrun, hp6, hp0, hp1, hp2, hp3, hp4, hp5, hv0'⟩ := hcp
          try simp only at hp0 hp1 hp2 hp3 hp4 hp5 hv0'
          simp only at hrun ⊢
          simp only [hrun, bindE_ok]
          subst hL
          simp only [Bool.false_eq_true, if_false]
          have := ih (i + 1) mem' s' hp0 hp1 hp3 hp5 hp6 hv0'
          simp only [loop1] at this
          exact this

end FS

/-- every `.ok` run of the model is a run of the translated kernel on the staging arrays that hold the chunk's column and a
    zero-filled buffer of `written_row_count * strlen` bytes, ending with the same buffer (read as signed bytes) -/
theorem fixed_string_transform_ok (c : Chunk) (strlen : Nat) (cinds : List (List Int)) (coffs : List Int)
    (hst : Staged c cinds coffs) (mem : Bytes) (h : fixedStringTransform c strlen = .ok mem) :
    fixed_string_transform.run cinds (ints c.vals) coffs (c.col : Int) (c.rows : Int) (strlen : Int)
      (List.replicate (c.rows * strlen) 0) = .ok (mem.map asInt8) := by
  unfold fixedStringTransform withCol at h
  split at h
  · simp at h
  · split at h
    · simp at h
    · have hrows := FS.rows_sim c strlen cinds hst.hinds c.rows 0 (List.replicate (c.rows * strlen) 0)
        ⟨cinds, ints c.vals, coffs, (c.col : Int), (c.rows : Int), (strlen : Int), List.replicate (c.rows * strlen) 0, (c.off : Int),
          0, 0, 0, 0, 0⟩ rfl rfl rfl rfl (by simp [asInt8, pyInt8]) rfl
      rw [h] at hrows
      obtain ⟨s', hrun, hp6⟩ := hrows
      have z : ((0 : Nat) : Int) = 0 := rfl
      simp only [FS.loop1, z] at hrun
      unfold fixed_string_transform.run
      have hto : ((c.rows : Int) - 0).toNat = c.rows := by omega
      simp only [idxE_nat, getE, hst.hoff, bindE_ok, forRangeE, hto, hrun, hp6]

end Exetera.GenK
