import Exetera.Lemmas.GroupByFinal
/-!
  C07 helper lemmas, part 6: counts, the hint, and the bridge between the index form used in the lemmas and the list form
  of `Spec/GroupBy.lean`.
-/
namespace Exetera.GroupBy
open Exetera Exetera.Spec Exetera.Spans Exetera.SortIndex List

theorem pairs_sum : ∀ (sp : List Nat) (a : Nat),
    ((pairs (a :: sp)).map (fun p => (p.2 : Int) - p.1)).sum = (((a :: sp).getLast (by simp) : Nat) : Int) - a
  | [], a => by simp [pairs]
  | b :: sp, a => by
    rw [pairs_cons_cons, map_cons, sum_cons, pairs_sum sp b]
    simp only [getLast_cons (cons_ne_nil b sp)]
    omega

/-- `count`: one count per adjacent group, the number of its rows; the counts add up to the number of rows -/
theorem count_along (cols : List (List Int)) (n : Nat) (idx : List Nat) (hperm : idx.Perm (List.range n)) :
    ∃ c, applySpansCount (spans neq (rowsBy (colsAlong cols idx) n)) = .ok c ∧
      c = ((groupAdj (frameAlong cols (List.replicate n (0 : Int)) 0 idx)).map (·.2)).map (fun vs => (vs.length : Int)) ∧
      c.sum = n := by
  have hlen := perm_range_length hperm
  let sp := spans neq (rowsBy (colsAlong cols idx) n)
  let T := List.replicate n (0 : Int)
  let Ts := idx.map (T.getD · 0)
  have hTs : Ts.length = n := by simp [Ts, hlen]
  have hw : Wellformed sp n := by
    have := spans_wellformed' neq (rowsBy (colsAlong cols idx) n)
    rw [show (rowsBy (colsAlong cols idx) n).length = n from by simp [rowsBy]] at this
    exact this
  have hframe : (rowsBy (colsAlong cols idx) n).zip Ts = frameAlong cols T 0 idx := by
    rw [← hlen, rowsBy_colsAlong]
    simp only [Ts, frameAlong]
    rw [zip_map']
  obtain ⟨_, hc2⟩ := frame_core (colsAlong cols idx) Ts n hTs
  rw [hframe] at hc2
  have hcnt := Exetera.Props.C08.apply_spans_count_eq sp Ts (by rw [hTs]; exact hw)
  refine ⟨_, hcnt, ?_, ?_⟩
  · rw [← hc2, map_map]; rfl
  · -- telescoping sum
    have hpw : ∀ p ∈ pairs sp, p.1 < p.2 ∧ p.2 ≤ n := pairs_wellformed hw
    have hmap : (pairs sp).map (fun p => ((rowsOf Ts p).length : Int)) = (pairs sp).map (fun p => (p.2 : Int) - p.1) := by
      apply map_congr_left
      intro p hp
      have := hpw p hp
      simp only [rowsOf]
      rw [slice_length_of_le _ _ _ (by rw [hTs]; exact this.2)]
      omega
    rw [hmap]
    obtain ⟨a, rest, hsp⟩ : ∃ a rest, sp = a :: rest := by
      cases h : sp with
      | nil => have := wellformed_ne_nil hw; simp [h] at this
      | cons a rest => exact ⟨a, rest, rfl⟩
    have h0 : a = 0 := by
      have := hw.2.1; rw [hsp] at this; simp at this; exact this
    have hl : (a :: rest).getLast (by simp) = n := by
      have := hw.2.2; rw [hsp, getLast?_eq_some_getLast (by simp)] at this; exact Option.some.inj this
    have hs := pairs_sum rest a
    rw [hl, h0] at hs
    rw [hsp, h0, hs]; simp

/-- on a sorted frame the hint changes nothing: the sortedness test answers `True` itself -/
theorem groupby_hint_irrelevant (v : Variant) (k0 : KeyCol) (ks : List KeyCol) (n : Nat)
    (hrect : Rect n ((k0 :: ks).map (·.data))) (hf : Faithful (k0 :: ks))
    (hsorted : SortedRows ((k0 :: ks).map (·.data)) n) :
    groupbyStacked v (k0 :: ks) true = groupbyStacked v (k0 :: ks) false := by
  unfold groupbyStacked
  rw [stack_ok k0 ks n hrect]
  simp only [if_true, Bool.false_eq_true, if_false]
  obtain ⟨b, hb, hspec⟩ := checkIfSorted_spec (k0.data.map k0.cast) (ks.map (fun k => k.data.map k.cast)) n
    (by simpa using rect_stacked (k0 :: ks) n hrect)
  have hbt : b = true := by
    rw [hspec]
    intro i j hij hj
    have := hsorted i j hij hj
    rw [keyAt_data, keyAt_data, ← tupleLt_stacked n (k0 :: ks) hrect hf j i hj (by omega),
      ← keyAt_stacked (k0 :: ks) n j hrect hj, ← keyAt_stacked (k0 :: ks) n i hrect (by omega)] at this
    simpa using this
  subst hbt
  simp only [map_cons] at hb ⊢
  rw [hb]

/-! ### bridge to the list form of the specification -/

theorem keyRows_eq_rowsBy (cols : List (List Int)) (n : Nat) (h : Rect n cols) : keyRows n cols = rowsBy cols n := by
  have := keyRows_map (List.range n) cols
  rw [length_range] at this
  have e : cols.map (fun c => (List.range n).map (c.getD · 0)) = cols := colsAlong_range cols n h
  rw [e] at this
  exact this

theorem sortedRows_of_rowsSorted (cols : List (List Int)) (n : Nat) (h : Rect n cols) (hs : RowsSorted (keyRows n cols)) :
    SortedRows cols n := by
  rw [keyRows_eq_rowsBy cols n h] at hs
  unfold RowsSorted rowsBy at hs
  rw [pairwise_map, pairwise_iff_getElem] at hs
  intro i j hij hj
  have := hs i j (by simp; omega) (by simpa using hj) hij
  simpa using this

end Exetera.GroupBy
