import Exetera.Lemmas.JournalDefs
import Exetera.Lemmas.JournalSpec
import Exetera.Spec.JournalTable
/-! Facts about the stable insertion sort `sortStable` / `argsortStable` and the gather `gatherE` (C17, sorting part). -/
namespace Exetera.Journal
open Exetera Exetera.Spec.Journal

/-! ### the specification's sort is the model's sort -/

theorem insertByTime_eq (t : Int) (r : Nat) (l : List (Int × Nat)) : insertByTime t r l = insertStable t r l := by
  induction l with
  | nil => rfl
  | cons p rest ih =>
    obtain ⟨t', r'⟩ := p
    simp only [insertByTime, insertStable, ih]

theorem sortByTime_eq (l : List (Int × Nat)) : sortByTime l = sortStable l := by
  induction l with
  | nil => rfl
  | cons p rest ih =>
    obtain ⟨t, r⟩ := p
    simp only [sortByTime, sortStable, ih, insertByTime_eq]

/-! ### sortStable: permutation, sortedness -/

theorem insertStable_perm (k : Int) (r : Nat) (l : List (Int × Nat)) : (insertStable k r l).Perm ((k, r) :: l) := by
  induction l with
  | nil => exact List.Perm.refl _
  | cons p rest ih =>
    obtain ⟨k', r'⟩ := p
    simp only [insertStable]
    split
    · exact (List.Perm.cons _ ih).trans (List.Perm.swap _ _ _)
    · exact List.Perm.refl _

theorem sortStable_perm (l : List (Int × Nat)) : (sortStable l).Perm l := by
  induction l with
  | nil => exact List.Perm.refl _
  | cons p rest ih =>
    obtain ⟨k, r⟩ := p
    simp only [sortStable]
    exact (insertStable_perm k r _).trans (List.Perm.cons _ ih)

/-- sorted by key -/
def KeySorted (l : List (Int × Nat)) : Prop := l.Pairwise (fun a b => a.1 ≤ b.1)

theorem insertStable_of_le {k : Int} {r : Nat} {l : List (Int × Nat)} (h : ∀ p, p ∈ l → k ≤ p.1) :
    insertStable k r l = (k, r) :: l := by
  cases l with
  | nil => rfl
  | cons p rest =>
    obtain ⟨k', r'⟩ := p
    have := h (k', r') (by simp)
    simp only [insertStable]
    rw [if_neg (by simp at this; omega)]

theorem insertStable_sorted {k : Int} {r : Nat} {l : List (Int × Nat)} (h : KeySorted l) :
    KeySorted (insertStable k r l) := by
  induction l with
  | nil => simp [insertStable, KeySorted]
  | cons p rest ih =>
    obtain ⟨k', r'⟩ := p
    unfold KeySorted at h ih ⊢
    rw [List.pairwise_cons] at h
    simp only [insertStable]
    split
    · rename_i hlt
      rw [List.pairwise_cons]
      refine ⟨?_, ih h.2⟩
      intro q hq
      rcases List.mem_cons.1 ((insertStable_perm k r rest).mem_iff.1 hq) with hq | hq
      · subst hq; simp; omega
      · exact h.1 q hq
    · rename_i hge
      rw [List.pairwise_cons, List.pairwise_cons]
      refine ⟨?_, h⟩
      intro q hq
      rcases List.mem_cons.1 hq with hq | hq
      · subst hq; simp; omega
      · have := h.1 q hq; simp at this ⊢; omega

theorem sortStable_sorted (l : List (Int × Nat)) : KeySorted (sortStable l) := by
  induction l with
  | nil => simp [sortStable, KeySorted]
  | cons p rest ih =>
    obtain ⟨k, r⟩ := p
    simp only [sortStable]
    exact insertStable_sorted ih

theorem sortStable_of_sorted {l : List (Int × Nat)} (h : KeySorted l) : sortStable l = l := by
  induction l with
  | nil => rfl
  | cons p rest ih =>
    obtain ⟨k, r⟩ := p
    unfold KeySorted at h ih
    rw [List.pairwise_cons] at h
    simp only [sortStable, ih h.2]
    exact insertStable_of_le (fun p hp => h.1 p hp)

/-! ### filtering commutes with the stable sort -/

theorem insertStable_filter (q : Int × Nat → Bool) {k : Int} {r : Nat} {l : List (Int × Nat)} (h : KeySorted l) :
    (insertStable k r l).filter q = if q (k, r) then insertStable k r (l.filter q) else l.filter q := by
  induction l with
  | nil => simp only [insertStable, List.filter_cons, List.filter_nil]
  | cons p rest ih =>
    obtain ⟨k', r'⟩ := p
    unfold KeySorted at h ih
    rw [List.pairwise_cons] at h
    simp only [insertStable]
    by_cases hlt : k' < k
    · rw [if_pos hlt]
      by_cases hq' : q (k', r') = true
      · simp only [List.filter_cons, hq', if_true, ih h.2, insertStable, hlt]
        split <;> rfl
      · simp only [List.filter_cons, hq', ih h.2]
        simp
    · rw [if_neg hlt]
      have hall : ∀ p, p ∈ ((k', r') :: rest).filter q → k ≤ p.1 := by
        intro p hp
        have hp' := (List.mem_filter.1 hp).1
        rcases List.mem_cons.1 hp' with hp' | hp'
        · subst hp'; simp; omega
        · have := h.1 p hp'; simp at this; omega
      rw [insertStable_of_le hall]
      by_cases hq : q (k, r) = true
      · simp only [List.filter_cons (x := (k, r)), hq, if_true]
      · simp only [List.filter_cons (x := (k, r)), hq]

theorem sortStable_filter (q : Int × Nat → Bool) (l : List (Int × Nat)) :
    (sortStable l).filter q = sortStable (l.filter q) := by
  induction l with
  | nil => rfl
  | cons p rest ih =>
    obtain ⟨k, r⟩ := p
    simp only [sortStable]
    rw [insertStable_filter q (sortStable_sorted rest), ih]
    by_cases hq : q (k, r) = true
    · simp only [List.filter_cons, hq, if_true, sortStable]
    · simp only [List.filter_cons, hq]; simp

/-! ### renaming the rows commutes with the stable sort -/

theorem insertStable_mapSnd (h : Nat → Nat) (k : Int) (r : Nat) (l : List (Int × Nat)) :
    insertStable k (h r) (l.map (fun p => (p.1, h p.2))) = (insertStable k r l).map (fun p => (p.1, h p.2)) := by
  induction l with
  | nil => rfl
  | cons p rest ih =>
    obtain ⟨k', r'⟩ := p
    simp only [List.map_cons, insertStable]
    split
    · simp only [List.map_cons, ih]
    · rfl

theorem sortStable_mapSnd (h : Nat → Nat) (l : List (Int × Nat)) :
    sortStable (l.map (fun p => (p.1, h p.2))) = (sortStable l).map (fun p => (p.1, h p.2)) := by
  induction l with
  | nil => rfl
  | cons p rest ih =>
    obtain ⟨k, r⟩ := p
    simp only [List.map_cons, sortStable, ih, insertStable_mapSnd]

end Exetera.Journal

