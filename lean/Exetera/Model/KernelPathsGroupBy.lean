/-!
  C10 — path conditions of the array subscripts of `check_if_sorted_for_multi_fields`, the compiled kernel that only `Model/GroupBy.lean` models (owning property C07), frozen from the source the model
  was written against. `Props/C10/GroupBy.lean` (`access_paths_covered_group_by`) proves that the table regenerated from the CURRENT
  source (`Gen/KernelPaths.lean`) is this one: a test that dominates a subscript cannot be dropped, weakened or moved in the
  source without breaking the build.

  Each entry is (site, path condition): the tests passed on the way to that occurrence of the subscript, outermost first —
  `for …` / `while …` = an enclosing loop guard (the same strings as in `KernelSitesGroupBy`), a bare test = the `if` / `elif`
  branch taken or an `and` operand to the left of the subscript, `not (…)` = an `else` branch, the code after an early exit
  `if …: break | continue | return | raise`, or an `or` operand to the left. A condition is the text of a test that held
  when it was passed (a syntactic path, not an invariant). A site reached on several paths has one entry per path.
  Regenerate with `python3 tools/translate_kernels.py --paths /repo <kernel> …`.

  Which conjunct of the path condition the model's checked accessor relies on (accessor names as in `KernelSitesGroupBy`):
  * `fields_data[0]` is read first, on the empty path (`.oob "fields_data[0]"` for no fields: the `[]` case of
    `checkIfSorted`); `fields_data[:, 0]`, `fields_data[:, i]` = the `getE f (i - 1)`, `getE f i` of `rowLe` rely on the early
    return `if total_row == 0` (entry `not (total_row == 0)`) and `for i in range(1, total_row)`; `pre_row[j]`, `cur_row[j]`
    rely on `for j in range(field_count)` (structural recursion over the fields); the second pair of reads is on the path
    `not (pre_row[j] > cur_row[j])` (the `elif`).
-/
namespace Exetera.KernelPaths

/-- the group-by kernel (C07): path condition of every subscript occurrence -/
def groupByPaths : List (String × List (String × List String)) := [
  ("check_if_sorted_for_multi_fields", [
    ("R cur_row[j]", ["not (total_row == 0)", "for i in range(1, total_row)", "for j in range(field_count)"]),
    ("R cur_row[j]", ["not (total_row == 0)", "for i in range(1, total_row)", "for j in range(field_count)", "not (pre_row[j] > cur_row[j])"]),
    ("R fields_data[0]", []),
    ("R fields_data[:, 0]", ["not (total_row == 0)"]),
    ("R fields_data[:, i]", ["not (total_row == 0)", "for i in range(1, total_row)"]),
    ("R pre_row[j]", ["not (total_row == 0)", "for i in range(1, total_row)", "for j in range(field_count)"]),
    ("R pre_row[j]", ["not (total_row == 0)", "for i in range(1, total_row)", "for j in range(field_count)", "not (pre_row[j] > cur_row[j])"])])
]

end Exetera.KernelPaths
