import Driver.Util
import Exetera.Model.Export
import Exetera.Spec.CsvRender
open Lean Exetera Exetera.Export
namespace Driver.C18

def cell (s : String) : Cell := s.toList
def str (c : List Char) : Json := Json.str (String.ofList c)
def strs (cs : List (List Char)) : Json := Json.arr (cs.map str).toArray

def getCells (j : Json) (k : String) : Except String (List Cell) := do
  let xs ← Driver.get? (List String) j k
  pure (xs.map cell)

def getFrame (j : Json) : Except String Frame := do
  let cols ← Driver.get? (List Json) j "cols"
  cols.mapM fun c => do
    let n ← Driver.get? String c "name"
    let d ← getCells c "data"
    pure ⟨cell n, d⟩

def getColFilter (j : Json) : Except String ColFilter := do
  let cf ← j.getObjVal? "cf"
  let kind ← Driver.get? String cf "kind"
  match kind with
  | "none" => pure .none
  | "one" => do let ns ← getCells cf "names"; match ns with | [n] => pure (.one n) | _ => throw "cf one"
  | "many" => do let ns ← getCells cf "names"; pure (.many ns)
  | _ => pure .invalid

def getRowFilter (j : Json) : Except String RowFilter := do
  let rf ← j.getObjVal? "rf"
  let kind ← Driver.get? String rf "kind"
  match kind with
  | "none" => pure .none
  | "array" => do let xs ← Driver.get? (List Bool) rf "data"; pure (.array xs)
  | "int_array" => do let xs ← Driver.get? (List Int) rf "data"; pure (.intArray xs)
  | "field" => do
    let xs ← Driver.get? (List Bool) rf "data"
    let own ← Driver.get? Bool rf "own"
    let isBool ← Driver.get? Bool rf "is_bool"
    let name := match Driver.get? String rf "name" with | .ok n => some (cell n) | .error _ => none
    pure (.field name own isBool xs)
  | _ => pure .invalid

def getPdFilter (j : Json) : Except String PdFilter := do
  let rf ← j.getObjVal? "rf"
  let kind ← Driver.get? String rf "kind"
  match kind with
  | "none" => pure .none
  | "list" => do let xs ← Driver.get? (List Bool) rf "data"; pure (.list xs)
  | "array" => do let xs ← Driver.get? (List Bool) rf "data"; pure (.array xs)
  | "int_array" => do let xs ← Driver.get? (List Int) rf "data"; pure (.intArray xs)
  | "field" => do
    let xs ← Driver.get? (List Bool) rf "data"
    let isBool ← Driver.get? Bool rf "is_bool"
    pure (.field isBool xs)
  | _ => pure .invalid

def rowsJson (rows : List (List Cell)) : Json := Json.arr (rows.map strs).toArray

def handle : Driver.Handler := fun op j =>
  match op with
  | "c18_to_csv" => some do
    let f ← getFrame j
    let rf ← getRowFilter j
    let cf ← getColFilter j
    let crs ← Driver.get? Int j "crs"
    -- the lines of the file are written by ExeTera's own `_csv_record` (fixes/D30_NC18a: `csvRecord`); the as-found variant
    -- (`csv.writer`, `Spec.Csv.renderRow`) is reported next to it so that a tree without the fix is recognised
    let out (writerow : List Cell → List Char) := Driver.outE (fun (text : List Char) =>
        Json.mkObj [("text", str text), ("reimport", rowsJson (Spec.Csv.parse .exetera text)),
                    ("std", rowsJson (Spec.Csv.parse .std text))])
      (toCsv writerow f rf cf crs)
    pure <| (out csvRecord).setObjVal! "as_found" (out Spec.Csv.renderRow)
  | "c18_to_pandas" => some do
    let f ← getFrame j
    let rf ← getPdFilter j
    let cf ← getColFilter j
    -- the result of the repaired variant (fix NC18b) is the model output; the as-found variant is reported next to it so
    -- that a tree without the fix is recognised (known finding while open, regression once fixed)
    let out (v : Variant) := Driver.outE (fun (cols : List (Cell × List Cell)) =>
        Json.mkObj [("names", strs (cols.map (·.1))), ("cols", rowsJson (cols.map (·.2)))])
      (toPandas v f rf cf)
    pure <| (out .repaired).setObjVal! "as_found" (out .asFound)
  | "c18_render" => some do
    let rows ← Driver.get? (List (List String)) j "rows"
    pure <| Driver.okJson (Json.mkObj [("text", str (Spec.Csv.render (rows.map (·.map cell))))])
  | "c18_record" => some do
    let rows ← Driver.get? (List (List String)) j "rows"
    pure <| Driver.okJson (Json.mkObj [("text", str ((rows.map (·.map cell)).flatMap csvRecord))])
  | "c18_parse" => some do
    let texts ← Driver.get? (List String) j "texts"
    let one (t : String) : Json :=
      let cs := t.toList
      Json.mkObj [("std", rowsJson (Spec.Csv.parse ⟨false, true⟩ cs)), ("skip", rowsJson (Spec.Csv.parse ⟨true, true⟩ cs)),
                  ("exetera", rowsJson (Spec.Csv.parse ⟨true, false⟩ cs)), ("plain", rowsJson (Spec.Csv.parse ⟨false, false⟩ cs))]
    pure <| Driver.okJson (Json.mkObj [("rows", Json.arr (texts.map one).toArray)])
  | _ => none

end Driver.C18
