import Exetera.Props.C14
import Exetera.Lemmas.GenKernelsCompareArrays
/-!
  C14 over the TRANSLATED `compare_arrays` (`Gen/Kernels.lean`, regenerated from operations.py by tools/translate_njit.py on every
  run) — the first translated kernel with a `return` inside a loop (early-exit flag and result slot).

  * `gen_compare_arrays_ok`: every successful run of the model `compareArrays` is a run of the translated kernel with the same result;
  * `gen_compare_arrays_is_lex`: the property statement `C14.compare_arrays_is_lex` for the translated kernel — for EVERY pair of byte
    arrays it returns normally (no subscript out of range or negative) the three-way lexicographic comparison.
-/
namespace Exetera.Props.C14Gen

open Exetera Exetera.Unique Exetera.GenK Exetera.Gen.Kernels

theorem gen_compare_arrays_ok (a b : Bytes) (r : Int) (h : compareArrays a b = .ok r) :
    compare_arrays.run (ints8 a) (ints8 b) = .ok r :=
  compare_arrays_ok a b r h

theorem gen_compare_arrays_is_lex (a b : Bytes) : compare_arrays.run (ints8 a) (ints8 b) = .ok (Spec.lexCmp a b) :=
  compare_arrays_ok a b _ (C14.compare_arrays_is_lex a b)

example : compare_arrays.run [97, 98] [97, 98, 99] = .ok (-1) ∧ compare_arrays.run [97, 99] [97, 98, 99] = .ok 1 ∧
    compare_arrays.run [] [] = .ok 0 := ⟨rfl, rfl, rfl⟩

end Exetera.Props.C14Gen
