/-!
  C10 — access sites of the two compiled filter / re-index kernels of indexed strings that `Model/FilterIndex.lean`
  models (owning property C09), frozen from the source the model was written against. `Props/C10/FilterIndex.lean`
  proves that the shapes regenerated from the CURRENT source (`Gen/KernelShape.lean`) are these.

  Model ↔ site map (both kernels):
  * `indices[:-1]`, `indices[1:]` = `dropLast`, `drop 1` (slices never raise);
  * `index_filter[i]` = structural recursion of `filterPass1`/`filterPass2` on the filter (in range by
    `for i in range(len(index_filter))`, in the table below);
  * `cur_[i]`, `next_[i]` = `getWrapE` in `entryLen` (pass 1) and `copyEntry` (pass 2) — computed subscripts, negative
    ones wrap as in numba;
  * `values[c:n]` = `sliceE` (the model insists that the slice lies inside `values`: stricter than numpy's clamping);
  * `dest_values[total:total + delta]` = `setSliceE` (inside `dest_values`, same length as the source slice);
  * `dest_indices[0]` = `setE` in `initP2`; `dest_indices[count]` = `setE` in `copyEntry`.
  The two explicit `raise IndexError` of the repaired code (filter length, subscript range) are the model's
  `.oob "len(index_filter) != len(indices) - 1"` and `.oob "index out of bounds for indexed field"`.
-/
namespace Exetera.KernelSites

/-- the filter / re-index kernels of indexed strings (C09) -/
def filterIndexSites : List (String × List String × List String) := [
  ("apply_filter_to_index_values",
    ["for i in range(len(index_filter))"],
    ["R cur_[i]", "R index_filter[i]", "R indices[1:]", "R indices[:-1]", "R next_[i]", "R values[c:n]", "W dest_indices[0]", "W dest_indices[count]", "W dest_values[total:total + delta]"]),
  ("apply_indices_to_index_values",
    ["for i in indices_to_apply"],
    ["R cur_[i]", "R indices[1:]", "R indices[:-1]", "R next_[i]", "R values[c:n]", "W dest_indices[0]", "W dest_indices[count]", "W dest_values[total:total + delta]"])
]


end Exetera.KernelSites
