/-!
  C10 — access sites of the compiled CSV reader `fast_csv_reader` (csv_reader_speedup.py) that `Model/Csv.lean` models
  (owning property C05), frozen from the source the model was written against. `Props/C10/Csv.lean` proves that the
  shape regenerated from the CURRENT source (`Gen/KernelShape.lean`) is this.

  Model ↔ site map:
  * `column_inds.shape[0]`, `column_inds.shape[1]` = attribute (tuple) subscripts; the model reads the row length through
    `getE inds 0 "column_inds.shape"`. `Union[str, StringIO]` is a type annotation, not an access.
  * `column_inds[col_index, row_index]` (read) = `get2`, at entry (`fastCsvReader`) and after every cell end
    (`endCell`); while the header line is read `row_index = -1` wraps to the last slot (`maxrow`) — modelled as such.
  * `column_inds[col_index, row_index + 1]` (write) = `set2` in `endCell`.
  * `column_offsets[1]` = `getE offs 1` in `fastCsvReader`; `column_offsets[col_index]`,
    `column_offsets[col_index + 1]` = the two `getE offs` of `endCell`.
  * `column_vals[col_offset + cur_cell_start + cur_cell_char_count]` (write) = `setE` in `writeChar`.
  * `source[index]` = `getE src s.index` in `step`; `source[index + 1]` occurs only behind `index + 1 < len(source) and …`
    (the two blank-skipping `while` guards — in the table below — and the `elif` tests of the quote branch): the model
    fuses guard and read (`src[s.index + 1]?` handed to `lexByte`, `skipAfter` / `skipFrom` on the suffix).
  The window driver `read_file_using_fast_csv_reader` and the importers' `import_part` are plain Python / numpy slicing.
-/
namespace Exetera.KernelSites

/-- the CSV reader kernel (C05) -/
def csvSites : List (String × List String × List String) := [
  ("fast_csv_reader",
    ["while True", "while index + 1 < len(source) and source[index + 1] == whitespace_value", "while index < len(source) and source[index] == whitespace_value"],
    ["R Union[str, StringIO]", "R column_inds.shape[0]", "R column_inds.shape[1]", "R column_inds[col_index, row_index]", "R column_offsets[1]", "R column_offsets[col_index + 1]", "R column_offsets[col_index]", "R source[index + 1]", "R source[index]", "W column_inds[col_index, row_index + 1]", "W column_vals[col_offset + cur_cell_start + cur_cell_char_count]"])
]


end Exetera.KernelSites
