/-!
  C10 — path conditions of the array subscripts of the six journalling kernels that `Model/Journal.lean` models (owning property C17), frozen from the source the model
  was written against. `Props/C10/Journal.lean` (`access_paths_covered_journal`) proves that the table regenerated from the CURRENT
  source (`Gen/KernelPaths.lean`) is this one: a test that dominates a subscript cannot be dropped, weakened or moved in the
  source without breaking the build.

  Each entry is (site, path condition): the tests passed on the way to that occurrence of the subscript, outermost first —
  `for …` / `while …` = an enclosing loop guard (the same strings as in `KernelSitesJournal`), a bare test = the `if` / `elif`
  branch taken or an `and` operand to the left of the subscript, `not (…)` = an `else` branch, the code after an early exit
  `if …: break | continue | return | raise`, or an `or` operand to the left. A condition is the text of a test that held
  when it was passed (a syntactic path, not an invariant). A site reached on several paths has one entry per path.
  Regenerate with `python3 tools/translate_kernels.py --paths /repo <kernel> …`.

  Which conjunct of the path condition the model's checked accessor relies on (accessor names as in `KernelSitesJournal`):
  * `ordered_generate_journalling_indices`: `old[i + 1]` is always behind the operand `i + 1 < len(old)` of the run-skipping
    `while` (last entry of its three paths) — the model fuses guard and read (`skipRunFrom`); `old[i]`, `new[j]` rely on
    `while i < len(old) and j < len(new)` (and on `while i < len(old)` / `while j < len(new)` in the two tails);
    `old_inds[joint]`, `new_inds[joint]` = the capacity check `s.ob.length < cap` of `emit`: no test bounds `joint` (both
    arrays are allocated with the total of the counting pass, which walks the same branches: `journal_indices_safe`).
  * `compare_rows_for_journalling` / `compare_indexed_rows_for_journalling`: `to_keep[i]`, `old_map[i]`, `new_map[i]` rely on
    `for i in range(len(old_map))`; `old_field[old_map[i]]`, `new_field[new_map[i]]` (`old_indices[old_map[i]]`, …) = `getI`
    are reached only on `not (old_map[i] == -1)`, `not (new_map[i] == -1)`: the `-1` tests are the ONLY protection of the
    computed subscripts (otherwise `-1` wraps), the model has the same three-way branch (`compareBody`).
  * `merge_journalled_entries`, `merge_indexed_journalled_entries_count`, `merge_indexed_journalled_entries`:
    `new_src[new_map[i]]` / `new_src_inds[new_map[i]]`, `new_src_inds[new_map[i] + 1]` = `getI` are reached only on
    `to_keep[i] == True`; `old_src[cur_old]`, `old_src_inds[cur_old]`, `old_src_inds[cur_old + 1]` rely on
    `while cur_old <= old_map[i]`; `dest[cur_dest]`, `dest_inds[cur_dest]` = `pushD` / `pushI` (capacity checks): no test
    bounds `cur_dest` (the destination is allocated from the count kernel's result); `dest_vals[…] = …` is reached only
    on `ind_delta > 0` (`setSliceE`).
-/
namespace Exetera.KernelPaths

/-- the journalling kernels (C17): path condition of every subscript occurrence -/
def journalPaths : List (String × List (String × List String)) := [
  ("ordered_generate_journalling_indices", [
    ("R new[j]", ["while i < len(old) and j < len(new)"]),
    ("R new[j]", ["while i < len(old) and j < len(new)", "not (old[i] < new[j])"]),
    ("R old[i + 1]", ["while i < len(old)", "i + 1 < len(old)"]),
    ("R old[i + 1]", ["while i < len(old) and j < len(new)", "not (old[i] < new[j])", "not (old[i] > new[j])", "i + 1 < len(old)"]),
    ("R old[i + 1]", ["while i < len(old) and j < len(new)", "old[i] < new[j]", "i + 1 < len(old)"]),
    ("R old[i]", ["while i < len(old)", "i + 1 < len(old)"]),
    ("R old[i]", ["while i < len(old) and j < len(new)"]),
    ("R old[i]", ["while i < len(old) and j < len(new)", "not (old[i] < new[j])"]),
    ("R old[i]", ["while i < len(old) and j < len(new)", "not (old[i] < new[j])", "not (old[i] > new[j])", "i + 1 < len(old)"]),
    ("R old[i]", ["while i < len(old) and j < len(new)", "old[i] < new[j]", "i + 1 < len(old)"]),
    ("W new_inds[joint]", ["while i < len(old)"]),
    ("W new_inds[joint]", ["while i < len(old) and j < len(new)", "not (old[i] < new[j])", "not (old[i] > new[j])"]),
    ("W new_inds[joint]", ["while i < len(old) and j < len(new)", "not (old[i] < new[j])", "old[i] > new[j]"]),
    ("W new_inds[joint]", ["while i < len(old) and j < len(new)", "old[i] < new[j]"]),
    ("W new_inds[joint]", ["while j < len(new)"]),
    ("W old_inds[joint]", ["while i < len(old)"]),
    ("W old_inds[joint]", ["while i < len(old) and j < len(new)", "not (old[i] < new[j])", "not (old[i] > new[j])"]),
    ("W old_inds[joint]", ["while i < len(old) and j < len(new)", "not (old[i] < new[j])", "old[i] > new[j]"]),
    ("W old_inds[joint]", ["while i < len(old) and j < len(new)", "old[i] < new[j]"]),
    ("W old_inds[joint]", ["while j < len(new)"])]),
  ("compare_rows_for_journalling", [
    ("R new_field[new_map[i]]", ["for i in range(len(old_map))", "to_keep[i] == False", "not (old_map[i] == -1)", "not (new_map[i] == -1)"]),
    ("R new_map[i]", ["for i in range(len(old_map))", "to_keep[i] == False", "not (old_map[i] == -1)"]),
    ("R new_map[i]", ["for i in range(len(old_map))", "to_keep[i] == False", "not (old_map[i] == -1)", "not (new_map[i] == -1)"]),
    ("R old_field[old_map[i]]", ["for i in range(len(old_map))", "to_keep[i] == False", "not (old_map[i] == -1)", "not (new_map[i] == -1)"]),
    ("R old_map[i]", ["for i in range(len(old_map))", "to_keep[i] == False"]),
    ("R old_map[i]", ["for i in range(len(old_map))", "to_keep[i] == False", "not (old_map[i] == -1)", "not (new_map[i] == -1)"]),
    ("R to_keep[i]", ["for i in range(len(old_map))"]),
    ("W to_keep[i]", ["for i in range(len(old_map))", "to_keep[i] == False", "not (old_map[i] == -1)", "new_map[i] == -1"]),
    ("W to_keep[i]", ["for i in range(len(old_map))", "to_keep[i] == False", "not (old_map[i] == -1)", "not (new_map[i] == -1)"]),
    ("W to_keep[i]", ["for i in range(len(old_map))", "to_keep[i] == False", "old_map[i] == -1"])]),
  ("compare_indexed_rows_for_journalling", [
    ("R new_indices[-1]", []),
    ("R new_indices[new_map[i] + 1]", ["for i in range(len(old_map))", "to_keep[i] == False", "not (old_map[i] == -1)", "not (new_map[i] == -1)"]),
    ("R new_indices[new_map[i]]", ["for i in range(len(old_map))", "to_keep[i] == False", "not (old_map[i] == -1)", "not (new_map[i] == -1)"]),
    ("R new_map[i]", ["for i in range(len(old_map))", "to_keep[i] == False", "not (old_map[i] == -1)"]),
    ("R new_map[i]", ["for i in range(len(old_map))", "to_keep[i] == False", "not (old_map[i] == -1)", "not (new_map[i] == -1)"]),
    ("R new_values[new_indices[new_map[i]]:new_indices[new_map[i] + 1]]", ["for i in range(len(old_map))", "to_keep[i] == False", "not (old_map[i] == -1)", "not (new_map[i] == -1)"]),
    ("R old_indices[-1]", []),
    ("R old_indices[old_map[i] + 1]", ["for i in range(len(old_map))", "to_keep[i] == False", "not (old_map[i] == -1)", "not (new_map[i] == -1)"]),
    ("R old_indices[old_map[i]]", ["for i in range(len(old_map))", "to_keep[i] == False", "not (old_map[i] == -1)", "not (new_map[i] == -1)"]),
    ("R old_map[i]", ["for i in range(len(old_map))", "to_keep[i] == False"]),
    ("R old_map[i]", ["for i in range(len(old_map))", "to_keep[i] == False", "not (old_map[i] == -1)", "not (new_map[i] == -1)"]),
    ("R old_values[old_indices[old_map[i]]:old_indices[old_map[i] + 1]]", ["for i in range(len(old_map))", "to_keep[i] == False", "not (old_map[i] == -1)", "not (new_map[i] == -1)"]),
    ("R to_keep[i]", ["for i in range(len(old_map))"]),
    ("W to_keep[i]", ["for i in range(len(old_map))", "to_keep[i] == False", "not (old_map[i] == -1)", "new_map[i] == -1"]),
    ("W to_keep[i]", ["for i in range(len(old_map))", "to_keep[i] == False", "not (old_map[i] == -1)", "not (new_map[i] == -1)"]),
    ("W to_keep[i]", ["for i in range(len(old_map))", "to_keep[i] == False", "old_map[i] == -1"])]),
  ("merge_journalled_entries", [
    ("R new_map[i]", ["for i in range(len(old_map))", "to_keep[i] == True"]),
    ("R new_src[new_map[i]]", ["for i in range(len(old_map))", "to_keep[i] == True"]),
    ("R old_map[i]", ["for i in range(len(old_map))"]),
    ("R old_src[cur_old]", ["for i in range(len(old_map))", "while cur_old <= old_map[i]"]),
    ("R to_keep[i]", ["for i in range(len(old_map))"]),
    ("W dest[cur_dest]", ["for i in range(len(old_map))", "to_keep[i] == True"]),
    ("W dest[cur_dest]", ["for i in range(len(old_map))", "while cur_old <= old_map[i]"])]),
  ("merge_indexed_journalled_entries_count", [
    ("R new_map[i]", ["for i in range(len(old_map))", "to_keep[i] == True"]),
    ("R new_src_inds[new_map[i] + 1]", ["for i in range(len(old_map))", "to_keep[i] == True"]),
    ("R new_src_inds[new_map[i]]", ["for i in range(len(old_map))", "to_keep[i] == True"]),
    ("R old_map[i]", ["for i in range(len(old_map))"]),
    ("R old_src_inds[cur_old + 1]", ["for i in range(len(old_map))", "while cur_old <= old_map[i]"]),
    ("R old_src_inds[cur_old]", ["for i in range(len(old_map))", "while cur_old <= old_map[i]"]),
    ("R to_keep[i]", ["for i in range(len(old_map))"])]),
  ("merge_indexed_journalled_entries", [
    ("R new_map[i]", ["for i in range(len(old_map))", "to_keep[i] == True"]),
    ("R new_map[i]", ["for i in range(len(old_map))", "to_keep[i] == True", "ind_delta > 0"]),
    ("R new_src_inds[new_map[i] + 1]", ["for i in range(len(old_map))", "to_keep[i] == True"]),
    ("R new_src_inds[new_map[i] + 1]", ["for i in range(len(old_map))", "to_keep[i] == True", "ind_delta > 0"]),
    ("R new_src_inds[new_map[i]]", ["for i in range(len(old_map))", "to_keep[i] == True"]),
    ("R new_src_inds[new_map[i]]", ["for i in range(len(old_map))", "to_keep[i] == True", "ind_delta > 0"]),
    ("R new_src_vals[new_src_inds[new_map[i]]:new_src_inds[new_map[i] + 1]]", ["for i in range(len(old_map))", "to_keep[i] == True", "ind_delta > 0"]),
    ("R old_map[i]", ["for i in range(len(old_map))"]),
    ("R old_src_inds[cur_old + 1]", ["for i in range(len(old_map))", "while cur_old <= old_map[i]"]),
    ("R old_src_inds[cur_old + 1]", ["for i in range(len(old_map))", "while cur_old <= old_map[i]", "ind_delta > 0"]),
    ("R old_src_inds[cur_old]", ["for i in range(len(old_map))", "while cur_old <= old_map[i]"]),
    ("R old_src_inds[cur_old]", ["for i in range(len(old_map))", "while cur_old <= old_map[i]", "ind_delta > 0"]),
    ("R old_src_vals[old_src_inds[cur_old]:old_src_inds[cur_old + 1]]", ["for i in range(len(old_map))", "while cur_old <= old_map[i]", "ind_delta > 0"]),
    ("R to_keep[i]", ["for i in range(len(old_map))"]),
    ("W dest_inds[0]", []),
    ("W dest_inds[cur_dest]", ["for i in range(len(old_map))", "to_keep[i] == True"]),
    ("W dest_inds[cur_dest]", ["for i in range(len(old_map))", "while cur_old <= old_map[i]"]),
    ("W dest_vals[ind_acc - ind_delta:ind_acc]", ["for i in range(len(old_map))", "to_keep[i] == True", "ind_delta > 0"]),
    ("W dest_vals[ind_acc - ind_delta:ind_acc]", ["for i in range(len(old_map))", "while cur_old <= old_map[i]", "ind_delta > 0"])])
]

end Exetera.KernelPaths
