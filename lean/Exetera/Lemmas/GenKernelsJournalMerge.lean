import Exetera.Gen.Kernels
import Exetera.Model.Journal
import Exetera.Lemmas.GenKernels
import Exetera.Lemmas.GenKernelsLoops
import Exetera.Lemmas.GenKernelsJournal
import Exetera.Lemmas.GenKernelsSpans
/-!
  The TRANSLATED `merge_journalled_entries` / `merge_indexed_journalled_entries_count` (a `for` loop around a `while` loop whose
  condition subscripts `old_map[i]`) against `Journal.mergeEntries` / `Journal.mergeIndexedCount` — transfer form: every `.ok` run
  of the model is a run of the translated kernel with the same result, for every fuel that covers the destination (resp. the old
  offsets).  The two sides differ on purpose in one error branch: the model wraps a negative `new_map[i]` around once (`getI`),
  the translation makes a negative subscript an error; hence the hypothesis that kept slots have a non-negative `new_map` entry.
-/
namespace Exetera.GenK

open Exetera Exetera.PyRt Exetera.Journal Exetera.Gen.Kernels

namespace MJ

abbrev St := merge_journalled_entries.St

/-- the destination buffer as the model sees it: the written prefix, the rest still zero -/
def destOf (cap : Nat) (buf : List Int) : List Int := buf ++ List.replicate (cap - buf.length) 0

def R (om nm : List Int) (tk : List Bool) (oldSrc newSrc : List Int) (cap : Nat) (t : MS) (s : St) : Prop :=
  s.p0 = om ∧ s.p1 = nm ∧ s.p2 = tk ∧ s.p3 = oldSrc ∧ s.p4 = newSrc ∧ s.p5 = destOf cap t.buf ∧
    s.v0 = (t.cur : Int) ∧ s.v1 = (t.buf.length : Int) ∧ t.buf.length ≤ cap

theorem pushD_sim (cap : Nat) (t t' : MS) (v : Int) (site : String) (_hle : t.buf.length ≤ cap) (h : pushD cap t v = .ok t') :
    setIdxE (destOf cap t.buf) (t.buf.length : Int) v site = .ok (destOf cap t'.buf) ∧ t'.buf.length = t.buf.length + 1 ∧
      t'.buf.length ≤ cap ∧ t'.cur = t.cur := by
  simp only [pushD] at h
  split at h
  · rename_i hlt
    simp only [Except.ok.injEq] at h
    subst h
    refine ⟨?_, by simp, by simp; omega, rfl⟩
    rw [setIdxE_nat]
    simp only [setE, destOf, List.length_append, List.length_replicate]
    have : t.buf.length < t.buf.length + (cap - t.buf.length) := by omega
    simp only [this, if_true, Except.ok.injEq]
    have hrep : List.replicate (cap - t.buf.length) (0 : Int) = 0 :: List.replicate (cap - (t.buf.length + 1)) 0 := by
      have : cap - t.buf.length = (cap - (t.buf.length + 1)) + 1 := by omega
      rw [this, List.replicate_succ]
    rw [hrep, List.set_append_right _ _ (Nat.le_refl _)]
    simp
  · simp at h

/-- the inner loop `while cur_old <= old_map[i]` -/
theorem while_sim (om nm : List Int) (tk : List Bool) (oldSrc newSrc : List Int) (cap i : Nat) (o : Int)
    (ho : om[i]? = some o) (n : Nat) (t t' : MS) (s : St) (hR : R om nm tk oldSrc newSrc cap t s) (hi : s.v2 = (i : Int))
    (h : whileE (fun s => decide ((s.cur : Int) ≤ o)) (copyOldBody cap oldSrc) n t = .ok t') (F : Nat)
    (hF : cap - t.buf.length ≤ F) :
    ∃ s', whileG merge_journalled_entries.guardE_L2 merge_journalled_entries.body_L2 F s = .ok s' ∧
      R om nm tk oldSrc newSrc cap t' s' ∧ s'.v2 = (i : Int) := by
  have := whileG_of_whileE (fun (s : St) (t : MS) => R om nm tk oldSrc newSrc cap t s ∧ s.v2 = (i : Int))
    merge_journalled_entries.guardE_L2 merge_journalled_entries.body_L2
    (fun s => decide ((s.cur : Int) ≤ o)) (copyOldBody cap oldSrc) (fun t => cap - t.buf.length)
    (by
      rintro s t ⟨⟨h0, _, _, _, _, _, hv0, _, _⟩, hv2⟩
      simp only [merge_journalled_entries.guardE_L2, h0, hv2, hv0, idxE_nat, getE, ho, bindE_ok])
    (by
      rintro s t t' ⟨⟨h0, h1, h2, h3, h4, h5, hv0, hv1, hle⟩, hv2⟩ _ hb
      simp only [copyOldBody] at hb
      cases hg : getE oldSrc t.cur "old_src[cur_old]" with
      | error e => rw [hg] at hb; simp at hb
      | ok v =>
        rw [hg] at hb
        simp only [] at hb
        cases hp : pushD cap t v with
        | error e => rw [hp] at hb; simp at hb
        | ok t1 =>
          rw [hp] at hb
          simp only [Except.ok.injEq] at hb
          subst hb
          obtain ⟨hset, hlen, hle', hcur⟩ := pushD_sim cap t t1 v "p5[v1]" hle hp
          simp only [merge_journalled_entries.body_L2, h3, h5, hv0, hv1, idxE_nat, getE_site_j "p3[v0]" hg, bindE_ok, hset]
          refine ⟨_, rfl, ⟨⟨h0, h1, h2, rfl, h4, rfl, ?_, ?_, hle'⟩, hv2⟩, ?_⟩
          · simp
          · simp only [hlen]; omega
          · simp only [hlen]; omega)
    n s t t' ⟨hR, hi⟩ h F hF
  obtain ⟨s', hw, hR', hi'⟩ := this
  exact ⟨s', hw, hR', hi'⟩

/-- one iteration of `for i in range(len(old_map))` -/
theorem step (om nm : List Int) (tk : List Bool) (oldSrc newSrc : List Int) (cap fuel : Nat) (hfuel : cap ≤ fuel)
    (hnn : ∀ (i : Nat) (n : Int), tk[i]? = some true → nm[i]? = some n → 0 ≤ n)
    (i : Nat) (t t' : MS) (s : St) (hR : R om nm tk oldSrc newSrc cap t s)
    (h : mergeBody om nm tk oldSrc newSrc cap i t = .ok t') :
    ∃ s', merge_journalled_entries.body_L1 fuel { s with v2 := (i : Int) } = .ok s' ∧ R om nm tk oldSrc newSrc cap t' s' := by
  simp only [mergeBody, bind, Except.bind, pure, Except.pure] at h
  cases ho : getE om i "old_map[i]" with
  | error e => rw [ho] at h; simp at h
  | ok o =>
    rw [ho] at h
    simp only [] at h
    cases hw : whileE (fun s => decide ((s.cur : Int) ≤ o)) (copyOldBody cap oldSrc) (o + 1 - (t.cur : Int)).toNat t with
    | error e => rw [hw] at h; simp at h
    | ok t1 =>
      rw [hw] at h
      simp only [] at h
      obtain ⟨s1, hs1, hR1, hi1⟩ := while_sim om nm tk oldSrc newSrc cap i o (getE_eq_ok.mp ho) _ t t1
        { s with v2 := (i : Int) } hR rfl hw fuel (by omega)
      obtain ⟨h0, h1, h2, h3, h4, h5, hv0, hv1, hle⟩ := hR1
      simp only [merge_journalled_entries.body_L1, hs1, bindE_ok, h2, h1, h4, h5, hi1, hv1, idxE_nat]
      cases hk : getE tk i "to_keep[i]" with
      | error e => rw [hk] at h; simp at h
      | ok k =>
        rw [hk] at h
        simp only [] at h
        rw [getE_site_j "p2[v2]" hk]
        simp only [bindE_ok]
        cases k with
        | false =>
          simp only [Bool.false_eq_true, if_false, Except.ok.injEq] at h ⊢
          subst h
          exact ⟨_, rfl, h0, h1, h2, h3, h4, h5, hv0, hv1, hle⟩
        | true =>
          simp only [if_true, beq_self_eq_true] at h ⊢
          cases hn : getE nm i "new_map[i]" with
          | error e => rw [hn] at h; simp at h
          | ok n =>
            rw [hn] at h
            simp only [] at h
            rw [getE_site_j "p1[v2]" hn]
            simp only [bindE_ok]
            have hn0 : 0 ≤ n := hnn i n (getE_eq_ok.mp hk) (getE_eq_ok.mp hn)
            rw [getI_nonneg_j _ _ _ hn0] at h
            cases hv : getE newSrc n.toNat "new_src[new_map[i]]" with
            | error e => rw [hv] at h; simp at h
            | ok v =>
              rw [hv] at h
              simp only [] at h
              have hve : idxE newSrc n "p4[p1[v2]]" = .ok v := by
                simp only [idxE, hn0, if_true]; exact getE_site_j _ hv
              obtain ⟨hset, hlen, hle', hcur⟩ := pushD_sim cap t1 t' v "p5[v1]" hle h
              simp only [hve, bindE_ok, hset]
              refine ⟨_, rfl, h0, rfl, rfl, h3, rfl, rfl, ?_, ?_, hle'⟩
              · simp only [hv0, hcur]
              · simp only [hlen]; omega

end MJ

/-- every `.ok` run of the model is a run of the translated kernel on a zero-filled destination of the same capacity, with the
    same final destination; any fuel that covers the destination will do -/
theorem merge_journalled_entries_ok (om nm : List Int) (tk : List Bool) (oldSrc newSrc : List Int) (cap fuel : Nat)
    (r : List Int) (hfuel : cap ≤ fuel) (hnn : ∀ (i : Nat) (n : Int), tk[i]? = some true → nm[i]? = some n → 0 ≤ n)
    (h : mergeEntries om nm tk oldSrc newSrc cap = .ok r) :
    merge_journalled_entries.run om nm tk oldSrc newSrc (List.replicate cap 0) fuel = .ok r := by
  unfold mergeEntries at h
  cases hf : forE (mergeBody om nm tk oldSrc newSrc cap) om.length 0 {} with
  | error e => rw [hf] at h; simp at h
  | ok t' =>
    rw [hf] at h
    simp only [Except.ok.injEq] at h
    obtain ⟨s', hs, _, _, _, _, _, h5, _⟩ := forRange_forE_ok
      (fun (t : MS) (s : MJ.St) => MJ.R om nm tk oldSrc newSrc cap t s)
      (mergeBody om nm tk oldSrc newSrc cap) (fun k s => merge_journalled_entries.body_L1 fuel { s with v2 := k })
      (fun i t t' s hR hb => MJ.step om nm tk oldSrc newSrc cap fuel hfuel hnn i t t' s hR hb) om.length 0 {} t'
      { p0 := om, p1 := nm, p2 := tk, p3 := oldSrc, p4 := newSrc, p5 := List.replicate cap 0, v0 := 0, v1 := 0, v2 := 0 }
      ⟨rfl, rfl, rfl, rfl, rfl, by simp [MJ.destOf], rfl, rfl, by simp⟩ hf
    unfold merge_journalled_entries.run forRangeE
    have hn : (pyLen om - 0).toNat = om.length := by simp [pyLen]
    simp only [hn]
    have hs' : forRangeAux (fun _ => false) (fun k s => merge_journalled_entries.body_L1 fuel { s with v2 := k }) om.length 0
        { p0 := om, p1 := nm, p2 := tk, p3 := oldSrc, p4 := newSrc, p5 := List.replicate cap 0, v0 := 0, v1 := 0, v2 := 0 }
        = .ok s' := hs
    simp only [hs', bindE_ok, h5, MJ.destOf, h]

namespace MC

abbrev St := merge_indexed_journalled_entries_count.St

def R (om nm : List Int) (tk : List Bool) (oi ni : List Nat) (t : CS) (s : St) : Prop :=
  s.p0 = om ∧ s.p1 = nm ∧ s.p2 = tk ∧ s.p3 = ints oi ∧ s.p4 = ints ni ∧ s.v0 = (t.cur : Int) ∧ s.v1 = (t.acc : Int)

theorem deltaE_ok {a b d : Nat} (h : deltaE a b = .ok d) : (b : Int) - (a : Int) = (d : Int) := by
  simp only [deltaE] at h
  split at h
  · simp only [Except.ok.injEq] at h; omega
  · simp at h

theorem while_sim (om nm : List Int) (tk : List Bool) (oi ni : List Nat) (i : Nat) (o : Int)
    (ho : om[i]? = some o) (n : Nat) (t t' : CS) (s : St) (hR : R om nm tk oi ni t s) (hi : s.v2 = (i : Int))
    (h : whileE (fun s => decide ((s.cur : Int) ≤ o)) (countOldBody oi) n t = .ok t') (F : Nat) (hF : oi.length ≤ F) :
    ∃ s', whileG merge_indexed_journalled_entries_count.guardE_L2 merge_indexed_journalled_entries_count.body_L2 F s = .ok s' ∧
      R om nm tk oi ni t' s' ∧ s'.v2 = (i : Int) := by
  have := whileG_of_whileE (fun (s : St) (t : CS) => R om nm tk oi ni t s ∧ s.v2 = (i : Int))
    merge_indexed_journalled_entries_count.guardE_L2 merge_indexed_journalled_entries_count.body_L2
    (fun s => decide ((s.cur : Int) ≤ o)) (countOldBody oi) (fun t => oi.length - t.cur)
    (by
      rintro s t ⟨⟨h0, _, _, _, _, hv0, _⟩, hv2⟩
      simp only [merge_indexed_journalled_entries_count.guardE_L2, h0, hv2, hv0, idxE_nat, getE, ho, bindE_ok])
    (by
      rintro s t t' ⟨⟨h0, h1, h2, h3, h4, hv0, hv1⟩, hv2⟩ _ hb
      simp only [countOldBody] at hb
      have hc1 : ((t.cur : Int) + 1) = ((t.cur + 1 : Nat) : Int) := by omega
      cases hgb : oi[t.cur + 1]? with
      | none => simp [getE, hgb] at hb
      | some b =>
        cases hga : oi[t.cur]? with
        | none => simp [getE, hgb, hga] at hb
        | some a =>
          simp only [getE, hgb, hga] at hb
          cases hd : deltaE a b with
          | error e => rw [hd] at hb; simp at hb
          | ok d =>
            rw [hd] at hb
            simp only [Except.ok.injEq] at hb
            subst hb
            have hlt : t.cur + 1 < oi.length := (List.getElem?_eq_some_iff.mp hgb).1
            simp only [merge_indexed_journalled_entries_count.body_L2, h3, hv0, hv1, hc1, idxE_nat, getE_ints _ _ _ hgb,
              getE_ints _ _ _ hga, bindE_ok, deltaE_ok hd]
            refine ⟨_, rfl, ⟨⟨h0, h1, h2, rfl, h4, ?_, ?_⟩, hv2⟩, ?_⟩
            · simp
            · simp
            · omega)
    n s t t' ⟨hR, hi⟩ h F (by omega)
  obtain ⟨s', hw, hR', hi'⟩ := this
  exact ⟨s', hw, hR', hi'⟩

theorem step (om nm : List Int) (tk : List Bool) (oi ni : List Nat) (fuel : Nat) (hfuel : oi.length ≤ fuel)
    (hnn : ∀ (i : Nat) (n : Int), tk[i]? = some true → nm[i]? = some n → 0 ≤ n)
    (i : Nat) (t t' : CS) (s : St) (hR : R om nm tk oi ni t s) (h : countBody om nm tk oi ni i t = .ok t') :
    ∃ s', merge_indexed_journalled_entries_count.body_L1 fuel { s with v2 := (i : Int) } = .ok s' ∧ R om nm tk oi ni t' s' := by
  simp only [countBody, bind, Except.bind, pure, Except.pure] at h
  cases ho : getE om i "old_map[i]" with
  | error e => rw [ho] at h; simp at h
  | ok o =>
    rw [ho] at h
    simp only [] at h
    cases hw : whileE (fun s => decide ((s.cur : Int) ≤ o)) (countOldBody oi) (o + 1 - (t.cur : Int)).toNat t with
    | error e => rw [hw] at h; simp at h
    | ok t1 =>
      rw [hw] at h
      simp only [] at h
      obtain ⟨s1, hs1, hR1, hi1⟩ := while_sim om nm tk oi ni i o (getE_eq_ok.mp ho) _ t t1
        { s with v2 := (i : Int) } hR rfl hw fuel hfuel
      obtain ⟨h0, h1, h2, h3, h4, hv0, hv1⟩ := hR1
      simp only [merge_indexed_journalled_entries_count.body_L1, hs1, bindE_ok, h2, h1, h4, hi1, hv1, idxE_nat]
      cases hk : getE tk i "to_keep[i]" with
      | error e => rw [hk] at h; simp at h
      | ok k =>
        rw [hk] at h
        simp only [] at h
        rw [getE_site_j "p2[v2]" hk]
        simp only [bindE_ok]
        cases k with
        | false =>
          simp only [Bool.false_eq_true, if_false, Except.ok.injEq] at h ⊢
          subst h
          exact ⟨_, rfl, h0, h1, h2, h3, h4, hv0, hv1⟩
        | true =>
          simp only [if_true, beq_self_eq_true] at h ⊢
          cases hn : getE nm i "new_map[i]" with
          | error e => rw [hn] at h; simp at h
          | ok n =>
            rw [hn] at h
            simp only [] at h
            rw [getE_site_j "p1[v2]" hn]
            simp only [bindE_ok]
            have hn0 : 0 ≤ n := hnn i n (getE_eq_ok.mp hk) (getE_eq_ok.mp hn)
            rw [getI_nonneg_j _ _ _ (by omega : 0 ≤ n + 1), getI_nonneg_j _ _ _ hn0] at h
            cases hgb : ni[(n + 1).toNat]? with
            | none => simp [getE, hgb] at h
            | some b =>
              cases hga : ni[n.toNat]? with
              | none => simp [getE, hgb, hga] at h
              | some a =>
                simp only [getE, hgb, hga] at h
                cases hd : deltaE a b with
                | error e => rw [hd] at h; simp at h
                | ok d =>
                  rw [hd] at h
                  simp only [Except.ok.injEq] at h
                  subst h
                  have hb' : idxE (ints ni) (n + 1) "p4[p1[v2] + 1]" = .ok (b : Int) := by
                    simp only [idxE, (by omega : 0 ≤ n + 1), if_true]; exact getE_ints _ _ _ hgb
                  have ha' : idxE (ints ni) n "p4[p1[v2]]" = .ok (a : Int) := by
                    simp only [idxE, hn0, if_true]; exact getE_ints _ _ _ hga
                  simp only [hb', ha', bindE_ok, deltaE_ok hd]
                  refine ⟨_, rfl, h0, rfl, rfl, h3, rfl, hv0, ?_⟩
                  simp

end MC

/-- every `.ok` run of the model is a run of the translated kernel with the same count; any fuel that covers the old offsets -/
theorem merge_indexed_journalled_entries_count_ok (om nm : List Int) (tk : List Bool) (oi ni : List Nat) (fuel r : Nat)
    (hfuel : oi.length ≤ fuel) (hnn : ∀ (i : Nat) (n : Int), tk[i]? = some true → nm[i]? = some n → 0 ≤ n)
    (h : mergeIndexedCount om nm tk oi ni = .ok r) :
    merge_indexed_journalled_entries_count.run om nm tk (ints oi) (ints ni) fuel = .ok (r : Int) := by
  unfold mergeIndexedCount at h
  cases hf : forE (countBody om nm tk oi ni) om.length 0 {} with
  | error e => rw [hf] at h; simp at h
  | ok t' =>
    rw [hf] at h
    simp only [Except.ok.injEq] at h
    obtain ⟨s', hs, _, _, _, _, _, _, h1⟩ := forRange_forE_ok
      (fun (t : CS) (s : MC.St) => MC.R om nm tk oi ni t s)
      (countBody om nm tk oi ni) (fun k s => merge_indexed_journalled_entries_count.body_L1 fuel { s with v2 := k })
      (fun i t t' s hR hb => MC.step om nm tk oi ni fuel hfuel hnn i t t' s hR hb) om.length 0 {} t'
      { p0 := om, p1 := nm, p2 := tk, p3 := ints oi, p4 := ints ni, v0 := 0, v1 := 0, v2 := 0, v3 := 0 }
      ⟨rfl, rfl, rfl, rfl, rfl, rfl, rfl⟩ hf
    unfold merge_indexed_journalled_entries_count.run forRangeE
    have hn : (pyLen om - 0).toNat = om.length := by simp [pyLen]
    simp only [hn]
    have hs' : forRangeAux (fun _ => false) (fun k s => merge_indexed_journalled_entries_count.body_L1 fuel { s with v2 := k })
        om.length 0 { p0 := om, p1 := nm, p2 := tk, p3 := ints oi, p4 := ints ni, v0 := 0, v1 := 0, v2 := 0, v3 := 0 }
        = .ok s' := hs
    simp only [hs', bindE_ok, h1, h]

end Exetera.GenK
