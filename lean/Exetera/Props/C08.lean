import Exetera.Model.Spans
import Exetera.Spec.Spans
namespace Exetera.Props.C08
end Exetera.Props.C08
