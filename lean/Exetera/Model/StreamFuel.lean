import Exetera.Model.MapValid
import Exetera.Model.Concat
/-!
  Fuel-parametrised forms of the streamed drivers whose models run their driver loop with a built-in budget (C12).

  `Model/MapValid.lean` and `Model/Concat.lean` run the loop over map chunks / span batches with the fuel `m.length` /
  `spans.length` written into the definition. For C12 ("finishes within a bound linear in input plus output, never spins") the
  same drivers are given here with the fuel of their DRIVER loops as a parameter — nothing else is changed, and each is tied to
  the model the correspondence runs by a `rfl` theorem (`…_eq_F`). The kernels called from the driver loops
  (`ordered_map_valid_partial`, `ordered_map_valid_indexed_partial`, `get_map_subchunks_based_on_index_lengths`,
  `calculate_chunk_decomposition`, `_apply_spans_concat_2`) keep the budgets of their models, each linear in the window they
  are called on.
-/
namespace Exetera.MapValid
open Exetera

/-- `ordered_map_valid_stream` with `fuel` iterations of `while m_chunk[0] < len(map_field)` -/
def orderedMapValidStreamF {α} (fuel : Nat) (src : List α) (m : List Int) (inv : Int) (cs : Nat) (empty : α) :
    Except Err (List α) :=
  let rg := Join.nextChunk 0 m.length cs
  match whileE (fun s : St α => decide (s.lo < m.length)) (chunkBody src m inv cs empty) fuel
      ⟨rg.1, rg.2, List.replicate cs empty, []⟩ with
  | .ok s => .ok s.out
  | .error e => .error e

theorem orderedMapValidStream_eq_F {α} (src : List α) (m : List Int) (inv : Int) (cs : Nat) (empty : α) :
    orderedMapValidStream src m inv cs empty = orderedMapValidStreamF m.length src m inv cs empty := rfl

/-- `indexedSubBody` with `fuel` iterations of `while sm < sm_end` (the loop that spun in D5) -/
def indexedSubBodyF {β} (fuel : Nat) (indices : List Int) (values : List β) (map_ : List Int) (inv : Int) (cs vf : Nat)
    (se : Nat × Nat) (o : IO β) : Except Err (IO β) :=
  match getValidValueExtents map_ se.1 se.2 inv with
  | .error e => .error e
  | .ok lim =>
    if lim.1 == inv then
      .ok { o with outI := o.outI ++ List.replicate (min (se.2 - se.1) cs) o.accum }
    else
      let indices_ := pySlice indices lim.1 (lim.2 + 2)
      match chunkDecomp indices_ ((cs * vf : Nat) : Int) 0 (lim.2 - lim.1 + 1).toNat with
      | .error e => .error e
      | .ok subs =>
        match getE subs 0 "sub_chunks[0]" with
        | .error e => .error e
        | .ok sc =>
          match valueWindow indices_ values sc with
          | .error e => .error e
          | .ok vals =>
            match whileE (fun w : IW β => decide (w.sm < se.2))
                (innerBody map_ se.2 indices_ values subs lim.1 cs (cs * vf) inv)
                fuel
                ⟨se.1, 0, sc, vals, [], [], o.accum, o.outI, o.outV⟩ with
            | .error e => .error e
            | .ok w => .ok ⟨w.accum, w.outI, w.outV⟩

def indexedChunkBodyF {β} (fuel : Nat) (indices : List Int) (values : List β) (m : List Int) (inv : Int) (cs vf : Nat)
    (s : ISt β) : Except Err (ISt β) :=
  let map_ := slice m s.lo s.hi
  match subchunks map_ inv cs with
  | .error e => .error e
  | .ok subs =>
    match foldE (indexedSubBodyF fuel indices values map_ inv cs vf) subs s.io with
    | .error e => .error e
    | .ok io =>
      let rg := Join.nextChunk s.hi m.length cs
      .ok ⟨rg.1, rg.2, io⟩

/-- `ordered_map_valid_indexed_stream` with `fuel` iterations of the loop over map chunks and of every
    `while sm < sm_end` loop -/
def orderedMapValidIndexedStreamF {β} (fuel : Nat) (indices : List Int) (values : List β) (m : List Int) (inv : Int)
    (cs vf : Nat) : Except Err (List Int × List β) :=
  let rg := Join.nextChunk 0 m.length cs
  match whileE (fun s : ISt β => decide (s.lo < m.length)) (indexedChunkBodyF fuel indices values m inv cs vf) fuel
      ⟨rg.1, rg.2, ⟨0, List.replicate (min 1 cs) 0, []⟩⟩ with
  | .ok s => .ok (s.io.outI, s.io.outV)
  | .error e => .error e

end Exetera.MapValid

namespace Exetera.Concat
open Exetera

/-- the batch loop of `Session.apply_spans_concat` with `fuel` iterations -/
def runBatchesF {α} [DecidableEq α] (fuel : Nat) (v : Variant) (sep delim : α) (spans idx : List Nat) (vals : List α)
    (srcChunk valueCap : Nat) : Except Err (S α) :=
  whileE (batchGuard spans) (batchBody v sep delim spans idx vals srcChunk valueCap) fuel {}

theorem runBatches_eq_F {α} [DecidableEq α] (v : Variant) (sep delim : α) (spans idx : List Nat) (vals : List α)
    (srcChunk valueCap : Nat) :
    runBatches v sep delim spans idx vals srcChunk valueCap
      = runBatchesF spans.length v sep delim spans idx vals srcChunk valueCap := rfl

def applySpansConcatSF {α} [DecidableEq α] (fuel : Nat) (v : Variant) (sep delim : α) (spans idx : List Nat)
    (vals : List α) (srcChunk destChunk mult : Nat) : Except Err (S α) :=
  match valueCap v spans idx destChunk mult with
  | .error e => .error e
  | .ok cap => runBatchesF fuel v sep delim spans idx vals srcChunk cap

theorem applySpansConcatS_eq_F {α} [DecidableEq α] (v : Variant) (sep delim : α) (spans idx : List Nat) (vals : List α)
    (srcChunk destChunk mult : Nat) :
    applySpansConcatS v sep delim spans idx vals srcChunk destChunk mult
      = applySpansConcatSF spans.length v sep delim spans idx vals srcChunk destChunk mult := rfl

end Exetera.Concat
