import Exetera.Lemmas.CsvRow
/-! All records of a window, and the result of one `fast_csv_reader` call on a window of complete records (C05). -/
namespace Exetera.Csv
open Exetera Spec

/-- entries staged after the records `rows` -/
def stageRows (E : Nat → List Bytes) : List (List Cell) → Nat → List Bytes
  | [] => E
  | r :: rs => stageRows (stageRow false E 0 r) rs

/-- every cell of every record fits (strictly) into what is left of its column's budget -/
def RowsCap (offs : List Nat) (E : Nat → List Bytes) : List (List Cell) → Prop
  | [] => True
  | r :: rs => RowCap offs false E 0 r ∧ RowsCap offs (stageRow false E 0 r) rs

theorem rows_run {src : Bytes} {offs : List Nat} {maxrow ncols : Nat} (hnc : 0 < ncols) (rows : List (List Cell)) :
    ∀ (A0 X : Bytes) (s : KS) (k np : Nat) (E : Nat → List Bytes),
      (∀ r ∈ rows, r.length = ncols ∧ ∀ c ∈ r, c.WF) →
      src = A0 ++ (render rows ++ X) →
      CellStart src offs maxrow ncols s (A0 ++ (render rows ++ X).takeWhile isWs) 0 false k np E →
      RowsCap offs E rows → k + rows.length < maxrow →
      ∃ n s', KSteps src offs maxrow n s s' ∧
        CellStart src offs maxrow ncols s' ((A0 ++ render rows) ++ X.takeWhile isWs) 0 false (k + rows.length)
          (if rows = [] then np else (A0 ++ render rows).length) (stageRows E rows) := by
  induction rows with
  | nil =>
    intro A0 X s k np E _ _ hcs _ _
    exact ⟨0, s, .refl _, by simpa [render, stageRows] using hcs⟩
  | cons r rs ih =>
    intro A0 X s k np E htab hsrc hcs hcap hk
    obtain ⟨hrlen, hrwf⟩ := htab r (by simp)
    have hrne : r ≠ [] := by intro h; rw [h] at hrlen; simp at hrlen; omega
    have hrend : render (r :: rs) ++ X = renderCells r ++ (render rs ++ X) := by simp [render]
    rw [hrend] at hsrc hcs
    obtain ⟨n1, s1, hsteps1, hcs1⟩ :=
      row_cells (offs := offs) (maxrow := maxrow) r A0 (render rs ++ X) s 0 false k np E hrne hrwf (by omega) hsrc hcs
        hcap.1 (fun _ => by simp at hk; omega)
    simp only [Bool.false_eq_true, if_false] at hcs1
    have hsrc1 : src = (A0 ++ renderCells r) ++ (render rs ++ X) := by rw [hsrc]; simp
    obtain ⟨n2, s2, hsteps2, hcs2⟩ :=
      ih (A0 ++ renderCells r) X s1 (k + 1) (A0 ++ renderCells r).length (stageRow false E 0 r)
        (fun x hx => htab x (by simp [hx])) hsrc1 hcs1 hcap.2 (by simp at hk ⊢; omega)
    refine ⟨n1 + n2, s2, StepsN.trans hsteps1 hsteps2, ?_⟩
    have hA : A0 ++ renderCells r ++ render rs = A0 ++ render (r :: rs) := by simp [render]
    have hnp : (if rs = [] then (A0 ++ renderCells r).length else (A0 ++ renderCells r ++ render rs).length) =
        (A0 ++ renderCells r ++ render rs).length := by
      split
      · rename_i h; subst h; simp [render]
      · rfl
    rw [hA] at hnp
    rw [hA, hnp] at hcs2
    have hk' : k + 1 + rs.length = k + (r :: rs).length := by simp; omega
    rw [hk'] at hcs2
    simpa [stageRows] using hcs2

/-- the loop state on entry is a cell start -/
theorem init_cellStart {src : Bytes} {offs : List Nat} {maxrow ncols : Nat} {inds : List (List Nat)} {vals : List Nat}
    (pre T : Bytes) (hh : Bool)
    (hsh : Shape ncols maxrow offs inds vals) (hnc : 0 < ncols) (hmax : 0 < maxrow)
    (hz : ∀ c, c < ncols → ∃ r, inds[c]? = some r ∧ r[0]? = some 0) (hlt : pre.length + leadWs T < src.length) :
    CellStart src offs maxrow ncols (initKS pre.length (pre.length + leadWs T) hh 0 (offAt offs 1) inds vals)
      (pre ++ T.takeWhile isWs) 0 hh 0 pre.length (fun _ => []) := by
  exact {
    index := by simp [initKS, leadWs]
    ics := by simp [initKS, leadWs]
    col := rfl
    hdr_ := rfl
    row := rfl
    np := rfl
    esc := rfl
    cand := rfl
    count := rfl
    vfc := rfl
    indsFull := rfl
    valsFull := rfl
    done := by simp [initKS]; omega
    colOff := by simp [initKS, hsh.offs0]
    colCnt := by simp [initKS, hsh.offs0]
    cstart := by intro _; simp [initKS]
    shape := hsh
    cols := by
      intro c hc
      obtain ⟨r, hr, hr0⟩ := hz c hc
      refine ⟨⟨r, hr, ?_⟩, fun k hk => by simp at hk⟩
      intro k hk
      have : k = 0 := by simpa using hk
      subst this
      simpa [endOf] using hr0
    caps := by intro c hc; simpa using hsh.mono c hc
    jlt := hnc
    lens := by intro _; exact ⟨fun c h => by omega, fun _ _ _ => rfl⟩
    hdrE := by intro _; exact ⟨fun _ => rfl, rfl⟩
    krow := fun _ => hmax
    maxrow_pos := hmax }

end Exetera.Csv
