import Exetera.Model.Dates
import Exetera.Spec.Dates
/-! Lemmas about `Dates.getDays` (C20). Core Lean only. -/
namespace Exetera.Dates
open Exetera Exetera.Spec.Dates

/-! ### floor division -/

theorem floorDays_isDayOf (o t : Int) : IsDayOf o t (floorDays o t) := by
  unfold IsDayOf floorDays Gen.SECONDS_PER_DAY
  constructor <;> omega

theorem isDayOf_unique {o t d d' : Int} (h : IsDayOf o t d) (h' : IsDayOf o t d') : d = d' := by
  unfold IsDayOf at *
  omega

/-! ### np.min -/

theorem foldl_min_le (xs : List Int) : ∀ x : Int, xs.foldl min x ≤ x ∧ ∀ y ∈ xs, xs.foldl min x ≤ y := by
  induction xs with
  | nil => intro x; simp
  | cons a as ih =>
    intro x
    simp only [List.foldl_cons, List.mem_cons]
    obtain ⟨h1, h2⟩ := ih (min x a)
    refine ⟨by omega, ?_⟩
    intro y hy
    rcases hy with rfl | hy
    · omega
    · exact h2 y hy

theorem foldl_min_mem (xs : List Int) : ∀ x : Int, xs.foldl min x = x ∨ xs.foldl min x ∈ xs := by
  induction xs with
  | nil => intro x; simp
  | cons a as ih =>
    intro x
    simp only [List.foldl_cons, List.mem_cons]
    rcases ih (min x a) with h | h
    · rcases Int.le_total x a with hx | hx
      · left; rw [h]; omega
      · right; left; rw [h]; omega
    · right; right; exact h

theorem minE_ok_iff {xs : List Int} {o : Int} : minE xs = .ok o ↔ o ∈ xs ∧ ∀ y ∈ xs, o ≤ y := by
  cases xs with
  | nil => simp [minE]
  | cons a as =>
    have hle := foldl_min_le as a
    have hmem := foldl_min_mem as a
    simp only [minE, Except.ok.injEq, List.mem_cons]
    constructor
    · intro h
      subst h
      refine ⟨?_, ?_⟩
      · rcases hmem with h | h
        · left; exact h
        · right; exact h
      · intro y hy
        rcases hy with rfl | hy
        · exact hle.1
        · exact hle.2 y hy
    · rintro ⟨hmemo, hlow⟩
      have h1 : as.foldl min a ≤ o := by
        rcases hmemo with rfl | h
        · exact hle.1
        · exact hle.2 o h
      have h2 : o ≤ as.foldl min a := by
        rcases hmem with h | h
        · rw [h]; exact hlow a (Or.inl rfl)
        · exact hlow _ (Or.inr h)
      omega

theorem minE_error_iff {xs : List Int} : (∃ e, minE xs = .error e) ↔ xs = [] := by
  cases xs <;> simp [minE]

theorem minE_nil_error : minE [] = .error (.valueError "zero-size array to reduction operation minimum which has no identity") := rfl

/-! ### boolean-mask selection -/

theorem mem_maskSel {ts : List Int} {m : List Bool} {t : Int} :
    t ∈ maskSel ts m ↔ ∃ i : Nat, ts[i]? = some t ∧ m[i]? = some true := by
  induction ts generalizing m with
  | nil => simp [maskSel]
  | cons a as ih =>
    cases m with
    | nil => simp [maskSel]
    | cons b bs =>
      simp only [maskSel]
      constructor
      · intro h
        cases b with
        | true =>
          simp only [if_true, List.mem_cons] at h
          rcases h with rfl | h
          · exact ⟨0, by simp⟩
          · obtain ⟨i, h1, h2⟩ := ih.mp h
            exact ⟨i + 1, by simpa using h1, by simpa using h2⟩
        | false =>
          simp only [Bool.false_eq_true, if_false] at h
          obtain ⟨i, h1, h2⟩ := ih.mp h
          exact ⟨i + 1, by simpa using h1, by simpa using h2⟩
      · rintro ⟨i, h1, h2⟩
        cases i with
        | zero =>
          simp only [List.getElem?_cons_zero, Option.some.injEq] at h1 h2
          subst h1; subst h2
          simp
        | succ i =>
          simp only [List.getElem?_cons_succ] at h1 h2
          have := ih.mpr ⟨i, h1, h2⟩
          cases b <;> simp [this]

/-! ### the filter as a mask -/

/-- `date_filter.astype(bool)` -/
def maskOf (filt : Option (List Int)) : Option (List Bool) := filt.map (fun f => f.map (fun v => v != 0))

/-- the initial `in_range` -/
def inr0Of (ts : List Int) (filt : Option (List Int)) : List Bool :=
  match maskOf filt with
  | none => List.replicate ts.length true
  | some m => m

theorem mask_getElem? (f : List Int) (i : Nat) :
    (f.map (fun v => v != 0))[i]? = f[i]?.map (fun v => v != 0) := by simp

theorem mask_true_iff (f : List Int) (i : Nat) :
    (f.map (fun v => v != 0))[i]? = some true ↔ passes (some f) i = true := by
  simp only [List.getElem?_map, passes]
  cases f[i]? <;> simp [keeps]

/-- with equal lengths the initial flags are the filter's truth values -/
theorem inr0Of_get (ts : List Int) (filt : Option (List Int)) (hlen : ∀ f, filt = some f → f.length = ts.length)
    (i : Nat) (hi : i < ts.length) : (inr0Of ts filt)[i]? = some (passes filt i) := by
  cases filt with
  | none => simp [inr0Of, maskOf, passes, hi]
  | some f =>
    have : i < f.length := by have := hlen f rfl; omega
    simp [inr0Of, maskOf, passes, List.getElem?_eq_getElem this, keeps]

theorem inr0Of_length (ts : List Int) (filt : Option (List Int)) (hlen : ∀ f, filt = some f → f.length = ts.length) :
    (inr0Of ts filt).length = ts.length := by
  cases filt with
  | none => simp [inr0Of, maskOf]
  | some f => simpa [inr0Of, maskOf] using hlen f rfl

/-! ### `andRange` -/

theorem andRange_ok {inr cmp r : List Bool} (h : andRange inr cmp = .ok r) :
    inr.length = cmp.length ∧ r = List.zipWith (· && ·) inr cmp := by
  unfold andRange at h
  split at h
  · simp only [Except.ok.injEq] at h
    exact ⟨by assumption, h.symm⟩
  · simp at h

theorem andRange_of_len {inr cmp : List Bool} (h : inr.length = cmp.length) :
    andRange inr cmp = .ok (List.zipWith (· && ·) inr cmp) := by
  simp [andRange, h]

theorem zipWith_and_get {inr : List Bool} {ts : List Int} (p : Int → Bool) (q : Nat → Int → Bool)
    (_hl : inr.length = ts.length)
    (hq : ∀ i t, ts[i]? = some t → inr[i]? = some (q i t)) :
    ∀ i t, ts[i]? = some t → (List.zipWith (· && ·) inr (ts.map p))[i]? = some (q i t && p t) := by
  intro i t ht
  have h1 := hq i t ht
  simp [List.getElem?_zipWith, h1, ht]

/-! ### the general branch of `get_days`, stage by stage -/

theorem getDays_allNone (ts : List Int) :
    getDays ts none none none = match minE ts with
      | .ok o => .ok ⟨ts.map (floorDays o), none⟩
      | .error e => .error e := by
  rfl

theorem getDays_general (ts : List Int) (filt : Option (List Int)) (start end_ : Option Int)
    (h : ¬(filt = none ∧ start = none ∧ end_ = none)) :
    getDays ts filt start end_ =
      match startStage ts (maskOf filt) (inr0Of ts filt) start with
      | .error e => .error e
      | .ok (o, inr1) =>
        match endStage ts inr1 end_ with
        | .error e => .error e
        | .ok inr2 => .ok ⟨ts.map (floorDays o), some inr2⟩ := by
  cases filt <;> cases start <;> cases end_ <;> first | (exfalso; exact h ⟨rfl, rfl, rfl⟩) | rfl

/-- the origin chosen without a `start_date` -/
theorem origin_none {ts : List Int} {filt : Option (List Int)} (hlen : ∀ f, filt = some f → f.length = ts.length)
    {o : Int} {inr0 r : List Bool} (h : startStage ts (maskOf filt) inr0 none = .ok (o, r)) :
    IsOrigin ts filt none o ∧ r = inr0 := by
  cases filt with
  | none =>
    simp only [startStage, maskOf, Option.map_none] at h
    cases hm : minE ts with
    | error e => simp [hm] at h
    | ok o' =>
      simp only [hm, Except.ok.injEq, Prod.mk.injEq] at h
      obtain ⟨rfl, rfl⟩ := h
      obtain ⟨hmem, hlow⟩ := minE_ok_iff.mp hm
      refine ⟨⟨?_, ?_⟩, rfl⟩
      · obtain ⟨i, hi⟩ := List.getElem?_of_mem hmem
        exact ⟨i, hi, rfl⟩
      · intro i t ht _
        exact hlow t (List.mem_of_getElem? ht)
  | some f =>
    simp only [startStage, maskOf, Option.map_some, List.length_map] at h
    rw [if_pos (hlen f rfl)] at h
    cases hm : minE (maskSel ts (f.map (fun v => v != 0))) with
    | error e => simp [hm] at h
    | ok o' =>
      simp only [hm, Except.ok.injEq, Prod.mk.injEq] at h
      obtain ⟨rfl, rfl⟩ := h
      obtain ⟨hmem, hlow⟩ := minE_ok_iff.mp hm
      refine ⟨⟨?_, ?_⟩, rfl⟩
      · obtain ⟨i, h1, h2⟩ := mem_maskSel.mp hmem
        exact ⟨i, h1, (mask_true_iff f i).mp h2⟩
      · intro i t ht hp
        exact hlow t (mem_maskSel.mpr ⟨i, ht, (mask_true_iff f i).mpr hp⟩)

/-- without a `start_date` the origin stage succeeds as soon as one row passes the filter -/
theorem startStage_none_ok {ts : List Int} {filt : Option (List Int)} (hlen : ∀ f, filt = some f → f.length = ts.length)
    (inr0 : List Bool) (hex : ∃ i, i < ts.length ∧ passes filt i = true) :
    ∃ o, startStage ts (maskOf filt) inr0 none = .ok (o, inr0) := by
  obtain ⟨i, hi, hp⟩ := hex
  cases filt with
  | none =>
    simp only [startStage, maskOf, Option.map_none]
    cases hm : minE ts with
    | ok o => exact ⟨o, rfl⟩
    | error e =>
      have := minE_error_iff.mp ⟨e, hm⟩
      subst this
      simp at hi
  | some f =>
    simp only [startStage, maskOf, Option.map_some, List.length_map]
    rw [if_pos (hlen f rfl)]
    cases hm : minE (maskSel ts (f.map (fun v => v != 0))) with
    | ok o => exact ⟨o, rfl⟩
    | error e =>
      have hnil := minE_error_iff.mp ⟨e, hm⟩
      have : ts[i] ∈ maskSel ts (f.map (fun v => v != 0)) :=
        mem_maskSel.mpr ⟨i, List.getElem?_eq_getElem hi, (mask_true_iff f i).mpr hp⟩
      rw [hnil] at this
      simp at this

/-- without a `start_date` and without any passing row the origin stage raises `ValueError` -/
theorem startStage_none_error {ts : List Int} {filt : Option (List Int)} (hlen : ∀ f, filt = some f → f.length = ts.length)
    (inr0 : List Bool) (hno : ¬ ∃ i, i < ts.length ∧ passes filt i = true) :
    startStage ts (maskOf filt) inr0 none =
      .error (.valueError "zero-size array to reduction operation minimum which has no identity") := by
  cases filt with
  | none =>
    simp only [startStage, maskOf, Option.map_none]
    cases ts with
    | nil => rfl
    | cons a as => exact absurd ⟨0, by simp, rfl⟩ hno
  | some f =>
    simp only [startStage, maskOf, Option.map_some, List.length_map]
    rw [if_pos (hlen f rfl)]
    have : maskSel ts (f.map (fun v => v != 0)) = [] := by
      apply List.eq_nil_iff_forall_not_mem.mpr
      intro t ht
      obtain ⟨i, h1, h2⟩ := mem_maskSel.mp ht
      have hi : i < ts.length := (List.getElem?_eq_some_iff.mp h1).1
      exact hno ⟨i, hi, (mask_true_iff f i).mp h2⟩
    rw [this]
    rfl

/-- the flags and the origin after the `start_date` stage -/
theorem startStage_spec {ts : List Int} {filt : Option (List Int)} (hlen : ∀ f, filt = some f → f.length = ts.length)
    {start : Option Int} {o : Int} {r : List Bool}
    (h : startStage ts (maskOf filt) (inr0Of ts filt) start = .ok (o, r)) :
    IsOrigin ts filt start o ∧ r.length = ts.length ∧
      ∀ (i : Nat) (t : Int), ts[i]? = some t → r[i]? = some (passes filt i && afterStart start t) := by
  have hl0 := inr0Of_length ts filt hlen
  have hg0 : ∀ (i : Nat) (t : Int), ts[i]? = some t → (inr0Of ts filt)[i]? = some (passes filt i) := by
    intro i t ht
    exact inr0Of_get ts filt hlen i (List.getElem?_eq_some_iff.mp ht).1
  cases start with
  | none =>
    obtain ⟨ho, rfl⟩ := origin_none hlen h
    refine ⟨ho, hl0, ?_⟩
    intro i t ht
    simp [afterStart, hg0 i t ht]
  | some s =>
    simp only [startStage] at h
    cases ha : andRange (inr0Of ts filt) (ts.map (fun t => decide (s ≤ t))) with
    | error e => simp [ha] at h
    | ok r' =>
      simp only [ha, Except.ok.injEq, Prod.mk.injEq] at h
      obtain ⟨rfl, rfl⟩ := h
      obtain ⟨_, rfl⟩ := andRange_ok ha
      refine ⟨rfl, by simp [hl0], ?_⟩
      intro i t ht
      have := zipWith_and_get (fun t => decide (s ≤ t)) (fun i _ => passes filt i) hl0 hg0 i t ht
      simpa [afterStart] using this

/-- the flags after the `end_date` stage -/
theorem endStage_spec {ts : List Int} {inr1 inr2 : List Bool} {end_ : Option Int} (q : Nat → Int → Bool)
    (hl : inr1.length = ts.length) (hq : ∀ (i : Nat) (t : Int), ts[i]? = some t → inr1[i]? = some (q i t))
    (h : endStage ts inr1 end_ = .ok inr2) :
    inr2.length = ts.length ∧ ∀ (i : Nat) (t : Int), ts[i]? = some t → inr2[i]? = some (q i t && beforeEnd end_ t) := by
  cases end_ with
  | none =>
    simp only [endStage, Except.ok.injEq] at h
    subst h
    exact ⟨hl, fun i t ht => by simp [beforeEnd, hq i t ht]⟩
  | some e =>
    simp only [endStage] at h
    obtain ⟨_, rfl⟩ := andRange_ok h
    refine ⟨by simp [hl], ?_⟩
    intro i t ht
    have := zipWith_and_get (fun t => decide (t < e)) q hl hq i t ht
    simpa [beforeEnd] using this

theorem endStage_of_len {ts : List Int} {inr1 : List Bool} (end_ : Option Int) (hl : inr1.length = ts.length) :
    ∃ inr2, endStage ts inr1 end_ = .ok inr2 := by
  cases end_ with
  | none => exact ⟨_, rfl⟩
  | some e => exact ⟨_, andRange_of_len (by simp [hl])⟩

/-- an `.ok` result means the filter (if any) had the length of the timestamp array -/
theorem getDays_ok_len {ts : List Int} {filt : Option (List Int)} {start end_ : Option Int} {out : DaysOut}
    (h : getDays ts filt start end_ = .ok out) : ∀ f, filt = some f → f.length = ts.length := by
  intro f hf
  subst hf
  rw [getDays_general _ _ _ _ (by simp)] at h
  cases start with
  | none =>
    simp only [startStage, maskOf, Option.map_some, List.length_map] at h
    by_cases hl : f.length = ts.length
    · exact hl
    · rw [if_neg hl] at h
      simp at h
  | some s =>
    simp only [startStage, maskOf, inr0Of, Option.map_some] at h
    by_cases hl : f.length = ts.length
    · exact hl
    · have : andRange (f.map (fun v => v != 0)) (ts.map (fun t => decide (s ≤ t))) =
          .error (.valueError "operands could not be broadcast together") := by
        simp [andRange, hl]
      simp [this] at h

/-- everything `get_days` promises about an `.ok` result -/
theorem getDays_spec {ts : List Int} {filt : Option (List Int)} {start end_ : Option Int} {out : DaysOut}
    (h : getDays ts filt start end_ = .ok out) :
    ∃ o, IsOrigin ts filt start o ∧ out.days = ts.map (floorDays o) ∧
      ((filt = none ∧ start = none ∧ end_ = none) → out.inRange = none) ∧
      (¬(filt = none ∧ start = none ∧ end_ = none) → ∃ fl, out.inRange = some fl ∧ fl.length = ts.length ∧
        ∀ (i : Nat) (t : Int), ts[i]? = some t → fl[i]? = some (inRangeFlag filt start end_ i t)) := by
  have hlen := getDays_ok_len h
  by_cases hall : filt = none ∧ start = none ∧ end_ = none
  · obtain ⟨rfl, rfl, rfl⟩ := hall
    rw [getDays_allNone] at h
    cases hm : minE ts with
    | error e => simp [hm] at h
    | ok o =>
      simp only [hm, Except.ok.injEq] at h
      subst h
      obtain ⟨hmem, hlow⟩ := minE_ok_iff.mp hm
      refine ⟨o, ⟨?_, ?_⟩, rfl, fun _ => rfl, fun hn => absurd ⟨rfl, rfl, rfl⟩ hn⟩
      · obtain ⟨i, hi⟩ := List.getElem?_of_mem hmem
        exact ⟨i, hi, rfl⟩
      · intro i t ht _
        exact hlow t (List.mem_of_getElem? ht)
  · rw [getDays_general _ _ _ _ hall] at h
    cases hs : startStage ts (maskOf filt) (inr0Of ts filt) start with
    | error e => simp [hs] at h
    | ok p =>
      obtain ⟨o, inr1⟩ := p
      simp only [hs] at h
      cases he : endStage ts inr1 end_ with
      | error e => simp [he] at h
      | ok inr2 =>
        simp only [he, Except.ok.injEq] at h
        subst h
        obtain ⟨ho, hl1, hg1⟩ := startStage_spec hlen hs
        obtain ⟨hl2, hg2⟩ := endStage_spec (fun i t => passes filt i && afterStart start t) hl1 hg1 he
        exact ⟨o, ho, rfl, fun ha => absurd ha hall, fun _ => ⟨inr2, rfl, hl2, fun i t ht => by
          simpa [inRangeFlag] using hg2 i t ht⟩⟩

/-- `get_days` succeeds exactly when an origin exists (lengths consistent) -/
theorem getDays_ok_of_origin {ts : List Int} {filt : Option (List Int)} (start end_ : Option Int)
    (hlen : ∀ f, filt = some f → f.length = ts.length)
    (horg : start = none → ∃ i, i < ts.length ∧ passes filt i = true) :
    ∃ out, getDays ts filt start end_ = .ok out := by
  by_cases hall : filt = none ∧ start = none ∧ end_ = none
  · obtain ⟨rfl, rfl, rfl⟩ := hall
    rw [getDays_allNone]
    obtain ⟨i, hi, _⟩ := horg rfl
    cases hm : minE ts with
    | ok o => exact ⟨_, rfl⟩
    | error e =>
      have := minE_error_iff.mp ⟨e, hm⟩
      subst this
      simp at hi
  · rw [getDays_general _ _ _ _ hall]
    have hl0 := inr0Of_length ts filt hlen
    have hstage : ∃ o r, startStage ts (maskOf filt) (inr0Of ts filt) start = .ok (o, r) ∧ r.length = ts.length := by
      cases start with
      | none =>
        obtain ⟨o, ho⟩ := startStage_none_ok hlen (inr0Of ts filt) (horg rfl)
        exact ⟨o, _, ho, hl0⟩
      | some s =>
        refine ⟨s, List.zipWith (· && ·) (inr0Of ts filt) (ts.map (fun t => decide (s ≤ t))), ?_, by simp [hl0]⟩
        simp only [startStage]
        rw [andRange_of_len (by simp [hl0])]
    obtain ⟨o, r, hs, hlr⟩ := hstage
    obtain ⟨inr2, he⟩ := endStage_of_len end_ hlr
    exact ⟨⟨ts.map (floorDays o), some inr2⟩, by simp only [hs, he]⟩

/-- without a start date and without a passing row `get_days` raises numpy's `ValueError` -/
theorem getDays_error_of_no_origin {ts : List Int} {filt : Option (List Int)} (end_ : Option Int)
    (hlen : ∀ f, filt = some f → f.length = ts.length)
    (hno : ¬ ∃ i, i < ts.length ∧ passes filt i = true) :
    getDays ts filt none end_ =
      .error (.valueError "zero-size array to reduction operation minimum which has no identity") := by
  by_cases hall : filt = none ∧ (none : Option Int) = none ∧ end_ = none
  · obtain ⟨rfl, _, rfl⟩ := hall
    rw [getDays_allNone]
    cases ts with
    | nil => rfl
    | cons a as => exact absurd ⟨0, by simp, rfl⟩ hno
  · rw [getDays_general _ _ _ _ hall, startStage_none_error hlen _ hno]

end Exetera.Dates
