import Exetera.Lemmas.CsvImport
/-! `read_file_using_fast_csv_reader` when the whole file is read in one window and no staging buffer fills (C05). -/
namespace Exetera.Csv
open Exetera Spec

theorem offAt_last (offs : List Nat) (n : Nat) (h : offs.length = n + 1) : offs.getLastD 0 = offAt offs n := by
  rw [List.getLastD_eq_getLast?, List.getLast?_eq_getElem?, h]
  simp [offAt]

theorem shape_zeros {ncols maxrow : Nat} {offs : List Nat} (hl : offs.length = ncols + 1) (h0 : offAt offs 0 = 0)
    (hm : ∀ c, c < ncols → offAt offs c ≤ offAt offs (c + 1)) :
    Shape ncols maxrow offs (zeros2 ncols (maxrow + 1)) (List.replicate (offs.getLastD 0) 0) := by
  refine ⟨by simp [zeros2], ?_, hl, h0, hm, by rw [offAt_last offs ncols hl]; simp⟩
  intro c r hr
  simp only [zeros2] at hr
  rw [List.getElem?_replicate] at hr
  split at hr
  · cases hr; simp
  · cases hr

theorem zeros_first {ncols rows : Nat} (c : Nat) (hc : c < ncols) :
    ∃ r, (zeros2 ncols (rows + 1))[c]? = some r ∧ r[0]? = some 0 := by
  refine ⟨List.replicate (rows + 1) 0, ?_, by simp⟩
  simp [zeros2, List.getElem?_replicate, hc]

/-- the window that holds the whole file: the text with its final line break -/
theorem readWindow_whole {file T : Bytes} {w : Nat} (hw : file.length ≤ w)
    (hT : file = T ∨ (file ++ [NL] = T ∧ file.getLast? ≠ some NL)) (hTnl : T.getLast? = some NL) :
    readWindow file 0 w = T := by
  have hs : slice file 0 (0 + w) = file := by
    simp [slice, List.take_of_length_le hw]
  unfold readWindow
  simp only [hs]
  rcases hT with h | ⟨h, hn⟩
  · subst h; simp [hTnl]
  · simp [hn, h]

theorem getLast?_append_some {α} {a b : List α} {x : α} (h : b.getLast? = some x) : (a ++ b).getLast? = some x := by
  rw [List.getLast?_append, h]; rfl

theorem renderCells_getLast (cs : List Cell) (hne : cs ≠ []) : (renderCells cs).getLast? = some NL := by
  induction cs with
  | nil => exact absurd rfl hne
  | cons c cs ih =>
    cases cs with
    | nil => simp [renderCells]
    | cons d ds =>
      have := ih (by simp)
      have h2 : renderCells (c :: d :: ds) = (renderCell c ++ [SEP]) ++ renderCells (d :: ds) := by simp [renderCells]
      rw [h2]
      exact getLast?_append_some this

theorem renderCells_ne_nil (cs : List Cell) (hne : cs ≠ []) : renderCells cs ≠ [] := by
  intro h
  have := renderCells_getLast cs hne
  rw [h] at this; simp at this

theorem render_getLast (rows : List (List Cell)) (hne : rows ≠ []) (hr : ∀ r ∈ rows, r ≠ []) :
    (render rows).getLast? = some NL := by
  induction rows with
  | nil => exact absurd rfl hne
  | cons r rs ih =>
    cases rs with
    | nil => simpa [render] using renderCells_getLast r (hr r (by simp))
    | cons r2 rs2 =>
      have h2 := ih (by simp) (fun x hx => hr x (by simp [hx]))
      rw [render]
      exact getLast?_append_some h2

end Exetera.Csv
