import Exetera.Model.Basic
import Exetera.Spec.CsvRender
/-!
  Executable model of `DataFrame.to_csv` and `DataFrame.to_pandas` (exetera/core/dataframe.py), C18.  Core Lean only.

  A frame is the ordered list of its columns; every cell is the *text* the export hands to `csv.writer`
  (the string of an indexed-string field, `str()` of the `.tolist()` element of a numeric field — Python's `str` of a
  number is an external the model does not look into). The function that turns a row into a line of the file is the
  parameter `writerow`: as found it is `csv.writer.writerow` (`Spec.Csv.renderRow`, which the harness validates against
  Python's csv module); with fixes/D30_NC18a applied it is ExeTera's own `_csv_record`, modelled below as `csvRecord`.

  The model mirrors the code *with the fixes NC18d/NC18e applied* (the caller's `column_filter` list is copied; the filter
  column is dropped from the output only when the filter is this frame's own field); `to_pandas` is modelled with and
  without the fix NC18b (`Variant`).
-/
namespace Exetera.Export

abbrev Cell := List Char

structure Column where
  name : Cell
  data : List Cell
  deriving Repr, DecidableEq

/-- `DataFrame._columns`: insertion ordered, names unique -/
abbrev Frame := List Column

def Frame.keys (f : Frame) : List Cell := f.map (·.name)

def Frame.get? (f : Frame) (n : Cell) : Option Column := f.find? (fun c => c.name == n)

/-- `self._columns[n]` -/
def Frame.getE (f : Frame) (n : Cell) : Except Err Column :=
  match f.get? n with
  | some c => .ok c
  | none => .error (.keyError "no such field")

/-- `[self._columns[n] for n in names]` -/
def Frame.getAll (f : Frame) : List Cell → Except Err (List Column)
  | [] => .ok []
  | n :: ns =>
    match f.getE n with
    | .error e => .error e
    | .ok c =>
      match f.getAll ns with
      | .error e => .error e
      | .ok cs => .ok (c :: cs)

/-- the `column_filter` / `col_filter` argument -/
inductive ColFilter where
  | none
  | one (name : Cell)            -- a str
  | many (names : List Cell)     -- a list of str
  | invalid                      -- anything else (e.g. a tuple)
  deriving Repr, DecidableEq

/-- the `row_filter` argument of `to_csv` -/
inductive RowFilter where
  | none
  | array (xs : List Bool)                                             -- numpy bool array
  | intArray (xs : List Int)                                           -- numpy array of an integer dtype
  | field (name : Option Cell) (own : Bool) (isBool : Bool) (xs : List Bool)
      -- an ExeTera field: its name (`None` for memory fields), whether it is this frame's own column object,
      -- whether its `_nformat` is 'bool', its data
  | invalid                                                            -- anything else (e.g. a Python list)
  deriving Repr, DecidableEq

/-- `validation.validate_selected_keys(by, all)` -/
def validateSelectedKeys (by' : ColFilter) (all : List Cell) : Except Err (List Cell) :=
  match by' with
  | .one n => if all.contains n then .ok [n] else .error (.valueError "not an existing field")
  | .many ns =>
    if ns.isEmpty then .error (.valueError "Selected field names should not be empty list")
    else if ns.all all.contains then .ok ns
    else .error (.valueError "not existing field(s)")
  | _ => .error (.valueError "Selected field names should either be string or list of string")

/-- `validation.validate_boolean_row_filter`. The validator returns the array itself; the callers only ever look at
    `filter_array[j] == True`, so the model keeps that truth value per entry: the entry itself for a boolean array or
    field, `x == 1` for an entry of an integer array (numpy: `np.int64(2) == True` is `False`). -/
def validateRowFilter : RowFilter → Except Err (Option (List Bool))
  | .none => .ok Option.none
  | .array xs => .ok (some xs)
  | .intArray xs => .ok (some (xs.map (· == 1)))
  | .field _ _ isBool xs => if isBool then .ok (some xs) else .error (.valueError "'row_filter' must be boolean field")
  | .invalid => .error (.valueError "'row_filter' must be one of (Field, or ndarray")

/-- the name `to_csv` removes from the output columns: the filter field's own column -/
def filterColumnName : RowFilter → Option Cell
  | .field (some n) true _ _ => some n
  | _ => Option.none

/-! ### `_csv_record` (fixes/D30_NC18a): the line of the file for one row -/

/-- `text[:1] == ' ' or ',' in text or '"' in text or '\n' in text or '\r' in text` -/
def needsQuotes (s : Cell) : Bool :=
  s.head? == some ' ' || s.contains ',' || s.contains '"' || s.contains '\n' || s.contains '\r'

/-- `'"' + text.replace('"', '""') + '"'` when the cell needs quotes -/
def quoteCell (s : Cell) : List Char :=
  if needsQuotes s then '"' :: (Spec.Csv.escape s ++ ['"']) else s

/-- `','.join(texts)` -/
def joinRecord : List Cell → List Char
  | [] => []
  | [c] => quoteCell c
  | c :: cs => quoteCell c ++ ',' :: joinRecord cs

/-- `_csv_record(cells)`; a record that is one empty cell is written as `""` -/
def csvRecord (cells : List Cell) : List Char :=
  (if cells = [[]] then ['"', '"'] else joinRecord cells) ++ ['\n']

/-! ### Python builtins used by the loop -/

/-- length of the shortest of the lists; 0 for no lists (`zip()` is empty) -/
def minLen {α} : List (List α) → Nat
  | [] => 0
  | [c] => c.length
  | c :: cs => min c.length (minLen cs)

/-- `zip(*cols)`: the rows up to the end of the shortest column -/
def pyZip {α} (cols : List (List α)) : List (List α) :=
  (List.range (minLen cols)).map (fun i => cols.filterMap (·[i]?))

/-- `filter_array is None or (j < len(filter_array) and filter_array[j] == True)` -/
def rowSelected (flt : Option (List Bool)) (j : Nat) : Bool :=
  match flt with
  | none => true
  | some xs => decide (j < xs.length) && (xs[j]? == some true)

/-- `[row for i, row in enumerate(rows) if rowSelected(i + start)]` -/
def selectRows {α} (flt : Option (List Bool)) (rows : List α) (start : Nat) : List α :=
  ((rows.zipIdx start).filter (fun p => rowSelected flt p.2)).map (·.1)

/-! ### the chunk loop of `to_csv` -/

structure LoopSt where
  startRow : Nat
  /-- rows handed to `writer.writerow` so far (after the header) -/
  written : List (List Cell)
  /-- the `break` has been taken -/
  done : Bool
  deriving Repr, DecidableEq

def loopGuard (s : LoopSt) : Bool := !s.done

/-- one iteration of `while True:` -/
def loopBody (cols : List (List Cell)) (flt : Option (List Bool)) (crs : Nat) (s : LoopSt) : Except Err LoopSt :=
  let chunkData := cols.map (fun c => slice c s.startRow (s.startRow + crs))
  let written := s.written ++ selectRows flt (pyZip chunkData) s.startRow
  match chunkData[0]? with                               -- `chunk_data[0]`
  | none => .error (.oob "chunk_data[0]")
  | some c0 =>
    if c0.length < crs then .ok { s with written := written, done := true }
    else .ok { startRow := s.startRow + crs, written := written, done := false }

def loopFuel (cols : List (List Cell)) (crs : Nat) : Nat :=
  match cols with
  | [] => 1
  | c :: _ => c.length / crs + 1

/-- the rows written after the header -/
def exportLoop (cols : List (List Cell)) (flt : Option (List Bool)) (crs : Nat) (fuel : Nat) : Except Err (List (List Cell)) :=
  match whileE loopGuard (loopBody cols flt crs) fuel ⟨0, [], false⟩ with
  | .ok s => .ok s.written
  | .error e => .error e

/-- the names of the columns `to_csv` writes, in order -/
def csvNames (f : Frame) (rf : RowFilter) (cf : ColFilter) : Except Err (List Cell) :=
  match (match cf with | .none => Except.ok f.keys | cf => validateSelectedKeys cf f.keys) with
  | .error e => .error e
  | .ok names =>
    match validateRowFilter rf with
    | .error e => .error e
    | .ok _ =>
      match filterColumnName rf with
      | some n => .ok (names.erase n)                   -- `list.remove`: first occurrence
      | Option.none => .ok names

/-- `DataFrame.to_csv`: the text of the file (header line, then one line per written row).
    The loop is given exactly `len(first column) / chunk_row_size + 1` iterations (`loopFuel`). -/
def toCsv (writerow : List Cell → List Char) (f : Frame) (rf : RowFilter) (cf : ColFilter) (crs : Int) :
    Except Err (List Char) :=
  if crs ≤ 0 then .error (.valueError "'chunk_row_size' must be larger than 0.") else
  match csvNames f rf cf with
  | .error e => .error e
  | .ok names =>
    match validateRowFilter rf with
    | .error e => .error e
    | .ok flt =>
      match f.getAll names with
      | .error e => .error e
      | .ok fields =>
        let cols := fields.map (·.data)
        match exportLoop cols flt crs.toNat (loopFuel cols crs.toNat) with
        | .error e => .error e
        | .ok rows => .ok (writerow names ++ rows.flatMap writerow)

/-! ### `to_pandas`

  Two variants (DESIGN 1.3): `repaired` is the code with `fixes/NC18b_to_pandas_accepts_the_row_filters_of_to_csv.patch`
  applied — `row_filter` goes through `validate_boolean_row_filter` exactly as in `to_csv` (a Python list through
  `np.asarray` first) and row `i` of every column is kept iff `i < len(filter_array)` and `filter_array[i] == True`;
  `asFound` fancy-indexes every column with the raw argument (`field_arr[row_filter]`, finding NC18b). -/

inductive Variant where
  | asFound
  | repaired
  deriving Repr, DecidableEq

/-- the `row_filter` argument of `to_pandas` -/
inductive PdFilter where
  | none
  | list (xs : List Bool)                      -- Python list of bool
  | array (xs : List Bool)                     -- numpy bool array
  | intArray (xs : List Int)                   -- numpy array (or Python list) of an integer dtype
  | field (isBool : Bool) (xs : List Bool)     -- an ExeTera field: whether its `_nformat` is 'bool', its data
  | invalid                                    -- anything else (e.g. a str)
  deriving Repr, DecidableEq

/-- what `to_pandas` hands to `validate_boolean_row_filter`: a list goes through `np.asarray` first; the name of a
    Field and whether it is a column of this frame play no role here -/
def PdFilter.toRowFilter : PdFilter → RowFilter
  | .none => .none
  | .list xs => .array xs
  | .array xs => .array xs
  | .intArray xs => .intArray xs
  | .field isBool xs => .field Option.none false isBool xs
  | .invalid => .invalid

/-- the object `to_csv` was given as `row_filter`, given to `to_pandas` -/
def PdFilter.ofCsv : RowFilter → PdFilter
  | .none => .none
  | .array xs => .array xs
  | .intArray xs => .intArray xs
  | .field _ _ isBool xs => .field isBool xs
  | .invalid => .invalid

/-- `selected = np.zeros(n, dtype=bool); m = min(n, len(filter_array)); selected[:m] = filter_array[:m] == True` -/
def pdSelected (n : Nat) (xs : List Bool) : List Bool :=
  xs.take (min n xs.length) ++ List.replicate (n - min n xs.length) false

/-- `field_arr[selected]` for a boolean mask -/
def maskSelect {α} (data : List α) (mask : List Bool) : List α :=
  (data.zip mask).filterMap (fun p => if p.2 then some p.1 else Option.none)

/-- repaired: the column restricted to the rows the validated filter keeps -/
def pdApply (flt : Option (List Bool)) (data : List Cell) : List Cell :=
  match flt with
  | Option.none => data
  | some xs => maskSelect data (pdSelected data.length xs)

/-- `field_arr[index_array]` for an integer index array: negative numbers count from the end -/
def takeRows (data : List Cell) : List Int → Except Err (List Cell)
  | [] => .ok []
  | x :: xs =>
    if x < -(data.length : Int) ∨ (data.length : Int) ≤ x then .error (.oob "index out of bounds") else
    match data[(if x < 0 then x + data.length else x).toNat]? with
    | Option.none => .error (.oob "index out of bounds")
    | some c =>
      match takeRows data xs with
      | .error e => .error e
      | .ok cs => .ok (c :: cs)

/-- as found: `field_arr[row_filter]` with the raw argument -/
def pdApplyAsFound (rf : PdFilter) (data : List Cell) : Except Err (List Cell) :=
  match rf with
  | .none => .ok data
  | .invalid => .error (.oob "only integers, slices, ... are valid indices")
  | .field _ _ => .error (.oob "only integers, slices, ... are valid indices")
  | .list [] | .array [] => .ok []                       -- an empty index selects nothing, whatever the length
  | .list xs | .array xs =>
    if xs.length ≠ data.length then .error (.oob "boolean index did not match indexed array")
    else .ok (maskSelect data xs)
  | .intArray xs => takeRows data xs

/-- the length check of `to_pandas` over `col_to_convert` -/
def pdCheckLengths (f : Frame) (bench : Nat) : List Cell → Except Err Unit
  | [] => .ok ()
  | n :: ns =>
    match f.getE n with
    | .error e => .error e
    | .ok c => if c.data.length ≠ bench then .error (.valueError "All fields must be of the same length.")
               else pdCheckLengths f bench ns

/-- the dict `temp`: later assignments to an existing key keep its position; `app` is what is done to one column -/
def pdCollect (f : Frame) (app : List Cell → Except Err (List Cell)) :
    List Cell → List (Cell × List Cell) → Except Err (List (Cell × List Cell))
  | [], acc => .ok acc
  | n :: ns, acc =>
    match f.getE n with
    | .error e => .error e
    | .ok c =>
      match app c.data with
      | .error e => .error e
      | .ok xs =>
        pdCollect f app ns (if acc.any (·.1 == n) then acc.map (fun p => if p.1 == n then (n, xs) else p) else acc ++ [(n, xs)])

/-- the "checking data length if multiple columns" block of `to_pandas` -/
def pdCheck (f : Frame) (names : List Cell) : Except Err Unit :=
  match names[0]? with                                      -- `col_to_convert[0]`
  | Option.none => .error (.oob "col_to_convert[0]")
  | some n0 =>
    match f.getE n0 with
    | .error e => .error e
    | .ok c0 => pdCheckLengths f c0.data.length names

/-- `if isinstance(col_to_convert, list): …` — only a list of names (or no `col_filter`) is length-checked -/
def pdChecks (f : Frame) : ColFilter → Except Err Unit
  | .none => pdCheck f f.keys
  | .many names => pdCheck f names
  | _ => .ok ()

/-- the loop `for field in col_to_convert` -/
def pdLoop (f : Frame) (app : List Cell → Except Err (List Cell)) : ColFilter → Except Err (List (Cell × List Cell))
  | .invalid => .error (.keyError "not a field name")
  | .one n => pdCollect f app [n] []
  | .none => pdCollect f app f.keys []
  | .many names => pdCollect f app names []

/-- `DataFrame.to_pandas`: the columns of the returned pandas frame -/
def toPandas (v : Variant) (f : Frame) (rf : PdFilter) (cf : ColFilter) : Except Err (List (Cell × List Cell)) :=
  match pdChecks f cf with
  | .error e => .error e
  | .ok _ =>
    match v with
    | .asFound => pdLoop f (pdApplyAsFound rf) cf
    | .repaired =>
      match validateRowFilter rf.toRowFilter with          -- the call `to_csv` makes
      | .error e => .error e
      | .ok flt => pdLoop f (fun data => .ok (pdApply flt data)) cf

end Exetera.Export
