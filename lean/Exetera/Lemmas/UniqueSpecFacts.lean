import Exetera.Lemmas.UniqueSort
/-! What the Spec's `uniques / uniqueIndex / uniqueInverse / uniqueCounts` mean, in the words of the property. -/
namespace Exetera.Unique
open Exetera Exetera.Spec

section
variable {α : Type} [BEq α] [LawfulBEq α]

omit [BEq α] [LawfulBEq α] in
theorem sum_map_add (U : List α) (f g : α → Nat) :
    (U.map (fun u => f u + g u)).sum = (U.map f).sum + (U.map g).sum := by
  induction U with
  | nil => rfl
  | cons u us ih => simp only [List.map_cons, List.sum_cons, ih]; omega

theorem sum_indicator (U : List α) (x : α) : (U.map (fun u => if (x == u) = true then 1 else 0)).sum = U.count x := by
  induction U with
  | nil => rfl
  | cons u us ih =>
    simp only [List.map_cons, List.sum_cons, ih, List.count_cons]
    have : (x == u) = (u == x) := by
      by_cases h : x = u
      · subst h; simp
      · have h1 : (x == u) = false := by simpa using h
        have h2 : (u == x) = false := by simpa using fun e => h e.symm
        rw [h1, h2]
    rw [this]; omega

/-- the per-value counts over a duplicate-free list that covers the column add up to the number of rows -/
theorem sum_counts (U : List α) (hU : U.Nodup) : ∀ (col : List α), (∀ x ∈ col, x ∈ U) →
    (U.map (fun u => col.count u)).sum = col.length := by
  intro col
  induction col with
  | nil => intro _; induction U <;> simp_all
  | cons x xs ih =>
    intro h
    have hx : x ∈ U := h x List.mem_cons_self
    have := ih (fun y hy => h y (List.mem_cons_of_mem _ hy))
    simp only [List.count_cons, List.length_cons]
    rw [sum_map_add, this, sum_indicator, hU.count, if_pos hx]

theorem not_eq_of_lt_idxOf (col : List α) (u : α) : ∀ (j : Nat) (h : j < col.length), j < col.idxOf u → col[j] ≠ u := by
  induction col with
  | nil => intro j h; simp at h
  | cons y ys ih =>
    intro j h hj
    by_cases e : y = u
    · subst e; simp at hj
    · have h1 : (y == u) = false := by simpa using e
      simp only [List.idxOf_cons, h1, cond_false] at hj
      cases j with
      | zero => simpa using e
      | succ j => simpa using ih j (by simpa using h) (by omega)

end
end Exetera.Unique
