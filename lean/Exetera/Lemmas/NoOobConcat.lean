import Exetera.Model.Concat
/-! C10 helper lemmas: whatever the arguments, an `.ok` run of `_apply_spans_concat_2` (model: `Concat.kernel`) leaves at
    most `capV` bytes in `dest_values` and at most `capI` offsets in `dest_index`. -/
namespace Exetera.Concat
open Exetera
variable {α : Type} [DecidableEq α]

theorem pushV_len {cap : Nat} {vb vb' : List α} {x : α} {site : String} (h : pushV cap vb x site = .ok vb') :
    vb'.length ≤ cap := by
  unfold pushV at h
  split at h
  · cases h; simp only [List.length_append, List.length_singleton]; omega
  · cases h

theorem copyEsc_len (vals : List α) (delim : α) (cap : Nat) : ∀ (n i : Nat) (vb vb' : List α),
    vb.length ≤ cap → copyEsc vals delim cap n i vb = .ok vb' → vb'.length ≤ cap := by
  intro n
  induction n with
  | zero => intro i vb vb' hl h; simp only [copyEsc] at h; cases h; exact hl
  | succ n ih =>
    intro i vb vb' hl h
    simp only [copyEsc] at h
    split at h
    · cases h
    · split at h
      · split at h
        · cases h
        · split at h
          · cases h
          · rename_i vb2 h2; exact ih _ _ _ (pushV_len h2) h
      · split at h
        · cases h
        · rename_i vb1 h1; exact ih _ _ _ (pushV_len h1) h

theorem emitBody_len (vals : List α) (delim : α) (cap : Nat) (quoted : Bool) (a b : Nat) (vb vb' : List α)
    (hl : vb.length ≤ cap) (h : emitBody vals delim cap quoted a b vb = .ok vb') : vb'.length ≤ cap := by
  unfold emitBody at h
  split at h
  · cases h
  · rename_i vb1 h1
    have hl1 : vb1.length ≤ cap := by
      cases quoted with
      | true => simp only [if_true] at h1; exact pushV_len h1
      | false => simp only [Bool.false_eq_true, if_false] at h1; cases h1; exact hl
    split at h
    · cases h
    · rename_i vb2 h2
      have hl2 := copyEsc_len vals delim cap _ _ _ _ hl1 h2
      split at h
      · exact pushV_len h
      · cases h; exact hl2

theorem multiLoop_len (idx : List Nat) (vals : List α) (sep delim : α) (cap spCur : Nat) :
    ∀ (n e : Nat) (pe : Bool) (vb vb' : List α), vb.length ≤ cap →
      multiLoop idx vals sep delim cap spCur n e pe vb = .ok vb' → vb'.length ≤ cap := by
  intro n
  induction n with
  | zero => intro e pe vb vb' hl h; simp only [multiLoop] at h; cases h; exact hl
  | succ n ih =>
    intro e pe vb vb' hl h
    simp only [multiLoop] at h
    split at h
    · cases h
    · cases h
    · split at h
      · cases h
      · split at h
        · cases h
        · rename_i vb1 h1
          have hl1 : vb1.length ≤ cap := by
            split at h1
            · exact pushV_len h1
            · cases h1; exact hl
          split at h
          · cases h
          · rename_i vb2 h2
            exact ih _ _ _ _ (emitBody_len _ _ _ _ _ _ _ _ hl1 h2) h

theorem spanEmit_len (P : Params α) (spCur spNext curI nextI ne : Nat) (vb vb' : List α) (hl : vb.length ≤ P.capV)
    (h : spanEmit P spCur spNext curI nextI ne vb = .ok vb') : vb'.length ≤ P.capV := by
  unfold spanEmit at h
  split at h
  · split at h
    · cases h
    · exact emitBody_len _ _ _ _ _ _ _ _ hl h
  · split at h
    · exact multiLoop_len _ _ _ _ _ _ _ _ _ _ _ hl h
    · cases h; exact hl

theorem oneSpan_len (P : Params α) (s : Nat) (st st' : Buf α) (hl : st.vb.length ≤ P.capV)
    (h : oneSpan P s st = .ok st') : st'.ib.length ≤ P.capI ∧ st'.vb.length ≤ P.capV := by
  unfold oneSpan at h
  split at h
  · cases h
  · cases h
  · split at h
    · cases h
    · cases h
    · split at h
      · cases h
      · split at h
        · cases h
        · rename_i vb' hvb
          have := spanEmit_len P _ _ _ _ _ _ _ hl hvb
          split at h
          · cases h
            simp only [List.length_append, List.length_singleton]
            exact ⟨by omega, this⟩
          · cases h

theorem spanLoop_len (P : Params α) : ∀ (n s : Nat) (st : Buf α) (s' : Nat) (b : Buf α),
    st.vb.length ≤ P.capV → (st.ib.length ≤ P.capI ∨ 0 < n) → spanLoop P n s st = .ok (s', b) →
      b.ib.length ≤ P.capI ∧ b.vb.length ≤ P.capV := by
  intro n
  induction n with
  | zero =>
    intro s st s' b hv hi h
    simp only [spanLoop] at h
    cases h
    exact ⟨by omega, hv⟩
  | succ n ih =>
    intro s st s' b hv _ h
    simp only [spanLoop] at h
    split at h
    · cases h
    · rename_i st1 h1
      have hb := oneSpan_len P s st st1 hv h1
      split at h
      · cases h; exact hb
      · exact ih _ _ _ _ hb.2 (Or.inl hb.1) h

/-- whatever the arguments, a kernel call that returns normally has written at most `len(dest_index)` offsets and at
    most `len(dest_values)` bytes -/
theorem kernel_len (P : Params α) (spStart s' : Nat) (b : Buf α) (h : kernel P spStart = .ok (s', b)) :
    b.ib.length ≤ P.capI ∧ b.vb.length ≤ P.capV := by
  simp only [kernel] at h
  by_cases hlt : spStart < P.spans.length - 1
  · rw [if_pos hlt] at h
    refine spanLoop_len P _ _ _ _ _ ?_ (Or.inr (by omega)) h
    simp
  · rw [if_neg hlt] at h; cases h

end Exetera.Concat
