import Exetera.Spec.CsvLine
/-! Lemmas about the C16 specification: reading back a written CSV line; offsets; decode. -/
namespace Exetera.Spec.CsvLine

open Exetera

variable {α : Type} [DecidableEq α]

/-! ### `parseGo` on a written field -/

theorem parseGo_nil (sep delim : α) (st : PState) (cur : List α) : parseGo sep delim st cur [] = [cur] := by
  cases st <;> simp [parseGo]

/-- what the reader does after a complete field: the line ends, or a separator starts the next field -/
def tailParse (sep delim : α) : List α → List (List α)
  | [] => []
  | _ :: more => parseGo sep delim .start [] more

/-- `rest` is what may follow a field in a written line -/
def FieldEnd (sep : α) (rest : List α) : Prop := rest = [] ∨ ∃ more, rest = sep :: more

theorem parseGo_unquoted_end (sep delim : α) (cur rest : List α) (h : FieldEnd sep rest) :
    parseGo sep delim .unquoted cur rest = cur :: tailParse sep delim rest := by
  rcases h with rfl | ⟨more, rfl⟩ <;> simp [parseGo, tailParse]

theorem parseGo_afterQuote_end (sep delim : α) (hsd : sep ≠ delim) (cur rest : List α) (h : FieldEnd sep rest) :
    parseGo sep delim .afterQuote cur rest = cur :: tailParse sep delim rest := by
  rcases h with rfl | ⟨more, rfl⟩ <;> simp [parseGo, tailParse, hsd]

theorem parseGo_start_end (sep delim : α) (hsd : sep ≠ delim) (rest : List α) (h : FieldEnd sep rest) :
    parseGo sep delim .start [] rest = [] :: tailParse sep delim rest := by
  rcases h with rfl | ⟨more, rfl⟩ <;> simp [parseGo, tailParse, hsd]

theorem parseGo_unquoted_append (sep delim : α) (x : List α) (hx : ∀ c ∈ x, c ≠ sep) :
    ∀ (cur rest : List α),
      parseGo sep delim .unquoted cur (x ++ rest) = parseGo sep delim .unquoted (cur ++ x) rest := by
  induction x with
  | nil => intro cur rest; simp
  | cons c x ih =>
    intro cur rest
    have hc : c ≠ sep := hx c (by simp)
    have ih' := ih (fun d hd => hx d (by simp [hd])) (cur ++ [c]) rest
    simp [parseGo, hc, ih']

theorem parseGo_quoted_escape (sep delim : α) (x : List α) :
    ∀ (cur rest : List α),
      parseGo sep delim .quoted cur (escape delim x ++ delim :: rest)
        = parseGo sep delim .afterQuote (cur ++ x) rest := by
  induction x with
  | nil => intro cur rest; simp [escape, parseGo]
  | cons c x ih =>
    intro cur rest
    by_cases hc : c = delim
    · subst hc
      have := ih (cur ++ [c]) rest
      simp [escape, parseGo, this]
    · have := ih (cur ++ [c]) rest
      simp [escape, parseGo, hc, this]

theorem needsQuote_false_iff (sep delim : α) (x : List α) :
    needsQuote sep delim x = false ↔ ∀ c ∈ x, c ≠ sep ∧ c ≠ delim := by
  simp [needsQuote, List.any_eq_false]

/-- reading a written field followed by the end of the line or a separator returns the field -/
theorem parseGo_field (sep delim : α) (hsd : sep ≠ delim) (x rest : List α) (h : FieldEnd sep rest) :
    parseGo sep delim .start [] (field sep delim x ++ rest) = x :: tailParse sep delim rest := by
  unfold field
  cases hq : needsQuote sep delim x with
  | true =>
    simp only [if_true]
    have := parseGo_quoted_escape sep delim x [] rest
    simp only [List.nil_append] at this
    simp [parseGo, this, parseGo_afterQuote_end sep delim hsd x rest h]
  | false =>
    simp only [Bool.false_eq_true, if_false]
    rw [needsQuote_false_iff] at hq
    cases x with
    | nil => simpa using parseGo_start_end sep delim hsd rest h
    | cons c x =>
      have hc := hq c (by simp)
      have hx : ∀ d ∈ x, d ≠ sep := fun d hd => (hq d (by simp [hd])).1
      have := parseGo_unquoted_append sep delim x hx [c] rest
      simp [parseGo, hc.1, hc.2, this, parseGo_unquoted_end sep delim (c :: x) rest h]

theorem parseGo_joinWith (sep delim : α) (hsd : sep ≠ delim) :
    ∀ (xs : List (List α)), xs ≠ [] →
      parseGo sep delim .start [] (joinWith sep (xs.map (field sep delim))) = xs := by
  intro xs
  induction xs with
  | nil => intro h; exact absurd rfl h
  | cons x xs ih =>
    intro _
    cases xs with
    | nil =>
      have := parseGo_field sep delim hsd x [] (Or.inl rfl)
      simpa [joinWith, tailParse] using this
    | cons y ys =>
      have h1 := parseGo_field sep delim hsd x (sep :: joinWith sep ((y :: ys).map (field sep delim)))
        (Or.inr ⟨_, rfl⟩)
      have h2 := ih (by simp)
      simp only [List.map_cons, joinWith] at h1 h2 ⊢
      rw [h1]
      simp only [tailParse]
      rw [h2]

theorem field_ne_nil (sep delim : α) (x : List α) (hx : x ≠ []) : field sep delim x ≠ [] := by
  unfold field
  split <;> simp [hx]

theorem joinCsv_eq_nil_iff (sep delim : α) (xs : List (List α)) :
    joinCsv sep delim xs = [] ↔ xs = [] ∨ xs = [[]] := by
  unfold joinCsv
  match xs with
  | [] => simp [joinWith]
  | [x] =>
    by_cases hx : x = []
    · subst hx; simp [joinWith, field, needsQuote]
    · simp [joinWith, hx, field_ne_nil sep delim x hx]
  | x :: y :: r => simp [joinWith]

/-! ### decoding an (indices, values) pair -/

theorem decode_offsets_aux (xs : List (List α)) :
    ∀ (pre : List α) (base : Nat), base = pre.length →
      (((base :: offsetsFrom base xs).zip (offsetsFrom base xs)).map
        (fun p => slice (pre ++ xs.flatten) p.1 p.2)) = xs := by
  induction xs with
  | nil => intro pre base _; simp [offsetsFrom]
  | cons x xs ih =>
    intro pre base hb
    have h1 : slice (pre ++ (x :: xs).flatten) base (base + x.length) = x := by
      subst hb
      simp [slice]
    have h2 := ih (pre ++ x) (base + x.length) (by simp [hb])
    simp only [List.flatten_cons, ← List.append_assoc] at h1 h2 ⊢
    simp only [offsetsFrom, List.zip_cons_cons, List.map_cons, h1]
    rw [h2]

/-- the strings stored by `offsets xs` / `xs.flatten` are `xs` -/
theorem decode_offsets (xs : List (List α)) : decode (offsets xs) xs.flatten = xs := by
  have := decode_offsets_aux xs [] 0 rfl
  simpa [decode, offsets] using this

end Exetera.Spec.CsvLine
