import Exetera.Props.C04
import Exetera.Lemmas.StreamFuelMap
import Exetera.Lemmas.StreamFuelIndexed
/-!
# C12 — column mapping through a join map (`ordered_map_valid_stream`, `ordered_map_valid_indexed_stream`)

The models of C04 run their driver loops with budgets written into the definitions (`len(map)` iterations of the loop over map
chunks; `(sm_end - sm_start) + len(sub_chunks)` iterations of the `while sm < sm_end` loop that spun in D5). Here the same
drivers take the fuel of those loops as a parameter (`Model/StreamFuel.lean`: `orderedMapValidStreamF`,
`orderedMapValidIndexedStreamF`; tied to the models of C04 by `orderedMapValidStream_eq_F : … = …F len(map)` (`rfl`) and by
`indexedStream_agree`), and the theorems say: for EVERY fuel above an explicit bound linear in the input, for every chunk size
≥ 1 and every value factor, the run is the specified column — or the clear `ValueError` when a mapped entry is longer than the
value buffer — and never `outOfFuel`. The kernels called from the loops (`ordered_map_valid_partial`,
`ordered_map_valid_indexed_partial`, the sub-chunk splitter, `calculate_chunk_decomposition`) are counted loops or run with the
budget of their model (linear in the window they are given) and finish within it as part of the same statements.
-/
namespace Exetera.Props.C12
open Exetera Exetera.MapValid Exetera.Spec

/-! ## the non-indexed stream -/

/-- **map_stream_iterations.** The loop over map chunks takes at most `⌈|map| / cs⌉` iterations: with ANY fuel such that
    `|map| ≤ fuel · cs`, for every chunk size ≥ 1, marker and in-range map (ordered or not), the run is the specified column. -/
theorem map_stream_iterations {α} (src : List α) (m : List Int) (inv : Int) (cs : Nat) (empty : α)
    (hcs : 1 ≤ cs) (hr : InRange src.length m inv) (fuel : Nat) (hfuel : m.length ≤ fuel * cs) :
    ∃ out, orderedMapValidStreamF fuel src m inv cs empty = .ok out ∧ mapSpec src inv empty m = some out := by
  obtain ⟨out, hrun, hspec⟩ := C04.map_stream_eq_any src m inv cs empty hcs hr
  exact ⟨out, stream_fuel src m inv cs empty hcs out hrun fuel hfuel, hspec⟩

/-- **map_stream_terminates.** The linear bound made visible: `B = 1·|map| + 0·|source| + 0` (the output has exactly `|map|`
    rows, so this is also linear in the output). Every fuel `≥ B` suffices for every chunk size ≥ 1. -/
theorem map_stream_terminates {α} (src : List α) (m : List Int) (inv : Int) (cs : Nat) (empty : α)
    (hcs : 1 ≤ cs) (hr : InRange src.length m inv) (fuel : Nat)
    (hfuel : 1 * m.length + 0 * src.length + 0 ≤ fuel) :
    ∃ out, orderedMapValidStreamF fuel src m inv cs empty = .ok out ∧ mapSpec src inv empty m = some out ∧
      out.length = m.length ∧ orderedMapValidStreamF fuel src m inv cs empty ≠ .error .outOfFuel := by
  have h1 : m.length ≤ fuel := by omega
  have h2 : fuel ≤ fuel * cs := Nat.le_mul_of_pos_right _ hcs
  obtain ⟨out, hrun, hspec⟩ := map_stream_iterations src m inv cs empty hcs hr fuel (by omega)
  exact ⟨out, hrun, hspec, mapSpec_length _ _ _ _ _ hspec, by rw [hrun]; intro h; cases h⟩

/-- **map_stream_never_spins.** Every successful iteration of the loop over map chunks, from a state whose chunk is the
    `next_chunk` of its position, moves to the next chunk: `lo' = min (lo + cs) n > lo`, i.e. the measure `n - lo` strictly
    decreases (by `min cs (n - lo)` map rows consumed), and the output is only appended to. -/
theorem map_stream_never_spins {α} (src : List α) (m : List Int) (inv : Int) (cs : Nat) (empty : α) (hcs : 1 ≤ cs)
    (s s' : St α) (hinv : s.hi = min (s.lo + cs) m.length) (hg : s.lo < m.length)
    (hb : chunkBody src m inv cs empty s = .ok s') :
    s'.lo = min (s.lo + cs) m.length ∧ s'.hi = min (s'.lo + cs) m.length ∧
      m.length - s'.lo < m.length - s.lo ∧ s.out <+: s'.out := by
  obtain ⟨h1, h2, buf, h3⟩ := chunkBody_next hb
  refine ⟨by rw [h1, hinv], by rw [h2, h1], by rw [h1, hinv]; omega, ?_⟩
  rw [h3]
  exact List.prefix_append _ _

/-! ## the indexed-string stream -/

/-- the linear step bound of the indexed stream: `1·|map| + 1·|indices|` -/
def indexedBound (indices m : List Int) : Nat := 1 * m.length + 1 * indices.length

/-- **map_indexed_stream_total.** For a well-formed source, every chunk size ≥ 1, every value factor, every in-range map
    (ordered or not) and EVERY fuel `≥ |map| + |indices|` for the loop over map chunks and each `while sm < sm_end` loop, the
    indexed stream has exactly two outcomes: the specified column (every mapped entry fits the value buffer), or the clear
    `ValueError` (some mapped entry is longer than `chunksize · value_factor`). Never `outOfFuel`, never an index error. -/
theorem map_indexed_stream_total {β} (indices : List Int) (values : List β) (m : List Int) (inv : Int) (cs vf : Nat)
    (hok : IndexedOK indices values) (hcs : 1 ≤ cs) (hr : InRange (entries indices values).length m inv)
    (fuel : Nat) (hfuel : indexedBound indices m ≤ fuel) :
    (∃ out, orderedMapValidIndexedStreamF fuel indices values m inv cs vf = .ok out ∧
      mapIndexedSpec indices values inv m = some out) ∨
    (orderedMapValidIndexedStreamF fuel indices values m inv cs vf
        = .error (.valueError "entry does not fit the value buffer") ∧
      ∃ (r : Nat) (k : Int) (x : List β), m[r]? = some k ∧ k ≠ inv ∧ (entries indices values)[k.toNat]? = some x ∧
        cs * vf < x.length) := by
  have hag := indexedStream_agree fuel indices values m inv cs vf hcs (by simpa [indexedBound] using hfuel)
  rcases indexed_stream_total_any indices values m inv cs vf hok hcs hr with
    ⟨out, es, hrun, hspec, hout, _⟩ | ⟨e, hrun, herr, p, k, x, hpk, hki, _, hent, hbig⟩
  · left
    refine ⟨out, ?_, by simp [mapIndexedSpec, hspec, hout]⟩
    rw [hag.eq_of_ne (by rw [hrun]; intro h; cases h), hrun]
  · right
    refine ⟨?_, p, k, x, hpk, hki, hent, hbig⟩
    rw [hag.eq_of_ne (by rw [hrun, herr]; intro h; cases h), hrun, herr]

/-- **map_indexed_stream_terminates.** When the value buffer holds every mapped entry: every fuel above the linear bound gives
    the specified column. -/
theorem map_indexed_stream_terminates {β} (indices : List Int) (values : List β) (m : List Int) (inv : Int) (cs vf : Nat)
    (hok : IndexedOK indices values) (hcs : 1 ≤ cs) (hr : InRange (entries indices values).length m inv)
    (hcap : ∀ (r : Nat) (k : Int) (x : List β), m[r]? = some k → k ≠ inv →
      (entries indices values)[k.toNat]? = some x → x.length ≤ cs * vf)
    (fuel : Nat) (hfuel : indexedBound indices m ≤ fuel) :
    ∃ out, orderedMapValidIndexedStreamF fuel indices values m inv cs vf = .ok out ∧
      mapIndexedSpec indices values inv m = some out := by
  rcases map_indexed_stream_total indices values m inv cs vf hok hcs hr fuel hfuel with h | ⟨_, r, k, x, hk, hki, hx, hbig⟩
  · exact h
  · have := hcap r k x hk hki hx
    omega

/-- **map_indexed_stream_clear_error.** A mapped entry longer than the value buffer ends the stream with the `ValueError`
    "entry does not fit the value buffer" — for every fuel above the linear bound, never `outOfFuel` (D5 as repaired). -/
theorem map_indexed_stream_clear_error {β} (indices : List Int) (values : List β) (m : List Int) (inv : Int) (cs vf : Nat)
    (hok : IndexedOK indices values) (hcs : 1 ≤ cs) (hr : InRange (entries indices values).length m inv)
    (r : Nat) (k : Int) (x : List β) (hk : m[r]? = some k) (hki : k ≠ inv)
    (hx : (entries indices values)[k.toNat]? = some x) (hbig : cs * vf < x.length)
    (fuel : Nat) (hfuel : indexedBound indices m ≤ fuel) :
    orderedMapValidIndexedStreamF fuel indices values m inv cs vf
      = .error (.valueError "entry does not fit the value buffer") := by
  have hag := indexedStream_agree fuel indices values m inv cs vf hcs (by simpa [indexedBound] using hfuel)
  have hrun := indexed_stream_oversize_any indices values m inv cs vf hok hcs hr r k x hk hki hx hbig
  rw [hag.eq_of_ne (by rw [hrun]; intro h; cases h), hrun]

/-- **map_indexed_stream_never_spins.** Every successful iteration of `while sm < sm_end` either consumes at least one map
    entry or moves to the next value sub-chunk: the measure `(sm_end - sm) + (len(sub_chunks) - s)` strictly decreases, and
    neither `sm` nor `s` ever goes back. (An iteration that can do neither is the `ValueError` of the D5 repair.) -/
theorem map_indexed_stream_never_spins {β} (map_ : List Int) (smEnd : Nat) (indices_ : List Int) (values : List β)
    (subs : List (Nat × Nat)) (mvStart : Int) (capI capV : Nat) (inv : Int) (w w' : IW β)
    (hg : w.sm < smEnd) (hs : w.s < subs.length) (hsm' : w'.sm ≤ smEnd)
    (h : innerBody map_ smEnd indices_ values subs mvStart capI capV inv w = .ok w') :
    (smEnd - w'.sm) + (subs.length - w'.s) < (smEnd - w.sm) + (subs.length - w.s) ∧ w'.s < subs.length ∧
      w.sm ≤ w'.sm ∧ w.s ≤ w'.s :=
  innerBody_progress map_ smEnd indices_ values subs mvStart capI capV inv w w' hg hs hsm' h

/-! ## non-vacuity -/

/-- a map longer than the chunk (10 rows, chunk size 2 → 5 iterations), markers filling a whole chunk; fuel exactly ⌈10/2⌉ -/
example : InRange 9 [-1, -1, 0, -1, 0, 7, -1, -1, -1, 8] (-1) ∧ (10 : Nat) ≤ 5 * 2 :=
  ⟨C04.inRange_of_all (by decide), by decide⟩
example : orderedMapValidStreamF 5 [1, 2, 3, 4, 5, 6, 7, 8, 9] [-1, -1, 0, -1, 0, 7, -1, -1, -1, 8] (-1) 2 (0 : Int)
    = .ok [0, 0, 1, 0, 1, 8, 0, 0, 0, 9] := by rfl
example : orderedMapValidStreamF 4 [1, 2, 3, 4, 5, 6, 7, 8, 9] [-1, -1, 0, -1, 0, 7, -1, -1, -1, 8] (-1) 2 (0 : Int)
    = .error .outOfFuel := by rfl
/-- one iteration of the loop from its second state (`lo = 2`, `hi = 4`) -/
example : (chunkBody [1, 2, 3] [0, 1, 2, 0, 1] (-1) 2 (0 : Int) ⟨2, 4, [1, 2], [1, 2]⟩).toOption.map (fun s => (s.lo, s.hi, s.out))
    = some (4, 5, [1, 2, 3, 1]) := by rfl

/-- an entry exactly filling the value buffer (`"cccc"`, 4 bytes = chunksize 2 · value_factor 2): several value sub-chunks and
    buffer flushes; fuel = the bound `|map| + |indices| = 6 + 5` -/
example : IndexedOK [0, 1, 3, 6, 10] [1, 2, 2, 3, 3, 3, 4, 4, 4, (4 : Int)] ∧
    InRange (entries [0, 1, 3, 6, 10] [1, 2, 2, 3, 3, 3, 4, 4, 4, (4 : Int)]).length [0, 1, -1, 2, 2, 3] (-1) ∧
    indexedBound [0, 1, 3, 6, 10] [0, 1, -1, 2, 2, 3] = 11 ∧
    (∀ e ∈ entries [0, 1, 3, 6, 10] [1, 2, 2, 3, 3, 3, 4, 4, 4, (4 : Int)], e.length ≤ 2 * 2) :=
  ⟨by unfold IndexedOK; decide, C04.inRange_of_all (by decide), by decide, by decide⟩
example : orderedMapValidIndexedStreamF 11 [0, 1, 3, 6, 10] [1, 2, 2, 3, 3, 3, 4, 4, 4, (4 : Int)] [0, 1, -1, 2, 2, 3] (-1) 2 2
    = .ok ([0, 1, 3, 3, 6, 9, 13], [1, 2, 2, 3, 3, 3, 3, 3, 3, 4, 4, 4, 4]) := by rfl
/-- one byte more than the buffer (the D5 witness): the clear error, with the bound as fuel and with any larger fuel -/
example : orderedMapValidIndexedStreamF 5 [0, 10, 11] [97, 98, 99, 100, 101, 102, 103, 104, 105, 106, (98 : Int)] [0, 1] (-1) 2 2
      = .error (.valueError "entry does not fit the value buffer") ∧
    orderedMapValidIndexedStreamF 500 [0, 10, 11] [97, 98, 99, 100, 101, 102, 103, 104, 105, 106, (98 : Int)] [0, 1] (-1) 2 2
      = .error (.valueError "entry does not fit the value buffer") := ⟨by rfl, by rfl⟩

end Exetera.Props.C12
