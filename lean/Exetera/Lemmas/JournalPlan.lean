import Exetera.Lemmas.JournalMergeGen
import Exetera.Lemmas.JournalSpec
/-! The slot-wise plan the merge kernels follow, run on the specified slots (`Spec.Journal.indices`, `toKeep`), is the
    specification's plan; it covers every old row, and all its rows exist. -/
namespace Exetera.Journal
open Exetera Exetera.Spec.Journal

/-- old map entry of key `k` -/
def fOld (o : List Int) (k : Int) : Int := idxOr (positions k o).getLast?
/-- new map entry of key `k` -/
def fNew (n : List Int) (k : Int) : Int := idxOr (positions k n).head?
/-- keep flag of key `k` -/
def gKeep (o n : List Int) (d : Nat → Nat → Bool) (k : Int) : Bool :=
  keepFlag d (positions k n).head? (positions k o).getLast?

theorem indices_eq_map (o n : List Int) : indices o n = ((keyUnion o n).map (fOld o), (keyUnion o n).map (fNew n)) := rfl
theorem toKeep_eq_map (o n : List Int) (d : Nat → Nat → Bool) : toKeep o n d = (keyUnion o n).map (gKeep o n d) := rfl

theorem kPlan_congr {κ : Type} {f1 f1' f2 f2' : κ → Int} {g g' : κ → Bool} : ∀ (ks : List κ) (cur : Nat),
    (∀ k, k ∈ ks → f1 k = f1' k ∧ f2 k = f2' k ∧ g k = g' k) →
    kPlan f1 f2 g cur ks = kPlan f1' f2' g' cur ks ∧ kCur f1 cur ks = kCur f1' cur ks
  | [], _, _ => ⟨rfl, rfl⟩
  | k :: ks, cur, h => by
    obtain ⟨e1, e2, e3⟩ := h k (by simp)
    have ih := fun c => kPlan_congr (f1 := f1) (f1' := f1') (f2 := f2) (f2' := f2') (g := g) (g' := g') ks c
      (fun k' hk' => h k' (by simp [hk']))
    simp only [kPlan, kCur, e1, e2, e3]
    exact ⟨by rw [(ih _).1], (ih _).2⟩

theorem mem_positionsFrom {k : Int} : ∀ {xs : List Int} {base r : Nat},
    r ∈ positionsFrom k base xs → base ≤ r ∧ r - base < xs.length ∧ xs[r - base]? = some k
  | [], _, _, h => by simp [positionsFrom] at h
  | x :: xs, base, r, h => by
    simp only [positionsFrom] at h
    have tail : r ∈ positionsFrom k (base + 1) xs → base ≤ r ∧ r - base < (x :: xs).length ∧ (x :: xs)[r - base]? = some k := by
      intro h'
      obtain ⟨h1, h2, h3⟩ := mem_positionsFrom h'
      have e : r - base = (r - (base + 1)) + 1 := by omega
      refine ⟨by omega, by simp only [List.length_cons]; omega, ?_⟩
      rw [e, List.getElem?_cons_succ]; exact h3
    split at h
    · rename_i hx
      rw [List.mem_cons] at h
      rcases h with rfl | h
      · simp [hx]
      · exact tail h
    · exact tail h

theorem mem_positions {k : Int} {xs : List Int} {r : Nat} (h : r ∈ positions k xs) : r < xs.length ∧ xs[r]? = some k := by
  have := mem_positionsFrom h
  simpa using this.2

theorem positions_ne_nil {k : Int} {xs : List Int} (h : k ∈ xs) : positions k xs ≠ [] := by
  intro e
  obtain ⟨a, b, rfl⟩ := List.append_of_mem h
  unfold positions at e
  rw [positionsFrom_append] at e
  simp [positionsFrom] at e

theorem newPart_length (d : Nat → Nat → Bool) (j? r? : Option Nat) :
    (newPart d j? r?).length = List.count true [keepFlag d j? r?] := by
  cases j? with
  | none => simp [newPart, keepFlag]
  | some j =>
    unfold newPart
    cases keepFlag d (some j) r? <;> simp

/-- the three facts by induction over the blocks of the two key columns -/
theorem plan_facts (d : Nat → Nat → Bool) {old new : List Int} (hso : old.Pairwise (· ≤ ·)) (hsn : new.Pairwise (· < ·)) :
    kPlan (fOld old) (fNew new) (gKeep old new d) 0 (keyUnion old new) = plan old new d ∧
    kCur (fOld old) 0 (keyUnion old new) = old.length ∧
    (plan old new d).length = old.length + (toKeep old new d).count true := by
  refine sortedPair_induction
    (fun o n => kPlan (fOld o) (fNew n) (gKeep o n d) 0 (keyUnion o n) = plan o n d ∧
      kCur (fOld o) 0 (keyUnion o n) = o.length ∧ (plan o n d).length = o.length + (toKeep o n d).count true)
    ?_ ?_ _ old new (Nat.le_refl _) hso hsn
  · simp [keyUnion, kPlan, kCur, plan, toKeep]
  · intro o n k m b hlt hmb _ _ ⟨ih1, ih2, ih3⟩
    obtain ⟨hp1, hp2, hp3, hp4⟩ := snoc_positions (m := m) (b := b) hlt
    have hcongr := kPlan_congr (f1 := fOld (o ++ List.replicate m k)) (f1' := fOld o)
      (f2 := fNew (snocNew n b k)) (f2' := fNew n)
      (g := gKeep (o ++ List.replicate m k) (snocNew n b k) d) (g' := gKeep o n d) (keyUnion o n) 0
      (by intro k' hk'
          obtain ⟨e1, e2⟩ := hp1 k' hk'
          simp only [fOld, fNew, gKeep, e1, e2, and_self])
    have hlast : fOld (o ++ List.replicate m k) k = idxOr (lastOld o m) := by simp only [fOld, hp2]
    have hnew : fNew (snocNew n b k) k = idxOr (newRow n b) := by simp only [fNew, hp3]
    have hkeep : gKeep (o ++ List.replicate m k) (snocNew n b k) d k = keepFlag d (newRow n b) (lastOld o m) := by
      simp only [gKeep, hp2, hp3]
    -- the block of the new greatest key
    have hslot : slotRows o.length (idxOr (lastOld o m)) (idxOr (newRow n b)) (keepFlag d (newRow n b) (lastOld o m)) =
        (List.range' o.length m).map Src.old ++ newPart d (newRow n b) (lastOld o m) := by
      unfold slotRows
      have h1 : (idxOr (lastOld o m) + 1).toNat - o.length = m := by
        unfold lastOld
        split
        · rename_i h0; subst h0; simp [idxOr]
        · simp only [idxOr]; omega
      rw [h1]
      congr 1
      cases b
      · simp [newRow, newPart, keepFlag]
      · simp [newRow, newPart, idxOr]
    have hcurA : curAfter o.length (idxOr (lastOld o m)) = o.length + m := by
      unfold curAfter lastOld
      split
      · rename_i h0; subst h0; simp [idxOr]
      · simp only [idxOr]; omega
    refine ⟨?_, ?_, ?_⟩
    · rw [keyUnion_snoc hlt hmb, kPlan_append, hcongr.1, hcongr.2, ih1, ih2, plan_snoc d hlt hmb]
      simp only [kPlan, hlast, hnew, hkeep, hslot, List.append_nil]
    · rw [keyUnion_snoc hlt hmb, kCur_append, hcongr.2, ih2]
      simp only [kCur, hlast, hcurA, List.length_append, List.length_replicate]
    · rw [plan_snoc d hlt hmb, toKeep_snoc d hlt hmb, List.length_append, ih3, List.count_append]
      simp only [List.length_append, List.length_map, List.length_range', List.length_replicate, newPart_length]
      omega

/-- every row of the plan exists -/
theorem plan_valid (d : Nat → Nat → Bool) (old new : List Int) :
    ∀ x, x ∈ plan old new d → match x with | .old r => r < old.length | .new j => j < new.length := by
  intro x hx
  unfold plan at hx
  rw [List.mem_flatMap] at hx
  obtain ⟨k, _, hx⟩ := hx
  unfold block at hx
  rw [List.mem_append] at hx
  rcases hx with hx | hx
  · rw [List.mem_map] at hx
    obtain ⟨r, hr, rfl⟩ := hx
    exact (mem_positions hr).1
  · unfold newPart at hx
    split at hx
    · rename_i j hj
      split at hx
      · rw [List.mem_singleton] at hx
        subst hx
        exact (mem_positions (List.mem_of_mem_head? hj)).1
      · simp at hx
    · simp at hx

theorem column_length_of_valid {α} {p : List Src} {oc nc : List α}
    (h : ∀ x, x ∈ p → match x with | .old r => r < oc.length | .new j => j < nc.length) :
    (column p oc nc).length = p.length := by
  induction p with
  | nil => rfl
  | cons x p ih =>
    have hx := h x (by simp)
    have ih' := ih (fun y hy => h y (by simp [hy]))
    unfold column at ih' ⊢
    cases x with
    | old r =>
      simp only at hx
      simp [pick, List.getElem?_eq_getElem hx, ih']
    | new j =>
      simp only at hx
      simp [pick, List.getElem?_eq_getElem hx, ih']

end Exetera.Journal
