import Exetera.Lemmas.CsvRowsG
/-! `fast_csv_reader` on any window of the supported regime with *any* staging buffers (every value budget ≥ 1, at least one
    index row): the three ways the call can end (C05, regrowth). -/
namespace Exetera.Csv
open Exetera Spec

/-- what every kernel call leaves behind: resume position, number of complete records, and column `c` of the staging
    buffers holds the entries `E c` (the full flags are described separately) -/
structure KernelRes (ncols maxrow : Nat) (offs : List Nat) (o : KOut) (np n : Nat) (E : Nat → List Bytes) : Prop where
  nextPos : o.nextPos = np
  written : o.written = (n : Int)
  shape : Shape ncols maxrow offs o.inds o.vals
  cols : ∀ c, c < ncols → ColOK offs o.inds o.vals c (E c)
  /-- the entries of every column stay strictly inside the column's value budget -/
  caps : ∀ c, c < ncols → offAt offs c + (E c).flatten.length < offAt offs (c + 1)

/-- what the window holds of the record that follows its complete records: nothing, or the first `m` bytes of `r` -/
def tailText : Option (List Cell × Nat) → Bytes
  | none => []
  | some (r, m) => (renderCells r).take m

def tailRows : Option (List Cell × Nat) → List (List Cell)
  | none => []
  | some (r, _) => [r]

/-- the call itself, once the loop is known to run from the entry state to a state with `done` -/
theorem call_of_steps {src : Bytes} {offs : List Nat} {maxrow ncols : Nat} {inds : List (List Nat)} {vals : List Nat}
    (hh : Bool) (pre rest : Bytes) (hsrc : src = pre ++ rest) (hsh : Shape ncols maxrow offs inds vals) (hnc : 0 < ncols)
    (hz : ∀ c, c < ncols → ∃ r, inds[c]? = some r ∧ r[0]? = some 0) (hlead : pre.length + leadWs rest < src.length)
    {n : Nat} {s' : KS}
    (hsteps : KSteps src offs maxrow n (initKS pre.length (pre.length + leadWs rest) hh 0 (offAt offs 1) inds vals) s')
    (hdone : s'.done = true) :
    fastCsvReader src pre.length inds vals offs hh = .ok s'.out := by
  have hdone' : kguard s' = false := by simp [kguard, hdone]
  have hn : n ≤ src.length + 1 := by
    have h1 := stepsN_index hsteps
    have h2 : s'.index ≤ src.length := stepsN_index_le hsteps (Nat.le_of_lt hlead)
    simp only [initKS] at h1
    omega
  have hloop := whileE_of_stepsN hsteps hdone' (src.length + 1) hn
  obtain ⟨r0, hr0, hr00⟩ := hz 0 hnc
  have hr0len := hsh.rowLen 0 r0 hr0
  have hg0 : getE inds 0 "column_inds.shape" = .ok r0 := getE_eq_ok.mpr hr0
  have hg1 : getE offs 1 "column_offsets[1]" = .ok (offAt offs 1) :=
    getE_eq_ok.mpr (offs_get hsh.offsLen (by omega))
  have hcs0 : (if hh = true then (Except.ok 0 : Except Err Nat) else get2 inds 0 0 "column_inds[col_index,row_index]") =
      .ok 0 := by
    cases hh
    · simpa using get2_eq _ hr0 hr00
    · rfl
  have hmr : r0.length - 1 = maxrow := by omega
  have hskip : skipFrom src pre.length = pre.length + leadWs rest := by
    rw [hsrc]; exact skipFrom_at _ _
  have hneq : (pre.length + leadWs rest == src.length) = false := beq_false_of_ne (Nat.ne_of_lt hlead)
  simp only [fastCsvReader, hg0, hcs0, hg1, hmr, hskip, hneq, hloop]
  rfl

/-- only blanks (or nothing) are left behind the resume position: the call returns at once -/
theorem call_blank {src : Bytes} {offs : List Nat} {maxrow ncols : Nat} {inds : List (List Nat)} {vals : List Nat}
    (pre rest : Bytes) (hsrc : src = pre ++ rest) (hsh : Shape ncols maxrow offs inds vals) (hnc : 0 < ncols)
    (hz : ∀ c, c < ncols → ∃ r, inds[c]? = some r ∧ r[0]? = some 0) (hblank : rest.length ≤ leadWs rest) :
    fastCsvReader src pre.length inds vals offs false = .ok ⟨pre.length, 0, false, false, none, inds, vals⟩ := by
  obtain ⟨r0, hr0, hr00⟩ := hz 0 hnc
  have hg0 : getE inds 0 "column_inds.shape" = .ok r0 := getE_eq_ok.mpr hr0
  have hg1 : getE offs 1 "column_offsets[1]" = .ok (offAt offs 1) :=
    getE_eq_ok.mpr (offs_get hsh.offsLen (by omega))
  have hcs0 : get2 inds 0 0 "column_inds[col_index,row_index]" = .ok 0 := get2_eq _ hr0 hr00
  have hskip : skipFrom src pre.length = pre.length + leadWs rest := by
    rw [hsrc]; exact skipFrom_at _ _
  have hle := leadWs_le rest
  have heq : (pre.length + leadWs rest == src.length) = true := by
    rw [hsrc]; simp; omega
  simp [fastCsvReader, hg0, hcs0, hg1, hskip, heq]

theorem kernel_general {src : Bytes} {offs : List Nat} {maxrow ncols : Nat} {inds : List (List Nat)} {vals : List Nat}
    (hh : Bool) (hrow : List Cell) (rowsW : List (List Cell)) (nxt : Option (List Cell × Nat)) (pre : Bytes)
    (hsrc : src = pre ++ (((if hh then renderCells hrow else []) ++ render rowsW) ++ tailText nxt))
    (hnxt : ∀ r m, nxt = some (r, m) → m < (renderCells r).length ∧ r.length = ncols ∧ ∀ c ∈ r, c.WF)
    (hhdr : hh = true → hrow.length = ncols ∧ ∀ c ∈ hrow, c.WF)
    (htab : ∀ r ∈ rowsW, r.length = ncols ∧ ∀ c ∈ r, c.WF) (hnc : 0 < ncols)
    (hsh : Shape ncols maxrow offs inds vals) (hmax : 0 < maxrow)
    (hz : ∀ c, c < ncols → ∃ r, inds[c]? = some r ∧ r[0]? = some 0)
    (hbud : ∀ c, c < ncols → offAt offs c < offAt offs (c + 1)) :
    ∃ o a, fastCsvReader src pre.length inds vals offs hh = .ok o ∧ a ≤ rowsW.length ∧
      KernelRes ncols maxrow offs o (pre ++ ((if hh then renderCells hrow else []) ++ render (rowsW.take a))).length a
        (stageRows (fun _ => []) (rowsW.take a)) ∧
      ((o.indsFull = false ∧ o.valsFull = false ∧ o.vfc = none ∧ a = rowsW.length)
       ∨ (o.indsFull = true ∧ o.valsFull = false ∧ o.vfc = none ∧ a = maxrow)
       ∨ (o.indsFull = false ∧ o.valsFull = true ∧ ∃ j, j < ncols ∧ o.vfc = some j ∧
            offAt offs (j + 1) ≤
              offAt offs j + (column (values ((rowsW ++ tailRows nxt).take (a + 1))) j).flatten.length)) := by
  generalize hrest : ((if hh then renderCells hrow else []) ++ render rowsW) ++ tailText nxt = rest at hsrc
  have hstr0 : StrictCaps offs ncols (fun _ => []) := by
    intro c hc; simpa using hbud c hc
  by_cases hlead : pre.length + leadWs rest < src.length
  · -- the loop is entered
    have hinit := init_cellStart (src := src) pre rest hh hsh hnc hmax hz hlead
    -- the header line, if any
    obtain ⟨n1, s1, hsteps1, hcs1⟩ : ∃ n1 s1, KSteps src offs maxrow n1
        (initKS pre.length (pre.length + leadWs rest) hh 0 (offAt offs 1) inds vals) s1 ∧
        CellStart src offs maxrow ncols s1
          ((pre ++ (if hh then renderCells hrow else [])) ++ (render rowsW ++ tailText nxt).takeWhile isWs) 0 false 0
          (pre ++ (if hh then renderCells hrow else [])).length (fun _ => []) := by
      cases hh with
      | true =>
        obtain ⟨hlen, hwf⟩ := hhdr rfl
        have hne' : hrow ≠ [] := by intro h; rw [h] at hlen; simp at hlen; omega
        simp only [if_true] at hrest ⊢
        have hsrc' : src = pre ++ (renderCells hrow ++ (render rowsW ++ tailText nxt)) := by
          rw [hsrc, ← hrest]; simp
        have hinit' : CellStart src offs maxrow ncols
            (initKS pre.length (pre.length + leadWs rest) true 0 (offAt offs 1) inds vals)
            (pre ++ (renderCells hrow ++ (render rowsW ++ tailText nxt)).takeWhile isWs) 0 true 0 pre.length (fun _ => []) := by
          have : renderCells hrow ++ (render rowsW ++ tailText nxt) = rest := by rw [← hrest]; simp
          rw [this]; exact hinit
        obtain ⟨n1, s1, hsteps1, hcs1⟩ :=
          row_cells (offs := offs) (maxrow := maxrow) hrow pre (render rowsW ++ tailText nxt) _ 0 true 0 pre.length
            (fun _ => []) hne' hwf (by omega) hsrc' hinit' (rowCap_true _ _ _ _) (fun h => by cases h)
        simp only [if_true, stageRow_true] at hcs1
        exact ⟨n1, s1, hsteps1, hcs1⟩
      | false =>
        simp only [Bool.false_eq_true, if_false, List.nil_append, List.append_nil] at hrest ⊢
        refine ⟨0, _, .refl _, ?_⟩
        rw [hrest]; exact hinit
    generalize hA0 : pre ++ (if hh then renderCells hrow else []) = A0 at hcs1
    have hsrc1 : src = A0 ++ (render rowsW ++ tailText nxt) := by
      rw [hsrc, ← hrest, ← hA0]; simp
    have hA0' : ∀ l : List (List Cell), pre ++ ((if hh then renderCells hrow else []) ++ render l) = A0 ++ render l := by
      intro l; rw [← hA0]; simp
    -- the complete records
    obtain ⟨n2, s2, a, hsteps2, hale, hcapsA, hout⟩ :=
      rows_run_g (offs := offs) (maxrow := maxrow) hnc rowsW A0 (tailText nxt) s1 0 A0.length (fun _ => []) htab hsrc1 hcs1
        hstr0
    have hnpall : (if rowsW = [] then A0.length else (A0 ++ render rowsW).length) = (A0 ++ render rowsW).length := by
      split
      · rename_i h; rw [h]; simp [render]
      · rfl
    have hnpa : (if a = 0 then A0.length else (A0 ++ render (rowsW.take a)).length) = (A0 ++ render (rowsW.take a)).length := by
      split
      · rename_i h; rw [h]; simp [render]
      · rfl
    have h12 := StepsN.trans hsteps1 hsteps2
    rcases hout with ⟨ha, hcs2, hstr2⟩ | ⟨hapos, hka, hend⟩ | ⟨halt, j, hend, hb⟩
    · -- all complete records are staged: what follows them?
      subst ha
      rw [hnpall] at hcs2
      simp only [Nat.zero_add] at hcs2
      have ha : rowsW.length = rowsW.length := rfl
      have htake : rowsW.take rowsW.length = rowsW := List.take_length
      obtain ⟨n3, s3, hsteps3, hfin⟩ : ∃ n3 s3, KSteps src offs maxrow n3 s2 s3 ∧
          (WindowEnd offs maxrow ncols s3 rowsW.length (A0 ++ render rowsW).length (stageRows (fun _ => []) rowsW) ∨
           ∃ j, FullEnd offs maxrow ncols s3 rowsW.length (A0 ++ render rowsW).length (stageRows (fun _ => []) rowsW) j ∧
             offAt offs (j + 1) ≤ offAt offs j +
               (column (values ((rowsW ++ tailRows nxt).take (rowsW.length + 1))) j).flatten.length) := by
        cases hn : nxt with
        | none =>
          rw [hn] at hcs2 hsrc1
          simp only [tailText, List.takeWhile_nil, List.append_nil] at hcs2 hsrc1
          rw [← hsrc1] at hcs2 ⊢
          exact ⟨0, s2, .refl _, Or.inl (cell_tail_none hcs2 (Ext.refl _))⟩
        | some p =>
          obtain ⟨r, m⟩ := p
          obtain ⟨hm, hrl, hrwf⟩ := hnxt r m hn
          rw [hn] at hcs2 hsrc1
          simp only [tailText] at hcs2 hsrc1
          have hrne : r ≠ [] := by intro h; rw [h] at hrl; simp at hrl; omega
          have hsrc2 : src = (A0 ++ render rowsW) ++ ((renderCells r).take m ++ []) := by rw [hsrc1]; simp
          have hcs2' : CellStart src offs maxrow ncols s2
              ((A0 ++ render rowsW) ++ ((renderCells r).take m ++ []).takeWhile isWs) 0 false rowsW.length
              (A0 ++ render rowsW).length (stageRows (fun _ => []) rowsW) := by
            simpa using hcs2
          obtain ⟨n3, s3, hsteps3, hend⟩ :=
            row_stop (offs := offs) (maxrow := maxrow) (E := stageRows (fun _ => []) rowsW) r m (A0 ++ render rowsW) [] s2 0
              (stageRows (fun _ => []) rowsW) hrne hrwf (by omega) (Nat.le_of_lt hm) (fun _ => rfl) (Or.inl hm) hsrc2 hcs2'
              (Ext.refl _) hstr2
          refine ⟨n3, s3, hsteps3, ?_⟩
          rcases hend with ⟨_, h⟩ | ⟨j, h, hb⟩
          · exact Or.inl h
          · refine Or.inr ⟨j, h, ?_⟩
            have h1 : (rowsW ++ tailRows (some (r, m))).take (rowsW.length + 1) = rowsW ++ [r] := by
              simp only [tailRows]
              exact List.take_of_length_le (by simp)
            have h2 : stageRow false (stageRows (fun _ => []) rowsW) 0 r = stageRows (fun _ => []) (rowsW ++ [r]) := by
              have : ∀ (l : List (List Cell)) (E : Nat → List Bytes), stageRows E (l ++ [r]) = stageRow false (stageRows E l) 0 r := by
                intro l
                induction l with
                | nil => intro E; rfl
                | cons x xs ih => intro E; simp [stageRows, ih]
              rw [this]
            rw [h2, stageRows_col] at hb
            rw [h1]
            simpa using hb
      have h123 := StepsN.trans h12 hsteps3
      rcases hfin with hwe | ⟨j, hfe, hb⟩
      · have hcall := call_of_steps hh pre rest hsrc hsh hnc hz hlead h123 hwe.done
        refine ⟨s3.out, rowsW.length, hcall, hale, ?_, Or.inl ⟨hwe.indsFull, hwe.valsFull, hwe.vfc, ha⟩⟩
        rw [htake, hA0']
        exact ⟨hwe.np, by simp [KS.out, hwe.hdr, hwe.row], hwe.shape, hwe.cols, hstr2⟩
      · have hcall := call_of_steps hh pre rest hsrc hsh hnc hz hlead h123 hfe.done
        refine ⟨s3.out, rowsW.length, hcall, hale, ?_, Or.inr (Or.inr ⟨hfe.indsFull, hfe.valsFull, j, hfe.jlt, hfe.vfc, ?_⟩)⟩
        · rw [htake, hA0']
          exact ⟨hfe.np, by simp [KS.out, hfe.hdr, hfe.row], hfe.shape, hfe.cols, hstr2⟩
        · exact hb
    · -- the index buffer is full
      have hcall := call_of_steps hh pre rest hsrc hsh hnc hz hlead h12 hend.done
      refine ⟨s2.out, a, hcall, hale, ?_, Or.inr (Or.inl ⟨hend.indsFull, hend.valsFull, hend.vfc, by omega⟩)⟩
      rw [hA0']
      exact ⟨hend.np, by simp [KS.out, hend.hdr, hend.row]; omega, hend.shape, hend.cols, hcapsA⟩
    · -- a value budget is used up inside record `a`
      rw [hnpa] at hend
      simp only [Nat.zero_add] at hend
      have hcall := call_of_steps hh pre rest hsrc hsh hnc hz hlead h12 hend.done
      refine ⟨s2.out, a, hcall, hale, ?_, Or.inr (Or.inr ⟨hend.indsFull, hend.valsFull, j, hend.jlt, hend.vfc, ?_⟩)⟩
      · rw [hA0']
        exact ⟨hend.np, by simp [KS.out, hend.hdr, hend.row], hend.shape, hend.cols, hcapsA⟩
      · have h1 : (rowsW ++ tailRows nxt).take (a + 1) = rowsW.take (a + 1) := by
          rw [List.take_append_of_le_length (by omega)]
        rw [h1]
        rw [stageRows_col] at hb
        simpa using hb
  · -- only blanks are left: no header, no complete record
    have hle := leadWs_le rest
    have hlen : src.length = pre.length + rest.length := by rw [hsrc]; simp
    have hblank : rest.length ≤ leadWs rest := by omega
    have hhf : hh = false := by
      cases hh with
      | false => rfl
      | true =>
        exfalso
        obtain ⟨hl, _⟩ := hhdr rfl
        have hne' : hrow ≠ [] := by intro h; rw [h] at hl; simp at hl; omega
        have := leadWs_renderCells_lt hrow hne' (render rowsW ++ tailText nxt)
        rw [← hrest] at hblank
        simp only [if_true, List.append_assoc] at hblank
        omega
    subst hhf
    have hrW : rowsW = [] := by
      cases hW : rowsW with
      | nil => rfl
      | cons r1 rs =>
        exfalso
        have hr1 := (htab r1 (by rw [hW]; simp)).1
        have hne' : r1 ≠ [] := by intro h'; rw [h'] at hr1; simp at hr1; omega
        have := leadWs_renderCells_lt r1 hne' (render rs ++ tailText nxt)
        rw [← hrest, hW] at hblank
        simp only [Bool.false_eq_true, if_false, List.nil_append, render, List.append_assoc] at hblank
        omega
    subst hrW
    have hcall := call_blank (offs := offs) (vals := vals) pre rest hsrc hsh hnc hz hblank
    refine ⟨_, 0, hcall, Nat.le_refl _, ?_, Or.inl ⟨rfl, rfl, rfl, rfl⟩⟩
    refine ⟨by simp [render], rfl, hsh, ?_, fun c hc => by simpa [stageRows] using hbud c hc⟩
    intro c hc
    obtain ⟨r, hr, hr0⟩ := hz c hc
    refine ⟨⟨r, hr, ?_⟩, fun k hk => by simp [stageRows] at hk⟩
    intro k hk
    have : k = 0 := by simpa [stageRows] using hk
    subst this
    simpa [endOf, stageRows] using hr0

end Exetera.Csv
