import Exetera.Model.Basic
import Exetera.Lemmas.While
import Exetera.Model.Join
import Exetera.Spec.Join
