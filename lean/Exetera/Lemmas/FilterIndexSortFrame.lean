import Exetera.Lemmas.FilterIndexFrame
import Exetera.Lemmas.FilterIndexSort
/-! `DataFrame.sort_values` = `apply_index` with the stable lexicographic sort permutation of the key columns. -/
namespace Exetera.FilterIndex
open Exetera Exetera.Spec

theorem Encodes_nrows (p : Payload) (c : Column) (h : Encodes p c) : p.nrows = c.length := by
  cases p with
  | plain d =>
    cases c with
    | nums xs => simp only [Encodes] at h; subst h; rfl
    | strs es => simp [Encodes] at h
  | indexed i v =>
    cases c with
    | nums xs => simp [Encodes] at h
    | strs es =>
      obtain ⟨hi, _⟩ := h
      rcases hi with hi | ⟨he, hi⟩
      · subst hi; simp [Payload.nrows, Column.length, offsetsF, offsetsFrom_length]
      · subst he hi; rfl

/-- looking a name up in the frame and in the columns it holds -/
theorem Holds_lookup (sf : Frame) (cols : List (ColSpec Meta)) (hh : Holds sf cols) (k : String) :
    (sf.lookup k = none ∧ sf.has k = false ∧ cols.find? (fun c => c.name == k) = none) ∨
    (∃ f c, sf.lookup k = some f ∧ sf.has k = true ∧ cols.find? (fun c => c.name == k) = some c ∧
      Encodes f.payload c.content ∧ c ∈ cols) := by
  induction sf generalizing cols with
  | nil =>
    cases cols with
    | nil => exact Or.inl ⟨rfl, rfl, rfl⟩
    | cons c cs => simp [Holds] at hh
  | cons p sf ih =>
    obtain ⟨n, f⟩ := p
    cases cols with
    | nil => simp [Holds] at hh
    | cons c cs =>
      obtain ⟨hn, _, he, hrest⟩ := hh
      by_cases hk : n = k
      · refine Or.inr ⟨f, c, ?_, ?_, ?_, he, by simp⟩
        · simp [hk]
        · simp [Frame.has, hk]
        · simp [← hn, hk]
      · have h1 : (k == n) = false := by rw [beq_eq_false_iff_ne]; exact fun h => hk h.symm
        have h2 : (n == k) = false := by rw [beq_eq_false_iff_ne]; exact hk
        have h3 : (c.name == k) = false := by rw [← hn]; exact h2
        rcases ih cs hrest with ⟨a, b, d⟩ | ⟨f', c', a, b, d, e, m⟩
        · refine Or.inl ⟨?_, ?_, ?_⟩
          · rw [List.lookup_cons, h1]; exact a
          · simp only [Frame.has, List.any_cons, h2, Bool.false_or]; exact b
          · rw [List.find?_cons, h3]; exact d
        · refine Or.inr ⟨f', c', ?_, ?_, ?_, e, by simp [m]⟩
          · rw [List.lookup_cons, h1]; exact a
          · simp only [Frame.has, List.any_cons, h2, Bool.false_or]; exact b
          · rw [List.find?_cons, h3]; exact d

theorem keyColumns_eq (sf : Frame) (cols : List (ColSpec Meta)) (hh : Holds sf cols) (by_ : List String)
    (keys : List (List Int)) (hk : keyCols cols by_ = some keys) :
    keyColumns sf by_ = .ok keys ∧ keysExist sf by_ = true ∧
      (∀ k ∈ keys, ∃ c ∈ cols, c.content = .nums k) := by
  induction by_ generalizing keys with
  | nil => simp [keyCols] at hk; subst hk; exact ⟨rfl, rfl, by simp⟩
  | cons b bs ih =>
    simp only [keyCols] at hk
    rcases Holds_lookup sf cols hh b with ⟨_, _, hf⟩ | ⟨f, c, hl, hhas, hf, he, hmem⟩
    · simp [hf] at hk
    · simp only [hf] at hk
      split at hk
      · rename_i xs r hc hr
        simp at hk; subst hk
        obtain ⟨h1, h2, h3⟩ := ih r hr
        have hp : f.payload = .plain xs := by
          cases hpay : f.payload with
          | plain d => rw [hpay, hc] at he; simp only [Encodes] at he; rw [he]
          | indexed i v => rw [hpay, hc] at he; simp [Encodes] at he
        refine ⟨by simp only [keyColumns, hl, hp, h1], ?_, ?_⟩
        · simp only [keysExist, List.all_cons, hhas, Bool.true_and]; exact h2
        · intro k hk
          rcases List.mem_cons.mp hk with rfl | hk
          · exact ⟨c, hmem, hc⟩
          · exact h3 k hk
      · simp at hk

theorem allSameLength_of_rect (sf : Frame) (cols : List (ColSpec Meta)) (hh : Holds sf cols) (n : Nat)
    (hrect : ∀ c ∈ cols, c.content.length = n) : allSameLength sf = true := by
  have hall : ∀ (sf : Frame) (cols : List (ColSpec Meta)), Holds sf cols → (∀ c ∈ cols, c.content.length = n) →
      ∀ p ∈ sf, p.2.payload.nrows = n := by
    intro sf
    induction sf with
    | nil => intro cols _ _ p hp; simp at hp
    | cons q sf ih =>
      intro cols hh hrect p hp
      obtain ⟨m, f⟩ := q
      cases cols with
      | nil => simp [Holds] at hh
      | cons c cs =>
        obtain ⟨_, _, he, hrest⟩ := hh
        rcases List.mem_cons.mp hp with rfl | hp
        · rw [Encodes_nrows _ _ he]; exact hrect c (by simp)
        · exact ih cs hrest (fun c' hc' => hrect c' (by simp [hc'])) p hp
  cases sf with
  | nil => rfl
  | cons q sf =>
    obtain ⟨m, f⟩ := q
    simp only [allSameLength, List.all_eq_true, beq_iff_eq]
    intro p hp
    rw [hall _ cols hh hrect p (by simp [hp]), hall _ cols hh hrect (m, f) (by simp)]

/-- `sort_values(by)` on a rectangular frame of `n` rows is `apply_index` with the stable lexicographic permutation -/
theorem dfSortValues_eq (v : Variant) (st : Store) (src : String) (sf : Frame) (cols : List (ColSpec Meta))
    (hs : st.lookup src = some sf) (hh : Holds sf cols) (n : Nat) (hrect : ∀ c ∈ cols, c.content.length = n)
    (by_ : List String) (hne : by_ ≠ []) (keys : List (List Int)) (hk : keyCols cols by_ = some keys)
    (ddf : Option String) :
    dfSortValues v st src by_ ddf =
      dfApplyIndex v st src ((sortPerm keys n).map (fun (k : Nat) => (k : Int))) ddf := by
  obtain ⟨hkc, hke, hkn⟩ := keyColumns_eq sf cols hh by_ keys hk
  have hklen : ∀ k ∈ keys, k.length = n := by
    intro k hk'
    obtain ⟨c, hc, hcc⟩ := hkn k hk'
    have := hrect c hc
    rw [hcc] at this; exact this
  obtain ⟨b, bs, rfl⟩ : ∃ b bs, by_ = b :: bs := by
    cases by_ with
    | nil => exact absurd rfl hne
    | cons b bs => exact ⟨b, bs, rfl⟩
  have hkne : keys ≠ [] := by
    intro h; subst h
    simp only [keyCols] at hk
    split at hk
    · split at hk <;> simp at hk
    · simp at hk
  -- the first key column gives the row count
  have hfirst : ∃ f, sf.lookup b = some f ∧ f.payload.nrows = n := by
    rcases Holds_lookup sf cols hh b with ⟨_, hnone, _⟩ | ⟨f, c, hl, _, _, he, hmem⟩
    · simp [keysExist, hnone] at hke
    · exact ⟨f, hl, by rw [Encodes_nrows _ _ he]; exact hrect c hmem⟩
  obtain ⟨f, hl, hn⟩ := hfirst
  have hsort := (datasetSortIndex_eq keys n hkne hklen).2
  simp [dfSortValues, Store.frame_eq st src sf hs, hke, hl, hn, hkc, hsort, bind, Except.bind, pure, Except.pure]

/-! ### rows: one row operation on every column keeps rows aligned; multisets -/

theorem filterBy_zip {α β} (bs : List Bool) (xs : List α) (ys : List β) :
    filterBy bs (xs.zip ys) = (filterBy bs xs).zip (filterBy bs ys) := by
  induction bs generalizing xs ys with
  | nil => simp [filterBy]
  | cons b bs ih =>
    cases xs with
    | nil => simp [filterBy, filterBy_nil_right]
    | cons x xs =>
      cases ys with
      | nil => simp [filterBy, filterBy_nil_right]
      | cons y ys => cases b <;> simp [filterBy, ih]

theorem filterBy_sublist {α} (bs : List Bool) (xs : List α) : (filterBy bs xs).Sublist xs := by
  induction bs generalizing xs with
  | nil => simp [filterBy]
  | cons b bs ih =>
    cases xs with
    | nil => simp [filterBy]
    | cons x xs =>
      cases b
      · simp only [filterBy, Bool.false_eq_true, ite_false]; exact (ih xs).cons x
      · simp only [filterBy, ite_true]; exact (ih xs).cons_cons x

theorem rowAt_zip {α β} (xs : List α) (ys : List β) (h : xs.length = ys.length) (i : Int) :
    rowAt (xs.zip ys) i = match rowAt xs i, rowAt ys i with
      | some x, some y => some (x, y)
      | _, _ => none := by
  unfold rowAt
  have hl : (xs.zip ys).length = xs.length := by simp [h]
  rw [hl, ← h]
  cases hw : wrapIdx xs.length i with
  | none => rfl
  | some k =>
    cases hx : xs[k]? with
    | none =>
      have : (xs.zip ys)[k]? = none := by
        rw [List.getElem?_eq_none_iff] at hx ⊢; simp [h] at hx ⊢; omega
      simp [this, hx]
    | some x =>
      cases hy : ys[k]? with
      | none =>
        have : (xs.zip ys)[k]? = none := by
          rw [List.getElem?_eq_none_iff] at hy ⊢; simp [h] at hy ⊢; omega
        simp [this, hx, hy]
      | some y =>
        have : (xs.zip ys)[k]? = some (x, y) := List.getElem?_zip_eq_some.mpr ⟨hx, hy⟩
        simp [this, hx, hy]

theorem gather_zip {α β} (xs : List α) (ys : List β) (h : xs.length = ys.length) (idx : List Int) :
    gather (xs.zip ys) idx = match gather xs idx, gather ys idx with
      | some r, some s => some (r.zip s)
      | _, _ => none := by
  induction idx with
  | nil => simp [gather]
  | cons i is ih =>
    simp only [gather, rowAt_zip xs ys h i, ih]
    cases rowAt xs i <;> cases rowAt ys i <;> cases gather xs is <;> cases gather ys is <;> simp

theorem gather_nat_perm {α} (xs : List α) (p : List Nat) (hp : p.Perm (List.range xs.length)) :
    ∃ r, gather xs (p.map (fun (k : Nat) => (k : Int))) = some r ∧ r.Perm xs := by
  -- every subscript is a row number, so gather is `map (xs[·])`
  have hg : ∀ (q : List Nat), (∀ k ∈ q, k < xs.length) →
      gather xs (q.map (fun (k : Nat) => (k : Int))) = some (q.filterMap (xs[·]?)) := by
    intro q
    induction q with
    | nil => intro _; rfl
    | cons k q ih =>
      intro hq
      have hk : k < xs.length := hq k (by simp)
      have hr : rowAt xs (k : Int) = some xs[k] := by
        unfold rowAt
        have : wrapIdx xs.length (k : Int) = some k := by
          rw [← normIdx_eq_wrapIdx]; exact normIdx_natCast hk
        simp [this, List.getElem?_eq_getElem hk]
      simp only [List.map_cons, gather, hr, ih (fun k' hk' => hq k' (by simp [hk'])), List.filterMap_cons,
        List.getElem?_eq_getElem hk]
  refine ⟨_, hg p (fun k hk => List.mem_range.mp (hp.subset hk)), ?_⟩
  have h1 : (p.filterMap (xs[·]?)).Perm ((List.range xs.length).filterMap (xs[·]?)) := hp.filterMap _
  have h2 : (List.range xs.length).filterMap (xs[·]?) = xs := by
    have hgen : ∀ n, (List.range n).filterMap (xs[·]?) = xs.take n := by
      intro n
      induction n with
      | zero => simp
      | succ n ih =>
        rw [List.range_succ, List.filterMap_append, ih, List.take_add_one]
        congr 1
    rw [hgen, List.take_length]
  rw [h2] at h1; exact h1

end Exetera.FilterIndex
