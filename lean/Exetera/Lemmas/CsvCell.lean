import Exetera.Lemmas.CsvRun
/-! One cell: from the first byte after the blanks to the byte before its terminator (C05). -/
namespace Exetera.Csv
open Exetera Spec

/-- the text of a cell as the kernel sees it once the blanks in front of it are skipped -/
def body (c : Cell) : Bytes := if c.quoted then renderCell c else stripLead c.text

theorem runEffect_skip_left {s s1 s2 : KS} {w : Bytes} (hctx : s1.ctx = s.ctx) (hcnt : s1.count = s.count)
    (hv : s1.vals = s.vals) (h : RunEffect s1 s2 w) : RunEffect s s2 w := by
  obtain ⟨_, _, hh1, _, _, hcs1, _, _, _, hco1, _, _⟩ := ctx_eq hctx
  obtain ⟨h1, h2, h3⟩ := h
  refine ⟨by rw [h1, hctx], h2, ?_⟩
  rw [hh1, hcnt, hv, hco1, hcs1] at h3
  exact h3

theorem runEffect_skip_right {s s1 s2 : KS} {w : Bytes} (h : RunEffect s s1 w) (hctx : s2.ctx = s1.ctx)
    (hcnt : s2.count = s1.count) (hv : s2.vals = s1.vals) (hd : s2.done = false) : RunEffect s s2 w := by
  obtain ⟨h1, _, h3⟩ := h
  refine ⟨by rw [hctx, h1], hd, ?_⟩
  rw [hcnt, hv]
  exact h3

theorem room_of_ctx {s s1 : KS} {n : Nat} (hctx : s1.ctx = s.ctx) (hcnt : s1.count = s.count) (hv : s1.vals = s.vals)
    (h : Room s n) : Room s1 n := by
  obtain ⟨_, _, hh1, _, _, hcs1, _, _, _, hco1, hcc1, _⟩ := ctx_eq hctx
  intro hh
  rw [hh1] at hh
  rw [hco1, hcs1, hcnt, hv, hcc1]
  exact h hh

theorem mem_stripLead {b : Nat} {bs : Bytes} (h : b ∈ stripLead bs) : b ∈ bs :=
  (List.dropWhile_sublist _).subset h

/-- the content of a cell, bare or quoted, up to (not including) its terminator `t` -/
theorem cell_content {src : Bytes} {offs : List Nat} {maxrow : Nat} (c : Cell) (hwf : c.WF)
    (A B : Bytes) (t : Nat) (s : KS) (hsrc : src = A ++ (body c ++ t :: B)) (ht : t = SEP ∨ t = NL)
    (hi : s.index = A.length) (hics : s.ics = A.length) (hd : s.done = false)
    (hif : s.indsFull = false) (hvf : s.valsFull = false) (he : s.escaped = false) (hcd : s.cand = false)
    (hroom : Room s c.value.length) :
    ∃ n s1, KSteps src offs maxrow n s s1 ∧ s1.index = A.length + (body c).length ∧ s1.escaped = false ∧ s1.cand = false ∧
      RunEffect s s1 c.value := by
  cases hq : c.quoted with
  | false =>
    have hbody : body c = stripLead c.text := by simp [body, hq]
    have hval : c.value = stripLead c.text := by simp [Cell.value, hq]
    have hplain : ∀ b ∈ stripLead c.text, b ≠ QUOTE ∧ b ≠ SEP ∧ b ≠ NL := by
      intro b hb
      rcases hwf with h | h
      · rw [hq] at h; cases h
      · exact h b (mem_stripLead hb)
    rw [hbody] at hsrc ⊢
    rw [hval] at hroom ⊢
    obtain ⟨n, s1, hsteps, hi1, he1, hc1, heff⟩ :=
      run_plain (offs := offs) (maxrow := maxrow) (stripLead c.text) A (t :: B) s hsrc (by simp) hi hd hif hvf hplain hroom
    exact ⟨n, s1, hsteps, hi1, by rw [he1, he], by rw [hc1, hcd], heff⟩
  | true =>
    have hbody : body c = QUOTE :: (escape c.text ++ [QUOTE]) := by simp [body, hq, renderCell]
    have hval : c.value = c.text := by simp [Cell.value, hq]
    rw [hval] at hroom ⊢
    have hsrc' : src = A ++ (QUOTE :: (escape c.text ++ (QUOTE :: t :: B))) := by simp [hsrc, hbody]
    -- opening quote
    have hc0 : src[s.index]? = some QUOTE := by rw [hsrc', hi, getElem?_append_len0]; simp
    have hlen0 : s.index + 1 < src.length := by rw [hsrc', hi]; simp; omega
    obtain ⟨s1, hstep1, hi1, he1, hc1, hd1, hctx1, hcnt1, hv1⟩ :=
      step_skip (offs := offs) (maxrow := maxrow) hc0
        (by rw [he, hcd, hi, hics]; simpa using lex_open _ false) hlen0 hif hvf
    obtain ⟨_, _, _, _, _, _, _, hif1, hvf1, _, _, _⟩ := ctx_eq hctx1
    -- content
    have hsrc1 : src = (A ++ [QUOTE]) ++ (escape c.text ++ (QUOTE :: t :: B)) := by simp [hsrc']
    obtain ⟨n, s2, hsteps2, hi2, he2, hc2, heff2⟩ :=
      run_quoted (offs := offs) (maxrow := maxrow) c.text (A ++ [QUOTE]) (QUOTE :: t :: B) s1 hsrc1 (by simp)
        (by simp [hi1, hi]) hd1 (by rw [hif1, hif]) (by rw [hvf1, hvf]) he1 hc1 (room_of_ctx hctx1 hcnt1 hv1 hroom)
    obtain ⟨hctx2, hd2, _⟩ := heff2
    obtain ⟨_, _, _, _, _, _, _, hif2, hvf2, _, _, _⟩ := ctx_eq hctx2
    -- closing quote
    have hsrc2 : src = (A ++ [QUOTE] ++ escape c.text) ++ (QUOTE :: t :: B) := by simp [hsrc']
    have hi2' : s2.index = (A ++ [QUOTE] ++ escape c.text).length := by simp [hi2]; omega
    have hc3 : src[s2.index]? = some QUOTE := by rw [hsrc2, hi2', getElem?_append_len0]; simp
    have hnx3 : src[s2.index + 1]? = some t := by rw [hsrc2, hi2', getElem?_append_len]; simp
    have hlen3 : s2.index + 1 < src.length := by rw [hsrc2, hi2']; simp; omega
    obtain ⟨s3, hstep3, hi3, he3, hc3', hd3, hctx3, hcnt3, hv3⟩ :=
      step_skip (offs := offs) (maxrow := maxrow) hc3 (by rw [hnx3, he2, hc2]; exact lex_close _ ht) hlen3
        (by rw [hif2, hif1, hif]) (by rw [hvf2, hvf1, hvf])
    refine ⟨1 + n + 1, s3, ?_, by simp [hi3, hi2, hbody]; omega, he3, hc3', ?_⟩
    · exact StepsN.trans (StepsN.trans (StepsN.one (g := kguard) (by simp [kguard, hd]) hstep1) hsteps2)
        (StepsN.one (g := kguard) (by simp [kguard, hd2]) hstep3)
    · exact runEffect_skip_right (runEffect_skip_left hctx1 hcnt1 hv1 ⟨hctx2, hd2, ‹_›⟩) hctx3 hcnt3 hv3 hd3

end Exetera.Csv
