import Exetera.Spec.CsvLine
/-! List facts used by the C16 proofs: offsets of an indexed string column, slices, `nonEmpty`, `joinWith`. -/
set_option linter.unusedSectionVars false
namespace Exetera.Spec.CsvLine

open Exetera

variable {α : Type} [DecidableEq α]

/-! ### offsets -/

theorem offsetsFrom_length (base : Nat) (xs : List (List α)) : (offsetsFrom base xs).length = xs.length := by
  induction xs generalizing base with
  | nil => simp [offsetsFrom]
  | cons x xs ih => simp [offsetsFrom, ih]

theorem offsets_length (xs : List (List α)) : (offsets xs).length = xs.length + 1 := by
  simp [offsets, offsetsFrom_length]

theorem offsetsFrom_append (base : Nat) (xs ys : List (List α)) :
    offsetsFrom base (xs ++ ys) = offsetsFrom base xs ++ offsetsFrom (base + xs.flatten.length) ys := by
  induction xs generalizing base with
  | nil => simp [offsetsFrom]
  | cons x xs ih => simp [offsetsFrom, ih, Nat.add_assoc]

theorem offsetsFrom_getElem? (base : Nat) (xs : List (List α)) (k : Nat) (hk : k < xs.length) :
    (offsetsFrom base xs)[k]? = some (base + (xs.take (k + 1)).flatten.length) := by
  induction xs generalizing base k with
  | nil => simp at hk
  | cons x xs ih =>
    cases k with
    | zero => simp [offsetsFrom]
    | succ k =>
      have := ih (base + x.length) k (by simpa using hk)
      simp [offsetsFrom, this, Nat.add_assoc]

/-- `indices[e]` is the number of bytes before entry `e` -/
theorem offsets_getElem? (xs : List (List α)) (e : Nat) (he : e ≤ xs.length) :
    (offsets xs)[e]? = some ((xs.take e).flatten.length) := by
  cases e with
  | zero => simp [offsets]
  | succ e =>
    have := offsetsFrom_getElem? 0 xs e (by omega)
    simpa [offsets] using this

/-! ### slices -/

theorem slice_eq_nil_of_le {β} (xs : List β) (a b : Nat) (h : b ≤ a) : slice xs a b = [] := by
  simp [slice, Nat.sub_eq_zero_of_le h]

theorem slice_succ {β} (xs : List β) (a n : Nat) (h : a < xs.length) :
    slice xs a (a + (n + 1)) = xs[a] :: slice xs (a + 1) (a + 1 + n) := by
  unfold slice
  have h1 : a + (n + 1) - a = n + 1 := by omega
  have h2 : a + 1 + n - (a + 1) = n := by omega
  rw [h1, h2, List.drop_eq_getElem_cons h, List.take_succ_cons]

theorem slice_one {β} (xs : List β) (a : Nat) (h : a < xs.length) : slice xs a (a + 1) = [xs[a]] := by
  have := slice_succ xs a 0 h
  simpa [slice] using this

/-- `xs = xs[:a] ++ xs[a:b] ++ xs[b:]` -/
theorem take_slice_drop {β} (xs : List β) (a b : Nat) (h : a ≤ b) :
    xs = xs.take a ++ (slice xs a b ++ xs.drop b) := by
  unfold slice
  have : xs.drop b = (xs.drop a).drop (b - a) := by
    rw [List.drop_drop]; congr 1; omega
  rw [this, List.take_append_drop, List.take_append_drop]

theorem take_eq_take_append_slice {β} (xs : List β) (a b : Nat) (h : a ≤ b) :
    xs.take b = xs.take a ++ slice xs a b := by
  unfold slice
  have hb : b = a + (b - a) := by omega
  conv => lhs; rw [hb, List.take_add]

/-! ### nonEmpty / joinWith -/

theorem nonEmpty_cons_nil (xs : List (List α)) : nonEmpty ([] :: xs) = nonEmpty xs := by
  simp [nonEmpty]

theorem nonEmpty_cons_of_nil' {x : List α} (hx : x = []) (xs : List (List α)) :
    nonEmpty (x :: xs) = nonEmpty xs := by
  subst hx; exact nonEmpty_cons_nil xs

theorem nonEmpty_cons_of_ne (x : List α) (xs : List (List α)) (hx : x ≠ []) :
    nonEmpty (x :: xs) = x :: nonEmpty xs := by
  simp [nonEmpty, hx]

/-- the only non-empty entry of a run is the concatenation of the run -/
theorem flatten_of_nonEmpty_singleton (ys : List (List α)) (x : List α) (h : nonEmpty ys = [x]) :
    ys.flatten = x := by
  induction ys with
  | nil => simp [nonEmpty] at h
  | cons y ys ih =>
    by_cases hy : y = []
    · subst hy
      rw [nonEmpty_cons_nil] at h
      simp [ih h]
    · rw [nonEmpty_cons_of_ne y ys hy] at h
      have h1 : y = x := by simpa using (List.cons.inj h).1
      have h2 : nonEmpty ys = [] := (List.cons.inj h).2
      have h3 : ys.flatten = [] := by
        simp only [nonEmpty, List.filter_eq_nil_iff] at h2
        rw [List.flatten_eq_nil_iff]
        intro l hl
        have := h2 l hl
        simpa using this
      simp [h1, h3]

theorem flatten_of_nonEmpty_nil (ys : List (List α)) (h : nonEmpty ys = []) : ys.flatten = [] := by
  simp only [nonEmpty, List.filter_eq_nil_iff] at h
  rw [List.flatten_eq_nil_iff]
  intro l hl
  simpa using h l hl

/-- the entries after the first one, each preceded by a separator -/
def sepTail (sep delim : α) (ys : List (List α)) : List α := ys.flatMap (fun y => sep :: field sep delim y)

theorem joinCsv_cons (sep delim : α) (x : List α) (ys : List (List α)) :
    joinCsv sep delim (x :: ys) = field sep delim x ++ sepTail sep delim ys := by
  induction ys generalizing x with
  | nil => simp [joinCsv, joinWith, sepTail]
  | cons y ys ih =>
    have := ih y
    simp only [joinCsv, List.map_cons, joinWith, sepTail, List.flatMap_cons] at this ⊢
    rw [this]
    simp

theorem sepTail_cons (sep delim : α) (y : List α) (ys : List (List α)) :
    sepTail sep delim (y :: ys) = sep :: field sep delim y ++ sepTail sep delim ys := by
  simp [sepTail]

theorem escape_of_no_delim (delim : α) (x : List α) (h : ∀ c ∈ x, c ≠ delim) : escape delim x = x := by
  induction x with
  | nil => rfl
  | cons c x ih =>
    have hc := h c (by simp)
    simp [escape, hc, ih (fun d hd => h d (by simp [hd]))]

theorem needsQuote_false_iff' (sep delim : α) (x : List α) :
    needsQuote sep delim x = false ↔ ∀ c ∈ x, c ≠ sep ∧ c ≠ delim := by
  simp [needsQuote, List.any_eq_false]

end Exetera.Spec.CsvLine
