import Exetera.Model.Merge
import Exetera.Spec.Merge
/-!
  Counterexample theorems for C02.

  * NC02c (repaired; as-found behaviour kept below): with both ordered hints `DataFrame.merge` maps indexed-string columns through
    `ordered_map_valid_indexed_stream`, whose value buffer holds `chunksize * value_factor` bytes (2^23 with the defaults);
    since fix D5 an entry that does not fit raises a clear `ValueError` instead of looping forever. The hint-free call goes
    through `safe_map_indexed_values` and succeeds — so a truthful hint raises. The model mirrors the code: below, chunk size
    1 and value factor 1 (a one-byte buffer) against the entry "bc".
-/
namespace Exetera.Witness.C02
open Exetera Exetera.Merge Exetera.Spec

/-- `pandas.merge` as the relational join itself -/
def pandasRel (how : String) (lk rk : List Int) : Except Err Pairs := .ok (relJoin how lk rk)

def longEntry (hint : Option Bool) : Input :=
  { how := "left"
    left := [("k", intCol [1, 2]), ("s", .indexed [0, 1, 3] [97, 98, 99])]
    right := [("k", intCol [2, 3])]
    leftOn := ["k"], rightOn := ["k"], leftTuple := false, rightTuple := false
    leftFields := none, rightFields := none
    hintLO := hint, hintRO := hint
    lk := [1, 2], rk := [2, 3] }

/-- NC02c (repaired in /repo; kept as the regression witness). As found, `_ordered_merge` let the stream use its fixed
    default `value_factor`, i.e. a value buffer of `cs * vf` bytes whatever the source holds: with `cs = 1`, `vf = 1` the
    entry "bc" of the column below does not fit and the stream raises — while the hint-free merge returns the left join. Since
    the fix the stream sizes the buffer for the longest entry (`autoValueFactor`), and the hinted merge succeeds as well. -/
theorem nc02c_long_entry_raises_only_with_hints :
    MapValid.orderedMapValidIndexedStream [0, 1, 3] [(97 : Int), 98, 99] [0, 1] 4611686018427387904 1 1 =
      .error (.valueError "entry does not fit the value buffer") ∧
    MapValid.autoValueFactor 1 [0, 1, 3] 1 = 2 ∧
    merge pandasRel (longEntry none) 1 1 64 = .ok
      [("k_l", intCol [1, 2]), ("s", .indexed [0, 1, 3] [97, 98, 99]), ("k_r", intCol [0, 2]),
       ("valid_r", boolCol [false, true])] ∧
    (∃ d, merge pandasRel (longEntry (some true)) 1 1 64 = .ok d ∧ look d "s" = some (.indexed [0, 1, 3] [97, 98, 99])) := by
  refine ⟨rfl, rfl, rfl, ⟨_, rfl, rfl⟩⟩

end Exetera.Witness.C02
