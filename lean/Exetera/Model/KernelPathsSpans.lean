/-!
  C10 — DOC Spans
-/
namespace Exetera.KernelPaths

/-- the span kernels (C08): path condition of every subscript occurrence -/
def spansPaths : List (String × List (String × List String)) := [
  ("_get_spans_for_2_fields_by_spans", [
    ("R span0[i]", ["for i in range(len(span0))"]),
    ("R span0[i]", ["for i in range(len(span0))", "j < len(span1)"]),
    ("R span1[j:]", ["j < len(span1)"]),
    ("R span1[j]", ["for i in range(len(span0))", "j < len(span1)"]),
    ("R span1[j]", ["for i in range(len(span0))", "j < len(span1)", "while span1[j] < span0[i]"])]),
  ("_get_spans_for_2_fields_njit", [
    ("R ndarray0[i - 1]", ["not (len(ndarray0) == 0)", "for i in np.arange(1, len(ndarray0))"]),
    ("R ndarray0[i]", ["not (len(ndarray0) == 0)", "for i in np.arange(1, len(ndarray0))"]),
    ("R ndarray1[i - 1]", ["not (len(ndarray0) == 0)", "for i in np.arange(1, len(ndarray0))", "not (ndarray0[i] != ndarray0[i - 1])"]),
    ("R ndarray1[i]", ["not (len(ndarray0) == 0)", "for i in np.arange(1, len(ndarray0))", "not (ndarray0[i] != ndarray0[i - 1])"]),
    ("R spans[:1]", ["len(ndarray0) == 0"]),
    ("R spans[:count + 2]", ["not (len(ndarray0) == 0)"]),
    ("W spans[0]", []),
    ("W spans[count + 1]", ["not (len(ndarray0) == 0)"]),
    ("W spans[count]", ["not (len(ndarray0) == 0)", "for i in np.arange(1, len(ndarray0))", "ndarray0[i] != ndarray0[i - 1] or ndarray1[i] != ndarray1[i - 1]"])]),
  ("_get_spans_for_multi_fields_njit", [
    ("R f_d[i - 1]", ["not (length == 0)", "for i in np.arange(1, length)", "for f_d in fields_data"]),
    ("R f_d[i]", ["not (length == 0)", "for i in np.arange(1, length)", "for f_d in fields_data"]),
    ("R fields_data[0]", []),
    ("R spans[:1]", ["length == 0"]),
    ("R spans[:count + 2]", ["not (length == 0)"]),
    ("W spans[0]", []),
    ("W spans[count + 1]", ["not (length == 0)"]),
    ("W spans[count]", ["not (length == 0)", "for i in np.arange(1, length)", "not_equal"])]),
  ("_get_spans_for_index_string_field", [
    ("R indices[i + 1]", ["not (len(indices) < 2)", "for i in range(1, len(indices) - 1)"]),
    ("R indices[i - 1]", ["not (len(indices) < 2)", "for i in range(1, len(indices) - 1)"]),
    ("R indices[i]", ["not (len(indices) < 2)", "for i in range(1, len(indices) - 1)"]),
    ("R values[current:next]", ["not (len(indices) < 2)", "for i in range(1, len(indices) - 1)", "not (next - current != current - last)"]),
    ("R values[last:current]", ["not (len(indices) < 2)", "for i in range(1, len(indices) - 1)", "not (next - current != current - last)"])]),
  ("apply_spans_index_of_min", [
    ("R spans[i + 1]", ["for i in range(len(spans) - 1)"]),
    ("R spans[i]", ["for i in range(len(spans) - 1)"]),
    ("R src_array[cur:next]", ["for i in range(len(spans) - 1)", "not (next - cur == 1)"]),
    ("W dest_array[i]", ["for i in range(len(spans) - 1)", "next - cur == 1"]),
    ("W dest_array[i]", ["for i in range(len(spans) - 1)", "not (next - cur == 1)"])]),
  ("apply_spans_index_of_min_indexed", [
    ("R spans[i + 1]", ["for i in range(len(spans) - 1)"]),
    ("R spans[i]", ["for i in range(len(spans) - 1)"]),
    ("R src_indices[cur + 1]", ["for i in range(len(spans) - 1)", "not (next - cur == 1)"]),
    ("R src_indices[cur]", ["for i in range(len(spans) - 1)", "not (next - cur == 1)"]),
    ("R src_indices[j + 1]", ["for i in range(len(spans) - 1)", "not (next - cur == 1)", "for j in range(cur + 1, next)"]),
    ("R src_indices[j]", ["for i in range(len(spans) - 1)", "not (next - cur == 1)", "for j in range(cur + 1, next)"]),
    ("R src_values[curstart + k]", ["for i in range(len(spans) - 1)", "not (next - cur == 1)", "for j in range(cur + 1, next)", "for k in range(shortlen)"]),
    ("R src_values[curstart + k]", ["for i in range(len(spans) - 1)", "not (next - cur == 1)", "for j in range(cur + 1, next)", "for k in range(shortlen)", "not (src_values[curstart + k] < src_values[minstart + k])"]),
    ("R src_values[minstart + k]", ["for i in range(len(spans) - 1)", "not (next - cur == 1)", "for j in range(cur + 1, next)", "for k in range(shortlen)"]),
    ("R src_values[minstart + k]", ["for i in range(len(spans) - 1)", "not (next - cur == 1)", "for j in range(cur + 1, next)", "for k in range(shortlen)", "not (src_values[curstart + k] < src_values[minstart + k])"]),
    ("W dest_array[i]", ["for i in range(len(spans) - 1)", "next - cur == 1"]),
    ("W dest_array[i]", ["for i in range(len(spans) - 1)", "not (next - cur == 1)"])]),
  ("apply_spans_index_of_max_indexed", [
    ("R spans[i + 1]", ["for i in range(len(spans) - 1)"]),
    ("R spans[i]", ["for i in range(len(spans) - 1)"]),
    ("R src_indices[cur + 1]", ["for i in range(len(spans) - 1)", "not (next - cur == 1)"]),
    ("R src_indices[cur]", ["for i in range(len(spans) - 1)", "not (next - cur == 1)"]),
    ("R src_indices[j + 1]", ["for i in range(len(spans) - 1)", "not (next - cur == 1)", "for j in range(cur + 1, next)"]),
    ("R src_indices[j]", ["for i in range(len(spans) - 1)", "not (next - cur == 1)", "for j in range(cur + 1, next)"]),
    ("R src_values[curstart + k]", ["for i in range(len(spans) - 1)", "not (next - cur == 1)", "for j in range(cur + 1, next)", "for k in range(shortlen)"]),
    ("R src_values[curstart + k]", ["for i in range(len(spans) - 1)", "not (next - cur == 1)", "for j in range(cur + 1, next)", "for k in range(shortlen)", "not (src_values[curstart + k] > src_values[minstart + k])"]),
    ("R src_values[minstart + k]", ["for i in range(len(spans) - 1)", "not (next - cur == 1)", "for j in range(cur + 1, next)", "for k in range(shortlen)"]),
    ("R src_values[minstart + k]", ["for i in range(len(spans) - 1)", "not (next - cur == 1)", "for j in range(cur + 1, next)", "for k in range(shortlen)", "not (src_values[curstart + k] > src_values[minstart + k])"]),
    ("W dest_array[i]", ["for i in range(len(spans) - 1)", "next - cur == 1"]),
    ("W dest_array[i]", ["for i in range(len(spans) - 1)", "not (next - cur == 1)"])]),
  ("apply_spans_index_of_max", [
    ("R spans[i + 1]", ["for i in range(len(spans) - 1)"]),
    ("R spans[i]", ["for i in range(len(spans) - 1)"]),
    ("R src_array[cur:next]", ["for i in range(len(spans) - 1)", "not (next - cur == 1)"]),
    ("W dest_array[i]", ["for i in range(len(spans) - 1)", "next - cur == 1"]),
    ("W dest_array[i]", ["for i in range(len(spans) - 1)", "not (next - cur == 1)"])]),
  ("apply_spans_index_of_first", [
    ("R spans[:-1]", []),
    ("W dest_array[:]", [])]),
  ("apply_spans_index_of_last", [
    ("R spans[1:]", []),
    ("W dest_array[:]", [])]),
  ("apply_spans_index_of_min_filter", [
    ("R spans[i + 1]", ["for i in range(len(spans) - 1)"]),
    ("R spans[i]", ["for i in range(len(spans) - 1)"]),
    ("R src_array[cur:next]", ["for i in range(len(spans) - 1)", "not (next - cur == 0)", "not (next - cur == 1)"]),
    ("W dest_array[i]", ["for i in range(len(spans) - 1)", "not (next - cur == 0)", "next - cur == 1"]),
    ("W dest_array[i]", ["for i in range(len(spans) - 1)", "not (next - cur == 0)", "not (next - cur == 1)"]),
    ("W filter_array[i]", ["for i in range(len(spans) - 1)", "next - cur == 0"]),
    ("W filter_array[i]", ["for i in range(len(spans) - 1)", "not (next - cur == 0)", "next - cur == 1"]),
    ("W filter_array[i]", ["for i in range(len(spans) - 1)", "not (next - cur == 0)", "not (next - cur == 1)"])]),
  ("apply_spans_index_of_max_filter", [
    ("R spans[i + 1]", ["for i in range(len(spans) - 1)"]),
    ("R spans[i]", ["for i in range(len(spans) - 1)"]),
    ("R src_array[cur:next]", ["for i in range(len(spans) - 1)", "not (next - cur == 0)", "not (next - cur == 1)"]),
    ("W dest_array[i]", ["for i in range(len(spans) - 1)", "not (next - cur == 0)", "next - cur == 1"]),
    ("W dest_array[i]", ["for i in range(len(spans) - 1)", "not (next - cur == 0)", "not (next - cur == 1)"]),
    ("W filter_array[i]", ["for i in range(len(spans) - 1)", "next - cur == 0"]),
    ("W filter_array[i]", ["for i in range(len(spans) - 1)", "not (next - cur == 0)", "next - cur == 1"]),
    ("W filter_array[i]", ["for i in range(len(spans) - 1)", "not (next - cur == 0)", "not (next - cur == 1)"])]),
  ("apply_spans_index_of_first_filter", [
    ("R spans[i + 1]", ["for i in range(len(spans) - 1)"]),
    ("R spans[i]", ["for i in range(len(spans) - 1)"]),
    ("R spans[i]", ["for i in range(len(spans) - 1)", "not (next - cur == 0)"]),
    ("W dest_array[i]", ["for i in range(len(spans) - 1)", "not (next - cur == 0)"]),
    ("W filter_array[i]", ["for i in range(len(spans) - 1)", "next - cur == 0"]),
    ("W filter_array[i]", ["for i in range(len(spans) - 1)", "not (next - cur == 0)"])]),
  ("apply_spans_index_of_last_filter", [
    ("R spans[i + 1]", ["for i in range(len(spans) - 1)"]),
    ("R spans[i + 1]", ["for i in range(len(spans) - 1)", "not (next - cur == 0)"]),
    ("R spans[i]", ["for i in range(len(spans) - 1)"]),
    ("W dest_array[i]", ["for i in range(len(spans) - 1)", "not (next - cur == 0)"]),
    ("W filter_array[i]", ["for i in range(len(spans) - 1)", "next - cur == 0"]),
    ("W filter_array[i]", ["for i in range(len(spans) - 1)", "not (next - cur == 0)"])]),
  ("apply_spans_count", [
    ("R spans[i + 1]", ["for i in range(len(spans) - 1)"]),
    ("R spans[i]", ["for i in range(len(spans) - 1)"]),
    ("W dest_array[i]", ["for i in range(len(spans) - 1)"])]),
  ("apply_spans_first", [
    ("R spans[:-1]", []),
    ("R src_array[spans[:-1]]", []),
    ("W dest_array[:]", [])]),
  ("apply_spans_last", [
    ("R spans[1:]", []),
    ("R src_array[spans]", []),
    ("W dest_array[:]", [])]),
  ("apply_spans_max", [
    ("R spans[i + 1]", ["for i in range(len(spans) - 1)"]),
    ("R spans[i]", ["for i in range(len(spans) - 1)"]),
    ("R src_array[cur]", ["for i in range(len(spans) - 1)", "next - cur == 1"]),
    ("R src_array[cur]", ["for i in range(len(spans) - 1)", "not (next - cur == 1)"]),
    ("R src_array[idx]", ["for i in range(len(spans) - 1)", "not (next - cur == 1)", "for idx in range(cur + 1, next)"]),
    ("R src_array[idx]", ["for i in range(len(spans) - 1)", "not (next - cur == 1)", "for idx in range(cur + 1, next)", "src_array[idx] > max_val"]),
    ("W dest_array[i]", ["for i in range(len(spans) - 1)", "next - cur == 1"]),
    ("W dest_array[i]", ["for i in range(len(spans) - 1)", "not (next - cur == 1)"])]),
  ("apply_spans_min", [
    ("R spans[i + 1]", ["for i in range(len(spans) - 1)"]),
    ("R spans[i]", ["for i in range(len(spans) - 1)"]),
    ("R src_array[cur]", ["for i in range(len(spans) - 1)", "next - cur == 1"]),
    ("R src_array[cur]", ["for i in range(len(spans) - 1)", "not (next - cur == 1)"]),
    ("R src_array[idx]", ["for i in range(len(spans) - 1)", "not (next - cur == 1)", "for idx in range(cur + 1, next)"]),
    ("R src_array[idx]", ["for i in range(len(spans) - 1)", "not (next - cur == 1)", "for idx in range(cur + 1, next)", "src_array[idx] < min_val"]),
    ("W dest_array[i]", ["for i in range(len(spans) - 1)", "next - cur == 1"]),
    ("W dest_array[i]", ["for i in range(len(spans) - 1)", "not (next - cur == 1)"])])
]

end Exetera.KernelPaths
