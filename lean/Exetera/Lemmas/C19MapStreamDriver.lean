import Exetera.Lemmas.C19MapStream
/-!
  C19, legacy streamed mapper, part 2: one iteration of the driver loop of `ordered_map_valid_stream_old` (partial call,
  write, re-slice or refill of the map view, at most one step forward of the data view) and the result.
-/
namespace Exetera.JoinOld
open Exetera Exetera.Spec Exetera.Join Exetera.MapValid

/-- invariant of the driver loop -/
structure MInv {α} (data : List α) (map_ : List Int) (inv : Int) (cs : Nat) (zero : α) (s : MO α) : Prop where
  mlh : s.m ≤ s.mhi
  mhl : s.mhi ≤ map_.length
  mcur : s.mcur = s.mhi
  mfc : s.mfc = slice map_ s.m s.mhi
  mne : s.m < s.mhi ∨ s.m = map_.length
  mcs : s.mhi ≤ s.m + cs
  dlh : s.dlo ≤ s.dhi
  dhl : s.dhi ≤ data.length
  dcur : s.dcur = s.dhi
  dfc : s.dfc = slice data s.dlo s.dhi
  out : mapSpec data inv zero (map_.take s.m) = some s.out
  lower : ∀ (p : Nat) (k : Int), s.m ≤ p → map_[p]? = some k → k ≠ inv → (s.dlo : Int) ≤ k

/-- the data view stays or moves on by one chunk -/
theorem drefill_ok {α} (data : List α) (cs : Nat) (hcs : 1 ≤ cs) (dd : Int) (dlo dhi : Nat) (dfc : List α)
    (hdfc : dfc = slice data dlo dhi) (hdl : dlo ≤ dhi) (hdh : dhi ≤ data.length) :
    ∃ b : Nat × Nat × Nat × List α,
      (if (decide (dd ≥ (dhi : Int)) && decide (dd < (data.length : Int))) = true then
          match nextRange dhi data.length cs with
          | some rg => (Except.ok (rg.2, rg.1, rg.2, slice data rg.1 rg.2) : Except Err (Nat × Nat × Nat × List α))
          | none => .error (.other "StopIteration")
        else .ok (dhi, dlo, dhi, dfc)) = .ok b ∧
      b.1 = b.2.2.1 ∧ b.2.1 ≤ b.2.2.1 ∧ b.2.2.1 ≤ data.length ∧ b.2.2.2 = slice data b.2.1 b.2.2.1 ∧
      (¬ ((dhi : Int) ≤ dd ∧ dd < (data.length : Int)) → b.2.1 = dlo ∧ b.2.2.1 = dhi) ∧
      (((dhi : Int) ≤ dd ∧ dd < (data.length : Int)) → b.2.1 = dhi ∧ dhi < b.2.2.1) := by
  by_cases hc : (dhi : Int) ≤ dd ∧ dd < (data.length : Int)
  · have hlt : dhi < data.length := by omega
    have hc' : (decide (dd ≥ (dhi : Int)) && decide (dd < (data.length : Int))) = true := by
      simp only [Bool.and_eq_true, decide_eq_true_eq]; exact hc
    refine ⟨(min data.length (dhi + cs), dhi, min data.length (dhi + cs), slice data dhi (min data.length (dhi + cs))),
      ?_, rfl, ?_, ?_, rfl, fun h => absurd hc h, fun _ => ⟨rfl, ?_⟩⟩
    · simp only [hc', if_true, nextRange, hlt]
    · simp only []; omega
    · simp only []; omega
    · simp only []; omega
  · have hc' : ¬ (decide (dd ≥ (dhi : Int)) && decide (dd < (data.length : Int))) = true := by
      simp only [Bool.and_eq_true, decide_eq_true_eq]; exact hc
    refine ⟨(dhi, dlo, dhi, dfc), ?_, rfl, hdl, hdh, hdfc, fun _ => ⟨rfl, rfl⟩, fun h => absurd h hc⟩
    simp only [hc']
    rfl

def mmu {α} (data : List α) (map_ : List Int) (s : MO α) : Nat := (map_.length - s.m) + (data.length - s.dhi)

/-- **one iteration of the driver loop** -/
theorem mapOldBody_step {α} {data : List α} {map_ : List Int} {inv : Int} {cs : Nat} {zero : α} {s : MO α}
    (hcs : 1 ≤ cs) (hr : InRange data.length map_ inv) (hmono : ValidMonotone map_ inv)
    (hinv : inv < 0 ∨ (data.length : Int) ≤ inv) (hS : MInv data map_ inv cs zero s)
    (hg : decide (s.m < map_.length) = true) :
    ∃ s', mapOldBody data map_ inv cs zero s = .ok s' ∧ MInv data map_ inv cs zero s' ∧
      mmu data map_ s' < mmu data map_ s := by
  have hm : s.m < map_.length := by simpa using hg
  have hm' : s.m < s.mhi := by have := hS.mne; omega
  have h1 := hS.mhl
  have h2 := hS.dhl
  have h3 := hS.dlh
  have h4 := hS.mcs
  have hml : s.mfc.length = s.mhi - s.m := by rw [hS.mfc, slice_length]; omega
  have hmg : ∀ k, k < s.mhi - s.m → s.mfc[k]? = map_[s.m + k]? := fun k hk => by
    rw [hS.mfc]; exact Join.slice_getElem? map_ s.m s.mhi k hk
  have hdl : s.dfc.length = s.dhi - s.dlo := by rw [hS.dfc, slice_length]; omega
  have hw : DWin data s.dlo s.dfc := ⟨by omega, fun k hk => by
    rw [hS.dfc]; exact Join.slice_getElem? data s.dlo s.dhi k (by omega)⟩
  have hrange : ∀ v ∈ s.mfc, v ≠ inv → (s.dlo : Int) ≤ v ∧ v < data.length := by
    intro v hv hvi
    obtain ⟨k, hk, hkv⟩ := List.getElem_of_mem hv
    have hkv' : s.mfc[k]? = some v := by rw [List.getElem?_eq_getElem hk, hkv]
    rw [hmg k (by omega)] at hkv'
    exact ⟨hS.lower _ v (by omega) hkv' hvi, (hr _ v hkv' hvi).2⟩
  obtain ⟨ys, dd, hrun, hle, hspec, hcase⟩ :=
    partialOldMapFrom_spec data s.dlo s.dfc inv zero cs hw s.mfc [] (s.mfc.headD 0) hrange (by simp only [List.length_nil]; omega)
  have hrun' : partialOldMap s.dlo s.dfc s.mfc inv zero cs = .ok (ys, dd) := by
    cases hmf : s.mfc with
    | nil => rw [hmf] at hml; simp at hml; omega
    | cons v vs =>
      rw [hmf] at hrun
      simpa [partialOldMap] using hrun
  have hdd : dd = (ys, dd).2 := rfl
  -- what has been written
  have hout : (if ys.length > 0 then s.out ++ ys else s.out) = s.out ++ ys := by
    by_cases h : ys.length > 0
    · simp [h]
    · have : ys = [] := List.eq_nil_of_length_eq_zero (by omega)
      simp [this]
  have hspec' : mapSpec data inv zero (map_.take (s.m + ys.length)) = some (s.out ++ ys) := by
    rw [List.take_add]
    apply mapSpec_append _ _ _ _ _ _ _ hS.out
    have : (map_.drop s.m).take ys.length = s.mfc.take ys.length := by
      rw [hS.mfc]
      simp only [slice, List.take_take]
      congr 1
      omega
    rw [this]
    exact hspec
  obtain ⟨a, ha, a1, a2, a3, a4, a5, a6⟩ :=
    refill_ok map_ cs hcs s.m ys.length s.mhi s.mfc hS.mfc (by omega) hS.mhl hS.mcs
  obtain ⟨b, hb, b1, b2, b3, b4, b5, b6⟩ := drefill_ok data cs hcs dd s.dlo s.dhi s.dfc hS.dfc hS.dlh hS.dhl
  -- the two cases of the partial call
  have hfin : (ys.length = s.mfc.length ∧ ¬ ((s.dhi : Int) ≤ dd ∧ dd < (data.length : Int))) ∨
      (∃ v, map_[s.m + ys.length]? = some v ∧ v ≠ inv ∧ (s.dhi : Int) ≤ v ∧ v < (data.length : Int) ∧ dd = v) := by
    rcases hcase with ⟨c1, _, c3⟩ | ⟨v, c1, c2, c3, c4⟩
    · refine Or.inl ⟨c1, ?_⟩
      have hne : s.mfc ≠ [] := by intro h; rw [h] at hml; simp at hml; omega
      rcases c3 hne with c | c
      · rw [c]; omega
      · have : ((s.dlo + s.dfc.length : Nat) : Int) = (s.dhi : Int) := by rw [hdl]; congr 1; omega
        omega
    · have hk : ys.length < s.mhi - s.m := by
        have := (List.getElem?_eq_some_iff.mp c1).1
        omega
      rw [hmg _ hk] at c1
      have : ((s.dlo + s.dfc.length : Nat) : Int) = (s.dhi : Int) := by rw [hdl]; congr 1; omega
      exact Or.inr ⟨v, c1, c2, by omega, (hr _ v c1 c2).2, c4⟩
  clear hcase
  simp only [mapOldBody, hrun', hout, hS.mcur, hS.dcur]
  split
  · rename_i a' b' e1 e2
    have ea : (Except.ok a : Except Err _) = Except.ok a' := ha.symm.trans e1
    have eb : (Except.ok b : Except Err _) = Except.ok b' := hb.symm.trans e2
    cases ea
    cases eb
    rcases hfin with ⟨f1, f2⟩ | ⟨v, f1, f2, f3, f4, f5⟩
    · obtain ⟨g1, g2⟩ := b5 f2
      refine ⟨_, rfl, ⟨a2, a3, a1, a4, a5, a6, b2, b3, b1, b4, hspec', ?_⟩, ?_⟩
      · intro p k hp hk hki
        simp only [g1]
        exact hS.lower p k (by simp only [] at hp; omega) hk hki
      · simp only [mmu, g2]; omega
    · obtain ⟨g1, g2⟩ := b6 ⟨by omega, by omega⟩
      refine ⟨_, rfl, ⟨a2, a3, a1, a4, a5, a6, b2, b3, b1, b4, hspec', ?_⟩, ?_⟩
      · intro p k hp hk hki
        simp only [g1]
        have := hmono (s.m + ys.length) p v k hp f1 hk f2 hki
        omega
      · simp only [mmu]; omega
  · rename_i e e1
    have ea : (Except.ok a : Except Err _) = Except.error e := ha.symm.trans e1
    cases ea
  · rename_i e e2 _
    have eb : (Except.ok b : Except Err _) = Except.error e := hb.symm.trans e2
    cases eb

/-- **the legacy streamed mapper equals `Spec.mapSpec` for every chunk size ≥ 1** (in-range map with non-decreasing
    valid entries, marker outside the source's row numbers): no out-of-bounds access, no `StopIteration`, the loop ends
    within its fuel. -/
theorem mapValidStreamOld_eq {α} (data : List α) (map_ : List Int) (inv : Int) {cs : Nat} (zero : α) (hcs : 1 ≤ cs)
    (hr : InRange data.length map_ inv) (hmono : ValidMonotone map_ inv)
    (hinv : inv < 0 ∨ (data.length : Int) ≤ inv) :
    ∃ out, mapValidStreamOld data map_ inv cs zero = .ok out ∧ mapSpec data inv zero map_ = some out := by
  have hfirst : ∀ n : Nat, (nextRange 0 n cs).getD (0, 0) = (0, min n cs) := by
    intro n
    by_cases h : 0 < n
    · simp [nextRange, h]
    · have : n = 0 := by omega
      subst this
      simp [nextRange]
  have h0 : MInv data map_ inv cs zero
      { dcur := min data.length cs, dlo := 0, dhi := min data.length cs, mcur := min map_.length cs,
        mhi := min map_.length cs, dfc := slice data 0 (min data.length cs), mfc := slice map_ 0 (min map_.length cs) } :=
    ⟨Nat.zero_le _, by simp only []; omega, rfl, rfl, by simp only []; omega, by simp only []; omega,
     Nat.zero_le _, by simp only []; omega, rfl, rfl, by simp [mapSpec],
     fun p k _ hk hki => by simpa using (hr p k hk hki).1⟩
  obtain ⟨s1, hw1, hS1, hg1⟩ := whileE_rule (fun s : MO α => decide (s.m < map_.length))
    (mapOldBody data map_ inv cs zero) (MInv data map_ inv cs zero) (mmu data map_)
    (fun s hS hg => mapOldBody_step hcs hr hmono hinv hS hg)
    (map_.length + data.length + 1) _ h0 (by simp only [mmu]; omega)
  have hm : s1.m = map_.length := by
    have h1 := hS1.mlh
    have h2 := hS1.mhl
    have : ¬ s1.m < map_.length := by simpa using hg1
    omega
  refine ⟨s1.out, ?_, ?_⟩
  · simp only [mapValidStreamOld, hfirst, hw1]
  · have := hS1.out
    rwa [hm, List.take_length] at this

/-- the refinement named in `Props/C19.lean`: streamed mapper = `map_valid` allocating its own result -/
theorem mapValidStreamOld_eq_mapValid {α} (data : List α) (map_ : List Int) (inv : Int) {cs : Nat} (zero : α) (hcs : 1 ≤ cs)
    (hr : InRange data.length map_ inv) (hmono : ValidMonotone map_ inv)
    (hinv : inv < 0 ∨ (data.length : Int) ≤ inv) :
    mapValidStreamOld data map_ inv cs zero = mapValid data map_ none inv zero := by
  obtain ⟨o1, h1, h2⟩ := mapValidStreamOld_eq data map_ inv zero hcs hr hmono hinv
  obtain ⟨o2, h3, h4⟩ := mapValid_mapSpec data map_ inv zero hr
  rw [h2] at h4
  cases h4
  rw [h1, h3]

end Exetera.JoinOld
