import Driver.Util
import Exetera.Model.Unique
open Lean Exetera Exetera.Unique
/-! JSON driver for C14. Byte strings travel as lower-case hex; `null` is Python `None`. -/
namespace Driver.C14

def hexVal (c : Char) : Option Nat :=
  if '0' ≤ c ∧ c ≤ '9' then some (c.toNat - '0'.toNat)
  else if 'a' ≤ c ∧ c ≤ 'f' then some (c.toNat - 'a'.toNat + 10)
  else none

def unhexL : List Char → Option (List UInt8)
  | [] => some []
  | [_] => none
  | a :: b :: rest => do
    let x ← hexVal a
    let y ← hexVal b
    let r ← unhexL rest
    pure (UInt8.ofNat (16 * x + y) :: r)

def unhex (s : String) : Except String Bytes :=
  match unhexL s.toList with
  | some b => .ok b
  | none => .error s!"bad hex {s}"

def hexDigit (n : Nat) : Char := if n < 10 then Char.ofNat (n + 48) else Char.ofNat (n - 10 + 97)
def hex (b : Bytes) : String := String.ofList (b.flatMap (fun x => [hexDigit (x.toNat / 16), hexDigit (x.toNat % 16)]))

def getHexList (j : Json) (k : String) : Except String (List Bytes) := do
  let xs ← Driver.get? (List String) j k
  xs.mapM unhex

/-- `tests`: `null` or a list whose entries are hex strings or `null` -/
def getTests {α} (dec : Json → Except String α) (j : Json) : Except String (Option (List (Option α))) := do
  let t ← j.getObjVal? "tests"
  match t with
  | .null => pure none
  | .arr xs =>
    let ys ← xs.toList.mapM (fun x => match x with
      | .null => pure none
      | v => do pure (some (← dec v)))
    pure (some ys)
  | _ => throw "tests: expected null or array"

def decHex (v : Json) : Except String Bytes := do unhex (← fromJson? (α := String) v)
def decInt (v : Json) : Except String Int := fromJson? v

def optNats : Option (List Nat) → Json
  | none => Json.null
  | some xs => Driver.nats xs

def bools (xs : List Bool) : Json := Json.arr (xs.map Json.bool).toArray
def hexes (xs : List Bytes) : Json := Json.arr (xs.map (fun b => Json.str (hex b))).toArray

def uniqueJson {α} (f : List α → Json) (r : UniqueResult α) : Json :=
  Json.mkObj [("u", f r.uniques), ("index", optNats r.index), ("inverse", optNats r.inverse), ("counts", optNats r.counts)]

def getFlags (j : Json) : Except String (Bool × Bool × Bool) := do
  let fl ← Driver.get? (List Bool) j "flags"
  match fl with
  | [a, b, c] => pure (a, b, c)
  | _ => throw "flags: expected three booleans"

def handle : Driver.Handler := fun op j =>
  match op with
  | "isin_indexed" => some do
    let col ← getHexList j "col"
    let tests ← getTests decHex j
    let (indices, values) := encode col
    pure <| Driver.outE (fun (r : List Bool) =>
        Json.mkObj [("r", bools r), ("indices", Driver.nats indices), ("values", Json.str (hex values))])
      (applyIsin refNpIsin id (.indexed indices values) tests)
  | "unique_indexed" => some do
    let col ← getHexList j "col"
    let (ri, rv, rc) ← getFlags j
    let (indices, values) := encode col
    pure <| Driver.outE (fun (r : UniqueResult Bytes) =>
        (uniqueJson hexes r).setObjVal! "indices" (Driver.nats indices) |>.setObjVal! "values" (Json.str (hex values)))
      (applyUnique (refNpUnique Spec.bytesLe) id (.indexed indices values) ri rv rc)
  | "isin_plain" => some do
    let kind ← Driver.get? String j "kind"
    if kind == "bytes" then
      let col ← getHexList j "col"
      let tests ← getTests decHex j
      pure <| Driver.outE (fun (r : List Bool) => Json.mkObj [("r", bools r)])
        (applyIsin refNpIsin id (.plain col) tests)
    else
      let col ← Driver.get? (List Int) j "col"
      let tests ← getTests decInt j
      pure <| Driver.outE (fun (r : List Bool) => Json.mkObj [("r", bools r)])
        (applyIsin refNpIsin (fun _ => []) (.plain col) tests)
  | "unique_plain" => some do
    let kind ← Driver.get? String j "kind"
    let (ri, rv, rc) ← getFlags j
    if kind == "bytes" then
      let col ← getHexList j "col"
      pure <| Driver.outE (uniqueJson hexes)
        (applyUnique (refNpUnique Spec.bytesLe) id (.plain col) ri rv rc)
    else
      let col ← Driver.get? (List Int) j "col"
      pure <| Driver.outE (uniqueJson Driver.ints)
        (applyUnique (refNpUnique (fun (a b : Int) => decide (a ≤ b))) (fun _ => 0) (.plain col) ri rv rc)
  | "compare_arrays" => some do
    let a ← unhex (← Driver.get? String j "a")
    let b ← unhex (← Driver.get? String j "b")
    pure <| Driver.outE (fun (c : Int) => toJson c) (compareArrays a b)
  | _ => none

end Driver.C14
