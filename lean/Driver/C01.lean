import Driver.Util
import Exetera.Model.IndexedWriter
open Lean Exetera Exetera.Storage Exetera.IndexedWriter
namespace Driver.C01

def hexDigit (n : Nat) : Char := if n < 10 then Char.ofNat (48 + n) else Char.ofNat (87 + n)

def hex (bs : Bytes) : String :=
  String.ofList (bs.foldr (fun b acc => hexDigit (b.toNat / 16) :: hexDigit (b.toNat % 16) :: acc) [])

def variantOf (j : Json) : Variant :=
  match j.getObjValAs? String "variant" with
  | .ok "asFound" => .asFound
  | _ => .repaired

def readJson : Except Err (List (Option Bytes)) → Json
  | .ok rs => Json.arr (rs.map (fun r => match r with | some b => Json.str (hex b) | none => Json.null)).toArray
  | .error e => Driver.errJson e

def itemJson : Except Err Bytes → Json
  | .ok b => Json.str (hex b)
  | .error e => Driver.errJson e

def pairOf : List Nat → Except String (Nat × Nat)
  | [a, b] => .ok (a, b)
  | _ => .error "slice must be [a,b]"

def readsJson (writeable : Bool) (ix : List Nat) (vals : Bytes) (slices : List (Nat × Nat)) (items : List Nat) : Json :=
  Json.mkObj [
    ("all", readJson (getAll writeable ix vals)),
    ("slices", Json.arr (slices.map (fun p => readJson (getSlice writeable ix vals p.1 p.2))).toArray),
    ("items", Json.arr (items.map (fun i => itemJson (getItem ix vals i))).toArray)]

def kindOf (kind dtype : String) (len : Nat) : Option Kind :=
  match kind with
  | "indexed" => some .indexedString
  | "fixed" => some (.fixedString len)
  | "numeric" => some (.numeric dtype)
  | "categorical" => some (.categorical dtype)
  | "timestamp" => some .timestamp
  | _ => none

def clsName (c : FieldClass) : String := c.name

def intItem (xs : List Int) (i : Nat) : Json :=
  match getE xs i "data[i]" with
  | .ok x => Json.num (JsonNumber.fromInt x)
  | .error e => Driver.errJson e

def handle : Driver.Handler := fun op j =>
  match op with
  | "c01_indexed" => some do
    let c ← Driver.get? Nat j "c"
    let h5 ← Driver.get? Bool j "h5"
    let parts ← Driver.get? (List (List String)) j "parts"
    let slices ← (← Driver.get? (List (List Nat)) j "slices").mapM pairOf
    let items ← Driver.get? (List Nat) j "items"
    let enc : List (List String) → List (List Bytes) := fun ps => ps.map (fun p => p.map (fun s => s.toUTF8.data.toList))
    let bparts : List (List Bytes) := enc parts
    -- optional history: several write_part…complete rounds, with or without a new writer object per round
    let rounds : Option (List (List (List String))) := (j.getObjValAs? (List (List (List String))) "rounds").toOption
    let rewrap : Bool := (j.getObjValAs? Bool "rewrap").toOption.getD false
    let run : Except Err WState := match rounds with
      | some rs => writeRounds (variantOf j) c h5 rewrap (rs.map enc)
      | none => writeField (variantOf j) c h5 bparts
    pure <| Driver.outE (fun (s : WState) =>
      let ix := s.indices.contents
      let vals := s.values.contents
      Json.mkObj [("indices", Driver.nats ix), ("values", Json.str (hex vals)), ("len", toJson (fieldLen ix)),
                  ("staged", Driver.nats [s.valueIndex, s.indexIndex]),
                  ("w", readsJson true ix vals slices items), ("ro", readsJson false ix vals slices items)])
      run
  | "c01_plain" => some do
    let h5 ← Driver.get? Bool j "h5"
    let kind ← Driver.get? String j "kind"
    let dtype ← Driver.get? String j "dtype"
    let parts ← Driver.get? (List (List Int)) j "parts"
    let slices ← (← Driver.get? (List (List Nat)) j "slices").mapM pairOf
    let items ← Driver.get? (List Nat) j "items"
    let v := variantOf j
    let keyRes : Except Err (List Int) ←
      if kind == "categorical" then do
        let kv ← Driver.get? (List Int) j "key_values"
        pure (if h5 then storeKeyValues v dtype kv else .ok kv)
      else pure (.ok [])
    let res : Except Err (List Int × List Int) :=
      match keyRes with
      | .error e => .error e
      | .ok kv =>
        match writeParts v (0 : Int) (Arr.fresh h5) parts with
        | .error e => .error e
        | .ok a => .ok (kv, a.contents)
    pure <| Driver.outE (fun (r : List Int × List Int) =>
      let xs := r.2
      Json.mkObj [("data", Driver.ints xs), ("len", toJson xs.length),
                  ("dtype", Json.str (readDtype v h5 dtype (!parts.isEmpty))),
                  ("key_values", Driver.ints r.1),
                  ("slices", Json.arr (slices.map (fun p => Driver.ints (slice xs p.1 p.2))).toArray),
                  ("items", Json.arr (items.map (intItem xs)).toArray)]) res
  | "c01_dispatch" => some do
    let kind ← Driver.get? String j "kind"
    let dtype ← Driver.get? String j "dtype"
    let len ← Driver.get? Nat j "strlen"
    let some k := kindOf kind dtype len | throw s!"bad kind {kind}"
    pure <| Driver.outE (fun (c : FieldClass) =>
      Json.mkObj [("attr", Json.str k.fieldtypeAttr), ("cls", Json.str (clsName c)), ("created", Json.str (clsName k.cls))])
      (reopenClass k)
  | _ => none

end Driver.C01
