import Exetera.Lemmas.TransformsLeaky
import Exetera.Lemmas.TransformsFixed
/-!
# C06 — schema-typed conversion on import stores the value the text denotes, or flags it

All theorems are about the definitions of `Exetera/Model/Transforms.lean` that the driver runs, against
`Exetera/Spec/Transforms.lean`. `Encodes c cells` is the reader's guarantee (C05) that chunk `c` holds the cells `cells`;
a result `= .ok …` says in addition that no subscript of the kernel left its array and that every loop ended.
`EncodesAll chunks cellss` is an arbitrary chunking: the conclusions only mention `cellss.flatten`, so they are
independent of how the rows were cut into chunks (including empty chunks).
-/
namespace Exetera.Props.C06
open Exetera Exetera.Transforms Exetera.Spec.Transforms

/-! ## categorical columns -/

/-- `categorical_transform` over `get_byte_map`'s packed table, on any chunk: every row gets the value of the one key that
    equals the whole cell, `0` (the buffer's initial value) when there is none — finding NC06d. Keys that are a prefix or a
    suffix of the cell, or of which the cell is a prefix, never match. -/
theorem categorical_exact_match (cats : List (Bytes × Int)) (hnd : (cats.map (·.1)).Nodup) (c : Chunk)
    (cells : List Bytes) (h : Encodes c cells) :
    categoricalTransform (getByteMap cats) c = .ok (cells.map (catCode cats)) := by
  rw [getByteMap, categoricalTransform_packTable _ c cells h]
  congr 1
  apply List.map_congr_left
  intro cell _
  simp only [scanCode, catCode, scanCode_getByteMap cats hnd cell]

/-- the spec's `lookup` really is exact whole-string match: a listed pair is found … -/
theorem lookup_key (cats : List (Bytes × Int)) (hnd : (cats.map (·.1)).Nodup) (k : Bytes) (v : Int) (h : (k, v) ∈ cats) :
    lookup cats k = some v := (lookup_eq_some_iff hnd k v).mpr h

/-- … and any text that is not itself a key (for instance a proper prefix or extension of one) is not -/
theorem lookup_no_partial_match (cats : List (Bytes × Int)) (cell : Bytes) (h : cell ∉ cats.map (·.1)) :
    lookup cats cell = none := by
  rw [lookup_eq_none_iff]
  intro kv hk hc
  exact h (hc ▸ List.mem_map_of_mem hk)

/-- `CategoricalImporter` over any chunking -/
theorem categorical_import (cats : List (Bytes × Int)) (hnd : (cats.map (·.1)).Nodup) (chunks : List Chunk)
    (cellss : List (List Bytes)) (h : EncodesAll chunks cellss) (data : List Int) :
    categoricalImport cats chunks data = .ok (data ++ cellss.flatten.map (catCode cats)) := by
  induction h generalizing data with
  | nil => simp [categoricalImport]
  | cons hc _ ih =>
    rw [categoricalImport, categorical_exact_match cats hnd _ _ hc]
    simp only
    rw [ih]; simp

/- FULL STATEMENT (does not hold, NC06d): `categorical_property` — for every chunking, the import either raises or stores
   `cellss.flatten.map value` where every cell has a value; a cell that is no key is never stored silently.
   What is proved instead: -/
/-- when every cell is a category key, the column holds exactly the keys' values -/
theorem categorical_property_partial (cats : List (Bytes × Int)) (hnd : (cats.map (·.1)).Nodup) (chunks : List Chunk)
    (cellss : List (List Bytes)) (h : EncodesAll chunks cellss)
    (hkeys : ∀ cell ∈ cellss.flatten, cell ∈ cats.map (·.1)) :
    categoricalImport cats chunks [] = .ok (cellss.flatten.map (catCode cats)) ∧
      ∀ cell ∈ cellss.flatten, (cell, catCode cats cell) ∈ cats := by
  refine ⟨by simpa using categorical_import cats hnd chunks cellss h [], ?_⟩
  intro cell hc
  obtain ⟨kv, hk, he⟩ := List.mem_map.mp (hkeys cell hc)
  have := lookup_key cats hnd kv.1 kv.2 hk
  rw [he] at this
  simp only [catCode, this, Option.getD_some]
  rw [← he]; exact hk

/-! ## leaky categorical columns and their free-text companion -/

/-- `LeakyCategoricalImporter` over any chunking: code of the matching key or `-1`; the companion holds the text of
    exactly the unmatched cells, its offsets are the running sums over the whole column (`freetext_index_accumulated`
    carries across chunks), and `indices` has one more entry than `data` (companions aligned). -/
theorem leaky_freetext (cats : List (Bytes × Int)) (hnd : (cats.map (·.1)).Nodup) (chunks : List Chunk)
    (cellss : List (List Bytes)) (h : EncodesAll chunks cellss) :
    leakyImport cats chunks LeakyState.init = .ok (leakyColumn cats cellss.flatten) := by
  have key : ∀ cells, scanColumn (cats.mergeSort (fun a b => bytesLe a.1 b.1)) cells = leakyColumn cats cells := by
    intro cells
    have e1 : scanLeaky (cats.mergeSort (fun a b => bytesLe a.1 b.1)) = leakyCode cats := by
      funext cell; simp only [scanLeaky, leakyCode, scanCode_getByteMap cats hnd cell]
    have e2 : scanFree (cats.mergeSort (fun a b => bytesLe a.1 b.1)) = freeText cats := by
      funext cell; simp only [scanFree, freeText, scanCode_getByteMap cats hnd cell]
    simp only [scanColumn, leakyColumn, e1, e2]
  have gen : ∀ done, leakyImport cats chunks (leakyColumn cats done) = .ok (leakyColumn cats (done ++ cellss.flatten)) := by
    induction h with
    | nil => intro done; simp [leakyImport]
    | cons hc _ ih =>
      intro done
      rw [leakyImport, getByteMap, ← key done, leakyImportPart_spec _ done _ _ hc]
      simp only
      rw [key, ih]; simp
  have := gen []
  simpa [leakyColumn, LeakyState.init, offsets] using this

/-- one chunk of `leaky_categorical_transform` on its own: codes, offsets from 0, free-text bytes -/
theorem leaky_transform_chunk (cats : List (Bytes × Int)) (hnd : (cats.map (·.1)).Nodup) (c : Chunk)
    (cells : List Bytes) (h : Encodes c cells) :
    ∃ pad, leakyTransform (getByteMap cats) c = .ok
      { chunk := cells.map (leakyCode cats)
        ftIdx := offsets 0 (cells.map (fun x => (freeText cats x).length))
        ftVals := (cells.map (freeText cats)).flatten ++ List.replicate pad 0 } := by
  have e1 : scanLeaky (cats.mergeSort (fun a b => bytesLe a.1 b.1)) = leakyCode cats := by
    funext cell; simp only [scanLeaky, leakyCode, scanCode_getByteMap cats hnd cell]
  have e2 : scanFree (cats.mergeSort (fun a b => bytesLe a.1 b.1)) = freeText cats := by
    funext cell; simp only [scanFree, freeText, scanCode_getByteMap cats hnd cell]
  refine ⟨c.cap - ((cells.map (freeText cats)).map List.length).sum, ?_⟩
  rw [getByteMap, leakyTransform_packTable _ c cells h]
  simp only [e1, e2]

/-! ## fixed strings -/

/-- `fixed_string_transform`: each row of the `S<n>` buffer is the first `n` bytes of its cell, zero padded -/
theorem fixed_truncates_to_n (c : Chunk) (n : Nat) (cells : List Bytes) (h : Encodes c cells) :
    fixedStringTransform c n = .ok ((cells.map (fixedCell n)).flatten) :=
  fixedStringTransform_spec c n cells h

theorem fixed_import (n : Nat) (chunks : List Chunk) (cellss : List (List Bytes))
    (h : EncodesAll chunks cellss) (data : Bytes) :
    fixedImport n chunks data = .ok (data ++ (cellss.flatten.map (fixedCell n)).flatten) := by
  induction h generalizing data with
  | nil => simp [fixedImport]
  | cons hc _ ih =>
    rw [fixedImport, fixed_truncates_to_n _ n _ hc]
    simp only
    rw [ih]; simp

/-! ## non-vacuity -/

/-- a chunk as the reader lays it out: the column starts at byte 2 of `column_vals`, three rows `ab`, ``, `abc`, one stale
    index entry, spare capacity -/
def demoChunk : Chunk :=
  { inds := [0, 2, 2, 5, 9], vals := [88, 88, 97, 98, 97, 98, 99, 88, 88], off := 2, cap := 7, rows := 3 }

theorem demo_encodes : Encodes demoChunk [[97, 98], [], [97, 98, 99]] := by
  refine ⟨rfl, 0, ?_, by decide⟩
  simp [EncFrom, demoChunk, slice]

def demoCats : List (Bytes × Int) := [([97, 98, 99], 3), ([97], 1), ([97, 98], 2)]

example : (demoCats.map (·.1)).Nodup := by decide
example : categoricalTransform (getByteMap demoCats) demoChunk = .ok [2, 0, 3] := by
  rw [categorical_exact_match demoCats (by decide) demoChunk _ demo_encodes]; rfl
example : EncodesAll [demoChunk, demoChunk] [[[97, 98], [], [97, 98, 99]], [[97, 98], [], [97, 98, 99]]] :=
  .cons demo_encodes (.cons demo_encodes .nil)
example : leakyImport [([97], 1), ([97, 98, 99], 7)] [demoChunk, demoChunk] LeakyState.init
    = .ok { data := [-1, -1, 7, -1, -1, 7], ftIndices := [0, 2, 2, 2, 4, 4, 4], ftValues := [97, 98, 97, 98], acc := 4 } := by
  rw [leaky_freetext _ (by decide) _ _ (.cons demo_encodes (.cons demo_encodes .nil))]; rfl
example : fixedStringTransform demoChunk 2 = .ok [97, 98, 0, 0, 97, 98] := by
  rw [fixed_truncates_to_n _ 2 _ demo_encodes]; rfl

end Exetera.Props.C06
