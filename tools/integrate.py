#!/usr/bin/env python3
"""Integrate a finished builder branch: merge wip-<Cxx> into /verif main, regenerate roots/manifest, apply its fix patches to
/repo as separate `fix:` commits, rewrite known_findings.json commit fields with the resulting hashes.
usage: tools/integrate.py Cxx [--no-fixes]"""
import json, subprocess, sys, re
from pathlib import Path
V = Path('/verif')
def sh(cmd, cwd=V, check=True):
    p = subprocess.run(cmd, shell=True, cwd=cwd, stdout=subprocess.PIPE, stderr=subprocess.STDOUT, text=True)
    if check and p.returncode != 0:
        print(p.stdout); raise SystemExit(f"FAILED: {cmd}")
    return p.stdout
tag = sys.argv[1]
GEN = ["lean/Exetera.lean", "lean/Driver/Main.lean", "MANIFEST.json", "tools/translate.py"]
out = sh(f"git merge --no-edit wip-{tag}", check=False)
conf = sh("git diff --name-only --diff-filter=U").split()
for f in conf:
    if f in GEN or f.startswith("evidence/") or f.startswith("lean/Exetera/Gen/"):
        sh(f"git checkout --ours -- {f}", check=False); sh(f"git add {f}")
    elif f == "known_findings.json":
        ours = json.loads(sh("git show :2:known_findings.json")); theirs = json.loads(sh("git show :3:known_findings.json"))
        ids = {e['id'] for e in ours['findings']}
        ours['findings'] += [e for e in theirs['findings'] if e['id'] not in ids]
        (V/'known_findings.json').write_text(json.dumps(ours, indent=1)); sh("git add known_findings.json")
    else:
        raise SystemExit(f"unresolved conflict in {f}")
sh("python3 tools/translate.py"); sh("python3 tools/gen_roots.py"); sh("python3 tools/gen_manifest.py")
sh("git add -A"); sh(f"git commit -qm 'Merge {tag} builder branch' --allow-empty")
print("merged", tag)
if '--no-fixes' in sys.argv: sys.exit(0)
fixes = sorted((V/'fixes').glob('*.patch'))
done = json.loads((V/'fixes/applied.json').read_text()) if (V/'fixes/applied.json').exists() else {}
kf = json.loads((V/'known_findings.json').read_text())
for p in fixes:
    if p.name in done: continue
    msg = p.with_suffix('.msg')
    chk = subprocess.run(f"git apply --check {p}", shell=True, cwd='/repo', stdout=subprocess.PIPE, stderr=subprocess.STDOUT, text=True)
    if chk.returncode != 0:
        print("CANNOT APPLY", p.name, chk.stdout[:300]); continue
    sh(f"git apply --index {p}", cwd='/repo')
    sh(f"git commit -q -F {msg}", cwd='/repo')
    h = sh("git rev-parse --short HEAD", cwd='/repo').strip()
    done[p.name] = h
    print("applied", p.name, h)
    for e in kf['findings']:
        c = str(e.get('commit', ''))
        if p.name in c or p.stem.split('_')[0] == e['id'] and e['status'] == 'fixed' and not re.fullmatch(r'[0-9a-f]{7,}', c):
            e['commit'] = h
            e['what'] = re.sub(r'(property=\w+) \S+', lambda m: m.group(1) + ' ' + h, e['what'], count=1) if e['what'].startswith('fixed:') else e['what']
(V/'fixes/applied.json').write_text(json.dumps(done, indent=1))
(V/'known_findings.json').write_text(json.dumps(kf, indent=1))
sh("/venv/bin/python tools/gen_fingerprints.py")
sh("python3 tools/translate.py"); sh("git add -A"); sh(f"git commit -qm 'Apply {tag} fix patches to /repo; record commits' --allow-empty")
