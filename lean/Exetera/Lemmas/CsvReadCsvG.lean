import Exetera.Lemmas.CsvLoopG
import Exetera.Lemmas.CsvReadCsv
/-! `read_csv_with_schema_dict` with regrowth: the budgets it computes are ≥ 1, so `readFile_regrowth` applies (C05). -/
namespace Exetera.Csv
open Exetera Spec

/-- the regrowth bound for the budgets `read_csv_with_schema_dict` starts with (`INDEXED_STRING_FIELD_SIZE * chunk_row_size`
    bytes per column, `2 * chunk_row_size` index rows) -/
def csvRegrowthBound (rows : List (List Cell)) (ncols crs : Nat) : Nat :=
  need (crs * Gen.Csv.CHUNK_ROW_FACTOR) rows.length +
    sumTo (fun c => need (Gen.Csv.INDEXED_STRING_FIELD_SIZE * crs) (colBytes rows c)) ncols

/-- how often `b` can be enlarged before it exceeds `t`: `b * 2 ^ (need b t - 1) ≤ t`, i.e. `need b t ≤ log₂ (t / b) + 1`
    (every regrowth at least doubles) -/
theorem need_pow (t : Nat) : ∀ (n b : Nat), t + 1 - b ≤ n → 0 < need b t → b * 2 ^ (need b t - 1) ≤ t := by
  intro n
  induction n with
  | zero =>
    intro b hn hpos
    rw [need.eq_1] at hpos
    have : ¬ (0 < b ∧ b ≤ t) := by omega
    simp [this] at hpos
  | succ n ih =>
    intro b hn hpos
    by_cases h : 0 < b ∧ b ≤ t
    · have hd := need_double h.1 h.2
      have hg := grow_gt h.1
      by_cases h2 : 0 < need (Gen.Csv.LARGER_FACTOR * b) t
      · have := ih (Gen.Csv.LARGER_FACTOR * b) (by omega) h2
        have e1 : need b t - 1 = (need (Gen.Csv.LARGER_FACTOR * b) t - 1) + 1 := by omega
        rw [e1, Nat.pow_succ]
        calc b * (2 ^ (need (Gen.Csv.LARGER_FACTOR * b) t - 1) * 2)
            = 2 * b * 2 ^ (need (Gen.Csv.LARGER_FACTOR * b) t - 1) := by
              rw [Nat.mul_comm (2 ^ _) 2, ← Nat.mul_assoc, Nat.mul_comm b 2]
          _ ≤ Gen.Csv.LARGER_FACTOR * b * 2 ^ (need (Gen.Csv.LARGER_FACTOR * b) t - 1) := Nat.mul_le_mul_right _ hg
          _ ≤ t := this
      · have e1 : need b t - 1 = 0 := by omega
        rw [e1]; simp; exact h.2
    · rw [need.eq_1] at hpos
      simp [h] at hpos

theorem readCsv_regrowth {file : Bytes} {crs ncols : Nat} {hrow : List Cell} {rows : List (List Cell)}
    (names : List String) (schema : List (String × FieldKind)) (incl excl : Option (List String))
    (hall : ∀ k ∈ names, kindOf schema k = .indexed) (hnames : names.length = ncols)
    (hincl : ∀ l, incl = some l → ∀ k ∈ l, k ∈ names) (hexcl : ∀ l, excl = some l → ∀ k ∈ l, k ∈ names)
    (hisFile : IsFile file (render (hrow :: rows))) (hfile : file ≠ [])
    (hhdr : hrow.length = ncols ∧ ∀ c ∈ hrow, c.WF) (htab : ∀ r ∈ rows, r.length = ncols ∧ ∀ c ∈ r, c.WF)
    (hnc : 0 < ncols) (hcrs : 0 < crs)
    (hreg : ∀ l ∈ hrow :: rows, (renderCells l).length ≤ crs * Gen.Csv.CHUNK_ROW_FACTOR * ncols)
    (fuel : Nat) (hfuel : rows.length + 2 + csvRegrowthBound rows ncols crs ≤ fuel) :
    readCsv file names schema incl excl crs fuel =
      .ok ⟨rows.length, (fieldsToUse names incl excl).map
        (fun k => ⟨k, fieldOf (column (values rows) (names.idxOf k))⟩)⟩ := by
  have hsizes : names.map (fun k => (kindOf schema k).fieldSize) = names.map (fun _ => Gen.Csv.INDEXED_STRING_FIELD_SIZE) := by
    apply List.map_congr_left
    intro k hk
    rw [hall k hk]; rfl
  have hoffs : columnOffsets (names.map (fun k => (kindOf schema k).fieldSize)) crs =
      offsRec crs 0 (names.map (fun _ => Gen.Csv.INDEXED_STRING_FIELD_SIZE)) := by
    rw [hsizes, columnOffsets_eq]
  have hslen : (names.map (fun _ => Gen.Csv.INDEXED_STRING_FIELD_SIZE)).length = ncols := by simp [hnames]
  have hstep : ∀ c, c < ncols →
      offAt (offsRec crs 0 (names.map (fun _ => Gen.Csv.INDEXED_STRING_FIELD_SIZE))) (c + 1) =
        offAt (offsRec crs 0 (names.map (fun _ => Gen.Csv.INDEXED_STRING_FIELD_SIZE))) c +
          Gen.Csv.INDEXED_STRING_FIELD_SIZE * crs := by
    intro c hc
    rw [offsRec_step crs _ 0 c (by omega)]
    have : (names.map (fun _ => Gen.Csv.INDEXED_STRING_FIELD_SIZE)).getD c 0 = Gen.Csv.INDEXED_STRING_FIELD_SIZE := by
      simp [List.getD, List.getElem?_map, List.getElem?_eq_getElem (show c < names.length by omega)]
    rw [this]; rfl
  have huse : ∀ k ∈ fieldsToUse names incl excl, k ∈ names := by
    intro k hk
    unfold fieldsToUse at hk
    cases incl <;> cases excl <;> simp [List.mem_filter] at hk <;> first | exact hk | exact hk.1 | exact hk.1.1
  have st : SettingR file crs ncols ((fieldsToUse names incl excl).map (fun k => names.idxOf k)) hrow rows :=
    { isFile := hisFile, hdr := hhdr, tab := htab, nc := hnc, crsPos := hcrs, reg := hreg
      imOk := by
        intro c hc
        simp only [List.mem_map] at hc
        obtain ⟨k, hk, rfl⟩ := hc
        rw [← hnames]
        exact List.idxOf_lt_length_of_mem (huse k hk) }
  have hpos : 0 < Gen.Csv.INDEXED_STRING_FIELD_SIZE * crs := Nat.mul_pos (by decide) hcrs
  have hbound : regrowthBound rows ncols (offsRec crs 0 (names.map (fun _ => Gen.Csv.INDEXED_STRING_FIELD_SIZE)))
      (crs * Gen.Csv.CHUNK_ROW_FACTOR) = csvRegrowthBound rows ncols crs := by
    unfold regrowthBound csvRegrowthBound
    congr 1
    apply sumTo_congr
    intro c hc
    rw [hstep c hc]
    congr 1
    omega
  obtain ⟨calls, hrf⟩ := readFile_regrowth (offs := offsRec crs 0 (names.map (fun _ => Gen.Csv.INDEXED_STRING_FIELD_SIZE)))
    st hfile (by rw [offsRec_length, hslen]) (offsRec_zero _ _ _)
    (fun c hc => by rw [hstep c hc]; omega) fuel (by rw [hbound]; exact hfuel)
  have himps : (fieldsToUse names incl excl).map (fun k => ({ kind := kindOf schema k } : Imp)) =
      ((fieldsToUse names incl excl).map (fun k => names.idxOf k)).map (fun _ => ({ kind := .indexed } : Imp)) := by
    rw [List.map_map]
    apply List.map_congr_left
    intro k hk
    simp [hall k (huse k hk)]
  have hbi : unknownName names incl = false := by
    cases incl with
    | none => rfl
    | some l => exact any_not_contains_false names l (hincl l rfl)
  have hbe : unknownName names excl = false := by
    cases excl with
    | none => rfl
    | some l => exact any_not_contains_false names l (hexcl l rfl)
  unfold readCsv
  simp only [hbi, hbe, Bool.false_eq_true, if_false, hoffs, himps, hnames, hrf]
  congr 2
  rw [List.map_map]
  exact zip_map_self (fieldsToUse names incl excl) _ (fun k i => (⟨k, i⟩ : Field))

end Exetera.Csv
