import Exetera.Model.Concat
import Exetera.Spec.CsvLine
import Exetera.Lemmas.CsvLine
import Exetera.Lemmas.ConcatBatch
import Exetera.Lemmas.ConcatRoom
/-!
  C16 — span concatenation produces the CSV-joined non-empty entries of each span, whatever the batching.

  All theorems are about `Exetera.Concat.applySpansConcat .repaired` / `Exetera.Concat.kernel` — the definitions the
  driver runs — for every alphabet `α` with decidable equality, every column `entries`, every list of span boundaries
  inside the column (partitions are the special case `0 = b₀ < … < b_k = entries.length`; the theorems do not even
  need monotone boundaries), every `src_chunksize ≥ 1` and every `dest_chunksize`, `chunksize_mult` (the repaired code
  sizes the value buffer itself, fix NC16b).  `= .ok …` carries memory safety (every subscript of the kernel is a
  checked access in the model) and termination (the batch loop is run with fuel `spans.length`).
-/
namespace Exetera.Props.C16

open Exetera Exetera.Concat Exetera.Spec.CsvLine

variable {α : Type} [DecidableEq α]

/-- the column used by the non-vacuity examples: `a`, ``, `b,c`, `d"e`, `é` (bytes) -/
def exEntries : List (List Nat) := [[97], [], [98, 44, 99], [100, 34, 101], [195, 169]]

/-! ### 1. reading a written line back -/

/-- **parse_join_roundtrip.** Reading the CSV line written for `xs` returns `xs` — for every list of entries except the
    single empty string (whose line is the empty line, read as "no fields"; `apply_spans_concat` never writes it because
    it drops empty entries). -/
theorem parse_join_roundtrip (sep delim : α) (hsd : sep ≠ delim) (xs : List (List α)) (hxs : xs ≠ [[]]) :
    parseCsvLine sep delim (joinCsv sep delim xs) = xs := by
  unfold parseCsvLine
  by_cases h : xs = []
  · subst h; simp [joinCsv, joinWith]
  · have hne : joinCsv sep delim xs ≠ [] := by
      intro hnil
      rcases (joinCsv_eq_nil_iff sep delim xs).mp hnil with h1 | h1
      · exact h h1
      · exact hxs h1
    have : (joinCsv sep delim xs).isEmpty = false := by
      cases hj : joinCsv sep delim xs with
      | nil => exact absurd hj hne
      | cons _ _ => rfl
    rw [this]
    exact parseGo_joinWith sep delim hsd xs h

example : parseCsvLine (44 : Nat) 34 (joinCsv 44 34 exEntries) = exEntries ∧ (44 : Nat) ≠ 34 ∧ exEntries ≠ [[]]
    ∧ joinCsv (44 : Nat) 34 exEntries = [97, 44, 44, 34, 98, 44, 99, 34, 44, 34, 100, 34, 34, 101, 34, 44, 195, 169] := by
  decide

/-- every output string of the specification reads back as the non-empty strings of its span -/
theorem parse_spanOut (sep delim : α) (hsd : sep ≠ delim) (entries : List (List α)) (a b : Nat) :
    parseCsvLine sep delim (spanOut sep delim entries a b) = nonEmpty (slice entries a b) := by
  apply parse_join_roundtrip sep delim hsd
  intro h
  have : ([] : List α) ∈ nonEmpty (slice entries a b) := by rw [h]; simp
  simp [nonEmpty] at this

example : parseCsvLine (44 : Nat) 34 (spanOut 44 34 exEntries 1 4) = [[98, 44, 99], [100, 34, 101]] := by decide

/-! ### 2. the kernel -/

/-- **kernel_eq_spec.** `_apply_spans_concat_2`, called on the index/value arrays of a column with `sp_start` inside
    the span list, limits within the buffers (`max_index_i ≤ len(dest_index)`, room for `dest_index[0]` in the first
    batch) and a value buffer that still has room for one span output of length `≤ M` when the value limit has not been
    reached (`max_value_i - 1 + M ≤ len(dest_values)`): it performs no out-of-range access, handles `k ≥ 1` spans and
    returns `sp_start + k` together with exactly the running offsets (shifted by `dest_start_v`) and the bytes of the
    outputs of the spans `sp_start … sp_start + k - 1`. -/
theorem kernel_eq_spec (P : Params α) (entries : List (List α))
    (hidx : P.idx = offsets entries) (hvals : P.vals = entries.flatten) (hbound : ∀ p ∈ P.spans, p ≤ entries.length)
    (M : Nat) (hM : ∀ o ∈ concatSpec P.sep P.delim entries P.spans, o.length ≤ M)
    (hI : P.maxI ≤ P.capI) (hMV : M ≤ P.capV) (hV : P.maxV - 1 + M ≤ P.capV)
    (spStart : Nat) (hs : spStart < P.spans.length - 1) (hci : (if spStart = 0 then 1 else 0) < P.capI) :
    ∃ k, 0 < k ∧ spStart + k ≤ P.spans.length - 1 ∧
      kernel P spStart = .ok (spStart + k,
        ⟨(if spStart = 0 then [P.index0] else []) ++ offsetsFrom P.destStartV
            (((concatSpec P.sep P.delim entries P.spans).drop spStart).take k),
         (((concatSpec P.sep P.delim entries P.spans).drop spStart).take k).flatten⟩) :=
  kernel_spec P entries ⟨hidx, hvals, hbound⟩ M hM hI hMV hV spStart hs hci

/-- a second batch (`sp_start = 1`, `dest_start_v = 1`) that stops on the index budget after two of three spans -/
def exParams : Params Nat :=
  { spans := [0, 1, 2, 4, 5], idx := offsets exEntries, vals := exEntries.flatten, sep := 44, delim := 34,
    capI := 2, capV := 24, maxI := 2, maxV := 12, destStartV := 1 }

example : (∀ p ∈ exParams.spans, p ≤ exEntries.length) ∧
    (∀ o ∈ concatSpec exParams.sep exParams.delim exEntries exParams.spans, o.length ≤ 12) ∧
    exParams.maxI ≤ exParams.capI ∧ exParams.maxV - 1 + 12 ≤ exParams.capV ∧ 1 < exParams.spans.length - 1 ∧
    kernel exParams 1 = .ok (3, ⟨[1, 13], [34, 98, 44, 99, 34, 44, 34, 100, 34, 34, 101, 34]⟩) := by decide

/-! ### 3. the whole operation -/

/-- **batches_eq_spec_room.** The batch loop, run with a value buffer of `V` bytes, equals the specification under the
    exact room condition: every span output has at most `M` bytes, `M ≤ V` and `V/2 - 1 + M ≤ V` (a batch continues
    only while fewer than `V/2` bytes are written, so the next span finds at least `V - (V/2 - 1)` free bytes; the first
    span of a batch finds `V`). For every column, every list of span boundaries inside it and every `src_chunksize ≥ 1`
    the loop terminates without an out-of-range access, having stored exactly the offsets and the bytes of `concatSpec`.
    (Without the room condition this is false — `Witness.C16.room_hypothesis_needed`; that was finding NC16b.) -/
theorem batches_eq_spec_room (sep delim : α) (entries : List (List α)) (spans : List Nat) (srcChunk valueCap : Nat)
    (hbound : ∀ p ∈ spans, p ≤ entries.length) (hsc : 1 ≤ srcChunk) (M : Nat)
    (hM : ∀ o ∈ concatSpec sep delim entries spans, o.length ≤ M)
    (hMV : M ≤ valueCap) (hV : valueCap / 2 - 1 + M ≤ valueCap) :
    ∃ st, runBatches .repaired sep delim spans (offsets entries) entries.flatten srcChunk valueCap = .ok st ∧
      st.dest = ⟨storedIndices (concatSpec sep delim entries spans), (concatSpec sep delim entries spans).flatten⟩ :=
  runBatches_spec sep delim spans entries srcChunk valueCap hbound hsc M hM hMV hV

/-- longest output 12 bytes, buffer 21 (`21/2 = 10 < 12`, but `10 - 1 + 12 ≤ 21`) -/
example : (∀ o ∈ concatSpec (44 : Nat) 34 exEntries [0, 1, 4, 5], o.length ≤ 12) ∧ 12 ≤ 21 ∧ 21 / 2 - 1 + 12 ≤ 21 ∧
    (runBatches .repaired (44 : Nat) 34 [0, 1, 4, 5] (offsets exEntries) exEntries.flatten 2 21).map (·.dest)
      = .ok ⟨[0, 1, 13, 15], [97, 34, 98, 44, 99, 34, 44, 34, 100, 34, 34, 101, 34, 195, 169]⟩ := by decide

/-- **value_buffer_sized.** The sizing step of the repaired operation never fails for span boundaries inside the column,
    never shrinks the requested buffer, and leaves every span output at most half the buffer. -/
theorem value_buffer_sized (sep delim : α) (entries : List (List α)) (spans : List Nat) (destChunk mult : Nat)
    (hbound : ∀ p ∈ spans, p ≤ entries.length) :
    ∃ cap, valueCap .repaired spans (offsets entries) destChunk mult = .ok cap ∧ destChunk * mult ≤ cap ∧
      ∀ o ∈ concatSpec sep delim entries spans, o.length ≤ cap / 2 :=
  valueCap_spec sep delim entries spans destChunk mult hbound

/-- requested buffer 2·2 = 4 bytes, longest span bound 2·6 + 3·3 = 21: the buffer is grown to 42 -/
example : valueCap .repaired [0, 1, 4, 5] (offsets exEntries) 2 2 = .ok 42 ∧
    (∀ o ∈ concatSpec (44 : Nat) 34 exEntries [0, 1, 4, 5], o.length ≤ 42 / 2) := by decide

/-- **concat_eq_spec.** For every column, every list of span boundaries inside it, every `src_chunksize ≥ 1` and every
    `dest_chunksize`, `chunksize_mult`: `Session.apply_spans_concat` (with the D25, NC16a and NC16b repairs) terminates
    without an out-of-range access and leaves in `dest.indices` / `dest.values` exactly the offsets and the bytes of
    `concatSpec` — one CSV line of the non-empty entries per span. -/
theorem concat_eq_spec (sep delim : α) (entries : List (List α)) (spans : List Nat) (srcChunk destChunk mult : Nat)
    (hbound : ∀ p ∈ spans, p ≤ entries.length) (hsc : 1 ≤ srcChunk) :
    applySpansConcat .repaired sep delim spans (offsets entries) entries.flatten srcChunk destChunk mult
      = .ok ⟨storedIndices (concatSpec sep delim entries spans), (concatSpec sep delim entries spans).flatten⟩ := by
  obtain ⟨cap, hcap, _, hroom⟩ := valueCap_spec sep delim entries spans destChunk mult hbound
  obtain ⟨st, hrun, hdest⟩ := runBatches_spec sep delim spans entries srcChunk cap hbound hsc (cap / 2) hroom
    (by omega) (by omega)
  simp only [applySpansConcat, applySpansConcatS, hcap, hrun, hdest]

/-- two batches (`src_chunksize = 1`: one span, then two); requested value buffer of 1 byte (grown by the sizing step) -/
example : (∀ p ∈ [0, 1, 4, 5], p ≤ exEntries.length) ∧
    applySpansConcat .repaired (44 : Nat) 34 [0, 1, 4, 5] (offsets exEntries) exEntries.flatten 1 1 1
      = .ok ⟨[0, 1, 13, 15], [97, 34, 98, 44, 99, 34, 44, 34, 100, 34, 34, 101, 34, 195, 169]⟩ ∧
    (applySpansConcatS .repaired (44 : Nat) 34 [0, 1, 4, 5] (offsets exEntries) exEntries.flatten 1 1 1).map (·.calls)
      = .ok 2 := by decide

/-- the strings read from the stored (indices, values) pair are the span outputs (at least one span) -/
theorem concat_strings (sep delim : α) (entries : List (List α)) (spans : List Nat) (srcChunk destChunk mult : Nat)
    (hbound : ∀ p ∈ spans, p ≤ entries.length) (hsc : 1 ≤ srcChunk) (hsp : 2 ≤ spans.length) :
    ∃ d, applySpansConcat .repaired sep delim spans (offsets entries) entries.flatten srcChunk destChunk mult = .ok d ∧
      decode d.indices d.values = concatSpec sep delim entries spans := by
  refine ⟨_, concat_eq_spec sep delim entries spans srcChunk destChunk mult hbound hsc, ?_⟩
  have hlen := concatSpec_length sep delim entries spans
  have : (concatSpec sep delim entries spans).isEmpty = false := by
    cases h : concatSpec sep delim entries spans with
    | nil => rw [h] at hlen; simp at hlen; omega
    | cons _ _ => rfl
  simp only [storedIndices, this]
  exact decode_offsets _

example : decode [0, 1, 13, 15] [97, 34, 98, 44, 99, 34, 44, 34, 100, 34, 34, 101, 34, 195, 169]
    = concatSpec (44 : Nat) 34 exEntries [0, 1, 4, 5] := by decide

/-- every stored string, read as a CSV line, gives back the non-empty strings of its span -/
theorem stored_entries_parse (sep delim : α) (hsd : sep ≠ delim) (entries : List (List α)) (spans : List Nat) :
    (concatSpec sep delim entries spans).map (parseCsvLine sep delim)
      = (spanPairs spans).map (fun p => nonEmpty (slice entries p.1 p.2)) := by
  simp only [concatSpec, List.map_map]
  apply List.map_congr_left
  intro p _
  exact parse_spanOut sep delim hsd entries p.1 p.2

example : (concatSpec (44 : Nat) 34 exEntries [0, 1, 4, 5]).map (parseCsvLine 44 34)
    = [[[97]], [[98, 44, 99], [100, 34, 101]], [[195, 169]]] := by decide

/-- **batching_unobservable.** Any two batch settings give the same stored offsets and bytes. -/
theorem batching_unobservable (sep delim : α) (entries : List (List α)) (spans : List Nat)
    (sc₁ dc₁ m₁ sc₂ dc₂ m₂ : Nat) (hbound : ∀ p ∈ spans, p ≤ entries.length) (h₁ : 1 ≤ sc₁) (h₂ : 1 ≤ sc₂) :
    applySpansConcat .repaired sep delim spans (offsets entries) entries.flatten sc₁ dc₁ m₁
      = applySpansConcat .repaired sep delim spans (offsets entries) entries.flatten sc₂ dc₂ m₂ := by
  rw [concat_eq_spec sep delim entries spans sc₁ dc₁ m₁ hbound h₁,
      concat_eq_spec sep delim entries spans sc₂ dc₂ m₂ hbound h₂]

/-- one batch (`src_chunksize = 50`, large buffer) and two batches (`src_chunksize = 1`) -/
example : applySpansConcat .repaired (44 : Nat) 34 [0, 1, 4, 5] (offsets exEntries) exEntries.flatten 50 64 16
    = applySpansConcat .repaired (44 : Nat) 34 [0, 1, 4, 5] (offsets exEntries) exEntries.flatten 1 6 4 ∧
    (applySpansConcatS .repaired (44 : Nat) 34 [0, 1, 4, 5] (offsets exEntries) exEntries.flatten 50 64 16).map (·.calls)
      = .ok 1 ∧
    (applySpansConcatS .repaired (44 : Nat) 34 [0, 1, 4, 5] (offsets exEntries) exEntries.flatten 1 6 4).map (·.calls)
      = .ok 2 := by decide

/-- the operation terminates: the batch loop is run with fuel `spans.length` (one kernel call per span at most) and
    never runs out of it -/
theorem concat_terminates (sep delim : α) (entries : List (List α)) (spans : List Nat) (srcChunk destChunk mult : Nat)
    (hbound : ∀ p ∈ spans, p ≤ entries.length) (hsc : 1 ≤ srcChunk) :
    ∃ st, applySpansConcatS .repaired sep delim spans (offsets entries) entries.flatten srcChunk destChunk mult = .ok st := by
  obtain ⟨cap, hcap, _, hroom⟩ := valueCap_spec sep delim entries spans destChunk mult hbound
  obtain ⟨st, hrun, _⟩ := runBatches_spec sep delim spans entries srcChunk cap hbound hsc (cap / 2) hroom
    (by omega) (by omega)
  exact ⟨st, by simp only [applySpansConcatS, hcap, hrun]⟩

example : (applySpansConcatS .repaired (44 : Nat) 34 [0, 1, 4, 5] (offsets exEntries) exEntries.flatten 2 0 0).map (·.calls)
    = .ok 2 := by decide

end Exetera.Props.C16
