import Exetera.Props.C09
/-!
# C09 — the SORT clause as one statement

`Props.C09` proves the pieces: `frame_sort_is_index_all_keys` (sort = `apply_index p` for THE stable sort permutation `p`),
`frame_index_inplace` / `frame_index_into` (what `apply_index` does to a frame), `permutation_preserves_rows` (re-indexing by a
permutation is defined and keeps the multiset of entries), `source_untouched`. `frame_sort_correct` composes them, so that the
property's sentence for `sort_values` is one kernel-checked statement. Nothing here is stronger than those theorems.
-/
namespace Exetera.Props.C09
open Exetera Exetera.FilterIndex Exetera.Spec

/-- the column whose row `j` is row `p[j]` of the given column -/
def permuteCol (p : List Nat) : Column → Column
  | .nums xs => .nums (gatherNat xs p)
  | .strs es => .strs (gatherNat es p)

/-- every column re-ordered by the SAME list of row numbers `p` (names, order, metadata kept): row `j` of the result is,
    in every column, row `p[j]` of the source — rows stay intact -/
def permuteCols {μ} (p : List Nat) (cols : List (ColSpec μ)) : List (ColSpec μ) :=
  cols.map (fun c => { c with content := permuteCol p c.content })

/-- the entries of a column re-ordered by `p` are the column's entries, each as often as before -/
def SameEntries (p : List Nat) : Column → Prop
  | .nums xs => (gatherNat xs p).Perm xs
  | .strs es => (gatherNat es p).Perm es

/-- `permutation_preserves_rows` names its result: for a permutation `p` of the row numbers it is `gatherNat xs p` -/
theorem gather_perm_eq {α} (xs : List α) (p : List Nat) (hp : p.Perm (List.range xs.length)) :
    gather xs (p.map (fun (k : Nat) => (k : Int))) = some (gatherNat xs p) ∧ (gatherNat xs p).Perm xs := by
  obtain ⟨r, hr, hperm⟩ := permutation_preserves_rows xs p hp
  have hg : ∀ (q : List Nat) (s : List α), (∀ k ∈ q, k < xs.length) →
      gather xs (q.map (fun (k : Nat) => (k : Int))) = some s → s = gatherNat xs q := by
    intro q
    induction q with
    | nil => intro s _ h; simp [gather] at h; subst h; rfl
    | cons k q ih =>
      intro s hq h
      have hk : k < xs.length := hq k (by simp)
      simp only [List.map_cons, gather] at h
      split at h
      · rename_i x r' hx hr'
        simp only [Option.some.injEq] at h
        subst h
        have hx' : x = xs[k] := by
          unfold rowAt at hx
          have hw : wrapIdx xs.length (k : Int) = some k := by
            rw [← normIdx_eq_wrapIdx]; exact normIdx_natCast hk
          simp only [hw, List.getElem?_eq_getElem hk, Option.some.injEq] at hx
          exact hx.symm
        rw [ih r' (fun k' hk' => hq k' (by simp [hk'])) hr', hx']
        simp [gatherNat, List.getElem?_eq_getElem hk]
      · simp at h
  have := hg p r (fun k hk => List.mem_range.mp (hp.subset hk)) hr
  subst this
  exact ⟨hr, hperm⟩

theorem mapCols_gather_perm {μ} (cols : List (ColSpec μ)) (n : Nat) (hrect : ∀ c ∈ cols, c.content.length = n)
    (p : List Nat) (hp : p.Perm (List.range n)) :
    mapCols (Column.gather (p.map (fun (k : Nat) => (k : Int)))) cols = some (permuteCols p cols) ∧
      ∀ c ∈ cols, SameEntries p c.content := by
  induction cols with
  | nil => exact ⟨rfl, fun _ h => by simp at h⟩
  | cons c cs ih =>
    obtain ⟨h1, h2⟩ := ih (fun c' hc' => hrect c' (by simp [hc']))
    have hc := hrect c (by simp)
    have hhead : Column.gather (p.map (fun (k : Nat) => (k : Int))) c.content = some (permuteCol p c.content) ∧
        SameEntries p c.content := by
      cases hcc : c.content with
      | nums xs =>
        rw [hcc] at hc
        have := gather_perm_eq xs p (by rw [show xs.length = n from hc]; exact hp)
        exact ⟨by simp [Column.gather, permuteCol, this.1], this.2⟩
      | strs es =>
        rw [hcc] at hc
        have := gather_perm_eq es p (by rw [show es.length = n from hc]; exact hp)
        exact ⟨by simp [Column.gather, permuteCol, this.1], this.2⟩
    refine ⟨?_, ?_⟩
    · simp only [mapCols, hhead.1, h1, permuteCols, List.map_cons]
    · intro c' hc'
      rcases List.mem_cons.mp hc' with rfl | hc'
      · exact hhead.2
      · exact h2 c' hc'

/-- **C09, sort.** `df.sort_values(by, ddf)` (code with the fix patches applied) on a well-formed frame: the store holds the
    frame `sf` under `src`, `sf` holds the columns `cols` (`Holds`), all of `n` rows, and `by` (not empty) names key columns
    of any mix of kinds (`keyColsAll cols by = some keys`). Then there is ONE list of row numbers `p` such that

    * `p` holds every row `0..n-1` once, in non-decreasing lexicographic order of the key tuples (as numpy sees the keys:
      `KeyCol.numpyView`, trailing NULs of string keys dropped — NC09g), rows with equal tuples in their original order
      (`IsStableSortPermK`: ascending, stable), and it is the only such list;
    * every column of the source, re-ordered by `p`, holds the entries it held, each as often (`SameEntries`);
    * IN PLACE (hypothesis: every field of `sf` writeable): the call returns `.ok`, the store differs only in `src`, whose
      frame now holds `permuteCols p cols` — same names, order and metadata, and in EVERY column row `j` is the source's row
      `p[j]`, so rows are intact and the rows of the result are a permutation of the source's rows;
    * INTO a destination `d` holding `df` (hypothesis `Fresh sf df`: the source's column names are distinct and none exists
      in `df`): the call returns `.ok`, the store differs only in `d` (so for `d ≠ src` the source frame is unchanged),
      whose frame is `df` followed by new writeable columns holding `permuteCols p cols`.

    Composition of `frame_sort_is_index_all_keys`, `frame_index_inplace`, `frame_index_into`, `permutation_preserves_rows`
    and `source_untouched`; for the bytewise order of the stored strings add `NoTrailingNul` as in
    `frame_sort_is_index_all_keys_partial`. -/
theorem frame_sort_correct (st : Store) (src : String) (sf : Frame) (cols : List (ColSpec Meta))
    (hs : st.lookup src = some sf) (hh : Holds sf cols) (n : Nat) (hrect : ∀ c ∈ cols, c.content.length = n)
    (by_ : List String) (hne : by_ ≠ []) (keys : List KeyCol) (hk : keyColsAll cols by_ = some keys) :
    ∃ p : List Nat,
      (IsStableSortPermK (keys.map KeyCol.numpyView) n p ∧
        ∀ q, IsStableSortPermK (keys.map KeyCol.numpyView) n q → q = p) ∧
      (∀ c ∈ cols, SameEntries p c.content) ∧
      (AllWriteable sf → ∃ rf, dfSortValues .repaired st src by_ none = .ok (st.put src rf) ∧
        Holds rf (permuteCols p cols) ∧ AllWriteable rf ∧
        ∀ k, k ≠ src → (st.put src rf).lookup k = st.lookup k) ∧
      (∀ d df, st.lookup d = some df → Fresh sf df →
        ∃ rf, dfSortValues .repaired st src by_ (some d) = .ok (st.put d (df ++ rf)) ∧
          Holds rf (permuteCols p cols) ∧ AllWriteable rf ∧
          ∀ k, k ≠ d → (st.put d (df ++ rf)).lookup k = st.lookup k) := by
  obtain ⟨p, _, hp, hu⟩ := frame_sort_is_index_all_keys .repaired st src sf cols hs hh n hrect by_ hne keys hk none
  obtain ⟨hm, hsame⟩ := mapCols_gather_perm cols n hrect p hp.1
  refine ⟨p, ⟨hp, hu⟩, hsame, ?_, ?_⟩
  · intro hw
    obtain ⟨p', he, _, hu'⟩ :=
      frame_sort_is_index_all_keys .repaired st src sf cols hs hh n hrect by_ hne keys hk none
    have hpp : p = p' := hu' p hp
    subst hpp
    obtain ⟨rf, hr, hH, hW⟩ := frame_index_inplace st src sf cols _ n _ hs hh hw hrect hm
    refine ⟨rf, he.trans hr, hH, hW, ?_⟩
    intro k hk'
    exact (source_untouched .repaired st (st.put src rf) src none k (by simpa using hk')).2.2 by_ (he.trans hr)
  · intro d df hd hf
    obtain ⟨p', he, _, hu'⟩ :=
      frame_sort_is_index_all_keys .repaired st src sf cols hs hh n hrect by_ hne keys hk (some d)
    have hpp : p = p' := hu' p hp
    subst hpp
    obtain ⟨rf, hr, hH, hW⟩ := frame_index_into st src d sf df cols _ _ hs hd hh hf hm
    refine ⟨rf, he.trans hr, hH, hW, ?_⟩
    intro k hk'
    exact (source_untouched .repaired st (st.put d (df ++ rf)) src (some d) k (by simpa using hk')).2.2 by_ (he.trans hr)

/-- non-vacuity: the two-column frame of `Props.C09` (strings ["a","","cc"], numbers [5,6,7]) sorted by its string column,
    in place and into the empty frame `d0` — every hypothesis of `frame_sort_correct` holds -/
example : ∃ p : List Nat,
    (IsStableSortPermK ([KeyCol.strs [[97], [], [99, 99]]].map KeyCol.numpyView) 3 p ∧
      ∀ q, IsStableSortPermK ([KeyCol.strs [[97], [], [99, 99]]].map KeyCol.numpyView) 3 q → q = p) ∧
    (∀ c ∈ exCols, SameEntries p c.content) ∧
    (AllWriteable exFrame → ∃ rf, dfSortValues .repaired [("src", exFrame), ("d0", [])] "src" ["s"] none =
        .ok (Store.put [("src", exFrame), ("d0", [])] "src" rf) ∧
      Holds rf (permuteCols p exCols) ∧ AllWriteable rf ∧
      ∀ k, k ≠ "src" → (Store.put [("src", exFrame), ("d0", [])] "src" rf).lookup k =
        List.lookup k [("src", exFrame), ("d0", [])]) ∧
    (∀ d df, List.lookup d [("src", exFrame), ("d0", [])] = some df → Fresh exFrame df →
      ∃ rf, dfSortValues .repaired [("src", exFrame), ("d0", [])] "src" ["s"] (some d) =
          .ok (Store.put [("src", exFrame), ("d0", [])] d (df ++ rf)) ∧
        Holds rf (permuteCols p exCols) ∧ AllWriteable rf ∧
        ∀ k, k ≠ d → (Store.put [("src", exFrame), ("d0", [])] d (df ++ rf)).lookup k =
          List.lookup k [("src", exFrame), ("d0", [])]) :=
  frame_sort_correct [("src", exFrame), ("d0", [])] "src" exFrame exCols rfl exHolds 3
    (by intro c hc; simp only [exCols, List.mem_cons, List.not_mem_nil, or_false] at hc; rcases hc with rfl | rfl <;> rfl)
    ["s"] (by simp) [.strs [[97], [], [99, 99]]] rfl

/-- the hypotheses of the two branches are satisfiable on that frame: it is writeable, and `Fresh` against the empty `d0` -/
example : AllWriteable exFrame ∧ List.lookup "d0" [("src", exFrame), ("d0", ([] : Frame))] = some [] ∧ Fresh exFrame [] :=
  ⟨exWriteable, rfl, by decide, by intro p _; rfl⟩

/-- what `permuteCols` is on that frame for the sort permutation `[1, 0, 2]` ("" < "a" < "cc") -/
example : permuteCols [1, 0, 2] exCols =
    [{ name := "s", info := exInfoS, content := .strs [[], [97], [99, 99]] },
     { name := "n", info := exInfoN, content := .nums [6, 5, 7] }] := rfl

end Exetera.Props.C09
