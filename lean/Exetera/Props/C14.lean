import Exetera.Model.Unique
import Exetera.Spec.Unique
namespace Exetera.Props.C14
end Exetera.Props.C14
