import Exetera.Model.Spans
import Exetera.Spec.Spans
/-! Helper lemmas for C08, part 2: the `apply_spans_*` kernels against the per-span reductions of the Spec. -/
namespace Exetera.Spans

open Exetera Exetera.Spec

/-! ### well-formed spans as pairs -/

@[simp] theorem pairs_cons_cons (a b : Nat) (rest : List Nat) : pairs (a :: b :: rest) = (a, b) :: pairs (b :: rest) := rfl
@[simp] theorem pairs_nil : pairs [] = [] := rfl
@[simp] theorem pairs_single (a : Nat) : pairs [a] = [] := rfl

theorem pairs_length (sp : List Nat) : (pairs sp).length = sp.length - 1 := by
  unfold pairs; simp [List.length_zip]

theorem pairs_lt : ∀ (sp : List Nat), sp.Pairwise (· < ·) → ∀ p ∈ pairs sp, p.1 < p.2 ∧ p.2 ∈ sp
  | [], _, p, hp => by simp at hp
  | [_], _, p, hp => by simp at hp
  | a :: b :: rest, h, p, hp => by
    rw [pairs_cons_cons, List.mem_cons] at hp
    rw [List.pairwise_cons] at h
    rcases hp with rfl | hp
    · exact ⟨h.1 b (by simp), by simp⟩
    · have := pairs_lt (b :: rest) h.2 p hp
      exact ⟨this.1, List.mem_cons_of_mem _ this.2⟩

theorem le_getLast_of_pairwise : ∀ (sp : List Nat) (n : Nat), sp.Pairwise (· < ·) → sp.getLast? = some n →
    ∀ x ∈ sp, x ≤ n
  | [], _, _, h, _, _ => by simp at h
  | [a], n, _, h, x, hx => by simp at h hx; omega
  | a :: b :: rest, n, hp, h, x, hx => by
    rw [List.pairwise_cons] at hp
    have hl : (b :: rest).getLast? = some n := by simpa [List.getLast?_cons_cons] using h
    have ih := le_getLast_of_pairwise (b :: rest) n hp.2 hl
    rcases List.mem_cons.1 hx with rfl | hx
    · have := hp.1 b (by simp); have := ih b (by simp); omega
    · exact ih x hx

/-- every span of a well-formed span array is non-empty and inside the column -/
theorem pairs_wellformed {sp : List Nat} {n : Nat} (h : Wellformed sp n) : ∀ p ∈ pairs sp, p.1 < p.2 ∧ p.2 ≤ n := by
  intro p hp
  have := pairs_lt sp h.1 p hp
  exact ⟨this.1, le_getLast_of_pairwise sp n h.1 h.2.2 _ this.2⟩

theorem wellformed_ne_nil {sp : List Nat} {n : Nat} (h : Wellformed sp n) : sp.isEmpty = false := by
  cases sp with
  | nil => simp [Wellformed] at h
  | cons a t => rfl

/-! ### the span loop -/

theorem forPairs_spec {β} (f : Nat → Nat → Except Err β) (h : Nat × Nat → Option β) :
    ∀ sp : List Nat, (∀ p ∈ pairs sp, ∃ v, f p.1 p.2 = .ok v ∧ h p = some v) →
      ∃ r, forPairs f sp = .ok r ∧ r.map some = (pairs sp).map h
  | [], _ => ⟨[], rfl, rfl⟩
  | [_], _ => ⟨[], rfl, rfl⟩
  | a :: b :: rest, hyp => by
    obtain ⟨v, hv, hh⟩ := hyp (a, b) (by simp)
    obtain ⟨r, hr, hm⟩ := forPairs_spec f h (b :: rest) (fun p hp => hyp p (by simp [hp]))
    refine ⟨v :: r, ?_, ?_⟩
    · simp only [forPairs]
      simp only [] at hv
      rw [hv, hr]; rfl
    · simp [hm, hh]

theorem forSpans_spec {β} (f : Nat → Nat → Except Err β) (h : Nat × Nat → Option β) (sp : List Nat)
    (hne : sp.isEmpty = false) (hyp : ∀ p ∈ pairs sp, ∃ v, f p.1 p.2 = .ok v ∧ h p = some v) :
    ∃ r, forSpans f sp = .ok r ∧ r.map some = (pairs sp).map h := by
  unfold forSpans
  simp only [hne, Bool.false_eq_true, if_false]
  exact forPairs_spec f h sp hyp

/-- total version: when the per-span function cannot fail -/
theorem forPairs_total {β} (g : Nat → Nat → β) :
    ∀ sp : List Nat, forPairs (fun c n => .ok (g c n)) sp = .ok ((pairs sp).map (fun p => g p.1 p.2))
  | [] => rfl
  | [_] => rfl
  | a :: b :: rest => by
    simp only [forPairs, forPairs_total g (b :: rest), consE_ok, pairs_cons_cons, List.map_cons]

/-! ### slices -/

theorem slice_cons {α} (src : List α) (a b : Nat) (ha : a < src.length) (hab : a < b) :
    slice src a b = src[a] :: slice src (a + 1) b := by
  unfold slice
  rw [List.drop_eq_getElem_cons ha]
  have : b - a = (b - (a + 1)) + 1 := by omega
  rw [this, List.take_succ_cons]

theorem slice_self {α} (src : List α) (a : Nat) : slice src a a = [] := by
  unfold slice; simp

theorem slice_length_of_le {α} (src : List α) (a b : Nat) (h : b ≤ src.length) : (slice src a b).length = b - a := by
  rw [slice_length]; omega

theorem slice_head? {α} (src : List α) (a b : Nat) (hab : a < b) : (slice src a b).head? = src[a]? := by
  unfold slice
  rw [List.head?_take, List.head?_drop]
  have : ¬ b - a = 0 := by omega
  simp [this]

theorem slice_getLast? {α} (src : List α) (a b : Nat) (hab : a < b) (hb : b ≤ src.length) :
    (slice src a b).getLast? = src[b - 1]? := by
  rw [List.getLast?_eq_getElem?, slice_length_of_le src a b hb]
  unfold slice
  rw [List.getElem?_take, List.getElem?_drop]
  have : b - a - 1 < b - a := by omega
  simp only [this, if_true]
  congr 1; omega

/-! ### min / max -/

theorem ite_lt_eq_min (v m : Int) : (if v < m then v else m) = min m v := by
  rw [Int.min_def]; split <;> split <;> omega

theorem ite_gt_eq_max (v m : Int) : (if v > m then v else m) = max m v := by
  rw [Int.max_def]; split <;> split <;> omega

theorem minLoop_eq (src : List Int) : ∀ (k idx : Nat) (m : Int), idx + k ≤ src.length →
    minLoop src k idx m = .ok ((slice src idx (idx + k)).foldl min m)
  | 0, idx, m, _ => by simp [minLoop, slice_self]
  | k + 1, idx, m, h => by
    have hi : idx < src.length := by omega
    rw [minLoop, getE_of_lt _ hi]
    simp only []
    rw [minLoop_eq src k (idx + 1) _ (by omega), slice_cons src idx (idx + (k + 1)) hi (by omega)]
    rw [List.foldl_cons, ite_lt_eq_min]
    congr 3; omega

theorem maxLoop_eq (src : List Int) : ∀ (k idx : Nat) (m : Int), idx + k ≤ src.length →
    maxLoop src k idx m = .ok ((slice src idx (idx + k)).foldl max m)
  | 0, idx, m, _ => by simp [maxLoop, slice_self]
  | k + 1, idx, m, h => by
    have hi : idx < src.length := by omega
    rw [maxLoop, getE_of_lt _ hi]
    simp only []
    rw [maxLoop_eq src k (idx + 1) _ (by omega), slice_cons src idx (idx + (k + 1)) hi (by omega)]
    rw [List.foldl_cons, ite_gt_eq_max]
    congr 3; omega

theorem spanMin_spec (src : List Int) (cur next : Nat) (h1 : cur < next) (h2 : next ≤ src.length) :
    ∃ v, spanMin src cur next = .ok v ∧ (rowsOf src (cur, next)).min? = some v := by
  have hc : cur < src.length := by omega
  unfold spanMin rowsOf
  rw [getE_of_lt _ hc]
  simp only []
  rw [slice_cons src cur next hc h1, List.min?_cons']
  by_cases hn : next = cur + 1
  · subst hn
    simp [slice_self]
  · have : (next == cur + 1) = false := by simp [hn]
    simp only [this, Bool.false_eq_true, if_false]
    rw [minLoop_eq src _ _ _ (by omega)]
    have : cur + 1 + (next - (cur + 1)) = next := by omega
    rw [this]
    exact ⟨_, rfl, rfl⟩

theorem spanMax_spec (src : List Int) (cur next : Nat) (h1 : cur < next) (h2 : next ≤ src.length) :
    ∃ v, spanMax src cur next = .ok v ∧ (rowsOf src (cur, next)).max? = some v := by
  have hc : cur < src.length := by omega
  unfold spanMax rowsOf
  rw [getE_of_lt _ hc]
  simp only []
  rw [slice_cons src cur next hc h1, List.max?_cons']
  by_cases hn : next = cur + 1
  · subst hn
    simp [slice_self]
  · have : (next == cur + 1) = false := by simp [hn]
    simp only [this, Bool.false_eq_true, if_false]
    rw [maxLoop_eq src _ _ _ (by omega)]
    have : cur + 1 + (next - (cur + 1)) = next := by omega
    rw [this]
    exact ⟨_, rfl, rfl⟩

/-! ### argmin / argmax -/

theorem argminFrom_spec : ∀ (xs pre : List Int) (best : Int) (bi : Nat),
    pre.min? = some best → bi = pre.idxOf best →
    ∃ m, (pre ++ xs).min? = some m ∧ argminFrom xs pre.length best bi = (pre ++ xs).idxOf m
  | [], pre, best, bi, hmin, hbi => by
    refine ⟨best, by simpa using hmin, ?_⟩
    simp [argminFrom, hbi]
  | x :: xs, pre, best, bi, hmin, hbi => by
    have hb := List.min?_eq_some_iff.1 hmin
    unfold argminFrom
    have happ : pre ++ x :: xs = (pre ++ [x]) ++ xs := by simp
    have hlen : pre.length + 1 = (pre ++ [x]).length := by simp
    by_cases hx : x < best
    · simp only [hx, if_true]
      have hnot : x ∉ pre := fun hm => by have := hb.2 x hm; omega
      have hmin' : (pre ++ [x]).min? = some x := by
        rw [List.min?_eq_some_iff]
        refine ⟨by simp, ?_⟩
        intro b hbm
        rcases List.mem_append.1 hbm with hbm | hbm
        · have := hb.2 b hbm; omega
        · simp at hbm; omega
      have hidx : pre.length = (pre ++ [x]).idxOf x := by
        rw [List.idxOf_append]; simp [hnot]
      rw [happ, hlen]
      exact argminFrom_spec xs (pre ++ [x]) x pre.length hmin' hidx
    · simp only [hx, if_false]
      have hmin' : (pre ++ [x]).min? = some best := by
        rw [List.min?_eq_some_iff]
        refine ⟨List.mem_append_left _ hb.1, ?_⟩
        intro b hbm
        rcases List.mem_append.1 hbm with hbm | hbm
        · exact hb.2 b hbm
        · simp at hbm; omega
      have hidx : bi = (pre ++ [x]).idxOf best := by
        rw [List.idxOf_append]; simp [hb.1, hbi]
      rw [happ, hlen]
      exact argminFrom_spec xs (pre ++ [x]) best bi hmin' hidx

theorem argmaxFrom_spec : ∀ (xs pre : List Int) (best : Int) (bi : Nat),
    pre.max? = some best → bi = pre.idxOf best →
    ∃ m, (pre ++ xs).max? = some m ∧ argmaxFrom xs pre.length best bi = (pre ++ xs).idxOf m
  | [], pre, best, bi, hmax, hbi => by
    refine ⟨best, by simpa using hmax, ?_⟩
    simp [argmaxFrom, hbi]
  | x :: xs, pre, best, bi, hmax, hbi => by
    have hb := List.max?_eq_some_iff.1 hmax
    unfold argmaxFrom
    have happ : pre ++ x :: xs = (pre ++ [x]) ++ xs := by simp
    have hlen : pre.length + 1 = (pre ++ [x]).length := by simp
    by_cases hx : x > best
    · simp only [hx, if_true]
      have hnot : x ∉ pre := fun hm => by have := hb.2 x hm; omega
      have hmax' : (pre ++ [x]).max? = some x := by
        rw [List.max?_eq_some_iff]
        refine ⟨by simp, ?_⟩
        intro b hbm
        rcases List.mem_append.1 hbm with hbm | hbm
        · have := hb.2 b hbm; omega
        · simp at hbm; omega
      have hidx : pre.length = (pre ++ [x]).idxOf x := by
        rw [List.idxOf_append]; simp [hnot]
      rw [happ, hlen]
      exact argmaxFrom_spec xs (pre ++ [x]) x pre.length hmax' hidx
    · simp only [hx, if_false]
      have hmax' : (pre ++ [x]).max? = some best := by
        rw [List.max?_eq_some_iff]
        refine ⟨List.mem_append_left _ hb.1, ?_⟩
        intro b hbm
        rcases List.mem_append.1 hbm with hbm | hbm
        · exact hb.2 b hbm
        · simp at hbm; omega
      have hidx : bi = (pre ++ [x]).idxOf best := by
        rw [List.idxOf_append]; simp [hb.1, hbi]
      rw [happ, hlen]
      exact argmaxFrom_spec xs (pre ++ [x]) best bi hmax' hidx

/-- `argmin` of a non-empty list is the position of the first occurrence of its minimum -/
theorem argmin_spec (l : List Int) (hl : l ≠ []) : ∃ k, argmin l = .ok k ∧ argminOf l = some k := by
  cases l with
  | nil => exact absurd rfl hl
  | cons x xs =>
    obtain ⟨m, hm, hk⟩ := argminFrom_spec xs [x] x 0 (by simp) (by simp)
    refine ⟨_, rfl, ?_⟩
    simp only [List.singleton_append, List.length_singleton] at hm hk
    simp only [argminOf, hm, Option.map_some, hk]

theorem argmax_spec (l : List Int) (hl : l ≠ []) : ∃ k, argmax l = .ok k ∧ argmaxOf l = some k := by
  cases l with
  | nil => exact absurd rfl hl
  | cons x xs =>
    obtain ⟨m, hm, hk⟩ := argmaxFrom_spec xs [x] x 0 (by simp) (by simp)
    refine ⟨_, rfl, ?_⟩
    simp only [List.singleton_append, List.length_singleton] at hm hk
    simp only [argmaxOf, hm, Option.map_some, hk]

theorem slice_ne_nil {α} (src : List α) (a b : Nat) (h1 : a < b) (h2 : b ≤ src.length) : slice src a b ≠ [] := by
  intro h
  have := slice_length_of_le src a b h2
  rw [h] at this; simp at this; omega

theorem spanIndexOfMin_spec (src : List Int) (cur next : Nat) (h1 : cur < next) (h2 : next ≤ src.length) :
    ∃ v, spanIndexOfMin src cur next = .ok v ∧
      (argminOf (rowsOf src (cur, next))).map (fun k => ((cur + k : Nat) : Int)) = some v := by
  unfold spanIndexOfMin rowsOf
  obtain ⟨k, hk, hs⟩ := argmin_spec (slice src cur next) (slice_ne_nil src cur next h1 h2)
  by_cases hn : next = cur + 1
  · subst hn
    have hc : cur < src.length := by omega
    simp only [beq_self_eq_true, if_true]
    refine ⟨_, rfl, ?_⟩
    rw [slice_cons src cur (cur + 1) hc (by omega), slice_self]
    simp [argminOf]
  · have : (next == cur + 1) = false := by simp [hn]
    simp only [this, Bool.false_eq_true, if_false, hk, hs]
    exact ⟨_, rfl, rfl⟩

theorem spanIndexOfMax_spec (src : List Int) (cur next : Nat) (h1 : cur < next) (h2 : next ≤ src.length) :
    ∃ v, spanIndexOfMax src cur next = .ok v ∧
      (argmaxOf (rowsOf src (cur, next))).map (fun k => ((cur + k : Nat) : Int)) = some v := by
  unfold spanIndexOfMax rowsOf
  obtain ⟨k, hk, hs⟩ := argmax_spec (slice src cur next) (slice_ne_nil src cur next h1 h2)
  by_cases hn : next = cur + 1
  · subst hn
    have hc : cur < src.length := by omega
    simp only [beq_self_eq_true, if_true]
    refine ⟨_, rfl, ?_⟩
    rw [slice_cons src cur (cur + 1) hc (by omega), slice_self]
    simp [argmaxOf]
  · have : (next == cur + 1) = false := by simp [hn]
    simp only [this, Bool.false_eq_true, if_false, hk, hs]
    exact ⟨_, rfl, rfl⟩

end Exetera.Spans
