import Exetera.Props.C05
import Exetera.Lemmas.CsvTypedRead
import Exetera.Lemmas.CsvTypedRaise
/-!
# C05 ∘ C06 — the public entry point with a schema of typed columns: `typed import = C06.spec ∘ C05.spec`

**Reading note on "fix NC06d".** NC06d (a strict categorical column stores code 0 for a cell that equals no category key) is an OPEN
finding: the repair exists only as a proposal (`fixes/proposed/NC06d_strict_categorical_rejects_unknown_text.patch`) and is NOT
applied to /repo. Wherever a statement below says "fix NC06d" / "checked" it describes the PROPOSED importer (the model variant
`catColumn` / `categoricalChecked`): for strict categorical columns it is a statement about that proposal, not about the code as
found. What holds of the code as found is `categorical_property_partial` (every cell that IS a key is stored as its code) and the
witness `Witness.C06.nc06d_unmatched_text_stored_as_zero`; the checks report the difference as KNOWN-FINDING NC06d. For every other
column kind (and for strict categorical cells that are keys) the two coincide.

`Props/C05.lean` proves that the CSV reader hands over exactly the file's records whatever the chunking and the regrowth
(text columns); `Props/C06.lean` proves, per importer and per chunk, that the typed conversion is the specified one. Here
the two are composed for the model the correspondence driver executes (`Csv.readFile` / `Csv.readCsv` of `Model/Csv.lean`,
whose importers are the models of `Model/Transforms.lean` fed, per kernel call, with the chunk
`column_inds[col_idx]`, `column_vals`, `column_offsets[col_idx]`, budget, `written_row_count`):

* `staging_column_encodes` — the interface: what C05 proves about one kernel call (`ColOK`, entries strictly inside the value
  budget) is what C06 assumes about a chunk (`Encodes`);
* `importer_append_homomorphism` — every importer kind (indexed, fixed, categorical, leaky categorical with `_freetext`,
  bool / int / float in the three validation modes with `_valid`, datetime / date with `_day`, `_set`), in any state reached by
  consuming acceptable cells `D`, consumes a block `E` by one `import_part` and is then in the state C06 specifies for
  `D ++ E` (`typedSpec`): the chunk-to-chunk state (`chunk_accumulated`, `freetext_index_accumulated`, the growing
  companions) is a function of the concatenation only;
* `read_file_typed_eq_spec`, `read_csv_typed_eq_spec` — for every `chunk_row_size` of C05's `Regime`, any window boundaries and
  any number of regrowths: every destination field is `typedSpec kind (whole column of cell texts)`;
* `typed_chunk_size_unobservable`, `typed_companions_aligned` — corollaries;
* `read_csv_typed_raises_partial` — when a cell is *not* acceptable to its importer (strict / allow_empty modes, impossible
  dates): the importer-level half (kept);
* `read_csv_typed_raises`, `read_file_typed_raises`, `typed_raise_chunk_size_unobservable`, `typed_reject_error_class` — the
  full statement: the public entry point raises whenever a selected cell is rejected, for every `chunk_row_size` of the regime,
  every window boundary and every regrowth; the error is what the importer raises (`rejErr`) on the FIRST rejected cell
  (`index_map` order, then row order) of the FIRST kernel block that holds one; its class per importer kind and cell class.

`KindOK` are C06's own assumptions on an importer definition (distinct category keys; the number parser rejects blank text
and converts `str(invalid_value)` to `invalid_value`); `cellOK kind cell` says the importer does not raise on `cell`, decided
by the cell alone.
-/
namespace Exetera.Props.C05
open Exetera Exetera.Csv Exetera.Csv.Spec Exetera.Transforms Exetera.Spec.Transforms

/-- **staging_column_encodes** (C05 → C06 interface). After a kernel call, column `c` of the staging buffers holds the entries
    `E` in C05's sense (`ColOK`: row `c` of `column_inds` holds their end offsets from 0, `column_vals` holds their bytes from
    `column_offsets[c]` on), strictly inside the column's budget — which is what `fsm_any_buffers_eq_spec`'s kernel lemma
    provides. Then the chunk `import_part` builds from row `c` is a chunk that `Encodes` the cells `E` in C06's sense, with
    `cap` the column's budget (the size of the leaky importer's free-text staging array). -/
theorem staging_column_encodes {ncols maxrow : Nat} {offs : List Nat} {inds : List (List Nat)} {vals : List Nat} {c : Nat}
    {E : List Csv.Bytes} {r : List Nat} (hsh : Shape ncols maxrow offs inds vals) (hc : c < ncols)
    (hcol : ColOK offs inds vals c E) (hr : inds[c]? = some r)
    (hcaps : offAt offs c + E.flatten.length < offAt offs (c + 1)) :
    Encodes (chunkOf r vals (offAt offs c) (offAt offs (c + 1) - offAt offs c) E.length c inds.length) E :=
  encodes_of_colOK hsh hc hcol hr hcaps _ (by omega)

/-- **importer_append_homomorphism.** `typedF kinds c D` is the importer of column `c` (of kind `kinds c`) after it has
    consumed the cells `D`: by definition C06's specification `typedSpec (kinds c) D`. One `import_part` call on staging buffers
    that hold the block `E` takes it to `typedF kinds c (D ++ E)`, for every importer kind, every `D` and `E` of acceptable
    cells, every buffer geometry: `import (D ++ E) = import D ⊕ import E`, with the accumulated offsets. -/
theorem importer_append_homomorphism (ncols : Nat) (kinds : Nat → FieldKind) (hkinds : ∀ c, c < ncols → KindOK (kinds c))
    (offs : List Nat) (inds : List (List Nat)) (vals : List Nat) (maxrow c : Nat) (D E : List Csv.Bytes) (hc : c < ncols)
    (hsh : Shape ncols maxrow offs inds vals) (hcol : ColOK offs inds vals c E)
    (hcaps : offAt offs c + E.flatten.length < offAt offs (c + 1))
    (hD : ∀ cell ∈ D, cellOK (kinds c) cell) (hE : ∀ cell ∈ E, cellOK (kinds c) cell) :
    ∃ impD impDE, typedSpec (kinds c) D = some impD ∧ typedSpec (kinds c) (D ++ E) = some impDE ∧
      Imp.importPart impD inds vals offs c E.length = .ok impDE := by
  obtain ⟨impD, hD'⟩ := typedSpec_isSome_of_cellOK (kinds c) D hD
  obtain ⟨impDE, hDE'⟩ := typedSpec_isSome_of_cellOK (kinds c) (D ++ E)
    (by intro cell h; rcases List.mem_append.mp h with h | h; exact hD cell h; exact hE cell h)
  have := impHom_typed ncols kinds hkinds offs inds vals maxrow c D E hc hsh hcol hcaps hD hE
  simp only [typedF, hD', hDE', Option.getD_some] at this
  exact ⟨impD, impDE, hD', hDE', this⟩

/-- **read_file_typed_eq_spec** (driver level). `read_file_using_fast_csv_reader` on a file of C05's `Regime`, any starting
    value budgets ≥ 1, importer `i` of `field_importer_list` being a fresh importer of kind `kinds (index_map[i])`, every cell
    of every imported column acceptable to its importer: the call returns `.ok` within `records + 2 + regrowthBound` kernel
    calls, the row count is the number of records, and every importer holds C06's specification of its *whole* column of cell
    texts — whatever `chunk_row_size`, the window boundaries and the regrowths were. -/
theorem read_file_typed_eq_spec {file : List Nat} {crs ncols : Nat} {offs : List Nat} {hrow : List Cell}
    {rows : List (List Cell)} (h : Regime file crs ncols hrow rows) (hb : Budgets ncols offs) (im : List Nat)
    (him : ∀ c ∈ im, c < ncols) (kinds : Nat → FieldKind) (hkinds : ∀ c, c < ncols → KindOK (kinds c))
    (hok : ∀ c ∈ im, ∀ cell ∈ column (values rows) c, cellOK (kinds c) cell) (fuel : Nat)
    (hfuel : rows.length + 2 + regrowthBound rows ncols offs (crs * Gen.Csv.CHUNK_ROW_FACTOR) ≤ fuel) :
    ∃ (dest : Nat → Imp) (calls : List Int),
      readFile file crs ncols offs im (im.map (fun c => ({ kind := kinds c } : Imp))) fuel =
        .ok ⟨rows.length, im.map dest, calls⟩ ∧
      ∀ c ∈ im, typedSpec (kinds c) (column (values rows) c) = some (dest c) := by
  obtain ⟨calls, hrf⟩ := readFile_hom (F := typedF kinds) (good := fun c => cellOK (kinds c))
    { isFile := h.isFile, hdr := h.hdr, tab := h.tab.2, nc := h.tab.1, crsPos := h.crsPos, reg := h.reg, imOk := him }
    h.nonempty (impHom_typed ncols kinds hkinds) hok hb.len hb.zero hb.pos fuel hfuel
  have hinit : im.map (fun c => typedF kinds c []) = im.map (fun c => ({ kind := kinds c } : Imp)) := by
    apply List.map_congr_left
    intro c _
    simp [typedF, typedSpec_nil]
  rw [hinit] at hrf
  refine ⟨_, calls, hrf, ?_⟩
  intro c hc
  obtain ⟨imp, himp⟩ := typedSpec_isSome_of_cellOK (kinds c) _ (hok c hc)
  simp [typedF, himp]

/-- the regrowth bound for the budgets `read_csv_with_schema_dict` computes from the schema (`max(_field_size, 1) ·
    chunk_row_size` bytes per column, `2 · chunk_row_size` index rows) -/
def typedRegrowthBound (rows : List (List Cell)) (names : List String) (schema : List (String × FieldKind)) (crs : Nat) :
    Nat :=
  regrowthBound rows names.length (schemaOffsets names schema crs) (crs * Gen.Csv.CHUNK_ROW_FACTOR)

/-- **read_csv_typed_eq_spec** (`typed import = C06.spec ∘ C05.spec`). The public entry point `read_csv_with_schema_dict` on
    a well-formed file, for ANY schema (each column any importer kind that satisfies C06's `KindOK`; columns missing from the
    schema are indexed strings), any include / exclude lists of known names and *every* `chunk_row_size` of C05's `Regime`
    (well-formed table, `chunk_row_size > 0`, the window `2·crs·ncols` holds the header line and the longest record), with the
    budgets the function computes from the `_field_size`s and every regrowth they force — provided every cell of every
    selected column is acceptable to its importer (`cellOK`; always true for string and leaky categorical columns, relaxed
    bool columns …; for a categorical column without free text: the cell equals a category key, fix NC06d): the call returns `.ok`; `rows` (the length of `j_valid_from`) is the number of records; the destination frame
    holds exactly the selected columns in file order; and every destination field — main column and all its companions
    (`_valid`, `_freetext` indices and values, `_day`, `_set`) — is C06's specification `typedSpec` applied to the WHOLE
    column of cell texts that C05's specification `column (values rows) c` yields. Nothing depends on `chunk_row_size`, on
    where the windows and kernel calls cut the column, or on regrowth. At most `records + 2 + typedRegrowthBound` kernel
    calls. -/
theorem read_csv_typed_eq_spec {file : List Nat} {crs ncols : Nat} {hrow : List Cell} {rows : List (List Cell)}
    (names : List String) (schema : List (String × FieldKind)) (incl excl : Option (List String))
    (hnames : names.length = ncols)
    (hincl : ∀ l, incl = some l → ∀ k ∈ l, k ∈ names) (hexcl : ∀ l, excl = some l → ∀ k ∈ l, k ∈ names)
    (hkinds : ∀ k ∈ names, KindOK (kindOf schema k)) (h : Regime file crs ncols hrow rows)
    (hok : ∀ k ∈ fieldsToUse names incl excl, ∀ cell ∈ column (values rows) (names.idxOf k),
      cellOK (kindOf schema k) cell)
    (fuel : Nat) (hfuel : rows.length + 2 + typedRegrowthBound rows names schema crs ≤ fuel) :
    ∃ fields, readCsv file names schema incl excl crs fuel = .ok ⟨rows.length, fields⟩ ∧
      fields.map (·.name) = fieldsToUse names incl excl ∧
      ∀ f ∈ fields, typedSpec (kindOf schema f.name) (column (values rows) (names.idxOf f.name)) = some f.imp := by
  have hrc := readCsv_typed names schema incl excl hnames hincl hexcl h.isFile h.nonempty h.hdr h.tab.2 h.tab.1 h.crsPos
    h.reg hkinds hok fuel (by unfold typedRegrowthBound at hfuel; rw [hnames] at hfuel; exact hfuel)
  refine ⟨_, hrc, by simp [List.map_map, Function.comp_def], ?_⟩
  intro f hf
  obtain ⟨k, hk, rfl⟩ := List.mem_map.mp hf
  have hmem : k ∈ names := (fieldsToUse_sublist names incl excl).subset hk
  obtain ⟨imp, himp⟩ := typedSpec_isSome_of_cellOK (kindOf schema k) _ (hok k hk)
  simp [typedF, kindAt_idxOf names schema k hmem, himp]

/-- **typed_chunk_size_unobservable.** Two imports of the same file under the same typed schema with different
    `chunk_row_size` (both in the supported regime; hence different windows, kernel calls, budgets and regrowths) produce the
    same row count and the same destination fields, companions included. -/
theorem typed_chunk_size_unobservable {file : List Nat} {crs₁ crs₂ ncols : Nat} {hrow : List Cell} {rows : List (List Cell)}
    (names : List String) (schema : List (String × FieldKind)) (incl excl : Option (List String))
    (hnames : names.length = ncols)
    (hincl : ∀ l, incl = some l → ∀ k ∈ l, k ∈ names) (hexcl : ∀ l, excl = some l → ∀ k ∈ l, k ∈ names)
    (hkinds : ∀ k ∈ names, KindOK (kindOf schema k))
    (h₁ : Regime file crs₁ ncols hrow rows) (h₂ : Regime file crs₂ ncols hrow rows)
    (hok : ∀ k ∈ fieldsToUse names incl excl, ∀ cell ∈ column (values rows) (names.idxOf k),
      cellOK (kindOf schema k) cell)
    (fuel : Nat) (hfuel₁ : rows.length + 2 + typedRegrowthBound rows names schema crs₁ ≤ fuel)
    (hfuel₂ : rows.length + 2 + typedRegrowthBound rows names schema crs₂ ≤ fuel) :
    ∃ o, readCsv file names schema incl excl crs₁ fuel = .ok o ∧ readCsv file names schema incl excl crs₂ fuel = .ok o := by
  have e1 := readCsv_typed names schema incl excl hnames hincl hexcl h₁.isFile h₁.nonempty h₁.hdr h₁.tab.2 h₁.tab.1 h₁.crsPos
    h₁.reg hkinds hok fuel (by unfold typedRegrowthBound at hfuel₁; rw [hnames] at hfuel₁; exact hfuel₁)
  have e2 := readCsv_typed names schema incl excl hnames hincl hexcl h₂.isFile h₂.nonempty h₂.hdr h₂.tab.2 h₂.tab.1 h₂.crsPos
    h₂.reg hkinds hok fuel (by unfold typedRegrowthBound at hfuel₂; rw [hnames] at hfuel₂; exact hfuel₂)
  exact ⟨_, e1, e2⟩

/-- number of rows a destination field and each of its companion columns hold (`none`: the kind has no such column) -/
def Imp.lengths (imp : Imp) : List Nat :=
  match imp.kind with
  | .indexed => [imp.idx.length - 1]
  | .fixed n => if n = 0 then [] else [imp.data.length / n]
  | .categorical _ => [imp.codes.length]
  | .leaky _ => [imp.codes.length, imp.idx.length - 1]
  | .bool _ _ => [imp.bools.length, imp.valids.length]
  | .numeric _ mode _ _ => if mode = .strict then [imp.nums.length] else [imp.nums.length, imp.valids.length]
  | .datetime => [imp.codes.length, imp.days.length, imp.valids.length]
  | .date => [imp.codes.length, imp.days.length, imp.valids.length]

theorem fixed_flat_length (n : Nat) (cells : List Csv.Bytes) :
    ((cells.map (fixedCell n)).flatten).length = cells.length * n := by
  induction cells with
  | nil => simp
  | cons c cs ih =>
    simp only [List.map_cons, List.flatten_cons, List.length_append, ih, List.length_cons, Nat.succ_mul]
    simp only [fixedCell, List.length_append, List.length_take, List.length_replicate]
    omega

/-- **typed_companions_aligned.** A field that is C06's specification of a column of `n` cells has `n` rows, and so has
    every one of its companion columns (`_freetext` has `n + 1` offsets, the last one being the number of free-text bytes);
    with `read_csv_typed_eq_spec`: after the import every main and companion column has exactly `rows.length` entries. -/
theorem typed_companions_aligned (k : FieldKind) (cells : List Csv.Bytes) (imp : Imp) (h : typedSpec k cells = some imp) :
    (∀ l ∈ Imp.lengths imp, l = cells.length) ∧
    (∀ cats, k = .leaky cats → imp.idx[cells.length]? = some imp.vals.length) := by
  cases k with
  | indexed =>
    simp only [typedSpec, Option.some.injEq] at h
    subst h
    refine ⟨?_, fun _ h => by cases h⟩
    simp [Imp.lengths, fieldOf', indexOf]
    have : ∀ (b : Nat) (es : List Csv.Bytes), (offsetsFrom b es).length = es.length + 1 := by
      intro b es; induction es generalizing b with
      | nil => rfl
      | cons e es ih => simp [offsetsFrom, ih]
    rw [this]; rfl
  | fixed n =>
    simp only [typedSpec, Option.some.injEq] at h
    subst h
    refine ⟨?_, fun _ h => by cases h⟩
    intro l hl
    simp only [Imp.lengths] at hl
    split at hl
    · cases hl
    · rename_i hn
      simp only [List.mem_singleton] at hl
      rw [hl, fixed_flat_length]
      exact Nat.mul_div_cancel _ (by omega)
  | categorical cats =>
    simp only [typedSpec, Option.map_eq_some_iff] at h
    obtain ⟨codes, hc, rfl⟩ := h
    have hall := (catColumn_isSome_iff cats cells).mp (by rw [hc]; rfl)
    rw [catColumn_eq_map cats cells hall] at hc
    cases hc
    exact ⟨by simp [Imp.lengths], fun _ h => by cases h⟩
  | leaky cats =>
    simp only [typedSpec, Option.some.injEq] at h
    subst h
    refine ⟨by simp [Imp.lengths, offsets_length], ?_⟩
    intro _ _
    have := offsets_getLast 0 (cells.map (fun c => (freeText cats c).length))
    simp only [List.length_map, Nat.zero_add] at this
    simp only [this, flatten_length_eq_sum, List.map_map, Function.comp_def]
  | bool mode invalid =>
    simp only [typedSpec, Option.map_eq_some_iff] at h
    obtain ⟨r, hr, rfl⟩ := h
    have := Exetera.Props.C06.numericColumn_lengths mode invalid _ r hr
    simp only [List.length_map] at this
    exact ⟨by simp [Imp.lengths, this], fun _ h => by cases h⟩
  | numeric p mode it iv =>
    simp only [typedSpec, Option.map_eq_some_iff] at h
    obtain ⟨r, hr, rfl⟩ := h
    have := Exetera.Props.C06.numericColumn_lengths mode iv _ r hr
    simp only [List.length_map] at this
    refine ⟨?_, fun _ h => by cases h⟩
    cases mode <;> simp [Imp.lengths, this]
  | datetime =>
    simp only [typedSpec, timeColumn, Option.map_eq_some_iff] at h
    obtain ⟨rs, hrs, rfl⟩ := h
    have := Exetera.Props.C06.cellsMapE_length datetimeCell cells rs (toOption_eq_some hrs)
    exact ⟨by simp [Imp.lengths, this], fun _ h => by cases h⟩
  | date =>
    simp only [typedSpec, timeColumn, Option.map_eq_some_iff] at h
    obtain ⟨rs, hrs, rfl⟩ := h
    have := Exetera.Props.C06.cellsMapE_length dateCell cells rs (toOption_eq_some hrs)
    exact ⟨by simp [Imp.lengths, this], fun _ h => by cases h⟩


/- FULL STATEMENT (proved below as `read_csv_typed_raises`): under the hypotheses of `read_csv_typed_eq_spec` except that
   some selected column holds a cell its importer rejects (`¬ cellOK`), `readCsv … = .error e` for every `chunk_row_size` of
   the regime, where `e` is the Python exception of a rejected cell (`Exception` for bool, `ValueError` / `OverflowError` for
   int / float, `ValueError` for dates and datetimes).
   What the code does: the importers run once per kernel call, in `index_map` order, on the block of cells of that call; the
   FIRST kernel call whose block holds a rejected cell raises, and among the columns of that block the first one in
   `index_map` order, and within the column the first rejected cell (`astypeAll` / `relaxedAll` / `cellsMapE` / `boolRows` stop
   at it). So WHETHER the import raises does not depend on where the chunk boundaries fall (it raises iff some selected cell
   is rejected: `read_csv_typed_eq_spec` gives the "if not"), but WHICH rejected cell is reported may: two rejected cells in
   different columns, the earlier row in the later column, are reported in row order when a block boundary separates them and
   in column order when one block holds both. The importer-level half, kept from before the driver-level lift was proved: -/
/-- **read_csv_typed_raises_partial** (importer level). The importer of column `c`, in any state reached by consuming acceptable
    cells `D`, on staging buffers whose column `c` holds a block `E` containing at least one cell that its validation mode
    rejects: `import_part` returns an error — no out-of-bounds subscript is needed for that, nothing is appended — whatever
    else `E` holds and wherever the block was cut; for a bool column the error is `Exception`. (What was missing for the full
    statement — the lift through `read_file_using_fast_csv_reader`'s loop by the invariant `DI` extended with "no rejected
    cell among the records consumed so far", ending in the first kernel call whose block holds one — is
    `read_csv_typed_raises` below; this importer-level form is kept as an obligation.) -/
theorem read_csv_typed_raises_partial (ncols : Nat) (kinds : Nat → FieldKind) (hkinds : ∀ c, c < ncols → KindOK (kinds c))
    (offs : List Nat) (inds : List (List Nat)) (vals : List Nat) (maxrow c : Nat) (D E : List Csv.Bytes) (hc : c < ncols)
    (hsh : Shape ncols maxrow offs inds vals) (hcol : ColOK offs inds vals c E)
    (hcaps : offAt offs c + E.flatten.length < offAt offs (c + 1))
    (hD : ∀ cell ∈ D, cellOK (kinds c) cell) (hE : ¬ ∀ cell ∈ E, cellOK (kinds c) cell) :
    ∃ impD e, typedSpec (kinds c) D = some impD ∧ Imp.importPart impD inds vals offs c E.length = .error e ∧
      (∀ mode invalid, kinds c = .bool mode invalid → e = .other "Exception") := by
  obtain ⟨impD, hD'⟩ := typedSpec_isSome_of_cellOK (kinds c) D hD
  obtain ⟨e, he, hb⟩ := typed_part_rejects ncols kinds hkinds offs inds vals maxrow c D E hc hsh hcol hcaps hD hE
  simp only [typedF, hD', Option.getD_some] at he
  exact ⟨impD, e, hD', he, hb⟩

/-! ### rejected cells: the import raises, whatever the chunking -/

/-- **typed_reject_error_class.** `rejErr kind cell` is what the importer of `kind` raises on `cell` (`none` exactly when the
    cell is acceptable, `cellOK`). Its class, per importer kind and class of the cell text:
    * bool (strict: empty or unparseable; allow_empty: unparseable) → the `Exception` of `raiseNumericException`;
    * int / float: an integer outside the dtype → `OverflowError` (every validation mode); an empty or unparseable text (when
      the validation mode rejects it: `validation_mode_table`) → `ValueError`;
    * datetime / date → `ValueError`;
    * categorical without free text, a cell that equals no category key → `ValueError` (fix NC06d). -/
theorem typed_reject_error_class (k : FieldKind) (x : Csv.Bytes) :
    (rejErr k x = none ↔ cellOK k x) ∧
    ∀ e, rejErr k x = some e →
      (∀ mode invalid, k = .bool mode invalid → e = .other "Exception") ∧
      (∀ p mode it iv, k = .numeric p mode it iv →
        (classOf p.parse (rstripNul x) = .outOfRange → e = .other "OverflowError") ∧
        (KindOK k → classOf p.parse (rstripNul x) = .empty ∨ classOf p.parse (rstripNul x) = .garbage →
          e = .valueError "cannot be converted")) ∧
      (k = .datetime ∨ k = .date → ∃ m, e = .valueError m) ∧
      (∀ cats, k = .categorical cats → e = .valueError "is not one of the categories") :=
  ⟨rejErr_none_iff k x, fun e h => rejErr_class k x e h⟩

/-- **read_file_typed_raises** (driver level). `read_file_using_fast_csv_reader` on a file of C05's `Regime`, any starting
    value budgets ≥ 1, fresh importers of the kinds `kinds (index_map[i])`, and at least one cell of an imported column that
    its importer rejects: the call returns an error within the same fuel as the successful import; the error is what the
    importer of column `c` raises on the cell `x` (`rejErr`), where — `Reported` — `d` records were imported by earlier kernel
    calls without any rejected cell, the raising call staged the next `a` records, `c` is the first column in `index_map`
    order whose cells in that block include a rejected one and `x` the first rejected cell of that column in the block. -/
theorem read_file_typed_raises {file : List Nat} {crs ncols : Nat} {offs : List Nat} {hrow : List Cell}
    {rows : List (List Cell)} (h : Regime file crs ncols hrow rows) (hb : Budgets ncols offs) (im : List Nat)
    (him : ∀ c ∈ im, c < ncols) (kinds : Nat → FieldKind) (hkinds : ∀ c, c < ncols → KindOK (kinds c))
    (hbad : ∃ c ∈ im, ∃ cell ∈ column (values rows) c, ¬ cellOK (kinds c) cell) (fuel : Nat)
    (hfuel : rows.length + 2 + regrowthBound rows ncols offs (crs * Gen.Csv.CHUNK_ROW_FACTOR) ≤ fuel) :
    ∃ (e : Err) (d a c : Nat) (x : Csv.Bytes),
      readFile file crs ncols offs im (im.map (fun c => ({ kind := kinds c } : Imp))) fuel = .error e ∧
      rejErr (kinds c) x = some e ∧ Reported rows im (fun c => cellOK (kinds c)) d a c x := by
  obtain ⟨c0, hc0, cell0, hcell0, hno⟩ := hbad
  obtain ⟨d, a, c, x, e, hrep, he, hrf⟩ := readFile_raise (F := typedF kinds) (good := fun c => cellOK (kinds c))
    { isFile := h.isFile, hdr := h.hdr, tab := h.tab.2, nc := h.tab.1, crsPos := h.crsPos, reg := h.reg, imOk := him }
    h.nonempty (impHom_typed ncols kinds hkinds) (impRej_typed ncols kinds hkinds)
    (fun hall => hno (hall c0 hc0 cell0 hcell0)) hb.len hb.zero hb.pos fuel hfuel
  have hinit : im.map (fun c => typedF kinds c []) = im.map (fun c => ({ kind := kinds c } : Imp)) := by
    apply List.map_congr_left
    intro c _
    simp [typedF, typedSpec_nil]
  rw [hinit] at hrf
  exact ⟨e, d, a, c, x, hrf, he, hrep⟩

/-- **read_csv_typed_raises** (the raising half of C06 at the public entry point). `read_csv_with_schema_dict` on a
    well-formed file, ANY schema of importer kinds satisfying `KindOK`, any include / exclude lists of known names, EVERY
    `chunk_row_size` of C05's `Regime`, the budgets the function computes and every regrowth they force, the fuel of the
    successful import — and at least one cell of a selected column that its importer rejects (empty / unparseable in the
    validation mode, out of the dtype's range, impossible date): the call returns an error `e`. So WHETHER the import raises
    depends neither on `chunk_row_size` nor on the windows nor on regrowth. WHICH error: `e = rejErr (kind of column k) x` —
    what that importer raises on the cell `x` (class: `typed_reject_error_class`) — where `x` is the first rejected cell of
    column `k`, the first column in `index_map` order with a rejected cell, within the block of records `d … d+a-1` that the
    first kernel call holding a rejected cell staged (`Reported`; no selected cell of the first `d` records is rejected).
    `d` and `a` do depend on the chunking (see the example below: the same file raises `ValueError` with
    `chunk_row_size = 2` and `OverflowError` with `chunk_row_size = 40`). -/
theorem read_csv_typed_raises {file : List Nat} {crs ncols : Nat} {hrow : List Cell} {rows : List (List Cell)}
    (names : List String) (schema : List (String × FieldKind)) (incl excl : Option (List String))
    (hnames : names.length = ncols)
    (hincl : ∀ l, incl = some l → ∀ k ∈ l, k ∈ names) (hexcl : ∀ l, excl = some l → ∀ k ∈ l, k ∈ names)
    (hkinds : ∀ k ∈ names, KindOK (kindOf schema k)) (h : Regime file crs ncols hrow rows)
    (hbad : ∃ k ∈ fieldsToUse names incl excl, ∃ cell ∈ column (values rows) (names.idxOf k),
      ¬ cellOK (kindOf schema k) cell)
    (fuel : Nat) (hfuel : rows.length + 2 + typedRegrowthBound rows names schema crs ≤ fuel) :
    ∃ (e : Err) (d a : Nat) (k : String) (x : Csv.Bytes),
      readCsv file names schema incl excl crs fuel = .error e ∧
      k ∈ fieldsToUse names incl excl ∧ rejErr (kindOf schema k) x = some e ∧
      Reported rows ((fieldsToUse names incl excl).map (fun k => names.idxOf k)) (fun c => cellOK (kindAt names schema c))
        d a (names.idxOf k) x := by
  obtain ⟨k0, hk0, cell0, hcell0, hno⟩ := hbad
  obtain ⟨d, a, c, x, e, hrep, he, hrc⟩ := readCsv_typed_raise names schema incl excl hnames hincl hexcl h.isFile h.nonempty
    h.hdr h.tab.2 h.tab.1 h.crsPos h.reg hkinds (fun hall => hno (hall k0 hk0 cell0 hcell0)) fuel
    (by unfold typedRegrowthBound at hfuel; rw [hnames] at hfuel; exact hfuel)
  obtain ⟨k, hk, rfl⟩ := List.mem_map.mp hrep.mem.1
  have hmem : k ∈ names := (fieldsToUse_sublist names incl excl).subset hk
  rw [kindAt_idxOf names schema k hmem] at he
  exact ⟨e, d, a, k, x, hrc, hk, he, hrep⟩

/-- **typed_raise_chunk_size_unobservable.** Two imports of the same file under the same typed schema with different
    `chunk_row_size` (both in the supported regime): either both succeed, with the same row count and the same destination
    fields (`typed_chunk_size_unobservable`), or both raise — and then each error is what the importer of some selected column
    raises on some rejected cell of that column (not necessarily the same cell, hence not necessarily the same exception
    class: see the example below). -/
theorem typed_raise_chunk_size_unobservable {file : List Nat} {crs₁ crs₂ ncols : Nat} {hrow : List Cell}
    {rows : List (List Cell)} (names : List String) (schema : List (String × FieldKind)) (incl excl : Option (List String))
    (hnames : names.length = ncols)
    (hincl : ∀ l, incl = some l → ∀ k ∈ l, k ∈ names) (hexcl : ∀ l, excl = some l → ∀ k ∈ l, k ∈ names)
    (hkinds : ∀ k ∈ names, KindOK (kindOf schema k))
    (h₁ : Regime file crs₁ ncols hrow rows) (h₂ : Regime file crs₂ ncols hrow rows)
    (fuel : Nat) (hfuel₁ : rows.length + 2 + typedRegrowthBound rows names schema crs₁ ≤ fuel)
    (hfuel₂ : rows.length + 2 + typedRegrowthBound rows names schema crs₂ ≤ fuel) :
    (∃ o, readCsv file names schema incl excl crs₁ fuel = .ok o ∧ readCsv file names schema incl excl crs₂ fuel = .ok o) ∨
    (∃ e₁ e₂, readCsv file names schema incl excl crs₁ fuel = .error e₁ ∧
      readCsv file names schema incl excl crs₂ fuel = .error e₂ ∧
      (∃ k ∈ fieldsToUse names incl excl, ∃ x ∈ column (values rows) (names.idxOf k), rejErr (kindOf schema k) x = some e₁) ∧
      (∃ k ∈ fieldsToUse names incl excl, ∃ x ∈ column (values rows) (names.idxOf k), rejErr (kindOf schema k) x = some e₂)) := by
  by_cases hok : ∀ k ∈ fieldsToUse names incl excl, ∀ cell ∈ column (values rows) (names.idxOf k),
      cellOK (kindOf schema k) cell
  · exact Or.inl (typed_chunk_size_unobservable names schema incl excl hnames hincl hexcl hkinds h₁ h₂ hok fuel hfuel₁ hfuel₂)
  · right
    have hbad : ∃ k ∈ fieldsToUse names incl excl, ∃ cell ∈ column (values rows) (names.idxOf k),
        ¬ cellOK (kindOf schema k) cell := by
      apply Classical.byContradiction
      intro hne
      apply hok
      intro k hk cell hcell
      apply Classical.byContradiction
      intro hc
      exact hne ⟨k, hk, cell, hcell, hc⟩
    obtain ⟨e₁, _, _, k₁, x₁, hr₁, hk₁, he₁, hrep₁⟩ :=
      read_csv_typed_raises names schema incl excl hnames hincl hexcl hkinds h₁ hbad fuel hfuel₁
    obtain ⟨e₂, _, _, k₂, x₂, hr₂, hk₂, he₂, hrep₂⟩ :=
      read_csv_typed_raises names schema incl excl hnames hincl hexcl hkinds h₂ hbad fuel hfuel₂
    exact ⟨e₁, e₂, hr₁, hr₂, ⟨k₁, hk₁, x₁, hrep₁.mem.2.1, he₁⟩, ⟨k₂, hk₂, x₂, hrep₂.mem.2.1, he₂⟩⟩


/-! ### non-vacuity: a file with a leaky categorical, an `int8` (allow_empty) and a date column, `chunk_row_size = 3` -/

/-- header `a,b,c`; records `yes,12,2020-06-15` / ` maybe,,` / `no,"7",2021-03-04` (window 18 bytes: one record per kernel call;
    the free text `maybe` does not fit what is left of the 9-byte budget of column `a`: one regrowth) -/
def tyHeader : List Cell := [⟨false, [97]⟩, ⟨false, [98]⟩, ⟨false, [99]⟩]
def tyRows : List (List Cell) :=
  [[⟨false, [121, 101, 115]⟩, ⟨false, [49, 50]⟩, ⟨false, [50, 48, 50, 48, 45, 48, 54, 45, 49, 53]⟩],
   [⟨false, [32, 109, 97, 121, 98, 101]⟩, ⟨false, []⟩, ⟨false, []⟩],
   [⟨false, [110, 111]⟩, ⟨true, [55]⟩, ⟨false, [50, 48, 50, 49, 45, 48, 51, 45, 48, 52]⟩]]
def tyCats : List (Csv.Bytes × Int) := [([121, 101, 115], 1), ([110, 111], 0)]
def tyInt : FieldKind := .numeric (.intRange (-128) 127) .allowEmpty [48] (.int 0)
def tySchema : List (String × FieldKind) := [("a", .leaky tyCats), ("b", tyInt), ("c", .date)]

theorem tyLeaky_ok : KindOK (.leaky tyCats) := by
  show (tyCats.map (·.1)).Nodup
  decide
theorem tyInt_ok : KindOK tyInt := by
  refine ⟨fun t h => ?_, by decide⟩
  simp [NumParser.parse, parseIntRange_blank _ _ t h]

theorem tyRegime : Regime (render (tyHeader :: tyRows)) 3 3 tyHeader tyRows := by
  refine ⟨Or.inl rfl, by decide, ⟨rfl, ?_⟩, ⟨by decide, ?_⟩, by decide, ?_⟩
  · intro c hc
    simp only [tyHeader, List.mem_cons, List.not_mem_nil, or_false] at hc
    rcases hc with h | h | h <;> subst h <;> simp [Cell.WF] <;> decide
  · intro r hr
    simp only [tyRows, List.mem_cons, List.not_mem_nil, or_false] at hr
    rcases hr with h | h | h <;> subst h <;> refine ⟨rfl, ?_⟩ <;> intro c hc <;>
      simp only [List.mem_cons, List.not_mem_nil, or_false] at hc <;> rcases hc with h | h | h <;> subst h <;>
      simp [Cell.WF] <;> decide
  · intro l hl
    simp only [tyHeader, tyRows, List.mem_cons, List.not_mem_nil, or_false] at hl
    rcases hl with h | h | h | h <;> subst h <;> decide

/-- every cell of the example is acceptable to its importer -/
example : ∀ cell ∈ column (values tyRows) 1, cellOK tyInt cell := by decide
example : ∀ cell ∈ column (values tyRows) 2, cellOK .date cell := by decide

/-- C06's specification of the three whole columns -/
example : typedSpec (.leaky tyCats) (column (values tyRows) 0) =
    some { kind := .leaky tyCats, codes := [1, -1, 0], idx := [0, 0, 5, 5], vals := [109, 97, 121, 98, 101], acc := 5 } := by
  decide
example : typedSpec tyInt (column (values tyRows) 1) =
    some { kind := tyInt, nums := [.int 12, .int 0, .int 7], valids := [true, false, true] } := by decide
example : typedSpec .date (column (values tyRows) 2) =
    some { kind := .date, codes := [1592179200000000, 0, 1614816000000000],
           days := [[50, 48, 50, 48, 45, 48, 54, 45, 49, 53], List.replicate 10 0, [50, 48, 50, 49, 45, 48, 51, 45, 48, 52]],
           valids := [true, false, true] } := by decide +kernel

/-- all hypotheses of `read_csv_typed_eq_spec` hold for that file, schema and `chunk_row_size = 3`: the theorem applies -/
example : ∃ fields, readCsv (render (tyHeader :: tyRows)) ["a", "b", "c"] tySchema none none 3 12 = .ok ⟨3, fields⟩ ∧
    fields.map (·.name) = ["a", "b", "c"] ∧
    ∀ f ∈ fields, typedSpec (kindOf tySchema f.name) (column (values tyRows) (["a", "b", "c"].idxOf f.name)) = some f.imp := by
  have hk : ∀ k ∈ ["a", "b", "c"], KindOK (kindOf tySchema k) := by
    intro k hk
    simp only [List.mem_cons, List.not_mem_nil, or_false] at hk
    rcases hk with rfl | rfl | rfl
    · exact tyLeaky_ok
    · exact tyInt_ok
    · trivial
  have hok : ∀ k ∈ fieldsToUse ["a", "b", "c"] none none, ∀ cell ∈ column (values tyRows) (["a", "b", "c"].idxOf k),
      cellOK (kindOf tySchema k) cell := by
    intro k hk
    simp only [fieldsToUse, List.mem_cons, List.not_mem_nil, or_false] at hk
    rcases hk with rfl | rfl | rfl <;> decide
  exact read_csv_typed_eq_spec (ncols := 3) ["a", "b", "c"] tySchema none none rfl (fun _ h => by cases h)
    (fun _ h => by cases h) hk tyRegime hok 12 (by decide +kernel)

/-- the driver-level theorem applies to the same file with one-byte starting budgets (every column regrows) -/
example : ∃ (dest : Nat → Imp) (calls : List Int),
    readFile (render (tyHeader :: tyRows)) 3 3 [0, 1, 2, 3] [0, 1, 2]
        ([0, 1, 2].map (fun c => ({ kind := kindAt ["a", "b", "c"] tySchema c } : Imp))) 40 =
      .ok ⟨3, [0, 1, 2].map dest, calls⟩ ∧
    ∀ c ∈ [0, 1, 2], typedSpec (kindAt ["a", "b", "c"] tySchema c) (column (values tyRows) c) = some (dest c) := by
  have hb : Budgets 3 [0, 1, 2, 3] := by
    refine ⟨rfl, rfl, ?_⟩
    intro c hc
    have : c = 0 ∨ c = 1 ∨ c = 2 := by omega
    rcases this with rfl | rfl | rfl <;> decide
  have hk : ∀ c, c < 3 → KindOK (kindAt ["a", "b", "c"] tySchema c) := by
    intro c hc
    have : c = 0 ∨ c = 1 ∨ c = 2 := by omega
    rcases this with rfl | rfl | rfl
    · exact tyLeaky_ok
    · exact tyInt_ok
    · trivial
  exact read_file_typed_eq_spec tyRegime hb [0, 1, 2] (by decide) (kindAt ["a", "b", "c"] tySchema) hk (by decide) 40
    (by decide +kernel)

/-- … and every companion of the leaky column has one entry per record, the last free-text offset is the byte count -/
example : (∀ l ∈ Imp.lengths ({ kind := .leaky tyCats, codes := [1, -1, 0], idx := [0, 0, 5, 5],
                                 vals := [109, 97, 121, 98, 101], acc := 5 } : Imp), l = 3) :=
  (typed_companions_aligned (.leaky tyCats) (column (values tyRows) 0) _ (by decide)).1

/-- the model evaluated on that file with a bool column in place of the categorical one (`chunk_row_size = 3`: one record per
    kernel call) yields exactly C06's specification of the whole columns -/
def tySchemaB : List (String × FieldKind) := [("a", .bool .relaxed true), ("b", tyInt), ("c", .date)]

example : (match readCsv (render (tyHeader :: tyRows)) ["a", "b", "c"] tySchemaB none none 3 12 with
           | .ok o => decide (o.rows = 3 ∧ o.fields.map (·.name) = ["a", "b", "c"] ∧
               o.fields.map (fun f => some f.imp) =
                 [typedSpec (.bool .relaxed true) (column (values tyRows) 0), typedSpec tyInt (column (values tyRows) 1),
                  typedSpec .date (column (values tyRows) 2)])
           | .error _ => false) = true := by
  decide +kernel

example : typedSpec (.bool .relaxed true) (column (values tyRows) 0) =
    some { kind := .bool .relaxed true, bools := [true, true, false], valids := [true, false, true] } := by decide

/-- the same file with `chunk_row_size = 40` (one window, one kernel call): the same destination -/
example : (match readCsv (render (tyHeader :: tyRows)) ["a", "b", "c"] tySchemaB none none 40 12,
                 readCsv (render (tyHeader :: tyRows)) ["a", "b", "c"] tySchemaB none none 3 12 with
           | .ok o₁, .ok o₂ => decide (o₁ = o₂)
           | _, _ => false) = true := by
  decide +kernel

/-- strict mode: the empty cell of column `b` is not acceptable, and the import raises -/
example : ¬ (∀ cell ∈ column (values tyRows) 1,
    cellOK (.numeric (.intRange (-128) 127) .strict [48] (.int 0)) cell) := by decide
example : (match readCsv (render (tyHeader :: tyRows)) ["a", "b", "c"]
                   [("b", .numeric (.intRange (-128) 127) .strict [48] (.int 0))] none none 3 12 with
           | .error (.valueError _) => true
           | _ => false) = true := by
  decide +kernel

/-! ### non-vacuity of the raising theorems -/

/-- all hypotheses of `read_csv_typed_raises` hold for the example file with column `b` imported as a strict `int8`
    (`chunk_row_size = 3`): the empty cell of the second record is rejected, the theorem applies -/
example : ∃ (e : Err) (d a : Nat) (k : String) (x : Csv.Bytes),
    readCsv (render (tyHeader :: tyRows)) ["a", "b", "c"] [("b", .numeric (.intRange (-128) 127) .strict [48] (.int 0))]
      none none 3 12 = .error e ∧
    k ∈ fieldsToUse ["a", "b", "c"] none none ∧
    rejErr (kindOf [("b", .numeric (.intRange (-128) 127) .strict [48] (.int 0))] k) x = some e ∧
    Reported tyRows ((fieldsToUse ["a", "b", "c"] none none).map (fun k => ["a", "b", "c"].idxOf k))
      (fun c => cellOK (kindAt ["a", "b", "c"] [("b", .numeric (.intRange (-128) 127) .strict [48] (.int 0))] c))
      d a (["a", "b", "c"].idxOf k) x := by
  have hk : ∀ k ∈ ["a", "b", "c"],
      KindOK (kindOf [("b", .numeric (.intRange (-128) 127) .strict [48] (.int 0))] k) := by
    intro k hk
    simp only [List.mem_cons, List.not_mem_nil, or_false] at hk
    rcases hk with rfl | rfl | rfl
    · trivial
    · exact ⟨fun t h => by simp [NumParser.parse, parseIntRange_blank _ _ t h], by decide⟩
    · trivial
  exact read_csv_typed_raises (ncols := 3) ["a", "b", "c"] _ none none rfl (fun _ h => by cases h) (fun _ h => by cases h) hk
    tyRegime ⟨"b", by decide, [], by decide, by decide⟩ 12 (by decide +kernel)

/-- the error of that empty cell: strict mode, class `empty` → `ValueError` -/
example : rejErr (.numeric (.intRange (-128) 127) .strict [48] (.int 0)) [] = some (.valueError "cannot be converted") := by
  decide

/-- **which rejected cell is reported depends on the chunking.** Header `a,b`, records `1,x` / `300,2`, both columns strict
    `int8`: `x` (column `b`, first record) is unparseable → `ValueError`; `300` (column `a`, second record) is outside the
    dtype → `OverflowError`. With `chunk_row_size = 2` (window 8 bytes: one record per kernel call) the first block holds
    only the first record and the import raises `ValueError`; with `chunk_row_size = 40` one block holds both records, the
    importer of column `a` runs first and the import raises `OverflowError`. Both raise: `typed_raise_chunk_size_unobservable`. -/
def rjHeader : List Cell := [⟨false, [97]⟩, ⟨false, [98]⟩]
def rjRows : List (List Cell) := [[⟨false, [49]⟩, ⟨false, [120]⟩], [⟨false, [51, 48, 48]⟩, ⟨false, [50]⟩]]
def rjInt : FieldKind := .numeric (.intRange (-128) 127) .strict [48] (.int 0)

example : (match readCsv (render (rjHeader :: rjRows)) ["a", "b"] [("a", rjInt), ("b", rjInt)] none none 2 12 with
           | .error e => decide (e = .valueError "cannot be converted")
           | .ok _ => false) = true := by decide +kernel
example : (match readCsv (render (rjHeader :: rjRows)) ["a", "b"] [("a", rjInt), ("b", rjInt)] none none 40 12 with
           | .error e => decide (e = .other "OverflowError")
           | .ok _ => false) = true := by decide +kernel
example : rejErr rjInt [120] = some (.valueError "cannot be converted") ∧ rejErr rjInt [51, 48, 48] = some (.other "OverflowError") := by
  decide

theorem rjRegime (crs : Nat) (h : 2 ≤ crs) : Regime (render (rjHeader :: rjRows)) crs 2 rjHeader rjRows := by
  refine ⟨Or.inl rfl, by decide, ⟨rfl, ?_⟩, ⟨by decide, ?_⟩, by omega, ?_⟩
  · intro c hc
    simp only [rjHeader, List.mem_cons, List.not_mem_nil, or_false] at hc
    rcases hc with h | h <;> subst h <;> simp [Cell.WF] <;> decide
  · intro r hr
    simp only [rjRows, List.mem_cons, List.not_mem_nil, or_false] at hr
    rcases hr with h | h <;> subst h <;> refine ⟨rfl, ?_⟩ <;> intro c hc <;>
      simp only [List.mem_cons, List.not_mem_nil, or_false] at hc <;> rcases hc with h | h <;> subst h <;>
      simp [Cell.WF] <;> decide
  · intro l hl
    have hw : 8 ≤ crs * Gen.Csv.CHUNK_ROW_FACTOR * 2 := by
      have : Gen.Csv.CHUNK_ROW_FACTOR = 2 := rfl
      rw [this]; omega
    simp only [rjHeader, rjRows, List.mem_cons, List.not_mem_nil, or_false] at hl
    rcases hl with h | h | h <;> subst h <;> exact Nat.le_trans (by decide) hw

/-- `typed_raise_chunk_size_unobservable` applies to the two chunk sizes of that example -/
example : (∃ o, readCsv (render (rjHeader :: rjRows)) ["a", "b"] [("a", rjInt), ("b", rjInt)] none none 2 12 = .ok o ∧
      readCsv (render (rjHeader :: rjRows)) ["a", "b"] [("a", rjInt), ("b", rjInt)] none none 40 12 = .ok o) ∨
    (∃ e₁ e₂, readCsv (render (rjHeader :: rjRows)) ["a", "b"] [("a", rjInt), ("b", rjInt)] none none 2 12 = .error e₁ ∧
      readCsv (render (rjHeader :: rjRows)) ["a", "b"] [("a", rjInt), ("b", rjInt)] none none 40 12 = .error e₂ ∧
      (∃ k ∈ fieldsToUse ["a", "b"] none none, ∃ x ∈ column (values rjRows) (["a", "b"].idxOf k),
        rejErr (kindOf [("a", rjInt), ("b", rjInt)] k) x = some e₁) ∧
      (∃ k ∈ fieldsToUse ["a", "b"] none none, ∃ x ∈ column (values rjRows) (["a", "b"].idxOf k),
        rejErr (kindOf [("a", rjInt), ("b", rjInt)] k) x = some e₂)) := by
  have hk : ∀ k ∈ ["a", "b"], KindOK (kindOf [("a", rjInt), ("b", rjInt)] k) := by
    intro k hk
    simp only [List.mem_cons, List.not_mem_nil, or_false] at hk
    rcases hk with rfl | rfl <;>
      exact ⟨fun t h => by simp [NumParser.parse, parseIntRange_blank _ _ t h], by decide⟩
  exact typed_raise_chunk_size_unobservable (ncols := 2) ["a", "b"] _ none none rfl (fun _ h => by cases h)
    (fun _ h => by cases h) hk (rjRegime 2 (by omega)) (rjRegime 40 (by omega)) 12 (by decide +kernel) (by decide +kernel)

/-- the driver-level theorem applies to the same file with one-byte starting budgets -/
example : ∃ (e : Err) (d a c : Nat) (x : Csv.Bytes),
    readFile (render (rjHeader :: rjRows)) 2 2 [0, 1, 2] [0, 1] ([0, 1].map (fun _ => ({ kind := rjInt } : Imp))) 40 = .error e ∧
    rejErr rjInt x = some e ∧ Reported rjRows [0, 1] (fun _ => cellOK rjInt) d a c x := by
  have hb : Budgets 2 [0, 1, 2] := by
    refine ⟨rfl, rfl, ?_⟩
    intro c hc
    have : c = 0 ∨ c = 1 := by omega
    rcases this with rfl | rfl <;> decide
  exact read_file_typed_raises (rjRegime 2 (by omega)) hb [0, 1] (by decide) (fun _ => rjInt)
    (fun _ _ => ⟨fun t h => by simp [NumParser.parse, parseIntRange_blank _ _ t h], by decide⟩)
    ⟨1, by decide, [120], by decide, by decide⟩ 40 (by decide +kernel)

/-- a bool column: strict mode rejects the empty cell, the public entry point raises `Exception` -/
example : rejErr (.bool .strict false) [] = some (.other "Exception") := by decide
example : (match readCsv (render (tyHeader :: tyRows)) ["a", "b", "c"] [("b", .bool .strict false)] none none 3 12 with
           | .error e => decide (e = .other "Exception")
           | .ok _ => false) = true := by decide +kernel

/-- a categorical column WITHOUT free text (fix NC06d): the cell `maybe` of the second record equals no key of `tyCats`; it is
    not acceptable, the hypotheses of `read_csv_typed_raises` hold, and the public entry point raises the `ValueError` of
    `CategoricalImporter.import_part` (the model is not evaluated by `decide` here: `get_byte_map`'s `mergeSort` does not
    reduce in the kernel; `#eval` gives `valueError "is not one of the categories"` for `chunk_row_size` 3 and 40); as found it
    stored `0`, the code of `no` -/
example : rejErr (.categorical tyCats) [109, 97, 121, 98, 101] = some (.valueError "is not one of the categories") ∧
    cellOK (.categorical tyCats) [110, 111] ∧ ¬ cellOK (.categorical tyCats) [] := by decide
example : ∃ (e : Err) (d a : Nat) (k : String) (x : Csv.Bytes),
    readCsv (render (tyHeader :: tyRows)) ["a", "b", "c"] [("a", .categorical tyCats)] none none 3 12 = .error e ∧
    k ∈ fieldsToUse ["a", "b", "c"] none none ∧
    rejErr (kindOf [("a", .categorical tyCats)] k) x = some e ∧
    Reported tyRows ((fieldsToUse ["a", "b", "c"] none none).map (fun k => ["a", "b", "c"].idxOf k))
      (fun c => cellOK (kindAt ["a", "b", "c"] [("a", .categorical tyCats)] c)) d a (["a", "b", "c"].idxOf k) x := by
  have hk : ∀ k ∈ ["a", "b", "c"], KindOK (kindOf [("a", .categorical tyCats)] k) := by
    intro k hk
    simp only [List.mem_cons, List.not_mem_nil, or_false] at hk
    rcases hk with rfl | rfl | rfl
    · show (tyCats.map (·.1)).Nodup
      decide
    · trivial
    · trivial
  exact read_csv_typed_raises (ncols := 3) ["a", "b", "c"] _ none none rfl (fun _ h => by cases h) (fun _ h => by cases h) hk
    tyRegime ⟨"a", by decide, [109, 97, 121, 98, 101], by decide, by decide⟩ 12 (by decide +kernel)
/-- … and with `maybe` listed as a category the same file is imported: `typedSpec` is `some`, the codes are the keys' values -/
example : typedSpec (.categorical (([109, 97, 121, 98, 101], 2) :: tyCats)) (column (values tyRows) 0) =
    some { kind := .categorical (([109, 97, 121, 98, 101], 2) :: tyCats), codes := [1, 2, 0] } := by decide +kernel
example : typedSpec (.categorical tyCats) (column (values tyRows) 0) = none := by decide +kernel

end Exetera.Props.C05
