/-!
  C10 — path conditions of the array subscripts of the two filter / re-index kernels of indexed strings that `Model/FilterIndex.lean` models (owning property C09), frozen from the source the model
  was written against. `Props/C10/FilterIndex.lean` (`access_paths_covered_filter_index`) proves that the table regenerated from the CURRENT
  source (`Gen/KernelPaths.lean`) is this one: a test that dominates a subscript cannot be dropped, weakened or moved in the
  source without breaking the build.

  Each entry is (site, path condition): the tests passed on the way to that occurrence of the subscript, outermost first —
  `for …` / `while …` = an enclosing loop guard (the same strings as in `KernelSitesFilterIndex`), a bare test = the `if` / `elif`
  branch taken or an `and` operand to the left of the subscript, `not (…)` = an `else` branch, the code after an early exit
  `if …: break | continue | return | raise`, or an `or` operand to the left. A condition is the text of a test that held
  when it was passed (a syntactic path, not an invariant). A site reached on several paths has one entry per path.
  Regenerate with `python3 tools/translate_kernels.py --paths /repo <kernel> …`.

  Which conjunct of the path condition the model's checked accessor relies on (accessor names as in `KernelSitesFilterIndex`):
  * `apply_filter_to_index_values`: EVERY subscript is behind the early exit
    `if len(index_filter) != max(len(indices) - 1, 0): raise IndexError` (fix D8) — the first entry of every path, the model's
    `.oob "len(index_filter) != len(indices) - 1"`; `cur_[i]`, `next_[i]` = `getWrapE` rely on it together with
    `for i in range(len(index_filter))`; `values[c:n]`, `dest_values[…]`, `dest_indices[count]` are reached only on
    `index_filter[i] == True` (`filterPass1` / `filterPass2` have the same branch).
  * `apply_indices_to_index_values`: in the first (counting) pass `cur_[i]`, `next_[i]` are behind the early exit
    `if i < -len(cur_) or i >= len(cur_): raise IndexError` (fix NC09b; entry `not (i < -len(cur_) or i >= len(cur_))`) =
    the model's `.oob "index out of bounds for indexed field"`; the entries with only `for i in indices_to_apply` are the
    test's own reads — none — and the SECOND pass, which re-reads the same `i` after the first pass has validated all
    of them (`copyEntry` uses `getWrapE`, whose range is the one the first pass established).
-/
namespace Exetera.KernelPaths

/-- the filter / re-index kernels of indexed strings (C09): path condition of every subscript occurrence -/
def filterIndexPaths : List (String × List (String × List String)) := [
  ("apply_filter_to_index_values", [
    ("R cur_[i]", ["not (len(index_filter) != max(len(indices) - 1, 0))", "for i in range(len(index_filter))", "index_filter[i] == True"]),
    ("R index_filter[i]", ["not (len(index_filter) != max(len(indices) - 1, 0))", "for i in range(len(index_filter))"]),
    ("R indices[1:]", ["not (len(index_filter) != max(len(indices) - 1, 0))"]),
    ("R indices[:-1]", ["not (len(index_filter) != max(len(indices) - 1, 0))"]),
    ("R next_[i]", ["not (len(index_filter) != max(len(indices) - 1, 0))", "for i in range(len(index_filter))", "index_filter[i] == True"]),
    ("R values[c:n]", ["not (len(index_filter) != max(len(indices) - 1, 0))", "for i in range(len(index_filter))", "index_filter[i] == True"]),
    ("W dest_indices[0]", ["not (len(index_filter) != max(len(indices) - 1, 0))"]),
    ("W dest_indices[count]", ["not (len(index_filter) != max(len(indices) - 1, 0))", "for i in range(len(index_filter))", "index_filter[i] == True"]),
    ("W dest_values[total:total + delta]", ["not (len(index_filter) != max(len(indices) - 1, 0))", "for i in range(len(index_filter))", "index_filter[i] == True"])]),
  ("apply_indices_to_index_values", [
    ("R cur_[i]", ["for i in indices_to_apply"]),
    ("R cur_[i]", ["for i in indices_to_apply", "not (i < -len(cur_) or i >= len(cur_))"]),
    ("R indices[1:]", []),
    ("R indices[:-1]", []),
    ("R next_[i]", ["for i in indices_to_apply"]),
    ("R next_[i]", ["for i in indices_to_apply", "not (i < -len(cur_) or i >= len(cur_))"]),
    ("R values[c:n]", ["for i in indices_to_apply"]),
    ("W dest_indices[0]", []),
    ("W dest_indices[count]", ["for i in indices_to_apply"]),
    ("W dest_values[total:total + delta]", ["for i in indices_to_apply"])])
]

end Exetera.KernelPaths
