import Exetera.Lemmas.CsvTailRow
/-! `fast_csv_reader` on any window of the supported regime: complete records followed by the beginning of the next
    record (C05). -/
namespace Exetera.Csv
open Exetera Spec

theorem rowsCap_append (offs : List Nat) (a b : List (List Cell)) : ∀ (E : Nat → List Bytes),
    RowsCap offs E (a ++ b) → RowsCap offs E a ∧ RowsCap offs (stageRows E a) b := by
  induction a with
  | nil => intro E h; exact ⟨trivial, h⟩
  | cons r rs ih =>
    intro E h
    obtain ⟨h1, h2⟩ := h
    obtain ⟨h3, h4⟩ := ih _ h2
    exact ⟨⟨h1, h3⟩, h4⟩

/-- a window that holds (an optional header line,) the complete records `rowsA` and then the first `m` bytes of the next
    record `r`: the call reports exactly `rowsA` and resumes at the start of `r` -/
theorem kernel_window {src : Bytes} {offs : List Nat} {maxrow ncols : Nat} {inds : List (List Nat)} {vals : List Nat}
    (hh : Bool) (hrow : List Cell) (rowsA : List (List Cell)) (r : List Cell) (m : Nat) (pre : Bytes)
    (hsrc : src = pre ++ (((if hh then renderCells hrow else []) ++ render rowsA) ++ (renderCells r).take m))
    (hm : m < (renderCells r).length) (hr : r.length = ncols ∧ ∀ c ∈ r, c.WF)
    (hhdr : hh = true → hrow.length = ncols ∧ ∀ c ∈ hrow, c.WF)
    (htab : ∀ r ∈ rowsA, r.length = ncols ∧ ∀ c ∈ r, c.WF) (hnc : 0 < ncols)
    (hsh : Shape ncols maxrow offs inds vals) (hmax : 0 < maxrow)
    (hz : ∀ c, c < ncols → ∃ r, inds[c]? = some r ∧ r[0]? = some 0)
    (hcap : RowsCap offs (fun _ => []) (rowsA ++ [r])) (hrows : rowsA.length < maxrow) (hne : hh = true ∨ rowsA ≠ []) :
    ∃ o, fastCsvReader src pre.length inds vals offs hh = .ok o ∧
      KernelOK ncols maxrow offs o (pre ++ ((if hh then renderCells hrow else []) ++ render rowsA)).length rowsA.length
        (stageRows (fun _ => []) rowsA) := by
  obtain ⟨hcapA, hcapr⟩ := rowsCap_append offs rowsA [r] _ hcap
  have hrne : r ≠ [] := by intro h; rw [h] at hr; simp at hr; omega
  -- the text is not empty and does not consist of blanks only
  have hlead : pre.length +
      leadWs (((if hh then renderCells hrow else []) ++ render rowsA) ++ (renderCells r).take m) < src.length := by
    rw [hsrc, List.length_append]
    apply Nat.add_lt_add_left
    cases hh with
    | true =>
      have hne' : hrow ≠ [] := by
        intro h; have := (hhdr rfl).1; rw [h] at this; simp at this; omega
      have := leadWs_renderCells_lt hrow hne' (render rowsA ++ (renderCells r).take m)
      simpa [List.append_assoc] using this
    | false =>
      rcases hne with h | h
      · cases h
      · cases rowsA with
        | nil => exact absurd rfl h
        | cons r1 rs =>
          have hr1 := (htab r1 (by simp)).1
          have hne' : r1 ≠ [] := by intro h'; rw [h'] at hr1; simp at hr1; omega
          have := leadWs_renderCells_lt r1 hne' (render rs ++ (renderCells r).take m)
          simpa [render, List.append_assoc] using this
  obtain ⟨n, s', hsteps, hfin⟩ : ∃ n s', KSteps src offs maxrow n
      (initKS pre.length (pre.length +
        leadWs (((if hh then renderCells hrow else []) ++ render rowsA) ++ (renderCells r).take m)) hh 0 (offAt offs 1)
        inds vals) s' ∧
      WindowEnd offs maxrow ncols s' rowsA.length
        (pre ++ ((if hh then renderCells hrow else []) ++ render rowsA)).length (stageRows (fun _ => []) rowsA) := by
    have hinit := init_cellStart (src := src) pre
      (((if hh then renderCells hrow else []) ++ render rowsA) ++ (renderCells r).take m) hh hsh hnc hmax hz hlead
    cases hh with
    | true =>
      obtain ⟨hlen, hwf⟩ := hhdr rfl
      have hne' : hrow ≠ [] := by intro h; rw [h] at hlen; simp at hlen; omega
      simp only [if_true, List.append_assoc] at hinit hsrc ⊢
      obtain ⟨n1, s1, hsteps1, hcs1⟩ :=
        row_cells (offs := offs) (maxrow := maxrow) hrow pre (render rowsA ++ (renderCells r).take m) _ 0 true 0 pre.length
          (fun _ => []) hne' hwf (by omega) hsrc hinit (rowCap_true _ _ _ _) (fun h => by cases h)
      simp only [if_true, stageRow_true] at hcs1
      have hsrc1 : src = (pre ++ renderCells hrow) ++ (render rowsA ++ (renderCells r).take m) := by rw [hsrc]; simp
      obtain ⟨n2, s2, hsteps2, hcs2⟩ :=
        rows_run (offs := offs) (maxrow := maxrow) hnc rowsA (pre ++ renderCells hrow) ((renderCells r).take m) s1 0
          (pre ++ renderCells hrow).length (fun _ => []) htab hsrc1 hcs1 hcapA (by omega)
      have hnp : (if rowsA = [] then (pre ++ renderCells hrow).length else (pre ++ renderCells hrow ++ render rowsA).length) =
          (pre ++ renderCells hrow ++ render rowsA).length := by
        split
        · rename_i h; rw [h]; simp [render]
        · rfl
      rw [hnp] at hcs2
      simp only [Nat.zero_add] at hcs2
      have hsrc2 : src = (pre ++ renderCells hrow ++ render rowsA) ++ (renderCells r).take m := by rw [hsrc]; simp
      obtain ⟨n3, s3, hsteps3, hend⟩ :=
        row_tail (offs := offs) (maxrow := maxrow) (E := stageRows (fun _ => []) rowsA) r m
          (pre ++ renderCells hrow ++ render rowsA) s2 0 (stageRows (fun _ => []) rowsA) hrne hr.2 (by omega) hm hsrc2 hcs2
          (Ext.refl _) hcapr.1
      refine ⟨n1 + n2 + n3, s3, StepsN.trans (StepsN.trans hsteps1 hsteps2) hsteps3, ?_⟩
      simpa [List.append_assoc] using hend
    | false =>
      simp only [Bool.false_eq_true, if_false, List.nil_append] at hinit hsrc ⊢
      have hrAne : rowsA ≠ [] := by
        rcases hne with h | h
        · cases h
        · exact h
      obtain ⟨n2, s2, hsteps2, hcs2⟩ :=
        rows_run (offs := offs) (maxrow := maxrow) hnc rowsA pre ((renderCells r).take m) _ 0 pre.length (fun _ => []) htab
          (by rw [hsrc]) hinit hcapA (by omega)
      simp only [hrAne, if_false, Nat.zero_add] at hcs2
      have hsrc2 : src = (pre ++ render rowsA) ++ (renderCells r).take m := by rw [hsrc]; simp
      obtain ⟨n3, s3, hsteps3, hend⟩ :=
        row_tail (offs := offs) (maxrow := maxrow) (E := stageRows (fun _ => []) rowsA) r m (pre ++ render rowsA) s2 0
          (stageRows (fun _ => []) rowsA) hrne hr.2 (by omega) hm hsrc2 hcs2 (Ext.refl _) hcapr.1
      exact ⟨n2 + n3, s3, StepsN.trans hsteps2 hsteps3, hend⟩
  -- the call itself
  have hdone : kguard s' = false := by simp [kguard, hfin.done]
  have hn : n ≤ src.length + 1 := by
    have h1 := stepsN_index hsteps
    have h2 : s'.index ≤ src.length := stepsN_index_le hsteps (Nat.le_of_lt hlead)
    simp only [initKS] at h1
    omega
  have hloop := whileE_of_stepsN hsteps hdone (src.length + 1) hn
  obtain ⟨r0, hr0, hr00⟩ := hz 0 hnc
  have hr0len := hsh.rowLen 0 r0 hr0
  have hg0 : getE inds 0 "column_inds.shape" = .ok r0 := getE_eq_ok.mpr hr0
  have hg1 : getE offs 1 "column_offsets[1]" = .ok (offAt offs 1) :=
    getE_eq_ok.mpr (offs_get hsh.offsLen (by omega))
  have hcs0 : (if hh = true then (Except.ok 0 : Except Err Nat) else get2 inds 0 0 "column_inds[col_index,row_index]") =
      .ok 0 := by
    cases hh
    · simpa using get2_eq _ hr0 hr00
    · rfl
  have hmr : r0.length - 1 = maxrow := by omega
  have hskip : skipFrom src pre.length = pre.length +
      leadWs (((if hh then renderCells hrow else []) ++ render rowsA) ++ (renderCells r).take m) := by
    rw [hsrc]; exact skipFrom_at _ _
  have hneq : (pre.length +
      leadWs (((if hh then renderCells hrow else []) ++ render rowsA) ++ (renderCells r).take m) == src.length) = false :=
    beq_false_of_ne (Nat.ne_of_lt hlead)
  refine ⟨s'.out, ?_, ?_⟩
  · simp only [fastCsvReader, hg0, hcs0, hg1, hmr, hskip, hneq, hloop]
    rfl
  · exact {
      nextPos := hfin.np
      written := by simp [KS.out, hfin.hdr, hfin.row]
      indsFull := hfin.indsFull
      valsFull := hfin.valsFull
      vfc := hfin.vfc
      shape := hfin.shape
      cols := hfin.cols }

end Exetera.Csv
