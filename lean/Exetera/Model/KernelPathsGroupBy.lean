/-!
  C10 — DOC GroupBy
-/
namespace Exetera.KernelPaths

/-- the group-by kernel (C07): path condition of every subscript occurrence -/
def groupByPaths : List (String × List (String × List String)) := [
  ("check_if_sorted_for_multi_fields", [
    ("R cur_row[j]", ["not (total_row == 0)", "for i in range(1, total_row)", "for j in range(field_count)"]),
    ("R cur_row[j]", ["not (total_row == 0)", "for i in range(1, total_row)", "for j in range(field_count)", "not (pre_row[j] > cur_row[j])"]),
    ("R fields_data[0]", []),
    ("R fields_data[:, 0]", ["not (total_row == 0)"]),
    ("R fields_data[:, i]", ["not (total_row == 0)", "for i in range(1, total_row)"]),
    ("R pre_row[j]", ["not (total_row == 0)", "for i in range(1, total_row)", "for j in range(field_count)"]),
    ("R pre_row[j]", ["not (total_row == 0)", "for i in range(1, total_row)", "for j in range(field_count)", "not (pre_row[j] > cur_row[j])"])])
]

end Exetera.KernelPaths
