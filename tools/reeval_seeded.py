#!/usr/bin/env python3
"""Re-evaluate every seeded change against the current HEADs of /repo and /verif (committed state), in parallel isolated slots.
usage: tools/reeval_seeded.py <nslots> [first_slot] [--only Cxx,...] [--ids Cxx-n,...] [--suite]
Each change is run against its own property's check plus every check that caught it before (tools/seeded_eval_iso.py,
--no-suite: the suite comparison was done when the change was first confirmed). Logs: /tmp/se/reeval-<id>.log."""
import json
import os
import subprocess
import sys
import threading
from pathlib import Path

V = Path(__file__).resolve().parent.parent


def main():
    n = int(sys.argv[1])
    first = int(sys.argv[2]) if len(sys.argv) > 2 and sys.argv[2].isdigit() else 11
    only = None
    ids = None
    suite = [] if "--suite" in sys.argv else ["--no-suite"]
    for a in sys.argv:
        if a.startswith("--only"):
            only = set(sys.argv[sys.argv.index(a) + 1].split(","))
        if a.startswith("--ids"):
            ids = set(sys.argv[sys.argv.index(a) + 1].split(","))
    todo = []
    for d in sorted((V / "seeded").iterdir()):
        if not (d / "patch.diff").exists():
            continue
        prop = d.name.split("-")[0]
        if only and prop not in only:
            continue
        if ids and d.name not in ids:
            continue
        meta = json.loads((d / "meta.json").read_text()) if (d / "meta.json").exists() else {}
        if meta.get("superseded"):
            continue
        checks = [prop] + [c for c in meta.get("caught_by", []) if c != prop]
        todo.append((d.name, checks))
    Path("/tmp/se").mkdir(exist_ok=True)
    lock = threading.Lock()

    def work(slot):
        while True:
            with lock:
                if not todo:
                    return
                name, checks = todo.pop(0)
            log = open(f"/tmp/se/reeval-{name}.log", "w")
            env = dict(os.environ, VERIF_NPROC=os.environ.get("VERIF_NPROC", "5"), VERIF_ESCALATE_S="60")
            # the property's own check first; the checks that caught the change before are only consulted if that one misses
            subprocess.run(["python3", str(V / "tools" / "seeded_eval_iso.py"), str(slot), f"seeded/{name}", checks[0]] + suite,
                           cwd=V, stdout=log, stderr=subprocess.STDOUT, env=env)
            try:
                caught = json.loads((V / "seeded" / name / "meta.json").read_text()).get("caught_by")
            except Exception:
                caught = None
            if not caught and len(checks) > 1:
                subprocess.run(["python3", str(V / "tools" / "seeded_eval_iso.py"), str(slot), f"seeded/{name}"] + checks + ["--no-suite"],
                               cwd=V, stdout=log, stderr=subprocess.STDOUT, env=env)
            log.close()
            last = open(f"/tmp/se/reeval-{name}.log").read().strip().splitlines()[-1:]
            print(name, last, flush=True)

    ts = [threading.Thread(target=work, args=(first + k,)) for k in range(n)]
    for t in ts:
        t.start()
    for t in ts:
        t.join()


if __name__ == "__main__":
    main()
