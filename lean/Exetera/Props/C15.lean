import Exetera.Model.Catalogue
import Exetera.Spec.Catalogue
import Exetera.Lemmas.CatalogueViews
import Exetera.Lemmas.CatalogueReopen
import Exetera.Lemmas.CatalogueAtomic
import Exetera.Lemmas.CatalogueHeap
import Exetera.Lemmas.CatalogueRefineStep
import Exetera.Lemmas.CatalogueSpec
import Exetera.Lemmas.CatalogueHandles
import Exetera.Lemmas.CatalogueReturnsStep
/-!
  C15 — the catalogue stays consistent under any history of structural edits.
  All theorems are about `Exetera.Catalogue.step .repaired` / `run .repaired`, the functions the driver executes
  (ExeTera with the fix commits D22, D23, D24, NC15a). No bound on the number of frames, columns, names or calls.
-/
namespace Exetera.Props.C15
open Exetera Exetera.Catalogue

/-! ### a concrete, non-trivial state used by the `example`s -/

/-- frame x{a,b}, frame y{a_}, a second file with frame x — built through the model itself -/
def exOps : List Op :=
  [.createFrame 0 "x" none, .createFrame 0 "y" none, .create 0 "x" "a" ⟨.numeric, 1⟩, .create 0 "x" "b" ⟨.indexed, 2⟩,
   .create 0 "y" "a_" ⟨.fixed, 3⟩, .createFrame 1 "x" none]
def exState : State := run .repaired State.init exOps
/-- the chain that used to split the catalogue (D22) -/
def exDict : List (Name × Name) := [("a", "b"), ("b", "b_")]

/-! ### the invariant over all histories -/

theorem inv_init : Inv State.init := by
  refine { colsNodup := by simp [State.init], linksNodup := by simp [State.init], sameKeys := by simp [State.init],
           sameObj := by simp [State.init], handleInj := by simp [State.init], oidInj := by simp [State.init],
           oidLt := by simp [State.init], fileNodup := by simp [State.init], frameInj := by simp [State.init],
           frameName := by simp [State.init], frameDs := by simp [State.init], fdsLen := rfl,
           linkFrame := by simp [State.init], handleLink := by simp [State.init], handleOidLt := by simp [State.init],
           dfsNodup := by simp [State.init], sameFrames := by simp [State.init] }

/-- Every client call — create_*, df[n]=f, add, del, drop, delete_field, rename, dataframe.copy/move, create/require/copy/
    setitem/del/drop/delete/move of dataframes, closing and reopening a file — keeps the invariant, whether it returns or
    raises. -/
theorem inv_step {s : State} (hI : Inv s) (op : Op) : Inv (step .repaired s op).state := by
  by_cases h : ∃ d, op = .reopen d
  · obtain ⟨d, rfl⟩ := h
    exact reopen_inv hI d
  · exact step_inv_noreopen hI op (fun d hd => h ⟨d, hd⟩)

/-- The invariant holds after every history of calls, exceptions included. -/
theorem inv_run (ops : List Op) {s : State} (hI : Inv s) : Inv (run .repaired s ops) := by
  induction ops generalizing s with
  | nil => exact hI
  | cons op ops ih => simp only [run]; exact ih (inv_step hI op)

/-- … in particular from the empty state: every reachable state of the (repaired) code is consistent. -/
theorem inv_all_histories (ops : List Op) : Inv (run .repaired State.init ops) := inv_run ops inv_init

example : Inv exState := inv_all_histories exOps
example : exState.cols.length = 3 ∧ exState.file.length = 3 := by decide

/-! ### names reported = groups in the file = what a reopen reads -/

/-- Under the invariant the catalogue reported by the Python objects (`ds.keys()`, `df.keys()`, the field objects and
    their data) is the catalogue stored in the file — the one a fresh reopen reads. -/
theorem reported_catalogue_is_file_catalogue {s : State} (hI : Inv s) : absPy s = absH5 s := views_agree hI

/-- … hence after every history: what `ds.keys()`, `df.keys()` and the field objects report is what the file holds and
    what a fresh reopen shows (the reopen assumption: reopening reads exactly the link tables, `absH5`). -/
theorem reopen_same (ops : List Op) : absPy (run .repaired State.init ops) = absH5 (run .repaired State.init ops) :=
  views_agree (inv_all_histories ops)

example : (absH5 exState 0 "x").isSome = true ∧ ((absH5 exState 0 "x").bind (· "b")) = some ⟨.indexed, 2⟩ := by decide

/-! ### rename -/

/-- A rename that would clash (or names a missing column) raises and changes nothing at all — in every state, for both
    variants of the code. -/
theorem rename_clash_changes_nothing (v : Variant) (s : State) (g : Nat) (dict : List (Name × Name))
    (hkn : (dict.map (·.1)).Nodup) (hbad : ¬ RenameOk dict ((ownedBy s.cols g).map (·.1))) :
    ∃ e, renameFields v s g dict = .err e s :=
  renameFields_fail v s g dict hkn hbad

example : ¬ RenameOk [("a", "b")] ((ownedBy exState.cols 0).map (·.1)) := by
  intro h; exact absurd (h.noClash "b" (by decide) (by decide)) (by decide)

/-- `rename` is atomic: under the invariant either the pre-check passes and both passes of h5 moves go through — no
    refusal midway, intermediate names always found — leaving exactly the re-keyed state, or the call raises with the
    state untouched. (As found, the first case could stop midway: `Witness.C15.d22_asFound_splits`.) -/
theorem rename_atomic {s : State} (hI : Inv s) (g : Nat) (dict : List (Name × Name)) (hkn : (dict.map (·.1)).Nodup) :
    (RenameOk dict ((ownedBy s.cols g).map (·.1)) ∧ renameFields .repaired s g dict = .ok () (renamedState s g dict)) ∨
    (¬ RenameOk dict ((ownedBy s.cols g).map (·.1)) ∧ ∃ e, renameFields .repaired s g dict = .err e s) := by
  by_cases hok : RenameOk dict ((ownedBy s.cols g).map (·.1))
  · exact Or.inl ⟨hok, renameFields_ok hI.toInvCore g dict hok⟩
  · exact Or.inr ⟨hok, renameFields_fail .repaired s g dict hkn hok⟩

example : RenameOk exDict ((ownedBy exState.cols 0).map (·.1)) := ⟨by decide, by decide, by decide, by decide⟩
example : (renameFields .repaired exState 0 exDict).isOk = true := by decide

/-- A successful rename refines the abstract renaming of that frame — every column reappears under its new name with its
    type and data, nothing else appears — and every other frame of every file is untouched. -/
theorem rename_refines {s : State} (hI : Inv s) (g : Nat) (dict : List (Name × Name))
    (hok : RenameOk dict ((ownedBy s.cols g).map (·.1))) :
    Renamed dict (frameH5 s g) (frameH5 (renamedState s g dict) g) ∧
    ∀ g', g' ≠ g → frameH5 (renamedState s g dict) g' = frameH5 s g' :=
  renamedState_refines hI.toInvCore g dict hok

example : frameH5 (renamedState exState 0 exDict) 0 "b_" = some ⟨.indexed, 2⟩ ∧ frameH5 (renamedState exState 0 exDict) 0 "a" = none := by
  decide

/-- Field objects held across a rename stay valid and report the new name. -/
theorem handles_follow_rename {s : State} (hI : Inv s) (g : Nat) (dict : List (Name × Name))
    (hok : RenameOk dict ((ownedBy s.cols g).map (·.1))) {h : Nat} {n : Name} (hc : ((g, n), h) ∈ s.cols) :
    viewHandle s h = .named n ∧ viewHandle (renamedState s g dict) h = .named (renOf dict n) :=
  handle_follows_rename hI.toInvCore g dict hok hc

example : ((0, "a"), 0) ∈ exState.cols ∧ viewHandle (renamedState exState 0 exDict) 0 = .named "b" := by decide

/-- … and so does every other open field object of a renamed column: a writeable view (`field.writeable()`, a second wrapper
    object around the same group, `Op.view`) reads its name from the group, so it reports the old name before and the new
    name after, and stays valid. -/
theorem views_follow_rename {s : State} (hI : Inv s) (g : Nat) (dict : List (Name × Name))
    (hok : RenameOk dict ((ownedBy s.cols g).map (·.1))) {h : Nat} {hd : Handle} {n : Name}
    (hh : s.handles[h]? = some hd) (hc : hd.closed = false) (hl : ((g, n), hd.oid) ∈ s.links) :
    viewHandle s h = .named n ∧ viewHandle (renamedState s g dict) h = .named (renOf dict n) :=
  wrapper_follows_rename hI.toInvCore g dict hok hh hc hl

/-- `exState` plus a writeable view (handle 3) of column x.a (handle 0) -/
def exViewState : State := run .repaired exState [.view (.byHandle 0)]
example : Inv exViewState := inv_run _ (inv_all_histories exOps)
example : (exViewState.handles[3]?).map (·.oid) = (exViewState.handles[0]?).map (·.oid) ∧
    viewHandle exViewState 3 = .named "a" ∧ viewHandle (renamedState exViewState 0 exDict) 3 = .named "b" := by decide

/-! ### every call is all-or-nothing -/

/-- Under the invariant, a call that raises — any call: on columns (create_*, df[n]=f, add, del, drop, delete_field, rename,
    dataframe.copy/move) or on dataframes (create/require/copy/setitem/del/drop/delete/move) — leaves both catalogues, all
    field objects and all data exactly as they were. The partial-failure points of the code (the h5 step after the
    dictionary step or vice versa, the drop after the copy, a field copy inside a dataframe copy) are unreachable.
    Only proviso: `dataframe.move` is not handed the left-over object of a column that was deleted earlier
    (`Op.srcLinked`; such an object is copied and then `field.name` fails — outside the statement, mirrored by the model). -/
theorem calls_all_or_nothing {s : State} (hI : Inv s) (op : Op) (hz : op.srcLinked s) : ErrKeeps s (step .repaired s op) :=
  step_errKeeps hI op hz

/-- … so along every history a failing call is invisible. -/
theorem failed_call_changes_nothing (ops : List Op) (op : Op) (hz : op.srcLinked (run .repaired State.init ops))
    {e : Err} {s' : State} (h : step .repaired (run .repaired State.init ops) op = .err e s') :
    s' = run .repaired State.init ops :=
  calls_all_or_nothing (inv_all_histories ops) op hz e s' h

example : (Op.moveField (.byHandle 0) 0 "y" "a_").fieldLevel = true ∧
    (step .repaired exState (.moveField (.byHandle 0) 0 "y" "a_")).isOk = false ∧
    (step .repaired exState (.moveField (.byHandle 0) 0 "y" "a_")).state = exState := by decide

/-! ### untouched fields keep their data -/

/-- Creating a column (create_*, and the copy made by `df[n] = f`, `add`, `dataframe.copy`, the first half of a move)
    puts exactly the given type+data under the new name and leaves every other column of every frame as it was. -/
theorem untouched_fields_unchanged_add {v : Variant} {s s' : State} (hI : Inv s) {g : Nat} {n : Name} {c : Content} {a : Nat}
    (h : addField v s g n c = .ok a s') :
    ∀ g' n', frameH5 s' g' n' = if (g', n') = (g, n) then some c else frameH5 s g' n' :=
  addField_refines hI.toInvCore h

/-- A copy stores the type and data of the source field object. -/
theorem copy_preserves_content {v : Variant} {s s' : State} (hI : Inv s) {h g : Nat} {n : Name} {a : Nat}
    (hc : copyField v s h g n = .ok a s') :
    ∃ c, fieldContent s h = .ok c ∧ ∀ g' n', frameH5 s' g' n' = if (g', n') = (g, n) then some c else frameH5 s g' n' :=
  copyField_refines hI.toInvCore hc

/-- Deleting a column (`del df[n]`, `delete_field`, `drop`, the second half of a move) removes that name only. -/
theorem untouched_fields_unchanged_del {s s' : State} {g : Nat} {n : Name}
    (h : delItem s g n = .ok () s' ∨ dropField s g n = .ok () s') :
    ∀ g' n', frameH5 s' g' n' = if (g', n') = (g, n) then none else frameH5 s g' n' := by
  rcases h with h | h
  · exact delItem_refines h
  · exact dropField_refines h

example : (copyField .repaired exState 1 1 "b").isOk = true ∧
    frameH5 (copyField .repaired exState 1 1 "b").state 1 "b" = some ⟨.indexed, 2⟩ ∧
    frameH5 (copyField .repaired exState 1 1 "b").state 0 "b" = some ⟨.indexed, 2⟩ := by decide
example : (delItem exState 0 "a").isOk = true ∧ frameH5 (delItem exState 0 "a").state 0 "b" = some ⟨.indexed, 2⟩ := by decide

/-- No call, in any state, for either variant of the code, changes the type or the data of a field object that already
    exists: whatever name (if any) an object is linked under afterwards, it reads back as before. -/
theorem objects_never_change (v : Variant) (s : State) (op : Op) {oid : Nat} {c : Content} (hc : s.objs[oid]? = some c) :
    (step v s op).state.objs[oid]? = some c :=
  (step_objs v s op).get hc

/-- … and so over every history. -/
theorem objects_never_change_run (v : Variant) (ops : List Op) (s : State) {oid : Nat} {c : Content}
    (hc : s.objs[oid]? = some c) : (run v s ops).objs[oid]? = some c := by
  induction ops generalizing s with
  | nil => exact hc
  | cons op ops ih => simp only [run]; exact ih _ (objects_never_change v s op hc)

example : exState.objs[1]? = some ⟨.indexed, 2⟩ ∧
    (run .repaired exState [.rename 0 "x" exDict, .moveFrame 0 "x" 1 "y", .reopen 1]).objs[1]? = some ⟨.indexed, 2⟩ := by decide

/-! ### ONE refinement for EVERY call: the code is a run of the abstract catalogue `dataset ↦ frame ↦ column ↦ (type, data)`

  `specStep` (Spec/Catalogue.lean) says in terms of names only what each call means: create/copy put one column, del/drop/
  delete_field remove one, rename re-keys one frame, `dataframe.move` is a rename inside a frame and copy + drop across frames,
  create/copy/`ds[n] = foreign` put a whole frame, `ds[n] = own` renames a frame, del/drop/delete remove one, `dataset.move` is
  copy + drop, `require_dataframe` creates when missing, reopen changes nothing. A call that raises changes nothing.
  The only thing taken from the model is the call log: which call, where the field object it was handed sat at that moment
  (`srcOf`: dataset, frame name, column name of the group it wraps), and whether it returned. -/

/-- Every call of the repaired code, on every consistent state, returning or raising, changes the file catalogue exactly as
    the abstract catalogue prescribes. Proviso (as for `calls_all_or_nothing`, here for every call that takes a field): the
    field object handed in is not the left-over of a deleted column (`Op.refsLinked`). -/
theorem step_refines {s : State} (hI : Inv s) (op : Op) (hz : op.refsLinked s) :
    absH5 (step .repaired s op).state = specCall (absH5 s) (callOf .repaired s op) :=
  Catalogue.step_refines hI op hz

/-- … spelled out for a call that returns … -/
theorem returning_call_refines {s s' : State} (hI : Inv s) (op : Op) (hz : op.refsLinked s) {u : Unit}
    (hok : step .repaired s op = .ok u s') : absH5 s' = specStep (srcOf s op) (absH5 s) op :=
  step_refines_ok hI op hz hok

/-- … and for one that raises. -/
theorem raising_call_refines {s s' : State} (hI : Inv s) (op : Op) (hz : op.refsLinked s) {e : Err}
    (herr : step .repaired s op = .err e s') : absH5 s' = absH5 s := by
  rw [calls_all_or_nothing hI op (refsLinked_srcLinked hz) e s' herr]

theorem absH5_init : absH5 State.init = Cat.empty := rfl

/-- Over all histories: the file catalogue after any history of calls is the abstract catalogue run over the call log. -/
theorem history_refines (ops : List Op) (hz : HistLinked .repaired State.init ops) :
    absH5 (run .repaired State.init ops) = specRun Cat.empty (callLog .repaired State.init ops) := by
  rw [← absH5_init]; exact run_refines ops inv_init hz

/-- … and so is what the Python objects report (`ds.keys()`, `df.keys()`, the field objects and their data) — "the names
    reported are exactly the groups present" and "a fresh reopen shows the same" for the one abstract catalogue. -/
theorem reported_catalogue_refines (ops : List Op) (hz : HistLinked .repaired State.init ops) :
    absPy (run .repaired State.init ops) = specRun Cat.empty (callLog .repaired State.init ops) := by
  rw [reopen_same ops]; exact history_refines ops hz

/-- "Untouched fields keep their data", for every call: whatever a returning call does not name (`Op.touches`: its destination
    column, its source when it moves, the renamed columns and their targets, the frames a frame-level call names) has the type
    and data it had. -/
theorem untouched_fields_keep_data {s s' : State} (hI : Inv s) (op : Op) (hz : op.refsLinked s) {u : Unit}
    (hok : step .repaired s op = .ok u s') (p : Src) (hp : ¬ op.touches (srcOf s op) p) : (absH5 s').col p = (absH5 s).col p := by
  rw [returning_call_refines hI op hz hok]; exact specStep_untouched _ _ _ _ hp

/-- WHEN a call returns: every call (other than `writeable()`, whose outcome hangs on the object's `_valid_reference` alone)
    returns exactly when the abstract pre-condition `specOk` holds — the frame exists / does not exist yet, the column exists /
    is free, the field handed in is there, the rename pre-check passes on the abstract frame — and raises otherwise. So a
    valid call is never refused and an invalid one never goes through. -/
theorem call_returns_iff {s : State} (hI : Inv s) (op : Op) (hz : op.refsLinked s) (hnv : op.isView = false) :
    (step .repaired s op).isOk = specOk (srcOf s op) (absH5 s) op :=
  step_isOk hI op hz hnv

/-- … hence the abstract machine needs nothing from the model but where the field object handed in sits: one call of the
    code is one step `specNext` (effect when the pre-condition holds, nothing otherwise), for every call. -/
theorem step_refines_total {s : State} (hI : Inv s) (op : Op) (hz : op.refsLinked s) :
    absH5 (step .repaired s op).state = specNext (absH5 s) (op, srcOf s op) :=
  Catalogue.step_refines_total hI op hz

/-- … and every history is an execution of the abstract machine. -/
theorem history_refines_total (ops : List Op) (hz : HistLinked .repaired State.init ops) :
    absH5 (run .repaired State.init ops) = specExec Cat.empty (srcLog .repaired State.init ops) := by
  rw [← absH5_init]; exact run_refines_total ops inv_init hz

/-- two datasets; frame x{a,b} and y{a_} in the first, x in the second; then: a frame copied into the other dataset, a frame
    assigned across datasets, a column moved (by held handle) into a frame of the other dataset where nothing is overwritten,
    a frame moved across datasets, a rename, a refused call, a reopen -/
def exHist : List Op :=
  exOps ++ [.copyFrame 0 "x" 1 "z", .setFrame 1 "w" 0 "y", .moveField (.byHandle 1) 1 "x" "b", .moveFrame 0 "y" 1 "v",
            .rename 0 "x" [("a", "b")], .copyFrame 0 "x" 1 "z", .reopen 1, .setFrame 1 "u" 1 "z"]

example : HistLinked .repaired State.init exHist := histLinked_of_check (by decide)
example : (callLog .repaired State.init exHist).map (·.returned) =
    [true, true, true, true, true, true, true, true, true, true, true, false, true, true] := by decide
example : ((callLog .repaired State.init exHist)[8]?).map (·.src) = some (some ⟨0, "x", "b"⟩) := by decide
/-- the cross-dataset copies and moves arrived with their data, the sources of the moves are gone, nothing was overwritten -/
example : let A := absH5 (run .repaired State.init exHist)
    A.col ⟨1, "u", "b"⟩ = some ⟨.indexed, 2⟩ ∧ A 1 "z" = none ∧ A.col ⟨1, "w", "a_"⟩ = some ⟨.fixed, 3⟩ ∧
    A.col ⟨1, "x", "b"⟩ = some ⟨.indexed, 2⟩ ∧ A.col ⟨0, "x", "a"⟩ = none ∧ A.col ⟨0, "x", "b"⟩ = some ⟨.numeric, 1⟩ ∧
    A.col ⟨1, "v", "a_"⟩ = some ⟨.fixed, 3⟩ ∧ (A 0 "y").isNone = true := by decide
example : specOk (some ⟨0, "x", "b"⟩) (absH5 exState) (.moveField (.byHandle 1) 1 "x" "b") = true ∧
    specOk (some ⟨0, "x", "a"⟩) (absH5 exState) (.moveField (.byHandle 0) 0 "y" "a_") = false ∧
    specOk none (absH5 exState) (.copyFrame 0 "x" 1 "x") = false ∧ specOk none (absH5 exState) (.copyFrame 0 "x" 1 "z") = true := by
  decide
example : (Op.moveField (.byHandle 1) 1 "x" "b").refsLinked (run .repaired State.init (exOps ++ [.copyFrame 0 "x" 1 "z", .setFrame 1 "w" 0 "y"])) :=
  refsLinked_of_check (by decide)
example : ¬ (Op.moveField (.byHandle 1) 1 "x" "b").touches (some ⟨0, "x", "b"⟩) ⟨0, "x", "a"⟩ := by
  simp [Op.touches]

/-! ### move -/

/-- A field object that `dataframe.move` moved to another frame reports itself invalid. -/
theorem moved_handles_invalid {s s' : State} {h g : Nat} {n : Name} {hd : Handle}
    (hv : ensureValid s h = .ok hd) (hne : hd.owner ≠ some g) (hok : moveField .repaired s h g n = .ok () s') :
    viewHandle s' h = .invalid :=
  moveField_cross_invalid hv hne hok

example : (moveField .repaired exState 1 1 "b").isOk = true ∧ viewHandle (moveField .repaired exState 1 1 "b").state 1 = .invalid := by
  decide

/-- The statement one would like for EVERY field object of the moved field — the property's "handles to moved-away fields
    report themselves invalid" — is

      Inv s → ensureValid s h = .ok hd → hd.owner ≠ some g → moveField .repaired s h g n = .ok () s' →
      ∀ j hj, s'.handles[j]? = some hj → hj.closed = false → hj.oid = hd.oid → viewHandle s' j = .invalid

    (`MovedHandlesAllInvalid`). It is FALSE for the code as it is (open finding NC15c): `dataframe.move` sets
    `_valid_reference = False` on the one object it is handed; a second wrapper of the same field (`w = f.writeable()`) is
    told nothing, keeps `valid == True` and its `name` raises from h5py (`Witness.C15.nc15c_stale_view`,
    `moved_handles_all_invalid_refuted`). Proved here: the statement under the hypothesis that excludes exactly that — no
    OTHER open, valid field object wraps the moved field's group. -/
theorem moved_handles_invalid_partial {s s' : State} (hI : Inv s) {h g : Nat} {n : Name} {hd : Handle}
    (hv : ensureValid s h = .ok hd) (hne : hd.owner ≠ some g) (hok : moveField .repaired s h g n = .ok () s')
    (hsole : ∀ j hj, j ≠ h → s.handles[j]? = some hj → hj.closed = false → hj.valid = true → hj.oid ≠ hd.oid) :
    ∀ j hj, s'.handles[j]? = some hj → hj.closed = false → hj.oid = hd.oid → viewHandle s' j = .invalid :=
  moveField_cross_all_invalid hI.toInvCore hv hne hok hsole

/-- no other wrapper of x.b in `exState`: handles 0 and 2 wrap other groups -/
example : ∀ j hj, j ≠ 1 → exState.handles[j]? = some hj → hj.closed = false → hj.valid = true → hj.oid ≠ 1 := by
  intro j hj hne hh _ _
  have hlt : j < 3 := (List.getElem?_eq_some_iff.1 hh).1
  match j, hne, hh with
  | 0, _, hh => cases hh; decide
  | 2, _, hh => cases hh; decide

def MovedHandlesAllInvalid : Prop :=
  ∀ (s s' : State) (h g : Nat) (n : Name) (hd : Handle), Inv s → ensureValid s h = .ok hd → hd.owner ≠ some g →
    moveField .repaired s h g n = .ok () s' →
    ∀ j hj, s'.handles[j]? = some hj → hj.closed = false → hj.oid = hd.oid → viewHandle s' j = .invalid

/-- NC15c: with a writeable view (handle 3) of x.a held, moving x.a (handle 0) to frame y leaves the view valid but dangling. -/
theorem moved_handles_all_invalid_refuted : ¬ MovedHandlesAllInvalid := by
  intro H
  have hI : Inv exViewState := inv_run _ (inv_all_histories exOps)
  have hmv : ∀ r : Res Unit, r.isOk = true → r = .ok () r.state := by
    intro r hr; cases r with
    | ok u s1 => rfl
    | err e s1 => cases hr
  have := H exViewState (moveField .repaired exViewState 0 1 "ab").state 0 1 "ab" ⟨0, true, some 0, 0, false⟩ hI
    (by rfl) (by decide) (hmv _ (by decide)) 3 ⟨0, true, some 0, 0, false⟩ (by decide) rfl rfl
  revert this; decide

end Exetera.Props.C15
