import Exetera.Gen.Kernels
import Exetera.Model.Journal
import Exetera.Lemmas.While
import Exetera.Lemmas.GenKernels
import Exetera.Lemmas.GenKernelsJoin
/-!
  The TRANSLATED `ordered_generate_journalling_indices` (two passes of three consecutive `while` loops each; six copies of the
  run-skipping `while i+1 < len(old) and old[i+1] == old[i]` whose condition subscripts) against `Journal.journalIndices`.

  * `skip_L2`: the run-skipping loop on the kernel's fuel computes `skipRun` (the model's structural recursion); the other five
    copies are the same definition (`rfl`).
  * `count_step_*` / `write_step_*`: one iteration of each of the six outer loops follows the model's `mainBody` / `oldStep` /
    `newStep`; the writing pass's buffers are the model's written lists followed by the untouched `-1`s (`RW`).
  * `ordered_generate_journalling_indices_ok`: every `.ok` run of the model is a run of the translated kernel with the same pair
    of maps, for any fuel ≥ len(old) + len(new).
-/
namespace Exetera.GenK

open Exetera Exetera.PyRt Exetera.Gen.Kernels Exetera.Journal

namespace JIdx

open ordered_generate_journalling_indices

abbrev St := ordered_generate_journalling_indices.St

theorem getE_site_any {α} {xs : List α} {i : Nat} {s1 : String} {v : α} (s2 : String) (h : getE xs i s1 = .ok v) :
    getE xs i s2 = .ok v := by
  simp only [getE] at h ⊢
  cases hx : xs[i]? <;> simp_all

/-- value of the run-skipping condition -/
theorem guard_val (q0 q1 : List Int) (i : Nat) (w1 w2 : Int) (w3 w4 : List Int) (w5 : Int) :
    guardE_L2 ⟨q0, q1, (i : Int), w1, w2, w3, w4, w5⟩ = .ok (decide (i + 1 < q0.length) && (q0[i + 1]? == q0[i]?)) := by
  by_cases hlt : i + 1 < q0.length
  · have hd : decide (((i + 1 : Nat) : Int) < pyLen q0) = true := decide_eq_true (by simp only [pyLen]; omega)
    have e : (i : Int) + 1 = ((i + 1 : Nat) : Int) := by omega
    have hi : i < q0.length := by omega
    simp only [guardE_L2, e, hd, if_true, idxE_nat, getE_of_lt _ hlt, getE_of_lt _ hi, bindE_ok,
      List.getElem?_eq_getElem hlt, List.getElem?_eq_getElem hi, hlt, decide_true, Bool.true_and, Option.some_beq_some]
  · have hd : decide ((i : Int) + 1 < pyLen q0) = false := decide_eq_false (by simp only [pyLen]; omega)
    simp only [guardE_L2, hd, Bool.false_eq_true, if_false, hlt, decide_false, Bool.false_and]

/-- `while i+1 < len(old) and old[i+1] == old[i]: i += 1` on any fuel ≥ len(old) - i -/
theorem skip_from (q0 q1 : List Int) (w1 w2 : Int) (w3 w4 : List Int) (w5 : Int) :
    ∀ (f F i : Nat), q0.length - i ≤ f → q0.length - i ≤ F →
      whileG guardE_L2 body_L2 F ⟨q0, q1, (i : Int), w1, w2, w3, w4, w5⟩
        = .ok ⟨q0, q1, ((skipRunFrom q0 f i : Nat) : Int), w1, w2, w3, w4, w5⟩ := by
  intro f
  induction f with
  | zero =>
    intro F i hf _
    have hg := guard_val q0 q1 i w1 w2 w3 w4 w5
    have hlt : ¬ (i + 1 < q0.length) := by omega
    simp only [hlt, decide_false, Bool.false_and] at hg
    simp only [skipRunFrom]
    cases F <;> simp [whileG, hg]
  | succ f ih =>
    intro F i hf hF
    have hg := guard_val q0 q1 i w1 w2 w3 w4 w5
    simp only [skipRunFrom]
    cases hc : (decide (i + 1 < q0.length) && (q0[i + 1]? == q0[i]?)) with
    | false =>
      rw [hc] at hg
      simp only [Bool.false_eq_true, if_false]
      cases F <;> simp [whileG, hg]
    | true =>
      rw [hc] at hg
      simp only [if_true]
      have hlt : i + 1 < q0.length := by
        simp only [Bool.and_eq_true, decide_eq_true_eq] at hc
        exact hc.1
      obtain ⟨F', rfl⟩ : ∃ F', F = F' + 1 := ⟨F - 1, by omega⟩
      have e : (i : Int) + 1 = ((i + 1 : Nat) : Int) := by omega
      have hb : body_L2 ⟨q0, q1, (i : Int), w1, w2, w3, w4, w5⟩ = .ok ⟨q0, q1, ((i + 1 : Nat) : Int), w1, w2, w3, w4, w5⟩ := by
        simp only [body_L2, e]
      simp only [whileG, hg, if_true, hb]
      exact ih F' (i + 1) (by omega) (by omega)

theorem skip_L2 (q0 q1 : List Int) (i : Nat) (w1 w2 : Int) (w3 w4 : List Int) (w5 : Int) (F : Nat) (hF : q0.length ≤ F) :
    whileG guardE_L2 body_L2 F ⟨q0, q1, (i : Int), w1, w2, w3, w4, w5⟩
      = .ok ⟨q0, q1, ((skipRun q0 i : Nat) : Int), w1, w2, w3, w4, w5⟩ :=
  skip_from q0 q1 w1 w2 w3 w4 w5 (q0.length - i) F i (Nat.le_refl _) (by omega)

/-! the other five copies of the run-skipping loop are the same definition -/
theorem gL3 : guardE_L3 = guardE_L2 := rfl
theorem bL3 : body_L3 = body_L2 := rfl
theorem gL5 : guardE_L5 = guardE_L2 := rfl
theorem bL5 : body_L5 = body_L2 := rfl
theorem gL8 : guardE_L8 = guardE_L2 := rfl
theorem bL8 : body_L8 = body_L2 := rfl
theorem gL9 : guardE_L9 = guardE_L2 := rfl
theorem bL9 : body_L9 = body_L2 := rfl
theorem gL11 : guardE_L11 = guardE_L2 := rfl
theorem bL11 : body_L11 = body_L2 := rfl

theorem npFull_nat (n : Nat) (v : Int) : npFull (n : Int) v = .ok (List.replicate n v) := by
  simp [npFull]

/-- writing the cursor position of a buffer that is "written list ++ untouched -1s" -/
theorem write_fill (b : List Int) (cap k : Nat) (v : Int) (hk : k = b.length) (h : k < cap) (site : String) :
    setIdxE (b ++ List.replicate (cap - b.length) (-1)) (k : Int) v site
      = .ok ((b ++ [v]) ++ List.replicate (cap - (b ++ [v]).length) (-1)) := by
  subst hk
  have e : cap - b.length = (cap - (b.length + 1)) + 1 := by omega
  rw [setIdxE_nat, setE, if_pos (by simp; omega)]
  rw [e, List.replicate_succ]
  simp

/-! ### the counting pass -/

def RC (old new : List Int) (s : St) (t : JS) : Prop :=
  s.p0 = old ∧ s.p1 = new ∧ s.v0 = (t.i : Int) ∧ s.v1 = (t.j : Int) ∧ s.v2 = (t.n : Int)

theorem count_old (old new : List Int) (F : Nat) (hF : old.length ≤ F) (s : St) (t t' : JS)
    (hR : RC old new s t) (hb : oldStep none old t = .ok t') :
    ∃ s', body_L4 F s = .ok s' ∧ RC old new s' t' := by
  obtain ⟨q0, q1, w0, w1, w2, w3, w4, w5⟩ := s
  obtain ⟨ti, tj, tn, tob, tnb⟩ := t
  obtain ⟨h0, h1, hv0, hv1, hv2⟩ := hR
  simp only at h0 h1 hv0 hv1 hv2
  subst h0 h1 hv0 hv1 hv2
  simp only [oldStep, emit, Except.ok.injEq] at hb
  subst hb
  simp only [body_L4, gL5, bL5, skip_L2 q0 q1 ti _ _ _ _ _ F hF, bindE_ok]
  refine ⟨_, rfl, rfl, rfl, ?_, rfl, ?_⟩
  · simp only; omega
  · simp only; omega

theorem count_new (old new : List Int) (s : St) (t t' : JS)
    (hR : RC old new s t) (hb : newStep none t = .ok t') :
    ∃ s', body_L6 s = .ok s' ∧ RC old new s' t' := by
  obtain ⟨q0, q1, w0, w1, w2, w3, w4, w5⟩ := s
  obtain ⟨ti, tj, tn, tob, tnb⟩ := t
  obtain ⟨h0, h1, hv0, hv1, hv2⟩ := hR
  simp only at h0 h1 hv0 hv1 hv2
  subst h0 h1 hv0 hv1 hv2
  simp only [newStep, emit, Except.ok.injEq] at hb
  subst hb
  simp only [body_L6]
  refine ⟨_, rfl, rfl, rfl, rfl, ?_, ?_⟩
  · simp only; omega
  · simp only; omega

theorem count_main (old new : List Int) (F : Nat) (hF : old.length ≤ F) (s : St) (t t' : JS)
    (hR : RC old new s t) (hb : mainBody none old new t = .ok t') :
    ∃ s', body_L1 F s = .ok s' ∧ RC old new s' t' := by
  obtain ⟨q0, q1, w0, w1, w2, w3, w4, w5⟩ := s
  obtain ⟨ti, tj, tn, tob, tnb⟩ := t
  obtain ⟨h0, h1, hv0, hv1, hv2⟩ := hR
  simp only at h0 h1 hv0 hv1 hv2
  subst h0 h1 hv0 hv1 hv2
  simp only [mainBody] at hb
  cases ha : getE q0 ti "old[i]" with
  | error e => simp [ha] at hb
  | ok a =>
    cases hbb : getE q1 tj "new[j]" with
    | error e => simp [ha, hbb] at hb
    | ok b =>
      simp only [ha, hbb] at hb
      simp only [body_L1, idxE_nat, getE_site_any "p0[v0]" ha, getE_site_any "p1[v1]" hbb, bindE_ok]
      by_cases hlt : a < b
      · simp only [hlt, if_true, oldStep, emit, Except.ok.injEq] at hb
        subst hb
        simp only [hlt, decide_true, if_true, skip_L2 q0 q1 ti _ _ _ _ _ F hF, bindE_ok]
        refine ⟨_, rfl, rfl, rfl, ?_, rfl, ?_⟩
        · simp only; omega
        · simp only; omega
      · simp only [hlt, if_false] at hb
        simp only [hlt, decide_false, Bool.false_eq_true, if_false]
        by_cases hgt : a > b
        · simp only [hgt, if_true, newStep, emit, Except.ok.injEq] at hb
          subst hb
          simp only [hgt, decide_true, if_true]
          refine ⟨_, rfl, rfl, rfl, rfl, ?_, ?_⟩
          · simp only; omega
          · simp only; omega
        · simp only [hgt, if_false, bothStep, emit, Except.ok.injEq] at hb
          subst hb
          simp only [hgt, decide_false, Bool.false_eq_true, if_false, gL3, bL3, skip_L2 q0 q1 ti _ _ _ _ _ F hF, bindE_ok]
          refine ⟨_, rfl, rfl, rfl, ?_, ?_, ?_⟩
          · simp only; omega
          · simp only; omega
          · simp only; omega

/-! ### the writing pass -/

/-- the two preallocated maps are the model's written lists followed by the untouched `-1`s; `joint` is the number written -/
def RW (old new : List Int) (cap : Nat) (s : St) (t : JS) : Prop :=
  s.p0 = old ∧ s.p1 = new ∧ s.v0 = (t.i : Int) ∧ s.v1 = (t.j : Int) ∧ s.v5 = (t.ob.length : Int) ∧
  t.nb.length = t.ob.length ∧
  s.v3 = t.ob ++ List.replicate (cap - t.ob.length) (-1) ∧ s.v4 = t.nb ++ List.replicate (cap - t.nb.length) (-1)

theorem emit_some {cap : Nat} {t t' : JS} {a b : Int} (h : emit (some cap) t a b = .ok t') :
    t.ob.length < cap ∧ t' = { t with ob := t.ob ++ [a], nb := t.nb ++ [b] } := by
  simp only [emit] at h
  split at h
  · rename_i hlt
    simp only [Except.ok.injEq] at h
    exact ⟨hlt, h.symm⟩
  · simp at h

theorem write_old (old new : List Int) (cap F : Nat) (hF : old.length ≤ F) (s : St) (t t' : JS)
    (hR : RW old new cap s t) (hb : oldStep (some cap) old t = .ok t') :
    ∃ s', body_L10 F s = .ok s' ∧ RW old new cap s' t' := by
  obtain ⟨q0, q1, w0, w1, w2, w3, w4, w5⟩ := s
  obtain ⟨ti, tj, tn, tob, tnb⟩ := t
  obtain ⟨h0, h1, hv0, hv1, hv5, hlen, hv3, hv4⟩ := hR
  simp only at h0 h1 hv0 hv1 hv5 hlen hv3 hv4
  subst h0 h1 hv0 hv1 hv5 hv3 hv4
  simp only [oldStep] at hb
  cases he : emit (some cap) ⟨ti, tj, tn, tob, tnb⟩ ((skipRun q0 ti : Nat) : Int) (-1) with
  | error e => simp [he] at hb
  | ok t1 =>
    simp only [he, Except.ok.injEq] at hb
    subst hb
    obtain ⟨hlt, rfl⟩ := emit_some he
    simp only at hlt
    simp only [body_L10, gL11, bL11, skip_L2 q0 q1 ti _ _ _ _ _ F hF, bindE_ok,
      write_fill tob cap tob.length _ rfl hlt, write_fill tnb cap tob.length _ hlen.symm hlt]
    refine ⟨_, rfl, rfl, rfl, ?_, rfl, ?_, ?_, rfl, rfl⟩
    · simp only; omega
    · simp only [List.length_append, List.length_singleton]; omega
    · simp only [List.length_append, List.length_singleton]; omega

theorem write_new (old new : List Int) (cap : Nat) (s : St) (t t' : JS)
    (hR : RW old new cap s t) (hb : newStep (some cap) t = .ok t') :
    ∃ s', body_L12 s = .ok s' ∧ RW old new cap s' t' := by
  obtain ⟨q0, q1, w0, w1, w2, w3, w4, w5⟩ := s
  obtain ⟨ti, tj, tn, tob, tnb⟩ := t
  obtain ⟨h0, h1, hv0, hv1, hv5, hlen, hv3, hv4⟩ := hR
  simp only at h0 h1 hv0 hv1 hv5 hlen hv3 hv4
  subst h0 h1 hv0 hv1 hv5 hv3 hv4
  simp only [newStep] at hb
  cases he : emit (some cap) ⟨ti, tj, tn, tob, tnb⟩ (-1) (tj : Int) with
  | error e => simp [he] at hb
  | ok t1 =>
    simp only [he, Except.ok.injEq] at hb
    subst hb
    obtain ⟨hlt, rfl⟩ := emit_some he
    simp only at hlt
    simp only [body_L12, bindE_ok,
      write_fill tob cap tob.length _ rfl hlt, write_fill tnb cap tob.length _ hlen.symm hlt]
    refine ⟨_, rfl, rfl, rfl, rfl, ?_, ?_, ?_, rfl, rfl⟩
    · simp only; omega
    · simp only [List.length_append, List.length_singleton]; omega
    · simp only [List.length_append, List.length_singleton]; omega

theorem write_main (old new : List Int) (cap F : Nat) (hF : old.length ≤ F) (s : St) (t t' : JS)
    (hR : RW old new cap s t) (hb : mainBody (some cap) old new t = .ok t') :
    ∃ s', body_L7 F s = .ok s' ∧ RW old new cap s' t' := by
  obtain ⟨q0, q1, w0, w1, w2, w3, w4, w5⟩ := s
  obtain ⟨ti, tj, tn, tob, tnb⟩ := t
  obtain ⟨h0, h1, hv0, hv1, hv5, hlen, hv3, hv4⟩ := hR
  simp only at h0 h1 hv0 hv1 hv5 hlen hv3 hv4
  subst h0 h1 hv0 hv1 hv5 hv3 hv4
  simp only [mainBody] at hb
  cases ha : getE q0 ti "old[i]" with
  | error e => simp [ha] at hb
  | ok a =>
    cases hbb : getE q1 tj "new[j]" with
    | error e => simp [ha, hbb] at hb
    | ok b =>
      simp only [ha, hbb] at hb
      simp only [body_L7, idxE_nat, getE_site_any "p0[v0]" ha, getE_site_any "p1[v1]" hbb, bindE_ok]
      by_cases hlt : a < b
      · simp only [hlt, if_true, oldStep] at hb
        cases he : emit (some cap) ⟨ti, tj, tn, tob, tnb⟩ ((skipRun q0 ti : Nat) : Int) (-1) with
        | error e => simp [he] at hb
        | ok t1 =>
          simp only [he, Except.ok.injEq] at hb
          subst hb
          obtain ⟨hc, rfl⟩ := emit_some he
          simp only at hc
          simp only [hlt, decide_true, if_true, gL8, bL8, skip_L2 q0 q1 ti _ _ _ _ _ F hF, bindE_ok,
            write_fill tob cap tob.length _ rfl hc, write_fill tnb cap tob.length _ hlen.symm hc]
          refine ⟨_, rfl, rfl, rfl, ?_, rfl, ?_, ?_, rfl, rfl⟩
          · simp only; omega
          · simp only [List.length_append, List.length_singleton]; omega
          · simp only [List.length_append, List.length_singleton]; omega
      · simp only [hlt, if_false] at hb
        simp only [hlt, decide_false, Bool.false_eq_true, if_false]
        by_cases hgt : a > b
        · simp only [hgt, if_true, newStep] at hb
          cases he : emit (some cap) ⟨ti, tj, tn, tob, tnb⟩ (-1) (tj : Int) with
          | error e => simp [he] at hb
          | ok t1 =>
            simp only [he, Except.ok.injEq] at hb
            subst hb
            obtain ⟨hc, rfl⟩ := emit_some he
            simp only at hc
            simp only [hgt, decide_true, if_true, bindE_ok,
              write_fill tob cap tob.length _ rfl hc, write_fill tnb cap tob.length _ hlen.symm hc]
            refine ⟨_, rfl, rfl, rfl, rfl, ?_, ?_, ?_, rfl, rfl⟩
            · simp only; omega
            · simp only [List.length_append, List.length_singleton]; omega
            · simp only [List.length_append, List.length_singleton]; omega
        · simp only [hgt, if_false, bothStep] at hb
          cases he : emit (some cap) ⟨ti, tj, tn, tob, tnb⟩ ((skipRun q0 ti : Nat) : Int) (tj : Int) with
          | error e => simp [he] at hb
          | ok t1 =>
            simp only [he, Except.ok.injEq] at hb
            subst hb
            obtain ⟨hc, rfl⟩ := emit_some he
            simp only at hc
            simp only [hgt, decide_false, Bool.false_eq_true, if_false, gL9, bL9, skip_L2 q0 q1 ti _ _ _ _ _ F hF, bindE_ok,
              write_fill tob cap tob.length _ rfl hc, write_fill tnb cap tob.length _ hlen.symm hc]
            refine ⟨_, rfl, rfl, rfl, ?_, ?_, ?_, ?_, rfl, rfl⟩
            · simp only; omega
            · simp only; omega
            · simp only [List.length_append, List.length_singleton]; omega
            · simp only [List.length_append, List.length_singleton]; omega

/-! ### one pass = three consecutive loops -/

theorem count_pass (old new : List Int) (F : Nat) (hF : old.length + new.length ≤ F) (c : JS)
    (h : pass none old new = .ok c) (s0 : St) (hR : RC old new s0 {}) :
    ∃ s1 s2 s3, whileE guard_L1 (body_L1 F) F s0 = .ok s1 ∧ whileE guard_L4 (body_L4 F) F s1 = .ok s2 ∧
      whileE guard_L6 body_L6 F s2 = .ok s3 ∧ RC old new s3 c := by
  unfold pass at h
  cases h1 : whileE (fun s : JS => decide (s.i < old.length) && decide (s.j < new.length)) (mainBody none old new)
      (old.length + new.length) {} with
  | error e => simp [h1] at h
  | ok t1 =>
    simp only [h1] at h
    cases h2 : whileE (fun s : JS => decide (s.i < old.length)) (oldStep none old) old.length t1 with
    | error e => simp [h2] at h
    | ok t2 =>
      simp only [h2] at h
      obtain ⟨s1, hw1, hR1⟩ := whileE_sim (RC old new) guard_L1 (body_L1 F) _ _
        (by
          rintro s t ⟨h0, h1, hv0, hv1, _⟩
          simp only [guard_L1, h0, h1, hv0, hv1, pyLen, Int.ofNat_lt])
        (fun s t t' hR _ hb => count_main old new F (by omega) s t t' hR hb) _ s0 {} t1 hR h1
      obtain ⟨s2, hw2, hR2⟩ := whileE_sim (RC old new) guard_L4 (body_L4 F) _ _
        (by
          rintro s t ⟨h0, h1, hv0, hv1, _⟩
          simp only [guard_L4, h0, hv0, pyLen, Int.ofNat_lt])
        (fun s t t' hR _ hb => count_old old new F (by omega) s t t' hR hb) _ s1 t1 t2 hR1 h2
      obtain ⟨s3, hw3, hR3⟩ := whileE_sim (RC old new) guard_L6 body_L6 _ _
        (by
          rintro s t ⟨h0, h1, hv0, hv1, _⟩
          simp only [guard_L6, h1, hv1, pyLen, Int.ofNat_lt])
        (fun s t t' hR _ hb => count_new old new s t t' hR hb) _ s2 t2 c hR2 h
      exact ⟨s1, s2, s3, whileE_mono _ _ _ _ _ hw1 F hF, whileE_mono _ _ _ _ _ hw2 F (by omega),
        whileE_mono _ _ _ _ _ hw3 F (by omega), hR3⟩

theorem write_pass (old new : List Int) (cap F : Nat) (hF : old.length + new.length ≤ F) (c : JS)
    (h : pass (some cap) old new = .ok c) (s0 : St) (hR : RW old new cap s0 {}) :
    ∃ s1 s2 s3, whileE guard_L7 (body_L7 F) F s0 = .ok s1 ∧ whileE guard_L10 (body_L10 F) F s1 = .ok s2 ∧
      whileE guard_L12 body_L12 F s2 = .ok s3 ∧ RW old new cap s3 c := by
  unfold pass at h
  cases h1 : whileE (fun s : JS => decide (s.i < old.length) && decide (s.j < new.length)) (mainBody (some cap) old new)
      (old.length + new.length) {} with
  | error e => simp [h1] at h
  | ok t1 =>
    simp only [h1] at h
    cases h2 : whileE (fun s : JS => decide (s.i < old.length)) (oldStep (some cap) old) old.length t1 with
    | error e => simp [h2] at h
    | ok t2 =>
      simp only [h2] at h
      obtain ⟨s1, hw1, hR1⟩ := whileE_sim (RW old new cap) guard_L7 (body_L7 F) _ _
        (by
          rintro s t ⟨h0, h1, hv0, hv1, _⟩
          simp only [guard_L7, h0, h1, hv0, hv1, pyLen, Int.ofNat_lt])
        (fun s t t' hR _ hb => write_main old new cap F (by omega) s t t' hR hb) _ s0 {} t1 hR h1
      obtain ⟨s2, hw2, hR2⟩ := whileE_sim (RW old new cap) guard_L10 (body_L10 F) _ _
        (by
          rintro s t ⟨h0, h1, hv0, hv1, _⟩
          simp only [guard_L10, h0, hv0, pyLen, Int.ofNat_lt])
        (fun s t t' hR _ hb => write_old old new cap F (by omega) s t t' hR hb) _ s1 t1 t2 hR1 h2
      obtain ⟨s3, hw3, hR3⟩ := whileE_sim (RW old new cap) guard_L12 body_L12 _ _
        (by
          rintro s t ⟨h0, h1, hv0, hv1, _⟩
          simp only [guard_L12, h1, hv1, pyLen, Int.ofNat_lt])
        (fun s t t' hR _ hb => write_new old new cap s t t' hR hb) _ s2 t2 c hR2 h
      exact ⟨s1, s2, s3, whileE_mono _ _ _ _ _ hw1 F hF, whileE_mono _ _ _ _ _ hw2 F (by omega),
        whileE_mono _ _ _ _ _ hw3 F (by omega), hR3⟩

end JIdx

open ordered_generate_journalling_indices in
/-- every `.ok` run of the model is a run of the translated kernel with the same two maps; any fuel ≥ len(old) + len(new) -/
theorem ordered_generate_journalling_indices_ok (old new : List Int) (r : List Int × List Int) (fuel : Nat)
    (hfuel : old.length + new.length ≤ fuel) (h : journalIndices old new = .ok r) :
    ordered_generate_journalling_indices.run old new fuel = .ok r := by
  unfold journalIndices at h
  cases hc : pass none old new with
  | error e => simp [hc] at h
  | ok c =>
    simp only [hc] at h
    cases hw : pass (some c.n) old new with
    | error e => simp [hw] at h
    | ok w =>
      simp only [hw, Except.ok.injEq] at h
      subst h
      obtain ⟨s1, s2, s3, e1, e2, e3, hR3⟩ := JIdx.count_pass old new fuel hfuel c hc ⟨old, new, 0, 0, 0, [], [], 0⟩
        ⟨rfl, rfl, rfl, rfl, rfl⟩
      obtain ⟨g0, g1, gv0, gv1, gv2⟩ := hR3
      obtain ⟨u1, u2, u3, f1, f2, f3, hW3⟩ := JIdx.write_pass old new c.n fuel hfuel w hw
        ⟨s3.p0, s3.p1, 0, 0, (c.n : Int), List.replicate c.n (-1), List.replicate c.n (-1), 0⟩
        ⟨g0, g1, rfl, rfl, rfl, rfl, by simp, by simp⟩
      obtain ⟨_, _, _, _, _, _, k3, k4⟩ := hW3
      unfold ordered_generate_journalling_indices.run
      simp only [e1, e2, e3, bindE_ok, gv2, JIdx.npFull_nat, f1, f2, f3, k3, k4]

end Exetera.GenK
