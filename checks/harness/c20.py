"""C20 — date helpers bucket timestamps into the day and the period that contain them.
Correspondence: exetera.processing.date_time_helpers.{get_periods,get_days,generate_period_offset_map,get_period_offsets}
(and the documented pipeline of the four) vs Exetera.Dates.* (Lean, lean/Exetera/Model/Dates.lean).
Oracle for the property itself: the Python renderings of lean/Exetera/Spec/Dates.lean below (`spec_*`).

Time axis: every case carries integer seconds.  Datetimes are seconds since datetime.min (0001-01-01T00:00:00);
timestamps are handed to the real code as float64 POSIX seconds (axis value minus EPOCH), i.e. always on the
integer-second grid where the float computation of the code is exact."""
import itertools

PROPERTY = "C20"
LEVEL = "proof"
LEAN_MODULES = ["Exetera.Props.C20"]
EXHAUSTIVE = {"quick": True, "thorough": True}
MODES = {"quick": ["jit"], "thorough": ["jit"], "search": ["jit"]}   # date_time_helpers has no @njit kernels: one mode
CASE_TIMEOUT = 60
TECHNIQUE = ("Lean 4 theorems about an executable integer model of date_time_helpers.py + differential run of the compiled "
             "model against the real numpy/datetime code on the integer-second grid")
LEVEL_TEXT = ("Proof, for all inputs, about the executable Lean model of the four date helpers over exact integer seconds: "
              "get_days returns the unique day number d with o+86400d <= t < o+86400(d+1) for the chosen origin o (start_date, else "
              "the least unfiltered timestamp), flags exactly the rows that pass the filter and lie in [start,end), and fails only "
              "when no origin exists; get_periods returns exactly start+k*step for k=0..floor(|end-start|/|step|), never leaves "
              "[0001,9999], terminates; generate_period_offset_map / get_period_offsets give each in-range day the index of the "
              "half-open period containing it and -1 otherwise; and the documented pipeline of the four assigns each timestamp the "
              "index k with periods[k] <= t < periods[k+1] or -1. The model is tied to the real code by a differential run.")
LEVEL_NOTE = ("Trusted: Lean kernel; the hand-written model (validated by the differential run, not verified against the Python "
              "text); numpy element-wise arithmetic, boolean/fancy indexing and datetime/timedelta arithmetic (modelled, exercised, "
              "not proved); IEEE rounding is outside the model: the theorems speak about timestamps on the integer-second grid "
              "(|t| < 2^52), where floor((t-o)/86400.0) is exact, and int32 wrap of day numbers beyond 2^31 days is not modelled. "
              "Holds for the tree with fixes D31, NC20b, NC20c applied; their witnesses stay in corpus/C20.")
RULE = ("corpus first; exhaustive small scope (seed independent): get_days over all timestamp sequences of length <= 2 (quick) / 3 "
        "(thorough) drawn from 5 boundary timestamps x every bool mask and a set of int8 filters (values 0,1,2,-1,5) x start in "
        "{None, two values} x end in {None, two values}; get_periods over start/end offsets -15..15 days (+ off-midnight seconds) x "
        "delta in +-1,2,3,7 x day/week incl. the datetime.min/max limits; generate_period_offset_map over all sequences of "
        "length <= 4 (thorough 5) of 6 boundaries incl. unsorted/negative/half-day ones; get_period_offsets over maps x day "
        "sequences incl. negative and out-of-bounds days x in_range None/bool/int8; then seeded random cases of each kind plus the "
        "pipeline with timestamps planted on and one second around every period boundary, plus large-magnitude timestamps "
        "(day counts up to 1e9, one second below a day boundary) and a small malformed stream (length mismatches, bad period "
        "names, delta 0, wrong direction, over-long timedelta). Non-trivial: get_days with >= 2 rows and a filter/start/end; "
        "get_periods returning >= 2 boundaries; maps with >= 2 periods and >= 1 day; offsets/pipeline with both an in-range "
        "and an out-of-range row. Distinct = distinct case dict.")
ASSUMPTIONS = ["timestamps lie on the integer-second grid with |t| < 2^52 and day numbers fit int32 (IEEE rounding and int32 wrap are not modelled)",
               "numpy comparison, &, boolean-mask / integer fancy indexing, slice assignment, np.min, np.floor, astype behave as modelled",
               "datetime/timedelta arithmetic is exact calendar arithmetic on naive datetimes; datetime.timestamp() is not part of the model",
               "hand-written Lean model validated by this differential run, not verified against the Python text"]
TRUSTED = ["Lean 4.33 kernel", "axioms: propext, Classical.choice, Quot.sound only (audited per theorem)",
           "checks/harness/c20.py generators, canonicalisation and the Python rendering of Spec/Dates.lean",
           "lean/Exetera/Model/Dates.lean mirrors exetera/processing/date_time_helpers.py by hand",
           "tools/translate.py for Gen.SECONDS_PER_DAY"]

DAY = 86400
EPOCH = 62135596800            # seconds from datetime.min to 1970-01-01
DT_MAX = 315537897599          # seconds from datetime.min to 9999-12-31T23:59:59
TD_MAX_DAYS = 999999999
BASE = EPOCH + 1589155200 + 3723   # 2020-05-11T01:02:03, deliberately not on a midnight
UNITS = {"day": 1, "days": 1, "week": 7, "weeks": 7}


# ------------------------------------------------------------------------------------------------------------------
# generators
# ------------------------------------------------------------------------------------------------------------------

def c_days(ts, filt, fdt, start, end, **kw):
    return {"op": "dates_days", "ts": list(ts), "filter": None if filt is None else list(filt), "fdtype": fdt,
            "start": start, "end": end, **kw}


def c_periods(start, end, period, delta, **kw):
    return {"op": "dates_periods", "start": start, "end": end, "period": period, "delta": delta, **kw}


def c_map(periods, **kw):
    return {"op": "dates_map", "periods": list(periods), **kw}


def c_offsets(m, days, inr, irdt, **kw):
    return {"op": "dates_offsets", "map": list(m), "days": list(days), "in_range": None if inr is None else list(inr),
            "irdtype": irdt, **kw}


def c_pipeline(ts, filt, fdt, start, end, period, delta, **kw):
    return {"op": "dates_pipeline", "ts": list(ts), "filter": None if filt is None else list(filt), "fdtype": fdt,
            "start": start, "end": end, "period": period, "delta": delta, **kw}


def filters_for(n, full):
    out = [(None, None)]
    for m in itertools.product([0, 1], repeat=n):
        out.append((list(m), "bool"))
    i8 = [[0] * n, [1] * n, [2] + [0] * (n - 1), [0] * (n - 1) + [1], [-1] + [1] * (n - 1), [5] * n, [0] * (n - 1) + [2]]
    if full:
        i8 += [list(m) for m in itertools.product([0, 1, 2], repeat=n)]
    seen = set()
    for f in i8:
        if len(f) == n and tuple(f) not in seen and n > 0:
            seen.add(tuple(f))
            out.append((f, "int8"))
    return out


def exhaustive(tier):
    cases = []
    full = tier != "quick"
    # ---- get_days
    cand = [BASE - 1, BASE, BASE + DAY - 1, BASE + DAY, BASE + 2 * DAY + 5]
    starts = [None, BASE, BASE + DAY]
    ends = [None, BASE + DAY, BASE + 2 * DAY + 6]
    for n in range(0, (3 if full else 2) + 1):
        for ts in itertools.product(cand, repeat=n):
            for filt, fdt in filters_for(n, full and n <= 2):
                for s in starts:
                    for e in ends:
                        cases.append(c_days(ts, filt, fdt, s, e))
    # ---- get_periods
    deltas = [1, -1, 2, -2, 3, -3, 7, -7]
    rng_k = range(-15, 16) if full else range(-9, 10)
    for start in ([BASE, BASE - 3723] if full else [BASE]):
        for k in rng_k:
            for extra in ([0, 1, -1, 43200] if full else [0, -1]):
                for d in deltas:
                    for p in (["day", "week", "days", "weeks"] if full else ["day", "week"]):
                        cases.append(c_periods(start, start + k * DAY + extra, p, d))
    for d in deltas + [30, -30]:
        for p in ["day", "week"]:
            for off in [0, 1, 5 * DAY, 20 * DAY + 7]:
                cases.append(c_periods(DT_MAX - 30 * DAY, DT_MAX - off, p, d))   # touching datetime.max (NC20c)
                cases.append(c_periods(DT_MAX - off, DT_MAX - 30 * DAY, p, d))
                cases.append(c_periods(30 * DAY, off, p, d))                      # touching datetime.min
                cases.append(c_periods(off, 30 * DAY, p, d))
    # ---- generate_period_offset_map
    bnd = [BASE - 2 * DAY, BASE, BASE + DAY, BASE + 3 * DAY, BASE + 3 * DAY + DAY // 2, BASE + 7 * DAY]
    for n in range(0, (5 if full else 4) + 1):
        for ps in itertools.product(bnd, repeat=n):
            cases.append(c_map(ps))
    # ---- get_period_offsets
    maps = [[], [0], [0, 0, 1], [0, 0, 0, 1, 1, 2, 2, 2], [3, 1, 2]]
    for m in maps:
        L = len(m)
        dvals = sorted({-L - 1, -L, -1, 0, 1, L - 1, L, L + 3})
        for n in range(0, (3 if full else 2) + 1):
            for days in itertools.product(dvals, repeat=n):
                irs = [(None, None)] + [(list(x), "bool") for x in itertools.product([0, 1], repeat=n)]
                if n:
                    irs += [([2] * n, "int8"), ([0] * (n - 1) + [-1], "int8")]
                for inr, irdt in irs:
                    cases.append(c_offsets(m, days, inr, irdt))
    return cases


def rand_days(rng, extreme=False):
    n = rng.choice([1, 2, 3, 5, 8, 13, 40])
    span = rng.choice([1, 3, 10, 400])
    if extreme:
        base = rng.choice([-1, 1]) * rng.randrange(0, 5 * 10 ** 13)
        ts = []
        for _ in range(n):
            k = rng.randrange(0, 10 ** 9)
            ts.append(base + k * DAY + rng.choice([0, -1, 1, DAY - 1, rng.randrange(DAY)]))
        ts[0] = base
    else:
        base = BASE + rng.randrange(-3, 4) * DAY
        ts = [base + rng.randrange(-2, span + 1) * DAY + rng.choice([0, 0, -1, 1, DAY - 1, rng.randrange(DAY)]) for _ in range(n)]
    kind = rng.choice(["none", "bool", "bool", "int8", "int8"])
    if kind == "none":
        filt, fdt = None, None
    elif kind == "bool":
        filt, fdt = [rng.choice([0, 1, 1]) for _ in range(n)], "bool"
    else:
        filt, fdt = [rng.choice([0, 1, 1, 2, -1, 3, 127, -128]) for _ in range(n)], "int8"
    pick = lambda: rng.choice(ts) + rng.choice([0, 0, 1, -1, DAY, -DAY, rng.randrange(-3 * DAY, 3 * DAY)])  # noqa
    start = pick() if rng.random() < 0.6 else None
    end = pick() if rng.random() < 0.6 else None
    if not extreme and rng.random() < 0.12:
        # timestamps straddling the Unix epoch with the epoch itself (POSIX 0.0, a falsy number) as an explicit bound
        ts = [EPOCH + rng.randrange(-3, 4) * DAY + rng.choice([0, 1, -1, rng.randrange(DAY)]) for _ in range(n)]
        start = EPOCH if rng.random() < 0.7 else start
        end = EPOCH if (start != EPOCH and rng.random() < 0.7) else (EPOCH + 5 * DAY if rng.random() < 0.5 else None)
    return c_days(ts, filt, fdt, start, end)


def rand_periods(rng):
    p = rng.choice(list(UNITS))
    d = rng.choice([1, 1, 2, 3, 4, 5, 7, 10, 28]) * rng.choice([1, -1])
    step = d * UNITS[p] * DAY
    start = BASE + rng.randrange(-1000, 1000) * DAY + rng.choice([0, 0, rng.randrange(DAY)])
    k = rng.randrange(0, 40)
    end = start + k * step + (1 if d > 0 else -1) * rng.choice([0, 0, 1, abs(step) - 1, rng.randrange(abs(step))])
    if rng.random() < 0.07:
        start, end = end, start   # wrong direction (unless equal)
    return c_periods(start, end, p, d), (start, end, p, d)


def rand_map(rng):
    n = rng.randrange(1, 9)
    kind = rng.random()
    t = BASE + rng.randrange(-50, 50) * DAY
    ps = [t]
    for _ in range(n - 1):
        if kind < 0.7:
            t += rng.choice([0, 1, 1, 2, 7, 7, 28]) * DAY
        elif kind < 0.85:
            t += rng.choice([1, 7]) * DAY + rng.choice([0, DAY // 2, 1, -1])
        else:
            t += rng.randrange(-5, 12) * DAY
        ps.append(t)
    return c_map(ps)


def spec_map_list(ps):
    """ascending boundaries -> the documented day map (used by generators only to build realistic maps)"""
    ds = [(p - ps[0]) // DAY for p in ps]
    out = [0] * max(ds[-1], 0)
    for i in range(len(ds) - 1):
        for d in range(max(ds[i], 0), min(ds[i + 1], len(out))):
            out[d] = i
    return out


def rand_offsets(rng):
    n = rng.randrange(1, 7)
    ps, t = [0], 0
    for _ in range(n - 1):
        t += rng.choice([0, 1, 2, 7])
        ps.append(t)
    m = spec_map_list([p * DAY for p in ps])
    L = len(m)
    k = rng.choice([1, 2, 5, 12])
    wild = rng.random() < 0.3
    days = [rng.randrange(-L - 2, L + 3) if wild else rng.randrange(-2, L + 2) for _ in range(k)]
    mode = rng.choice(["none", "derived", "derived", "bool", "int8"])
    if mode == "none":
        if not wild and L:
            days = [rng.randrange(0, L) for _ in range(k)]
        return c_offsets(m, days, None, None)
    if mode == "derived":
        return c_offsets(m, days, [1 if 0 <= d < L else 0 for d in days], rng.choice(["bool", "int8"]))
    if mode == "bool":
        return c_offsets(m, days, [rng.choice([0, 1]) for _ in days], "bool")
    return c_offsets(m, days, [rng.choice([0, 1, 2, -1]) if 0 <= d < L else 0 for d in days], "int8")


def expected_periods(start, end, period, delta):
    step = delta * UNITS[period] * DAY
    n = abs(end - start) // abs(step)
    return [start + k * step for k in range(n + 1)]


def rand_pipeline(rng):
    while True:
        c, (start, end, p, d) = rand_periods(rng)
        if (d > 0 and start <= end) or (d < 0 and start >= end):
            break
    ps = sorted(expected_periods(start, end, p, d))
    if ps[-1] - ps[0] > 3000 * DAY:
        return rand_pipeline(rng)
    ts = []
    for b in ps:
        for off in rng.sample([0, -1, 1, DAY - 1, DAY, -DAY], 2):
            ts.append(b + off)
    for _ in range(rng.randrange(0, 6)):
        ts.append(rng.randrange(ps[0] - 2 * DAY, ps[-1] + 2 * DAY + 1))
    rng.shuffle(ts)
    ts = ts[:40]
    kind = rng.choice(["none", "bool", "int8"])
    if kind == "none":
        filt, fdt = None, None
    elif kind == "bool":
        filt, fdt = [rng.choice([0, 1, 1, 1]) for _ in ts], "bool"
    else:
        filt, fdt = [rng.choice([0, 1, 1, 2, -1]) for _ in ts], "int8"
    return c_pipeline(ts, filt, fdt, start, end, p, d)


def malformed(rng, n):
    out = []
    for _ in range(n):
        k = rng.randrange(6)
        if k == 0:      # filter length mismatch (numpy broadcasts length 1 and lets an empty mask index anything: not generated)
            a, b = rng.choice([(2, 3), (3, 2), (4, 2), (2, 5)])
            ts = [BASE + rng.randrange(5) * DAY for _ in range(a)]
            out.append(c_days(ts, [rng.choice([0, 1]) for _ in range(b)], rng.choice(["bool", "int8"]),
                              rng.choice([None, BASE]), rng.choice([None, BASE + 3 * DAY]), _malformed=True))
        elif k == 1:
            out.append(c_periods(BASE, BASE + 5 * DAY, rng.choice(["month", "", "Day", "d", "hours"]), rng.choice([1, -1, 2]),
                                 _malformed=True))
        elif k == 2:
            out.append(c_periods(BASE, BASE + rng.randrange(-3, 4) * DAY, rng.choice(list(UNITS)), 0, _malformed=True))
        elif k == 3:    # timedelta longer than timedelta.max
            p = rng.choice(list(UNITS))
            d = rng.choice([1, -1]) * (TD_MAX_DAYS // UNITS[p] + rng.choice([0, 1, 2, 1000]))
            s, e = (BASE, BASE + 5 * DAY) if d > 0 else (BASE + 5 * DAY, BASE)
            out.append(c_periods(s, e, p, d, _malformed=abs(d * UNITS[p]) > TD_MAX_DAYS))
        elif k == 4:    # in_range length mismatch
            m = [0, 0, 1, 1]
            a, b = rng.choice([(2, 3), (3, 2), (4, 2), (2, 5)])
            out.append(c_offsets(m, [rng.randrange(4) for _ in range(a)], [rng.choice([0, 1]) for _ in range(b)], "bool",
                                 _malformed=True))
        else:           # empty / all-filtered selections without a start date
            n2 = rng.randrange(0, 4)
            out.append(c_days([BASE + i * DAY for i in range(n2)], [0] * n2 if rng.random() < 0.7 else None,
                              rng.choice(["bool", "int8"]), None, rng.choice([None, BASE + DAY])))
    return out


def gen_cases(tier, rng):
    from checks import corpus
    cases = list(corpus.load("C20"))
    cases += exhaustive(tier)
    nr = {"quick": 1500, "thorough": 60000, "search": 100000}[tier]
    for _ in range(nr):
        cases.append(rand_days(rng))
    for _ in range(nr // 4):
        cases.append(rand_days(rng, extreme=True))
    for _ in range(nr // 2):
        cases.append(rand_periods(rng)[0])
    for _ in range(nr // 2):
        cases.append(rand_map(rng))
    for _ in range(nr // 2):
        cases.append(rand_offsets(rng))
    for _ in range(nr):
        cases.append(rand_pipeline(rng))
    cases += malformed(rng, max(60, nr // 20))
    for i, c in enumerate(cases):
        c.setdefault("_n", i)
    return cases


# ------------------------------------------------------------------------------------------------------------------
# implementation (runs in worker processes)
# ------------------------------------------------------------------------------------------------------------------
_S = {}


def _env():
    if not _S:
        # the one-off import of exetera (pandas, numba, h5py) must not be interrupted by the worker's per-case alarm: on a
        # loaded machine it can take longer than CASE_TIMEOUT and an interrupted import leaves half-initialised modules behind
        import signal
        left = signal.setitimer(signal.ITIMER_REAL, 0)[0]
        try:
            import numpy as np
            from datetime import datetime, timedelta
            from exetera.processing import date_time_helpers as dth
            _S.update(np=np, dth=dth, D=datetime, T=timedelta)
        finally:
            if left > 0:
                signal.setitimer(signal.ITIMER_REAL, left)
    return _S


def to_dt(e, s):
    return e["D"].min + e["T"](seconds=s)


def from_dt(e, d):
    td = d - e["D"].min
    if td.microseconds:
        raise RuntimeError("off-grid datetime")
    return td.days * DAY + td.seconds


def np_filter(np, vals, dt):
    if vals is None:
        return None
    return np.array([bool(v) for v in vals], dtype=bool) if dt == "bool" else np.array(vals, dtype=np.int8)


def np_ts(np, ts):
    return np.array([t - EPOCH for t in ts], dtype=np.float64)


def flags_out(np, a):
    return None if a is None else [int(bool(x)) for x in a.tolist()]


def call_days(e, ts, filt, fdt, start, end):
    np, dth = e["np"], e["dth"]
    days, inr = dth.get_days(np_ts(np, ts), np_filter(np, filt, fdt),
                             None if start is None else np.float64(start - EPOCH),
                             None if end is None else np.float64(end - EPOCH))
    return days, inr


def impl(case):
    # every call is made twice with equal arguments; the objects the first call returned are overwritten in between (callers
    # own what a helper returns: `m = generate_period_offset_map(p); m += 1` must not change what the next call returns)
    _impl(case, scribble=True)
    return _impl(case, scribble=False)


def _scribble(np, *objs):
    for o in objs:
        if isinstance(o, np.ndarray) and o.size and o.flags.writeable:
            o += 1 if o.dtype.kind != "b" else True
        elif isinstance(o, list) and o:
            o.reverse()
            o.pop()


def _impl(case, scribble):
    e = _env()
    np, dth = e["np"], e["dth"]
    op = case["op"]
    if op == "dates_periods":
        r = dth.get_periods(to_dt(e, case["start"]), to_dt(e, case["end"]), case["period"], case["delta"])
        out = {"v": [from_dt(e, x) for x in r]}
        if scribble:
            _scribble(np, r)
        return out
    if op == "dates_days":
        tsin = np_ts(np, case["ts"])
        before = tsin.copy()
        f = np_filter(np, case["filter"], case["fdtype"])
        fbefore = None if f is None else f.copy()
        days, inr = dth.get_days(tsin, f, None if case["start"] is None else np.float64(case["start"] - EPOCH),
                                 None if case["end"] is None else np.float64(case["end"] - EPOCH))
        untouched = bool((tsin == before).all()) and (f is None or bool((f == fbefore).all()))
        out = {"v": {"days": [int(x) for x in days.tolist()], "in_range": flags_out(np, inr)},
               "ddtype": str(days.dtype), "irdtype": None if inr is None else str(inr.dtype), "untouched": untouched}
        if scribble:
            _scribble(np, days, inr)
        return out
    if op == "dates_map":
        r = dth.generate_period_offset_map([to_dt(e, p) for p in case["periods"]])
        out = {"v": [int(x) for x in r.tolist()], "dtype": str(r.dtype)}
        if scribble:
            _scribble(np, r)
        return out
    if op == "dates_offsets":
        m = np.array(case["map"], dtype=np.int32)
        days = np.array(case["days"], dtype=np.int32)
        r = dth.get_period_offsets(m, days, np_filter(np, case["in_range"], case["irdtype"]))
        out = {"v": [int(x) for x in r.tolist()], "dtype": str(r.dtype)}
        if scribble:
            _scribble(np, r)
        return out
    if op == "dates_pipeline":
        ps = dth.get_periods(to_dt(e, case["start"]), to_dt(e, case["end"]), case["period"], case["delta"])
        if case["delta"] < 0:
            ps.reverse()
        pmap = dth.generate_period_offset_map(ps)
        days, inr = dth.get_days(np_ts(np, case["ts"]), np_filter(np, case["filter"], case["fdtype"]),
                                 np.float64(from_dt(e, ps[0]) - EPOCH), np.float64(from_dt(e, ps[-1]) - EPOCH))
        r = dth.get_period_offsets(pmap, days, inr)
        out = {"v": [int(x) for x in r.tolist()]}
        if scribble:
            _scribble(np, r, pmap, days, inr, ps)
        return out
    raise RuntimeError("unknown op " + op)


def to_model(case):
    return {k: v for k, v in case.items() if not k.startswith("_") and k not in ("fdtype", "irdtype")}


# ------------------------------------------------------------------------------------------------------------------
# comparison with the model
# ------------------------------------------------------------------------------------------------------------------

def norm_err(t):
    return "overflow_error" if t == "other:overflow_error" else t


def compare(case, io, mo, mode):
    if "err" in io or "err" in mo:
        a, b = norm_err(io.get("err")), norm_err(mo.get("err"))
        return None if a == b else f"impl err={a} ({io.get('msg', '')}) model err={b}; impl={str(io)[:200]} model={str(mo)[:200]}"
    if io["v"] != mo["ok"]:
        return f"impl {str(io['v'])[:300]} model {str(mo['ok'])[:300]}"
    return None


# ------------------------------------------------------------------------------------------------------------------
# the property's oracle: Python rendering of lean/Exetera/Spec/Dates.lean
# ------------------------------------------------------------------------------------------------------------------

def passes(filt, i):
    return True if filt is None else (i < len(filt) and filt[i] != 0)


def spec_days(case, io):
    ts, filt, start, end = case["ts"], case["filter"], case["start"], case["end"]
    if filt is not None and len(filt) != len(ts):
        return None                       # outside the property (malformed call); compared with the model only
    unf = [t for i, t in enumerate(ts) if passes(filt, i)]
    if start is None and not unf:
        return None if "err" in io else "returned a value although there is no unfiltered timestamp to take as the origin"
    if "err" in io:
        return f"raised {io['err']} ({io.get('msg', '')}) on a valid call"
    o = start if start is not None else min(unf)          # IsOrigin
    v = io["v"]
    if len(v["days"]) != len(ts):
        return "days has the wrong length"
    for i, t in enumerate(ts):
        d = v["days"][i]
        if not (o + DAY * d <= t < o + DAY * (d + 1)):     # IsDayOf
            return f"row {i}: day {d} is not the day of t={t} relative to origin {o} (expected {(t - o) // DAY})"
    if filt is None and start is None and end is None:
        if v["in_range"] is not None:
            return "in_range should be None when no filter/start/end is given"
    else:
        if v["in_range"] is None or len(v["in_range"]) != len(ts):
            return "in_range missing or of the wrong length"
        for i, t in enumerate(ts):
            want = passes(filt, i) and (start is None or start <= t) and (end is None or t < end)
            if bool(v["in_range"][i]) != want:
                return f"row {i}: in_range={v['in_range'][i]} but passes-filter-and-in-[start,end) is {want}"
    if not io.get("untouched", True):
        return "an input array was modified"
    return None


def spec_periods(case, io):
    start, end, p, d = case["start"], case["end"], case["period"], case["delta"]
    invalid = p not in UNITS or d == 0 or (d < 0 and start < end) or (d > 0 and start > end)
    if invalid:
        return None if io.get("err") == "value_error" else f"invalid arguments accepted or wrong error: {str(io)[:120]}"
    if abs(d * UNITS[p]) > TD_MAX_DAYS:
        return None                        # the step is not representable as a timedelta: outside the property
    if "err" in io:
        return f"raised {io['err']} ({io.get('msg', '')}) on a valid call"
    v = io["v"]
    step = d * UNITS[p] * DAY
    if not v or v[0] != start:
        return "first boundary is not start_date"
    for a, b in zip(v, v[1:]):
        if b - a != step:
            return f"boundaries not equally spaced by {step}: {a}, {b}"
    lo, hi = min(start, end), max(start, end)
    if any(not (lo <= x <= hi) for x in v):
        return "a boundary lies outside the closed range"
    if lo <= v[-1] + step <= hi:
        return "stopped early: the next boundary is still within the range"
    if len(v) != abs(end - start) // abs(step) + 1:
        return "wrong number of boundaries"
    return None


def ascending(xs):
    return all(a <= b for a, b in zip(xs, xs[1:]))


def spec_map(case, io):
    ps = case["periods"]
    if not ps or not ascending(ps):
        return None                        # the property speaks about ordered boundaries only
    if "err" in io:
        return f"raised {io['err']} ({io.get('msg', '')}) on ordered period boundaries"
    ds = [(p - ps[0]) // DAY for p in ps]
    v = io["v"]
    if len(v) != ds[-1]:
        return f"map has length {len(v)}, expected {ds[-1]} days"
    for day in range(len(v)):
        ks = [k for k in range(len(ds) - 1) if ds[k] <= day < ds[k + 1]]
        if len(ks) != 1 or v[day] != ks[0]:
            return f"day {day} mapped to {v[day]}, containing period {ks}"
    return None


def spec_offsets(case, io):
    m, days, inr = case["map"], case["days"], case["in_range"]
    if inr is not None and len(inr) != len(days):
        return None
    flags = [True] * len(days) if inr is None else [x != 0 for x in inr]
    if any(f and not (0 <= d < len(m)) for f, d in zip(flags, days)):
        return None                        # an in-range day outside the map: the caller broke the contract
    if "err" in io:
        return f"raised {io['err']} ({io.get('msg', '')}) although every in-range day lies inside the map"
    want = [m[d] if f else -1 for f, d in zip(flags, days)]
    return None if io["v"] == want else f"offsets {io['v']} expected {want}"


def spec_pipeline(case, io):
    start, end, p, d = case["start"], case["end"], case["period"], case["delta"]
    if p not in UNITS or d == 0 or (d < 0 and start < end) or (d > 0 and start > end):
        return None
    if "err" in io:
        return f"raised {io['err']} ({io.get('msg', '')}) on a valid pipeline"
    ps = sorted(expected_periods(start, end, p, d))
    want = []
    for i, t in enumerate(case["ts"]):
        ks = [k for k in range(len(ps) - 1) if ps[k] <= t < ps[k + 1]]
        want.append(ks[0] if passes(case["filter"], i) and ks else -1)
    return None if io["v"] == want else f"period offsets {io['v']} expected {want} for boundaries {ps}"


SPEC = {"dates_days": spec_days, "dates_periods": spec_periods, "dates_map": spec_map, "dates_offsets": spec_offsets,
        "dates_pipeline": spec_pipeline}


def check_spec(case, io, mode):
    if io.get("err") == "hang":
        return "did not return"
    return SPEC[case["op"]](case, io)


def match_finding(case, io, mode):
    """narrow matchers for the three repaired defects (their known_findings entries are `fixed`, so a hit is reported as a
    VIOLATION/regression; were an entry reopened as `open` the same matcher would file the hit under it)"""
    op = case["op"]
    if op in ("dates_days", "dates_pipeline") and case.get("fdtype") == "int8" and case.get("filter") is not None:
        if op == "dates_pipeline" or case["start"] is None or any(v not in (0, 1) for v in case["filter"]):
            return "D31"
    if op == "dates_offsets" and case["in_range"] is not None and not case["map"] and io.get("err") == "index_error":
        return "NC20b"
    if op == "dates_pipeline" and io.get("err") == "index_error" and "v" not in io:
        ps = expected_periods(case["start"], case["end"], case["period"], case["delta"])
        if len(ps) == 1:
            return "NC20b"
    if op == "dates_periods" and io.get("err") == "overflow_error":
        step = case["delta"] * UNITS.get(case["period"], 1) * DAY
        if abs(case["delta"] * UNITS.get(case["period"], 1)) <= TD_MAX_DAYS:
            ps = expected_periods(case["start"], case["end"], case["period"], case["delta"])
            if not (0 <= ps[-1] + step <= DT_MAX):
                return "NC20c"
    return None


# ------------------------------------------------------------------------------------------------------------------
# coverage
# ------------------------------------------------------------------------------------------------------------------

def nontrivial(case, mo):
    op = case["op"]
    if mo is None or "ok" not in mo:
        return False
    r = mo["ok"]
    if op == "dates_days":
        return len(case["ts"]) >= 2 and not (case["filter"] is None and case["start"] is None and case["end"] is None)
    if op == "dates_periods":
        return len(r) >= 2
    if op == "dates_map":
        return len(case["periods"]) >= 2 and len(r) >= 1
    return any(x == -1 for x in r) and any(x >= 0 for x in r)


def classify(case, mo):
    op = case["op"]
    tags = [op]
    if mo is not None and "err" in mo:
        tags.append(op + ":err:" + mo["err"])
    if case.get("_malformed"):
        tags.append("malformed")
    if op in ("dates_days", "dates_pipeline"):
        tags.append(op + ":filter=" + str(case.get("fdtype")))
    if op == "dates_days":
        tags.append("days:start=" + ("set" if case["start"] is not None else "none") + ",end=" +
                    ("set" if case["end"] is not None else "none"))
        ts = case["ts"]
        if mo is not None and "ok" in mo and ts:
            ds = mo["ok"]["days"]
            if any(d < 0 for d in ds):
                tags.append("days:negative-day")
            unf = [t for i, t in enumerate(ts) if passes(case["filter"], i)] if case["filter"] is None or len(
                case["filter"]) == len(ts) else []
            o = case["start"] if case["start"] is not None else (min(unf) if unf else None)
            if o is not None and any((t - o) % DAY == 0 and t != o for t in ts):
                tags.append("days:on-day-boundary")
            if o is not None and any((t - o) % DAY == DAY - 1 for t in ts):
                tags.append("days:one-second-before-boundary")
            if max(abs(d) for d in ds) > 10 ** 6:
                tags.append("days:large-magnitude")
    if op == "dates_periods":
        tags.append("periods:" + ("forwards" if case["delta"] > 0 else "backwards" if case["delta"] < 0 else "zero"))
        if mo is not None and "ok" in mo:
            step = case["delta"] * UNITS[case["period"]] * DAY
            if (case["end"] - case["start"]) % step == 0:
                tags.append("periods:end-on-boundary")
            if not (0 <= mo["ok"][-1] + step <= DT_MAX):
                tags.append("periods:at-datetime-limit")
    if op == "dates_map" and case["periods"]:
        tags.append("map:" + ("ascending" if ascending(case["periods"]) else "unordered"))
    if op == "dates_offsets":
        tags.append("offsets:in_range=" + str(case["irdtype"]))
    return tags


def select_for_mode(case, mode, tier):
    return case.get("_n", 0) % 50 == 0
