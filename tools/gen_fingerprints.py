#!/venv/bin/python
"""Record the normalised-AST fingerprint of every function a property is anchored in (DESIGN.md 1.2).

The anchors of properties.jsonl name line ranges of the pinned commit; the functions / methods overlapping those ranges
(at that commit) are the property's anchor functions, tracked by qualified name from then on. For the cross-cutting
properties C10/C11/C12 the anchor functions of the properties whose cases they re-run are added.
Output: checks/fingerprints.json = {"repo_commit", "functions": {"<file>::<qualname>": sha1}, "by_property": {Cxx: [keys]}}.
Run with /venv/bin/python (ast.dump differs between Python versions; the version is recorded and a mismatch disables the
comparison). A fingerprint NEVER gates a verdict: checks/run.py only uses it to deepen the correspondence run of a property whose
anchor functions differ from the recorded ones (lib.changed_functions)."""
import ast
import hashlib
import json
import re
import subprocess
import sys
import warnings
from pathlib import Path

V = Path(__file__).resolve().parent.parent
REPO = Path("/repo")
CROSS = {"C10": ["C03", "C04", "C08", "C09", "C14", "C16", "C17", "C06", "C05", "C19"],
         "C11": ["C03", "C04", "C05", "C06", "C07", "C08", "C09", "C14", "C16", "C17"],
         "C12": ["C03", "C04", "C05", "C16", "C18"]}


def functions_of(src):
    """{qualname: (first line, last line, node)} of every function / method (nested ones belong to their parent)"""
    out = {}
    with warnings.catch_warnings():
        warnings.simplefilter("ignore")
        tree = ast.parse(src)

    def visit(body, prefix):
        for n in body:
            if isinstance(n, (ast.FunctionDef, ast.AsyncFunctionDef)):
                first = min([n.lineno] + [d.lineno for d in n.decorator_list])
                out[prefix + n.name] = (first, n.end_lineno, n)
            elif isinstance(n, ast.ClassDef):
                visit(n.body, prefix + n.name + ".")
    visit(tree.body, "")
    return out


def strip_doc(node):
    for n in ast.walk(node):
        if isinstance(n, (ast.FunctionDef, ast.AsyncFunctionDef, ast.ClassDef)) and n.body and \
                isinstance(n.body[0], ast.Expr) and isinstance(n.body[0].value, ast.Constant) and \
                isinstance(n.body[0].value.value, str):
            n.body = n.body[1:] or [ast.Pass()]
    return node


def fingerprint(node):
    return hashlib.sha1(ast.dump(strip_doc(node), include_attributes=False).encode()).hexdigest()[:16]


def current(repo, files):
    fp = {}
    for f in files:
        p = Path(repo) / f
        if not p.exists():
            continue
        try:
            for q, (_, _, node) in functions_of(p.read_text()).items():
                fp[f"{f}::{q}"] = fingerprint(node)
        except SyntaxError:
            pass
    return fp


def main():
    pinned = subprocess.run("git log --format=%h | tail -1", shell=True, cwd=REPO, stdout=subprocess.PIPE, text=True).stdout.strip()
    by_prop, files = {}, set()
    for line in open(V / "properties.jsonl"):
        p = json.loads(line)
        keys = set()
        for m in p["anchors"]["mechanism"]:
            cur_file = None
            for part in [x.strip() for x in m["where"].split(",")]:
                mm = re.match(r"(?:(\S+\.py))?:?\s*(\d+)?(?:-(\d+))?$", part)
                if not mm:
                    continue
                if mm.group(1):
                    cur_file = mm.group(1)
                if not cur_file:
                    continue
                files.add(cur_file)
                a = int(mm.group(2)) if mm.group(2) else 1
                b = int(mm.group(3)) if mm.group(3) else (a if mm.group(2) else 10 ** 9)
                src = subprocess.run(["git", "show", f"{pinned}:{cur_file}"], cwd=REPO, stdout=subprocess.PIPE, text=True).stdout
                for q, (lo, hi, _) in functions_of(src).items():
                    if lo <= b and hi >= a:
                        keys.add(f"{cur_file}::{q}")
        by_prop[p["id"]] = keys
    for c, bases in CROSS.items():
        for b in bases:
            by_prop[c] |= by_prop[b]
    fp = current(REPO, sorted(files))
    missing = sorted(k for ks in by_prop.values() for k in ks if k not in fp)
    out = {"python": list(sys.version_info[:2]), "repo_commit": subprocess.run("git rev-parse --short HEAD", shell=True, cwd=REPO, stdout=subprocess.PIPE, text=True).stdout.strip(),
           "files": sorted(files),
           "functions": {k: fp[k] for k in sorted(set().union(*by_prop.values())) if k in fp},
           "by_property": {k: sorted(x for x in v if x in fp) for k, v in sorted(by_prop.items())}}
    (V / "checks" / "fingerprints.json").write_text(json.dumps(out, indent=1) + "\n")
    print(f"{len(out['functions'])} anchor functions in {len(files)} files;", {k: len(v) for k, v in out["by_property"].items()})
    if missing:
        print("anchor functions no longer present (not tracked):", missing[:10])


if __name__ == "__main__":
    sys.exit(main())
