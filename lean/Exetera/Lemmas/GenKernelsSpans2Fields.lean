import Exetera.Gen.Kernels
import Exetera.Lemmas.GenKernels
import Exetera.Lemmas.GenKernelsSpans
/-!
  The TRANSLATED `_get_spans_for_2_fields_njit` (early `return spans[:1]`, `for i in np.arange(1, n)`, short-circuit `or` with
  subscripts on both sides, stores into the caller-supplied `spans` buffer, `return spans[:count + 2]`) refines the hand model
  `getSpansFor2FieldsNjit .repaired` / `scan2` of `Model/Spans.lean`, for every pair of columns and EVERY buffer (too short
  a buffer, a shorter second column: same error class on both sides).
-/
namespace Exetera.GenK

open Exetera Exetera.PyRt Exetera.Spans Exetera.Gen.Kernels

/-- `xs[:m]` -/
theorem pySlice_take {α} (xs : List α) (m : Nat) : pySlice xs none (some (m : Int)) = xs.take m := by
  have hm : ¬ ((m : Int) < 0) := by omega
  simp only [pySlice, normBound, hm, if_false, Int.toNat_natCast, slice, List.drop_zero, Nat.sub_zero]
  by_cases h : m ≤ xs.length
  · rw [Nat.min_eq_left h]
  · rw [Nat.min_eq_right (by omega), List.take_of_length_le (Nat.le_refl _), List.take_of_length_le (by omega)]

theorem take_set_succ' {α} (xs : List α) (r : Nat) (v : α) (h : r < xs.length) :
    (xs.set r v).take (r + 1) = xs.take r ++ [v] := by
  rw [List.take_add_one]
  simp [h, List.take_set_of_le]

namespace G2F

abbrev St := _get_spans_for_2_fields_njit.St

/-- what follows the loop: `spans[count + 1] = len(ndarray0); return spans[:count + 2]` -/
def fin (s : St) : Except Err (List Int × List Int) :=
  bindE (setIdxE s.p2 (s.v0 + 1) (pyLen s.p0) "p2[v0 + 1]") fun t8 =>
  let s := { s with p2 := t8 }
  .ok ((pySlice s.p2 none (some (s.v0 + 2))), s.p2)

abbrev loop (k : Nat) (i : Int) (s : St) : Except Err St :=
  forRangeAux (fun _ => false) (fun k s => _get_spans_for_2_fields_njit.body_L1 { s with v1 := k }) k i s

theorem scan2_sim (a b : List Int) (cap : Nat) :
    ∀ (k i count : Nat) (s : St), 1 ≤ i → s.p0 = a → s.p1 = b → s.p2.length = cap → s.v0 = (count : Int) →
      match scan2 a b a.length cap k i count with
      | .ok vs => ∃ buf', bindE (loop k (i : Int) s) fin = .ok (s.p2.take (count + 1) ++ ints vs, buf')
      | .error e => ∃ e', bindE (loop k (i : Int) s) fin = .error e' ∧ e'.tag = e.tag := by
  intro k
  induction k with
  | zero =>
    intro i count s hi h0 h1 h2 hv
    subst h0 h1
    have e1 : (count : Int) + 1 = ((count + 1 : Nat) : Int) := by omega
    have e2 : (count : Int) + 2 = ((count + 2 : Nat) : Int) := by omega
    simp only [scan2, loop, forRangeAux, bindE_ok, fin, hv, e1, e2, setIdxE_nat, setE, h2, pyLen]
    by_cases hc : count + 1 < cap
    · simp only [hc, if_true, bindE_ok, pySlice_take]
      refine ⟨s.p2.set (count + 1) (s.p0.length : Int), ?_⟩
      rw [show count + 2 = (count + 1) + 1 from rfl, take_set_succ' _ _ _ (by omega)]
      rfl
    · simp only [hc, if_false, bindE_error]
      exact ⟨_, rfl, rfl⟩
  | succ k ih =>
    intro i count s hi h0 h1 h2 hv
    subst h0 h1
    have ei : ((i : Int) - 1) = ((i - 1 : Nat) : Int) := by omega
    have ei1 : ((i : Int) + 1) = ((i + 1 : Nat) : Int) := by omega
    have e1 : (count : Int) + 1 = ((count + 1 : Nat) : Int) := by omega
    -- the successor states
    have keep := ih (i + 1) count { s with v1 := (i : Int) } (by omega) rfl rfl h2 hv
    have adv := fun (hc : count + 1 < cap) => ih (i + 1) (count + 1)
      { s with v1 := (i : Int), v0 := ((count + 1 : Nat) : Int), p2 := s.p2.set (count + 1) (i : Int) } (by omega) rfl rfl
      (by simpa using h2) rfl
    have hpre : ∀ (hc : count + 1 < cap) (vs : List Nat),
        (s.p2.set (count + 1) (i : Int)).take (count + 1 + 1) ++ ints vs = s.p2.take (count + 1) ++ ints (i :: vs) := by
      intro hc vs
      rw [take_set_succ' _ _ _ (by omega)]
      simp [ints]
    have hstep : bindE (loop (k + 1) (i : Int) s) fin
        = bindE (_get_spans_for_2_fields_njit.body_L1 { s with v1 := (i : Int) })
            (fun s' => bindE (loop k ((i + 1 : Nat) : Int) s') fin) := by
      simp only [loop, forRangeAux, ei1]
      cases _get_spans_for_2_fields_njit.body_L1 { s with v1 := (i : Int) } <;> simp
    rw [hstep]
    generalize hL : (fun s' => bindE (loop k ((i + 1 : Nat) : Int) s') fin) = L
    simp only [scan2, _get_spans_for_2_fields_njit.body_L1, ei, idxE_nat, getE]
    cases hx : s.p0[i]? with
    | none => simp only [bindE_error]; exact ⟨_, rfl, rfl⟩
    | some x =>
      cases hx' : s.p0[i - 1]? with
      | none => simp only [bindE_ok, bindE_error]; exact ⟨_, rfl, rfl⟩
      | some x' =>
        simp only [bindE_ok]
        by_cases hne : x = x'
        · have hne' : (x != x') = false := by simp [hne]
          simp only [hne', Bool.false_eq_true, if_false]
          cases hy : s.p1[i]? with
          | none => simp only [bindE_error]; exact ⟨_, rfl, rfl⟩
          | some y =>
            cases hy' : s.p1[i - 1]? with
            | none => simp only [bindE_ok, bindE_error]; exact ⟨_, rfl, rfl⟩
            | some y' =>
              simp only [bindE_ok]
              by_cases hney : y = y'
              · have hney' : (y != y') = false := by simp [hney]
                simp only [hney', Bool.false_eq_true, if_false, bindE_ok]
                subst hL
                exact keep
              · have hney' : (y != y') = true := by simp [hney]
                simp only [hney', if_true, hv, e1, setIdxE_nat, setE, h2]
                by_cases hc : count + 1 < cap
                · simp only [hc, if_true, bindE_ok]
                  have := adv hc
                  subst hL
                  cases hs : scan2 s.p0 s.p1 s.p0.length cap k (i + 1) (count + 1) with
                  | error e => rw [hs] at this; simpa using this
                  | ok vs =>
                    rw [hs] at this
                    obtain ⟨buf', hb⟩ := this
                    simp only [consE_ok]
                    exact ⟨buf', by rw [← hpre hc]; exact hb⟩
                · simp only [hc, if_false, bindE_error]; exact ⟨_, rfl, rfl⟩
        · have hne' : (x != x') = true := by simp [hne]
          simp only [hne', if_true, bindE_ok, hv, e1, setIdxE_nat, setE, h2]
          by_cases hc : count + 1 < cap
          · simp only [hc, if_true, bindE_ok]
            have := adv hc
            subst hL
            cases hs : scan2 s.p0 s.p1 s.p0.length cap k (i + 1) (count + 1) with
            | error e => rw [hs] at this; simpa using this
            | ok vs =>
              rw [hs] at this
              obtain ⟨buf', hb⟩ := this
              simp only [consE_ok]
              exact ⟨buf', by rw [← hpre hc]; exact hb⟩
          · simp only [hc, if_false, bindE_error]; exact ⟨_, rfl, rfl⟩

end G2F

/-- the translated kernel on ANY buffer `buf` against the model with `cap = len(buf)`: the returned slice is the model's span
    array, or both fail with the same error class -/
theorem get_spans_for_2_fields_njit_refines (a b buf : List Int) :
    Sim ((_get_spans_for_2_fields_njit.run a b buf).map Prod.fst)
      ((getSpansFor2FieldsNjit .repaired a b buf.length).map ints) := by
  unfold _get_spans_for_2_fields_njit.run getSpansFor2FieldsNjit
  cases buf with
  | nil => simp [setIdxE, setE, Sim, Except.map]
  | cons b0 bt =>
    have hset : setIdxE (b0 :: bt) 0 0 "p2[0]" = .ok (0 :: bt) := by simp [setIdxE, setE]
    have hcap : ((b0 :: bt).length == 0) = false := by simp
    simp only [hset, bindE_ok, hcap, Bool.false_eq_true, if_false, pyLen]
    by_cases ha : a.length = 0
    · have : a = [] := List.eq_nil_of_length_eq_zero ha
      subst this
      simp [Sim, Except.map, pySlice, normBound, slice, ints]
    · have ha' : ((a.length : Int) == 0) = false := by rw [beq_eq_false_iff_ne]; omega
      have ha'' : (Variant.repaired == Variant.repaired && a.length == 0) = false := by simp [ha]
      simp only [ha', ha'', Bool.false_eq_true, if_false]
      have h := G2F.scan2_sim a b (b0 :: bt).length (a.length - 1) 1 0
        { p0 := a, p1 := b, p2 := 0 :: bt, v0 := 0, v1 := 0 } (by omega) rfl rfl (by simp) rfl
      have hn : ((a.length : Int) - 1).toNat = a.length - 1 := by omega
      show Sim (Except.map Prod.fst (bindE (G2F.loop ((a.length : Int) - 1).toNat ((1 : Nat) : Int)
        { p0 := a, p1 := b, p2 := 0 :: bt, v0 := 0, v1 := 0 }) G2F.fin)) _
      rw [hn]
      cases hs : scan2 a b a.length (b0 :: bt).length (a.length - 1) 1 0 with
      | error e =>
        rw [hs] at h
        obtain ⟨e', he, ht⟩ := h
        simp only [he, consE_error, Except.map, Sim, ht]
      | ok vs =>
        rw [hs] at h
        obtain ⟨buf', hb⟩ := h
        simp only [hb, consE_ok, Except.map, Sim]
        simp [ints]

end Exetera.GenK
