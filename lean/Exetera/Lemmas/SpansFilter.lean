import Exetera.Lemmas.SpansApply
/-! Helper lemmas for C08, part 8: the `apply_spans_*_filter` kernels. -/
namespace Exetera.Spans
open Exetera Exetera.Spec

theorem setE_ok {α} (xs : List α) (i : Nat) (v : α) (site : String) (h : i < xs.length) :
    setE xs i v site = .ok (xs.set i v) := by simp [setE, h]

/-- the `*_filter` loop on spans that may be empty (`cur == next`): `filter_array[i]` says whether span `i` is non-empty,
    `dest_array[i]` receives the span's value exactly for the non-empty spans; nothing else is written and no subscript
    is out of bounds as long as both buffers have room for one entry per span -/
theorem filterLoop_spec (g : Nat → Nat → Except Err Int) (P : Nat × Nat → Int → Prop) :
    ∀ (sp : List Nat) (i : Nat) (dest : List Int) (filt : List Bool),
      (∀ p ∈ pairs sp, p.1 ≠ p.2 → ∃ v, g p.1 p.2 = .ok v ∧ P p v) →
      i + (pairs sp).length ≤ dest.length → i + (pairs sp).length ≤ filt.length →
      ∃ d f, filterLoop g sp i dest filt = .ok (d, f) ∧ d.length = dest.length ∧ f.length = filt.length ∧
        (∀ k p, (pairs sp)[k]? = some p →
          f[i + k]? = some (p.1 != p.2) ∧
          ((p.1 = p.2 ∧ d[i + k]? = dest[i + k]?) ∨ (p.1 ≠ p.2 ∧ ∃ v, d[i + k]? = some v ∧ P p v))) ∧
        (∀ k, k < i ∨ i + (pairs sp).length ≤ k → d[k]? = dest[k]? ∧ f[k]? = filt[k]?)
  | [], i, dest, filt, _, _, _ => ⟨dest, filt, rfl, rfl, rfl, by simp, by simp⟩
  | [_], i, dest, filt, _, _, _ => ⟨dest, filt, rfl, rfl, rfl, by simp, by simp⟩
  | a :: b :: rest, i, dest, filt, hg, hd, hf => by
    rw [pairs_cons_cons, List.length_cons] at hd hf
    have hi1 : i < filt.length := by omega
    have hi2 : i < dest.length := by omega
    rw [filterLoop]
    by_cases hab : b = a
    · subst hab
      simp only [beq_self_eq_true, if_true, setE_ok filt i false _ hi1]
      obtain ⟨d, f, hr, hdl, hfl, hmid, hout⟩ := filterLoop_spec g P (b :: rest) (i + 1) dest (filt.set i false)
        (fun p hp => hg p (by simp [hp])) (by omega) (by simp; omega)
      refine ⟨d, f, hr, hdl, by simpa using hfl, ?_, ?_⟩
      · intro k p hk
        cases k with
        | zero =>
          simp only [pairs_cons_cons, List.getElem?_cons_zero, Option.some.injEq] at hk
          subst hk
          have := hout i (Or.inl (by omega))
          simp [this.1, this.2, hi1]
        | succ k =>
          rw [pairs_cons_cons, List.getElem?_cons_succ] at hk
          have := hmid k p hk
          have e : i + (k + 1) = i + 1 + k := by omega
          rw [e]; exact this
      · intro k hk
        have := hout k (by rw [pairs_cons_cons, List.length_cons] at hk; omega)
        refine ⟨this.1, ?_⟩
        rw [this.2, List.getElem?_set]
        have : ¬ i = k := by rw [pairs_cons_cons, List.length_cons] at hk; omega
        simp [this]
    · have hne : (b == a) = false := by simp [hab]
      obtain ⟨v, hgv, hPv⟩ := hg (a, b) (by simp) (fun h => hab h.symm)
      simp only [] at hgv
      simp only [hne, Bool.false_eq_true, if_false, setE_ok filt i true _ hi1, hgv, setE_ok dest i _ _ hi2]
      obtain ⟨d, f, hr, hdl, hfl, hmid, hout⟩ := filterLoop_spec g P (b :: rest) (i + 1) (dest.set i v) (filt.set i true)
        (fun p hp => hg p (by simp [hp])) (by simp; omega) (by simp; omega)
      refine ⟨d, f, hr, by simpa using hdl, by simpa using hfl, ?_, ?_⟩
      · intro k p hk
        cases k with
        | zero =>
          simp only [pairs_cons_cons, List.getElem?_cons_zero, Option.some.injEq] at hk
          subst hk
          have := hout i (Or.inl (by omega))
          have hab' : ¬ a = b := fun h => hab h.symm
          refine ⟨by simp [this.2, hi1, hab', bne_iff_ne], Or.inr ⟨hab', v, by simp [this.1, hi2], hPv⟩⟩
        | succ k =>
          rw [pairs_cons_cons, List.getElem?_cons_succ] at hk
          have := hmid k p hk
          have e : i + (k + 1) = i + 1 + k := by omega
          rw [e]
          refine ⟨this.1, ?_⟩
          have hset : (dest.set i v)[i + 1 + k]? = dest[i + 1 + k]? := by
            rw [List.getElem?_set]
            have : ¬ i = i + 1 + k := by omega
            simp [this]
          rw [← hset]; exact this.2
      · intro k hk
        have hk' : k < i ∨ i + (pairs (a :: b :: rest)).length ≤ k := hk
        rw [pairs_cons_cons, List.length_cons] at hk'
        have := hout k (by omega)
        rw [this.1, this.2, List.getElem?_set, List.getElem?_set]
        have : ¬ i = k := by omega
        simp [this]

end Exetera.Spans
