import Exetera.Gen.Kernels
import Exetera.Lemmas.GenKernels
import Exetera.Lemmas.GenKernelsSpans
/-!
  The TRANSLATED `apply_spans_max` / `apply_spans_min` (nested loops: the span loop and the running-extremum loop) refine
  the hand-written models `Spans.applySpansMax` / `Spans.applySpansMin`.
-/
namespace Exetera.GenK

open Exetera Exetera.PyRt Exetera.Spans Exetera.Gen.Kernels

/-! ### apply_spans_max -/

/-- inner loop `for idx in range(cur + 1, next): if src_array[idx] > max_val: max_val = src_array[idx]` -/
theorem max_inner (src : List Int) :
    ∀ (n idx : Nat) (s : apply_spans_max.St), s.p1 = src →
      match maxLoop src n idx s.v3 with
      | .ok m => ∃ s', forRangeAux (fun _ => false) (fun j s => apply_spans_max.body_L2 { s with v4 := j }) n (idx : Int) s = .ok s' ∧
          s'.v3 = m ∧ s'.p0 = s.p0 ∧ s'.p1 = s.p1 ∧ s'.p2 = s.p2 ∧ s'.v0 = s.v0
      | .error e => ∃ e', forRangeAux (fun _ => false) (fun j s => apply_spans_max.body_L2 { s with v4 := j }) n (idx : Int) s = .error e' ∧
          e'.tag = e.tag := by
  intro n
  induction n with
  | zero => intro idx s _; simp [maxLoop, forRangeAux]
  | succ n ih =>
    intro idx s hs
    simp only [maxLoop, forRangeAux, apply_spans_max.body_L2, hs, idxE_nat]
    cases hg : src[idx]? with
    | none => simp [getE, hg]
    | some v =>
      simp only [getE, hg, bindE_ok]
      have hcast : ((idx : Int) + 1) = ((idx + 1 : Nat) : Int) := by omega
      by_cases hv : v > s.v3
      · simp only [hv, decide_true, if_true, Bool.false_eq_true, if_false, hcast]
        have := ih (idx + 1) { s with v4 := (idx : Int), v3 := v } hs
        simpa [apply_spans_max.body_L2, hs] using this
      · simp only [hv, decide_false, Bool.false_eq_true, if_false, hcast]
        have := ih (idx + 1) { s with v4 := (idx : Int) } hs
        simpa [apply_spans_max.body_L2, hs] using this

/-- one iteration of the span loop of `apply_spans_max` -/
theorem max_step (sp : List Nat) (src : List Int) (k cur next : Nat) (dest : List Int) (s : apply_spans_max.St)
    (hc : sp[k]? = some cur) (hn : sp[k + 1]? = some next)
    (hR : s.p0 = ints sp ∧ s.p1 = src ∧ s.p2 = dest) (hk : k < dest.length) :
    match spanMax src cur next with
    | .ok v => ∃ s', apply_spans_max.body_L1 { s with v0 := (k : Int) } = .ok s' ∧ (s'.p0 = ints sp ∧ s'.p1 = src ∧ s'.p2 = dest.set k v)
    | .error e => ∃ e', apply_spans_max.body_L1 { s with v0 := (k : Int) } = .error e' ∧ e'.tag = e.tag := by
  obtain ⟨h0, h1, h2⟩ := hR
  have hk1 : ((k : Int) + 1) = ((k + 1 : Nat) : Int) := by omega
  simp only [apply_spans_max.body_L1, h0, h1, h2, hk1, idxE_nat, getE_ints _ _ _ hc, getE_ints _ _ _ hn, bindE_ok, spanMax]
  cases hg : src[cur]? with
  | none =>
    have : getE src cur "p1[v1]" = .error (.oob "p1[v1]") := by simp [getE, hg]
    by_cases h1' : (next : Int) - cur == 1 <;> simp [getE, hg, h1']
  | some v =>
    have hget : ∀ site, getE src cur site = .ok v := fun site => by simp [getE, hg]
    simp only [hget, bindE_ok]
    by_cases hnc : next = cur + 1
    · subst hnc
      have h1' : ((((cur + 1 : Nat) : Int) - (cur : Int)) == 1) = true := by rw [beq_iff_eq]; omega
      simp only [h1', if_true, beq_self_eq_true, setIdxE_nat, setE, hk, bindE_ok]
      exact ⟨_, rfl, rfl, rfl, rfl⟩
    · have : ((next : Int) - (cur : Int) == 1) = false := by rw [beq_eq_false_iff_ne]; omega
      have hb : (next == cur + 1) = false := by simp [hnc]
      simp only [this, hb, Bool.false_eq_true, if_false]
      unfold forRangeE
      have hn' : ((next : Int) - ((cur : Int) + 1)).toNat = next - (cur + 1) := by omega
      have hc' : ((cur : Int) + 1) = ((cur + 1 : Nat) : Int) := by omega
      rw [hn', hc']
      have hin := max_inner src (next - (cur + 1)) (cur + 1)
        { p0 := ints sp, p1 := src, p2 := dest, v0 := (k : Int), v1 := (cur : Int), v2 := (next : Int), v3 := v, v4 := s.v4 } rfl
      simp only at hin
      cases hm : maxLoop src (next - (cur + 1)) (cur + 1) v with
      | error e =>
        rw [hm] at hin
        obtain ⟨e', hrun, ht⟩ := hin
        simp only [hrun, bindE_error]
        exact ⟨e', rfl, ht⟩
      | ok m =>
        rw [hm] at hin
        obtain ⟨s', hrun, hv3, hp0, hp1, hp2, hv0⟩ := hin
        simp only [hrun, bindE_ok, hv0, hp2, hv3, setIdxE_nat, setE, hk, if_true]
        exact ⟨_, rfl, hp0, hp1, rfl⟩

theorem apply_spans_max_refines (sp : List Nat) (src : List Int) :
    Sim (apply_spans_max.run (ints sp) src none) (applySpansMax sp src) := by
  unfold apply_spans_max.run applySpansMax forSpans
  cases sp with
  | nil => simp [pyLen, npZeros, Sim]
  | cons a t =>
    have hlen : (pyLen (ints (a :: t)) - 1) = ((t.length : Nat) : Int) := by simp [pyLen]
    simp only [hlen, npZeros_nat, bindE_ok, List.isEmpty_cons, Bool.false_eq_true, if_false]
    have h := forRange_forPairs_run (a :: t) (by simp)
      (fun dest (s : apply_spans_max.St) => s.p0 = ints (a :: t) ∧ s.p1 = src ∧ s.p2 = dest)
      (fun k s => apply_spans_max.body_L1 { s with v0 := k }) (spanMax src)
      (fun k cur next dest s hc hn hR hk => max_step (a :: t) src k cur next dest s hc hn hR hk)
      { p0 := ints (a :: t), p1 := src, p2 := List.replicate t.length 0, v0 := 0, v1 := 0, v2 := 0, v3 := 0, v4 := 0 }
      (List.replicate t.length 0) (by simp) ⟨rfl, rfl, rfl⟩
    have hl : (((a :: t).length : Nat) : Int) - 1 = ((t.length : Nat) : Int) := by simp
    rw [hl] at h
    cases hp : forPairs (spanMax src) (a :: t) with
    | error e =>
      rw [hp] at h
      obtain ⟨e', hrun, ht⟩ := h
      simp only [hrun, bindE_error, Sim, ht]
    | ok vs =>
      rw [hp] at h
      obtain ⟨s', hrun, _, _, h2⟩ := h
      simp only [hrun, bindE_ok, Sim, h2]

/-! ### apply_spans_min -/

/-- inner loop `for idx in range(cur + 1, next): if src_array[idx] < min_val: min_val = src_array[idx]` -/
theorem min_inner (src : List Int) :
    ∀ (n idx : Nat) (s : apply_spans_min.St), s.p1 = src →
      match minLoop src n idx s.v3 with
      | .ok m => ∃ s', forRangeAux (fun _ => false) (fun j s => apply_spans_min.body_L2 { s with v4 := j }) n (idx : Int) s = .ok s' ∧
          s'.v3 = m ∧ s'.p0 = s.p0 ∧ s'.p1 = s.p1 ∧ s'.p2 = s.p2 ∧ s'.v0 = s.v0
      | .error e => ∃ e', forRangeAux (fun _ => false) (fun j s => apply_spans_min.body_L2 { s with v4 := j }) n (idx : Int) s = .error e' ∧
          e'.tag = e.tag := by
  intro n
  induction n with
  | zero => intro idx s _; simp [minLoop, forRangeAux]
  | succ n ih =>
    intro idx s hs
    simp only [minLoop, forRangeAux, apply_spans_min.body_L2, hs, idxE_nat]
    cases hg : src[idx]? with
    | none => simp [getE, hg]
    | some v =>
      simp only [getE, hg, bindE_ok]
      have hcast : ((idx : Int) + 1) = ((idx + 1 : Nat) : Int) := by omega
      by_cases hv : v < s.v3
      · simp only [hv, decide_true, if_true, Bool.false_eq_true, if_false, hcast]
        have := ih (idx + 1) { s with v4 := (idx : Int), v3 := v } hs
        simpa [apply_spans_min.body_L2, hs] using this
      · simp only [hv, decide_false, Bool.false_eq_true, if_false, hcast]
        have := ih (idx + 1) { s with v4 := (idx : Int) } hs
        simpa [apply_spans_min.body_L2, hs] using this

/-- one iteration of the span loop of `apply_spans_min` -/
theorem min_step (sp : List Nat) (src : List Int) (k cur next : Nat) (dest : List Int) (s : apply_spans_min.St)
    (hc : sp[k]? = some cur) (hn : sp[k + 1]? = some next)
    (hR : s.p0 = ints sp ∧ s.p1 = src ∧ s.p2 = dest) (hk : k < dest.length) :
    match spanMin src cur next with
    | .ok v => ∃ s', apply_spans_min.body_L1 { s with v0 := (k : Int) } = .ok s' ∧ (s'.p0 = ints sp ∧ s'.p1 = src ∧ s'.p2 = dest.set k v)
    | .error e => ∃ e', apply_spans_min.body_L1 { s with v0 := (k : Int) } = .error e' ∧ e'.tag = e.tag := by
  obtain ⟨h0, h1, h2⟩ := hR
  have hk1 : ((k : Int) + 1) = ((k + 1 : Nat) : Int) := by omega
  simp only [apply_spans_min.body_L1, h0, h1, h2, hk1, idxE_nat, getE_ints _ _ _ hc, getE_ints _ _ _ hn, bindE_ok, spanMin]
  cases hg : src[cur]? with
  | none =>
    have : getE src cur "p1[v1]" = .error (.oob "p1[v1]") := by simp [getE, hg]
    by_cases h1' : (next : Int) - cur == 1 <;> simp [getE, hg, h1']
  | some v =>
    have hget : ∀ site, getE src cur site = .ok v := fun site => by simp [getE, hg]
    simp only [hget, bindE_ok]
    by_cases hnc : next = cur + 1
    · subst hnc
      have h1' : ((((cur + 1 : Nat) : Int) - (cur : Int)) == 1) = true := by rw [beq_iff_eq]; omega
      simp only [h1', if_true, beq_self_eq_true, setIdxE_nat, setE, hk, bindE_ok]
      exact ⟨_, rfl, rfl, rfl, rfl⟩
    · have : ((next : Int) - (cur : Int) == 1) = false := by rw [beq_eq_false_iff_ne]; omega
      have hb : (next == cur + 1) = false := by simp [hnc]
      simp only [this, hb, Bool.false_eq_true, if_false]
      unfold forRangeE
      have hn' : ((next : Int) - ((cur : Int) + 1)).toNat = next - (cur + 1) := by omega
      have hc' : ((cur : Int) + 1) = ((cur + 1 : Nat) : Int) := by omega
      rw [hn', hc']
      have hin := min_inner src (next - (cur + 1)) (cur + 1)
        { p0 := ints sp, p1 := src, p2 := dest, v0 := (k : Int), v1 := (cur : Int), v2 := (next : Int), v3 := v, v4 := s.v4 } rfl
      simp only at hin
      cases hm : minLoop src (next - (cur + 1)) (cur + 1) v with
      | error e =>
        rw [hm] at hin
        obtain ⟨e', hrun, ht⟩ := hin
        simp only [hrun, bindE_error]
        exact ⟨e', rfl, ht⟩
      | ok m =>
        rw [hm] at hin
        obtain ⟨s', hrun, hv3, hp0, hp1, hp2, hv0⟩ := hin
        simp only [hrun, bindE_ok, hv0, hp2, hv3, setIdxE_nat, setE, hk, if_true]
        exact ⟨_, rfl, hp0, hp1, rfl⟩

theorem apply_spans_min_refines (sp : List Nat) (src : List Int) :
    Sim (apply_spans_min.run (ints sp) src none) (applySpansMin sp src) := by
  unfold apply_spans_min.run applySpansMin forSpans
  cases sp with
  | nil => simp [pyLen, npZeros, Sim]
  | cons a t =>
    have hlen : (pyLen (ints (a :: t)) - 1) = ((t.length : Nat) : Int) := by simp [pyLen]
    simp only [hlen, npZeros_nat, bindE_ok, List.isEmpty_cons, Bool.false_eq_true, if_false]
    have h := forRange_forPairs_run (a :: t) (by simp)
      (fun dest (s : apply_spans_min.St) => s.p0 = ints (a :: t) ∧ s.p1 = src ∧ s.p2 = dest)
      (fun k s => apply_spans_min.body_L1 { s with v0 := k }) (spanMin src)
      (fun k cur next dest s hc hn hR hk => min_step (a :: t) src k cur next dest s hc hn hR hk)
      { p0 := ints (a :: t), p1 := src, p2 := List.replicate t.length 0, v0 := 0, v1 := 0, v2 := 0, v3 := 0, v4 := 0 }
      (List.replicate t.length 0) (by simp) ⟨rfl, rfl, rfl⟩
    have hl : (((a :: t).length : Nat) : Int) - 1 = ((t.length : Nat) : Int) := by simp
    rw [hl] at h
    cases hp : forPairs (spanMin src) (a :: t) with
    | error e =>
      rw [hp] at h
      obtain ⟨e', hrun, ht⟩ := h
      simp only [hrun, bindE_error, Sim, ht]
    | ok vs =>
      rw [hp] at h
      obtain ⟨s', hrun, _, _, h2⟩ := h
      simp only [hrun, bindE_ok, Sim, h2]


end Exetera.GenK
