import Exetera.Model.Basic
import Exetera.Spec.Unique
/-!
  Model of `isin` / `unique` (exetera/core/operations.py, exetera/core/fields.py), with the `fix:` patches
  D21 (inverse composed with the inverse sort permutation) and NC14b (`sorted` instead of `np.sort` for the test set) applied:

    compare_arrays, isin_indexed_string_speedup (binary search), isin_for_indexed_string_field,
    get_indexed_string_unique (length pre-filter, linear scan, index / inverse / counts bookkeeping),
    unique_for_indexed_string (sort, argsort, the three permutations, every flag combination),
    FieldDataOps.apply_isin / apply_unique (dispatch; non-indexed types delegate to numpy = parameters).

  Conventions: an indexed string column is the pair `indices : List Nat`, `values : List UInt8` exactly as stored
  (`encode` builds it from the list of rows); every subscript of the two `@exetera_njit` kernels goes through `getE`;
  numpy slicing `values[a:b]` clamps (`slice`). External calls are modelled by their reference semantics:
  `sorted(list of str)` = stable merge sort by UTF-8 byte order; `np.sort / np.argsort` of a list of `str` = the same after
  numpy's `<U` storage has dropped trailing U+0000 characters (`stripNul`; finding NC14a); `np.argsort` of an int array
  = stable merge sort; `str.encode` / `bytes.decode` = identity on the byte level.
-/
namespace Exetera.Unique

open Exetera Exetera.Spec

abbrev Bytes := List UInt8

/-! ### storage of an indexed string column -/

/-- the `indices` array of an indexed string field whose rows are `col`, first offset `base` -/
def offsetsFrom : List Bytes → Nat → List Nat
  | [], base => [base]
  | x :: xs, base => base :: offsetsFrom xs (base + x.length)

/-- `(indices, values)` of an indexed string field holding the rows `col` -/
def encode (col : List Bytes) : List Nat × Bytes := (offsetsFrom col 0, col.flatten)

/-! ### compare_arrays -/

/-- the `for i in range(min(a.size, b.size))` loop; `none` = fell through -/
def compareLoop (a b : Bytes) : Nat → Nat → Except Err (Option Int)
  | 0, _ => .ok none
  | k + 1, i =>
    match getE a i "compare_arrays:a[i]" with
    | .error e => .error e
    | .ok x =>
      match getE b i "compare_arrays:b[i]" with
      | .error e => .error e
      | .ok y =>
        if x < y then .ok (some (-1))
        else if x > y then .ok (some 1)
        else compareLoop a b k (i + 1)

/-- `compare_arrays(a, b)` -/
def compareArrays (a b : Bytes) : Except Err Int :=
  match compareLoop a b (min a.length b.length) 0 with
  | .error e => .error e
  | .ok (some r) => .ok r
  | .ok none =>
    if a.length < b.length then .ok (-1)
    else if b.length < a.length then .ok 1
    else .ok 0

/-! ### isin_indexed_string_speedup -/

/-- loop variables of the binary search (`found` = `is_equal`, set together with `break`) -/
structure BS where
  start : Int
  stop : Int
  found : Bool
  deriving Repr, DecidableEq, Inhabited

/-- `while start <= end` (and not left by `break`) -/
def bsGuard (s : BS) : Bool := decide (s.start ≤ s.stop) && !s.found

/-- one iteration of the binary search for `v` in `tests` -/
def bsBody (tests : List Bytes) (v : Bytes) (s : BS) : Except Err BS :=
  let mid := (s.start + s.stop) / 2        -- Python `//`: floor division; `Int./` rounds down for a positive divisor
  if mid < 0 then .error (.oob "isin:test_elements[mid]")
  else
    match getE tests mid.toNat "isin:test_elements[mid]" with
    | .error e => .error e
    | .ok t =>
      match compareArrays v t with
      | .error e => .error e
      | .ok c =>
        if c == 0 then .ok { s with found := true }
        else if c == 1 then .ok { s with start := mid + 1 }
        else .ok { s with stop := mid - 1 }

/-- the binary search for one row value -/
def isinRow (tests : List Bytes) (v : Bytes) : Except Err Bool :=
  match whileE bsGuard (bsBody tests v) tests.length ⟨0, (tests.length : Int) - 1, false⟩ with
  | .error e => .error e
  | .ok s => .ok s.found

/-- the row loop `for i in range(len(indices)-1)`; `acc` = `result[:i]`, `cap` = `len(result)` -/
def isinLoop (tests : List Bytes) (indices : List Nat) (values : Bytes) (cap : Nat) :
    Nat → Nat → List Bool → Except Err (List Bool)
  | 0, _, acc => .ok acc
  | k + 1, i, acc =>
    match getE indices i "isin:indices[i]" with
    | .error e => .error e
    | .ok lo =>
      match getE indices (i + 1) "isin:indices[i+1]" with
      | .error e => .error e
      | .ok hi =>
        match isinRow tests (slice values lo hi) with
        | .error e => .error e
        | .ok b =>
          if i < cap then isinLoop tests indices values cap k (i + 1) (acc ++ [b])
          else .error (.oob "isin:result[i]")

/-- `isin_indexed_string_speedup(test_elements, indices, values)` -/
def isinSpeedup (tests : List Bytes) (indices : List Nat) (values : Bytes) : Except Err (List Bool) :=
  isinLoop tests indices values (indices.length - 1) (indices.length - 1) 0 []

/-- `sorted(test_elements)` for Python strings, on their UTF-8 bytes -/
def sortedStr (xs : List Bytes) : List Bytes := xs.mergeSort bytesLe

/-- `isin_for_indexed_string_field(test_elements, indices, values)`; `none` entries are Python `None` -/
def isinForIndexedString (tests : Option (List (Option Bytes))) (indices : List Nat) (values : Bytes) :
    Except Err (List Bool) :=
  match tests with
  | none => .error (.typeError "isin: NoneType")
  | some ts =>
    let ts' := ts.filterMap id
    if ts'.length == 0 then .ok (List.replicate (indices.length - 1) false)
    else isinSpeedup (sortedStr ts') indices values

/-! ### get_indexed_string_unique -/

/-- the four output lists of `get_indexed_string_unique` (discovery order) -/
structure UOut where
  result : List Bytes
  index : Option (List Nat)
  inverse : Option (List Nat)
  counts : Option (List Nat)
  deriving Repr, DecidableEq, Inhabited

structure UState where
  lengthsSeen : List Int
  out : UOut
  deriving Repr, DecidableEq, Inhabited

/-- `for j, unique_v in enumerate(unique_result): if np.array_equal(v, unique_v): … break` -/
def scanEq (v : Bytes) : List Bytes → Nat → Option Nat
  | [], _ => none
  | u :: us, j => if v == u then some j else scanEq v us (j + 1)

/-- the common "new unique value" block -/
def UOut.addNew (o : UOut) (v : Bytes) (i : Nat) : UOut :=
  { result := o.result ++ [v]
    index := o.index.map (· ++ [i])
    inverse := o.inverse.map (· ++ [o.result.length])     -- `len(unique_result) - 1` after the append
    counts := o.counts.map (· ++ [1]) }

/-- one iteration of the row loop -/
def uniqueStep (indices : List Nat) (values : Bytes) (s : UState) (i : Nat) : Except Err UState :=
  match getE indices (i + 1) "unique:indices[i+1]" with
  | .error e => .error e
  | .ok hi =>
    match getE indices i "unique:indices[i]" with
    | .error e => .error e
    | .ok lo =>
      let length : Int := (hi : Int) - (lo : Int)
      let v := slice values lo hi
      if !(s.lengthsSeen.contains length) then
        .ok { lengthsSeen := length :: s.lengthsSeen, out := s.out.addNew v i }
      else
        match scanEq v s.out.result 0 with
        | some j =>
          match s.out.counts with
          | none => .ok { s with out := { s.out with inverse := s.out.inverse.map (· ++ [j]) } }
          | some c =>
            match getE c j "unique:unique_counts[j]" with
            | .error e => .error e
            | .ok cj =>
              .ok { s with out := { s.out with inverse := s.out.inverse.map (· ++ [j]), counts := some (c.set j (cj + 1)) } }
        | none => .ok { s with out := s.out.addNew v i }

def uniqueLoop (indices : List Nat) (values : Bytes) : Nat → Nat → UState → Except Err UState
  | 0, _, s => .ok s
  | k + 1, i, s =>
    match uniqueStep indices values s i with
    | .error e => .error e
    | .ok s' => uniqueLoop indices values k (i + 1) s'

/-- `get_indexed_string_unique(indices, values, unique_result, unique_index, unique_inverse, unique_counts)`;
    a flag says whether the corresponding list was passed (not `None`) -/
def getIndexedStringUnique (indices : List Nat) (values : Bytes) (ri rv rc : Bool) : Except Err UOut :=
  let init : UState :=
    { lengthsSeen := [-1]
      out := { result := [], index := if ri then some [] else none, inverse := if rv then some [] else none,
               counts := if rc then some [] else none } }
  match uniqueLoop indices values (indices.length - 1) 0 init with
  | .error e => .error e
  | .ok s => .ok s.out

/-! ### unique_for_indexed_string -/

/-- numpy's `<U` storage cannot represent trailing U+0000 characters: they are dropped (finding NC14a) -/
def stripNul (b : Bytes) : Bytes := (b.reverse.dropWhile (· == 0)).reverse

/-- `np.sort(list of str)` -/
def npSortStr (xs : List Bytes) : List Bytes := (xs.map stripNul).mergeSort bytesLe

/-- `np.argsort(list of str)` (distinct strings: the algorithm does not matter; ties: stable) -/
def npArgsortStr (xs : List Bytes) : List Nat :=
  (((xs.map stripNul).zipIdx).mergeSort (fun a b => bytesLe a.1 b.1)).map (·.2)

/-- `np.argsort(int array)` -/
def npArgsortNat (xs : List Nat) : List Nat :=
  ((xs.zipIdx).mergeSort (fun a b => decide (a.1 ≤ b.1))).map (·.2)

/-- fancy indexing `xs[perm]` / the loop `out[i] = xs[perm[i]]` -/
def gather (xs : List Nat) (site : String) : List Nat → Except Err (List Nat)
  | [] => .ok []
  | p :: ps =>
    match getE xs p site with
    | .error e => .error e
    | .ok x =>
      match gather xs site ps with
      | .error e => .error e
      | .ok r => .ok (x :: r)

/-- the value of `Field.unique(...)`: the sorted uniques and the optional companions -/
structure UniqueResult (α : Type) where
  uniques : List α
  index : Option (List Nat)
  inverse : Option (List Nat)
  counts : Option (List Nat)
  deriving Repr, DecidableEq, Inhabited

def gatherOpt (xs : Option (List Nat)) (site : String) (perm : List Nat) : Except Err (Option (List Nat)) :=
  match xs with
  | none => .ok none
  | some l =>
    match gather l site perm with
    | .error e => .error e
    | .ok r => .ok (some r)

/-- `sorted_position = np.argsort(indices_sort)`; `for i: unique_inverse[i] = sorted_position[unique_inverse[i]]`
    (fix D21; as found the loop indexed `indices_sort` itself) -/
def remapInverse (perm : List Nat) : Option (List Nat) → Except Err (Option (List Nat))
  | none => .ok none
  | some inv =>
    match gather (npArgsortNat perm) "unique:sorted_position[unique_inverse[i]]" inv with
    | .error e => .error e
    | .ok r => .ok (some r)

/-- `unique_for_indexed_string(indices, values, return_index, return_inverse, return_counts)` (D21 repaired) -/
def uniqueForIndexedString (indices : List Nat) (values : Bytes) (ri rv rc : Bool) :
    Except Err (UniqueResult Bytes) :=
  match getIndexedStringUnique indices values ri rv rc with
  | .error e => .error e
  | .ok o =>
    let sortedU := npSortStr o.result
    if !(ri || rv || rc) then .ok ⟨sortedU, none, none, none⟩
    else
      let perm := npArgsortStr o.result
      match gatherOpt o.index "unique:unique_index[indices_sort]" perm with
      | .error e => .error e
      | .ok idx =>
        match remapInverse perm o.inverse with
        | .error e => .error e
        | .ok inv =>
          match gatherOpt o.counts "unique:unique_counts[indices_sort]" perm with
          | .error e => .error e
          | .ok cnt => .ok ⟨sortedU, idx, inv, cnt⟩

/-! ### FieldDataOps.apply_isin / apply_unique -/

/-- what `isin` / `unique` read from a field -/
inductive FieldData (α : Type) where
  | indexed (indices : List Nat) (values : Bytes)      -- `source.indices[:]`, `source.values[:]`
  | plain (data : List α)                              -- `source.data[:]`

/-- `FieldDataOps.apply_isin`; `npIsin` = `np.isin(data, test_elements)` (a `set` has been turned into a list) -/
def applyIsin {α} (npIsin : List α → Option (List (Option α)) → Except Err (List Bool))
    (decodeTest : α → Bytes) (src : FieldData α) (tests : Option (List (Option α))) : Except Err (List Bool) :=
  match src with
  | .indexed indices values => isinForIndexedString (tests.map (·.map (·.map decodeTest))) indices values
  | .plain data => npIsin data tests

/-- `FieldDataOps.apply_unique`; `npUnique` = `np.unique(data, return_index, return_inverse, return_counts)` -/
def applyUnique {α} (npUnique : List α → Bool → Bool → Bool → UniqueResult α) (ofBytes : Bytes → α)
    (src : FieldData α) (ri rv rc : Bool) : Except Err (UniqueResult α) :=
  match src with
  | .indexed indices values =>
    match uniqueForIndexedString indices values ri rv rc with
    | .error e => .error e
    | .ok r => .ok ⟨r.uniques.map ofBytes, r.index, r.inverse, r.counts⟩
  | .plain data => .ok (npUnique data ri rv rc)

/-- reference semantics of `np.isin` on a 1-d array and a list with `None` entries: `None` equals no stored value;
    `np.isin(data, None)` compares with the 0-d object array `None` -/
def refNpIsin {α} [BEq α] (data : List α) (tests : Option (List (Option α))) : Except Err (List Bool) :=
  match tests with
  | none => .ok (data.map (fun _ => false))
  | some ts => .ok (Spec.isin data (ts.filterMap id))

/-- reference semantics of `np.unique` with the three flags -/
def refNpUnique {α} [BEq α] (le : α → α → Bool) (data : List α) (ri rv rc : Bool) : UniqueResult α :=
  ⟨Spec.uniques le data,
   if ri then some (Spec.uniqueIndex le data) else none,
   if rv then some (Spec.uniqueInverse le data) else none,
   if rc then some (Spec.uniqueCounts le data) else none⟩

end Exetera.Unique
