"""Base harness of C12 for `ops.chunked_copy` / `element_chunked_copy` (the column copy of DataFrame.merge): the real function on
memory fields vs Exetera.ChunkedCopy.chunkedCopy (Lean), with the number of `write` calls counted by wrapping the destination's
`write` from outside. Not a property of its own: routed through checks/harness/c12.py (`_h = "c12_copy"`)."""
PROPERTY = "C12"

_S = {}


def _env():
    if not _S:
        import numpy as np
        from exetera.core import operations as ops, fields
        from exetera.core.session import Session
        _S.update(np=np, ops=ops, fields=fields, s=Session())
    return _S


def mk(kind, cs, **kw):
    c = {"op": "chunked_copy", "kind": kind, "cs": cs}
    c.update(kw)
    return c


def gen_cases(tier, rng):
    out = []
    # exhaustive small scope: every length 0..7 x every chunk size 1..9 (shorter than, equal to, longer than the source)
    for n in range(0, 8):
        for cs in range(1, 10):
            out.append(mk("plain", cs, data=[(7 * i + 3) % 11 - 5 for i in range(n)], dtype="int32"))
    for lens in ([], [0], [1], [2, 0, 3], [1, 1, 1, 1], [5, 0, 0, 2, 4]):
        off, idx = 0, [0]
        for l in lens:
            off += l
            idx.append(off)
        if not lens:
            idx = []
        for cs in (1, 2, 3, 4, 16):
            out.append(mk("indexed", cs, indices=idx, values=[97 + (i % 26) for i in range(off)]))
    nrand = {"quick": 150, "thorough": 3000, "search": 1000}[tier]
    for _ in range(nrand):
        n = rng.choice([0, 1, 2, 5, 17, 64, 200, rng.randrange(0, 400)])
        cs = rng.choice([1, 2, 3, 7, 16, max(1, n - 1), max(1, n), n + 1, rng.randrange(1, 80)])
        if rng.random() < 0.6:
            out.append(mk("plain", cs, data=[rng.randrange(-1000, 1000) for _ in range(n)],
                          dtype=rng.choice(["int32", "int64"])))
        else:
            lens = [rng.choice([0, 1, 2, 3, 9]) for _ in range(n)]
            off, idx = 0, [0]
            for l in lens:
                off += l
                idx.append(off)
            out.append(mk("indexed", cs, indices=idx, values=[rng.randrange(0, 256) for _ in range(off)]))
    return out


def _counting(arr, counter):
    orig = arr.write

    def w(part):
        counter["n"] += 1
        return orig(part)
    arr.write = w


def impl(case):
    e = _env()
    np, ops, fields, s = e["np"], e["ops"], e["fields"], e["s"]
    counter = {"n": 0}
    if case["kind"] == "indexed":
        src, dest = fields.IndexedStringMemField(s), fields.IndexedStringMemField(s)
        if case["indices"]:
            src.indices.write(np.array(case["indices"], dtype=np.int64))
        if case["values"]:
            src.values.write(np.array(case["values"], dtype=np.uint8))
        _counting(dest.indices, counter)
        _counting(dest.values, counter)
        ops.chunked_copy(src, dest, case["cs"])
        return {"indices": [int(x) for x in dest.indices[:].tolist()], "values": [int(x) for x in dest.values[:].tolist()],
                "calls": counter["n"]}
    src, dest = fields.NumericMemField(s, case["dtype"]), fields.NumericMemField(s, case["dtype"])
    if case["data"]:
        src.data.write(np.array(case["data"], dtype=case["dtype"]))
    _counting(dest.data, counter)
    ops.chunked_copy(src, dest, case["cs"])
    return {"data": [int(x) for x in dest.data[:].tolist()], "calls": counter["n"]}


impl_counted = impl


def is_streamed(case):
    return True


def _sizes(case):
    return [len(case["indices"]), len(case["values"])] if case["kind"] == "indexed" else [len(case["data"])]


def step_bound(case, io):
    # theorem chunked_copy_eq: ceil(n / cs) writes per element array
    cs = case["cs"]
    return sum((n + cs - 1) // cs for n in _sizes(case))


def check_spec(case, io, mode):
    if "err" in io:
        return f"chunked_copy raised {io['err']}"
    if case["kind"] == "indexed":
        if io["indices"] != case["indices"] or io["values"] != case["values"]:
            return "destination differs from the source"
    elif io["data"] != case["data"]:
        return "destination differs from the source"
    return None


def nontrivial(case, mo):
    return any(n > case["cs"] for n in _sizes(case))


def classify(case, mo):
    tags = ["copy:" + case["kind"]]
    ns = _sizes(case)
    if all(n == 0 for n in ns):
        tags.append("empty")
    elif any(n > case["cs"] for n in ns):
        tags.append("multi-chunk")
        if any(n % case["cs"] == 0 for n in ns if n):
            tags.append("exact-multiple")
    else:
        tags.append("single-chunk")
    return tags


def warm_up():
    for c in (mk("plain", 2, data=[1, 2, 3], dtype="int32"), mk("plain", 2, data=[1, 2, 3], dtype="int64"),
              mk("indexed", 2, indices=[0, 1, 3], values=[97, 98, 99])):
        try:
            impl(c)
        except Exception:   # noqa
            pass
