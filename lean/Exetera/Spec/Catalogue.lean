import Exetera.Model.Catalogue
/-!
  C15 — what "the catalogue is consistent" means, and the abstract catalogue the model refines.

  * `Inv s`      : the in-memory catalogue and the file catalogue of state `s` name the same things and the same objects,
                   at both levels (columns of a frame, frames of a dataset), and the field objects held in `_columns` are
                   valid, open, owned by their frame and wrap exactly the linked object.
  * `absPy`/`absH5` : the abstract catalogue  dataset ↦ frame name ↦ column name ↦ (type, data)  read through the Python
                   objects / read from the file (which is what a reopen sees).
  * `Renamed`    : the abstract effect of `rename`.
-/
namespace Exetera.Catalogue

/-- the part of the invariant that does not mention `_dataframes` (it also holds while `create_dataframe` is filling a new frame) -/
structure InvCore (s : State) : Prop where
  /-- `_columns` of every frame is a dictionary, the link table of every group is a link table -/
  colsNodup : (keys s.cols).Nodup
  linksNodup : (keys s.links).Nodup
  /-- names(_columns) = names(h5 group), for every frame -/
  sameKeys : ∀ k, k ∈ keys s.cols ↔ k ∈ keys s.links
  /-- same objects: the field object stored under a name is valid, open, owned by the frame and wraps the object linked there -/
  sameObj : ∀ k h, (k, h) ∈ s.cols → ∃ hd, s.handles[h]? = some hd ∧ hd.valid = true ∧ hd.closed = false ∧
              hd.owner = some k.1 ∧ hd.home = k.1 ∧ (k, hd.oid) ∈ s.links
  /-- one field object per column, one link per object, objects exist -/
  handleInj : (s.cols.map (·.2)).Nodup
  oidInj : (s.links.map (·.2)).Nodup
  oidLt : ∀ k o, (k, o) ∈ s.links → o < s.objs.length
  /-- the root link table of every file is a link table; one link per group -/
  fileNodup : (keys s.file).Nodup
  frameInj : (s.file.map (·.2)).Nodup
  /-- `frame.name` is the name the frame is registered under; frames know their dataset -/
  frameName : ∀ k g, (k, g) ∈ s.file → s.fname[g]? = some k.2
  frameDs : ∀ k g, (k, g) ∈ s.file → s.fds[g]? = some k.1
  fdsLen : s.fds.length = s.fname.length
  /-- every link (and so every column) belongs to a frame that is registered -/
  linkFrame : ∀ k o, (k, o) ∈ s.links → k.1 ∈ s.file.map (·.2)
  /-- an open field object whose object is still linked is the one `_columns` holds under that name -/
  handleLink : ∀ (h : Nat) (hd : Handle), s.handles[h]? = some hd → hd.closed = false → ∀ k, (k, hd.oid) ∈ s.links → (k, h) ∈ s.cols
  handleOidLt : ∀ (h : Nat) (hd : Handle), s.handles[h]? = some hd → hd.oid < s.objs.length

structure Inv (s : State) : Prop extends InvCore s where
  /-- dataset level: `_dataframes` = root link table, same names and same frames -/
  dfsNodup : (keys s.dfs).Nodup
  sameFrames : ∀ e, e ∈ s.dfs ↔ e ∈ s.file

/-- a step that keeps the core invariant and does not touch the dataset-level tables keeps the invariant -/
theorem Inv.lift {s s' : State} (hI : Inv s) (hc : InvCore s') (hd : s'.dfs = s.dfs) (hf : s'.file = s.file) : Inv s' :=
  { hc with dfsNodup := hd ▸ hI.dfsNodup, sameFrames := by rw [hd, hf]; exact hI.sameFrames }

/-! ### the abstract catalogue -/

abbrev Frame := Name → Option Content
abbrev Cat := Nat → Name → Option Frame

/-- the catalogue as stored in the file(s): what a fresh reopen reads -/
def absH5 (s : State) : Cat := fun d fn =>
  (look s.file (d, fn)).map fun g => fun n => (look s.links (g, n)).bind fun oid => s.objs[oid]?

/-- the catalogue as reported by the Python objects: `ds.keys()`, `df.keys()`, `df[n]` and its data -/
def absPy (s : State) : Cat := fun d fn =>
  (look s.dfs (d, fn)).map fun g => fun n =>
    (look s.cols (g, n)).bind fun h => (s.handles[h]?).bind fun hd => s.objs[hd.oid]?

/-- the columns of one frame as stored in the file -/
def frameH5 (s : State) (g : Nat) : Frame := fun n => (look s.links (g, n)).bind fun oid => s.objs[oid]?

/-- the renaming function of a `rename` dictionary -/
def renOf (dict : List (Name × Name)) (n : Name) : Name := (lookN dict n).getD n

/-- `F'` is `F` with every column `n` renamed to `renOf dict n`: nothing lost, nothing invented, contents untouched -/
structure Renamed (dict : List (Name × Name)) (F F' : Frame) : Prop where
  fwd : ∀ n c, F n = some c → F' (renOf dict n) = some c
  bwd : ∀ n' c, F' n' = some c → ∃ n, F n = some c ∧ renOf dict n = n'

/-- the pre-check of `rename`, abstractly: every key names a column; destinations are distinct and none is a column that stays -/
structure RenameOk (dict : List (Name × Name)) (cur : List Name) : Prop where
  keysNodup : (dict.map (·.1)).Nodup
  keysPresent : ∀ k ∈ dict.map (·.1), k ∈ cur
  valsNodup : (dict.map (·.2)).Nodup
  noClash : ∀ t ∈ dict.map (·.2), t ∈ cur → t ∈ dict.map (·.1)

/-- where a key goes when frame `g` is renamed by `dict` -/
def renKey (g : Nat) (dict : List (Name × Name)) (k : Key) : Key := if k.1 = g then (g, renOf dict k.2) else k

/-- the state after `rename` took effect: both catalogues of frame `g` re-keyed by the same map, order, field objects and
    link targets untouched -/
def renamedState (s : State) (g : Nat) (dict : List (Name × Name)) : State :=
  { s with links := s.links.map (fun e => (renKey g dict e.1, e.2)),
           cols := setFrameCols s.cols g ((ownedBy s.cols g).map fun e => (renOf dict e.1, e.2)) }

/-- what the client sees of a field object: closed / invalid / its current name / AttributeError for a deleted field -/
inductive HandleView where
  | closed | invalid | named (n : Name) | unlinked | none
  deriving DecidableEq, Repr

def viewHandle (s : State) (h : Nat) : HandleView :=
  match s.handles[h]? with
  | none => .none
  | some hd =>
    if hd.closed then .closed
    else if !hd.valid then .invalid
    else match nameOfVal s.links hd.oid with
      | some n => .named n
      | none => .unlinked

/-! ### all-or-nothing -/

/-- an outcome whose exception, if any, leaves the state `s` alone -/
def ErrKeeps {α} (s : State) (r : Res α) : Prop := ∀ e s', r = .err e s' → s' = s

/-- the field object still wraps a linked field (it is not the left-over of a deleted column) -/
def Linked (s : State) (h : Nat) : Prop := ∀ hd, ensureValid s h = .ok hd → ∃ k, fieldName s h = .ok k

/-- calls on the columns of a dataframe -/
def Op.fieldLevel : Op → Bool
  | .create .. | .setItem .. | .add .. | .delItem .. | .drop .. | .deleteField .. | .rename .. | .copyField .. | .moveField .. => true
  | _ => false

/-- the field object given to `dataframe.move`, if any, is not the left-over of a deleted column -/
def Op.srcLinked (s : State) : Op → Prop
  | .moveField r _ _ _ => ∀ h, getField s r = .ok h → Linked s h
  | _ => True

/-- the object heap only grows: no existing field object changes its type or data -/
def ObjsExt (s s' : State) : Prop := ∃ extra, s'.objs = s.objs ++ extra

end Exetera.Catalogue
