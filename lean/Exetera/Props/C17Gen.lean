import Exetera.Props.C17
import Exetera.Lemmas.GenKernelsJournal
import Exetera.Lemmas.GenKernelsJournalMerge
import Exetera.Lemmas.GenKernelsJournalIndexed
import Exetera.Lemmas.GenKernelsJournalMergeIndexed
import Exetera.Lemmas.GenKernelsJournalIndices
/-!
  C17 over the TRANSLATED journalling kernels (`Gen/Kernels.lean`, regenerated from operations.py by tools/translate_njit.py on
  every run).

  * `gen_compare_rows_ok` (transfer form): every `.ok` run of the model `compareRows` is a run of the translated
    `compare_rows_for_journalling` with the same `to_keep`. The two sides differ on purpose in one error branch: the model wraps a
    negative subscript around once (`getI`, as numpy does), the translation makes a negative subscript an error; hence the
    hypothesis that no map entry is below -1 (`-1` itself is tested for by the kernel before it subscripts).
  * `gen_compare_rows_to_keep`: the property statement (`C17.to_keep_iff_new_or_differs`, one numeric field) for the translated
    kernel itself, on the specified maps.
-/
namespace Exetera.Props.C17Gen

open Exetera Exetera.Journal Exetera.Spec.Journal Exetera.GenK Exetera.Gen.Kernels

theorem gen_compare_rows_ok (om nm oldF newF : List Int) (tk tk' : List Bool)
    (hom : ∀ x ∈ om, -1 ≤ x) (hnm : ∀ x ∈ nm, -1 ≤ x) (h : compareRows om nm oldF newF tk = .ok tk') :
    compare_rows_for_journalling.run om nm oldF newF tk = .ok tk' :=
  compare_rows_ok om nm oldF newF tk tk' hom hnm h

example : compareRows [1, 2, -1] [0, -1, 1] [7, 7, 9] [7, 5] [false, false, false] = .ok [false, false, true] := by rfl
example : compare_rows_for_journalling.run [1, 2, -1] [0, -1, 1] [7, 7, 9] [7, 5] [false, false, false]
    = .ok [false, false, true] := by rfl
example : ∀ x ∈ ([1, 2, -1] : List Int), -1 ≤ x := by decide

theorem idxOr_ge (o : Option Nat) : -1 ≤ idxOr o := by
  cases o <;> simp [idxOr] <;> omega

theorem indices_fst_ge (ok nk : List Int) : ∀ x ∈ (indices ok nk).1, -1 ≤ x := by
  intro x hx
  simp only [indices, List.mem_map] at hx
  obtain ⟨k, _, rfl⟩ := hx
  exact idxOr_ge _

theorem indices_snd_ge (ok nk : List Int) : ∀ x ∈ (indices ok nk).2, -1 ≤ x := by
  intro x hx
  simp only [indices, List.mem_map] at hx
  obtain ⟨k, _, rfl⟩ := hx
  exact idxOr_ge _

/-- one numeric field compared by the TRANSLATED kernel on the specified maps, starting from an all-False `to_keep`: it returns
    normally (no subscript out of range or negative) and `to_keep` is, slot by slot, the specified flag — a slot is kept iff its
    key has a snapshot row and is new or differs from its last version in this field (`C17.keepFlag_iff`) -/
theorem gen_compare_rows_to_keep (ok nk o n : List Int) (ho : o.length = ok.length) (hn : n.length = nk.length) :
    compare_rows_for_journalling.run (indices ok nk).1 (indices ok nk).2 o n (List.replicate (indices ok nk).1.length false)
      = .ok (toKeep ok nk (differsAny [Col.num o n])) := by
  have h := C17.to_keep_iff_new_or_differs ok nk [Col.num o n] (by simp)
    (by intro c hc; simp only [List.mem_singleton] at hc; subst hc; exact ⟨ho, hn⟩)
  simp only [List.map_cons, List.map_nil, Col.enc, compareCols, compareCol] at h
  cases hr : compareRows (indices ok nk).1 (indices ok nk).2 o n (List.replicate (indices ok nk).1.length false) with
  | error e => rw [hr] at h; simp at h
  | ok tk' =>
    rw [hr] at h
    simp only [Except.ok.injEq] at h
    subst h
    exact compare_rows_ok _ _ _ _ _ _ (indices_fst_ge ok nk) (indices_snd_ge ok nk) hr

example : compare_rows_for_journalling.run (indices [4, 4, 6] [4, 8]).1 (indices [4, 4, 6] [4, 8]).2 [7, 7, 9] [7, 5]
    [false, false, false] = .ok [false, false, true] := by rfl

/-! ## compare_indexed_rows_for_journalling (three `assert`s, `indices[-1]`, slices compared with `np.array_equal`) -/

/-- transfer: every `.ok` run of the model `compareIndexedRows` (its assertions passed) is a run of the translated kernel with the
    same `to_keep`; no map entry below -1 (the model wraps a negative row number, the translation rejects it) -/
theorem gen_compare_indexed_rows_ok (om nm : List Int) (oi : List Nat) (ov : List Int) (ni : List Nat) (nv : List Int)
    (tk tk' : List Bool) (hom : ∀ x ∈ om, -1 ≤ x) (hnm : ∀ x ∈ nm, -1 ≤ x)
    (h : compareIndexedRows om nm oi ov ni nv tk = .ok tk') :
    compare_indexed_rows_for_journalling.run om nm (ints oi) ov (ints ni) nv tk = .ok tk' :=
  compare_indexed_rows_ok om nm oi ov ni nv tk tk' hom hnm h

example : compareIndexedRows [1, 2, -1] [0, -1, 1] [0, 1, 2, 2] [1, 2] [0, 1, 2] [3, 4] [false, false, false]
    = .ok [true, false, true] := by rfl
example : compare_indexed_rows_for_journalling.run [1, 2, -1] [0, -1, 1] [0, 1, 2, 2] [1, 2] [0, 1, 2] [3, 4] [false, false, false]
    = .ok [true, false, true] := by rfl
-- a failed assertion (`old_indices[-1] != len(old_values)`)
example : compare_indexed_rows_for_journalling.run [0] [0] [0, 1] [] [0, 0] [] [false] = .error (.other "AssertionError") := by rfl

/-- one indexed string field compared by the TRANSLATED kernel on the specified maps, starting from an all-False `to_keep`: the
    assertions pass, no subscript is out of range or negative, and `to_keep` is, slot by slot, the specified flag -/
theorem gen_compare_indexed_rows_to_keep (ok nk : List Int) (o n : List (List Int)) (ho : o.length = ok.length)
    (hn : n.length = nk.length) :
    compare_indexed_rows_for_journalling.run (indices ok nk).1 (indices ok nk).2 (ints (encode o).1) (encode o).2
      (ints (encode n).1) (encode n).2 (List.replicate (indices ok nk).1.length false)
      = .ok (toKeep ok nk (differsAny [Col.str o n])) := by
  have h := C17.to_keep_iff_new_or_differs ok nk [Col.str o n] (by simp)
    (by intro c hc; simp only [List.mem_singleton] at hc; subst hc; exact ⟨ho, hn⟩)
  simp only [List.map_cons, List.map_nil, Col.enc, compareCols, compareCol] at h
  cases hr : compareIndexedRows (indices ok nk).1 (indices ok nk).2 (encode o).1 (encode o).2 (encode n).1 (encode n).2
      (List.replicate (indices ok nk).1.length false) with
  | error e => rw [hr] at h; simp at h
  | ok tk' =>
    rw [hr] at h
    simp only [Except.ok.injEq] at h
    subst h
    exact compare_indexed_rows_ok _ _ _ _ _ _ _ _ (indices_fst_ge ok nk) (indices_snd_ge ok nk) hr

/-! ## merge_journalled_entries / merge_indexed_journalled_entries_count

  Transfer form again: the model reads `new_src[new_map[i]]` through `getI` (a negative subscript wraps around once, as numpy does),
  the translation makes a negative subscript an error; hence the hypothesis that every KEPT slot has a non-negative `new_map` entry
  (on the specified maps a kept slot always has a snapshot row: `hnew_fNew`).  The model's inner `while` runs on its own
  per-iteration fuel, the translated kernel on one global fuel: any fuel that covers the destination (resp. the old offsets) will do. -/

theorem gen_merge_entries_ok (om nm : List Int) (tk : List Bool) (oldSrc newSrc : List Int) (cap fuel : Nat) (r : List Int)
    (hfuel : cap ≤ fuel) (hnn : ∀ (i : Nat) (n : Int), tk[i]? = some true → nm[i]? = some n → 0 ≤ n)
    (h : mergeEntries om nm tk oldSrc newSrc cap = .ok r) :
    merge_journalled_entries.run om nm tk oldSrc newSrc (List.replicate cap 0) fuel = .ok r :=
  merge_journalled_entries_ok om nm tk oldSrc newSrc cap fuel r hfuel hnn h

theorem gen_merge_indexed_count_ok (om nm : List Int) (tk : List Bool) (oi ni : List Nat) (fuel r : Nat)
    (hfuel : oi.length ≤ fuel) (hnn : ∀ (i : Nat) (n : Int), tk[i]? = some true → nm[i]? = some n → 0 ≤ n)
    (h : mergeIndexedCount om nm tk oi ni = .ok r) :
    merge_indexed_journalled_entries_count.run om nm tk (ints oi) (ints ni) fuel = .ok (r : Int) :=
  merge_indexed_journalled_entries_count_ok om nm tk oi ni fuel r hfuel hnn h

example : mergeEntries [1, 2, -1] [0, -1, 1] [true, false, true] [7, 7, 9] [7, 5] 5 = .ok [7, 7, 7, 9, 5] := by rfl
example : merge_journalled_entries.run [1, 2, -1] [0, -1, 1] [true, false, true] [7, 7, 9] [7, 5] [0, 0, 0, 0, 0] 5
    = .ok [7, 7, 7, 9, 5] := by rfl
example : merge_indexed_journalled_entries_count.run [1, 2, -1] [0, -1, 1] [true, false, true] [0, 1, 2, 2] [0, 1, 2] 4
    = .ok 4 := by rfl

/-- on the specified maps every kept slot has a snapshot row -/
theorem kept_slots_nonneg (ok nk : List Int) (d : Nat → Nat → Bool) (i : Nat) (n : Int)
    (hk : (toKeep ok nk d)[i]? = some true) (hn : (indices ok nk).2[i]? = some n) : 0 ≤ n := by
  rw [toKeep_eq_map] at hk
  rw [indices_eq_map] at hn
  simp only [List.getElem?_map] at hk hn
  cases hkey : (keyUnion ok nk)[i]? with
  | none => simp [hkey] at hk
  | some k =>
    simp only [hkey, Option.map_some, Option.some.injEq] at hk hn
    subst hn
    exact (hnew_fNew d nk.length rfl k hk).1

/-- the statement of `C17.merge_eq_spec` (numeric field) for the TRANSLATED `merge_journalled_entries`: on the specified maps and
    flags, with a zero-filled destination of the size `journal_table` allocates, it returns normally (no subscript out of range or
    negative, the inner loop finishes) and the destination is exactly the field read along the specification's plan -/
theorem gen_merge_entries_spec {ok nk : List Int} (hso : ok.Pairwise (· ≤ ·)) (hsn : nk.Pairwise (· < ·)) (d : Nat → Nat → Bool)
    (o n : List Int) (ho : o.length = ok.length) (hn : n.length = nk.length) (fuel : Nat)
    (hfuel : ok.length + (toKeep ok nk d).count true ≤ fuel) :
    merge_journalled_entries.run (indices ok nk).1 (indices ok nk).2 (toKeep ok nk d) o n
      (List.replicate (ok.length + (toKeep ok nk d).count true) 0) fuel = .ok (column (plan ok nk d) o n) := by
  have h := C17.merge_eq_spec hso hsn d (Col.num o n) ⟨ho, hn⟩
  simp only [Col.enc, mergeCol, Col.out] at h
  cases hm : mergeEntries (indices ok nk).1 (indices ok nk).2 (toKeep ok nk d) o n (ok.length + (toKeep ok nk d).count true) with
  | error e => rw [hm] at h; simp at h
  | ok r =>
    rw [hm] at h
    simp only [Except.ok.injEq, OutCol.num.injEq] at h
    subst h
    exact merge_journalled_entries_ok _ _ _ _ _ _ fuel _ hfuel (kept_slots_nonneg ok nk d) hm

/-- the indexed-string counterpart: the TRANSLATED `merge_indexed_journalled_entries_count`, on the specified maps and the offset
    arrays of the two encoded columns, returns the number of bytes of the field read along the specification's plan -/
theorem gen_merge_indexed_count_spec {ok nk : List Int} (hso : ok.Pairwise (· ≤ ·)) (hsn : nk.Pairwise (· < ·))
    (d : Nat → Nat → Bool) (o n : List (List Int)) (ho : o.length = ok.length) (hn : n.length = nk.length) (fuel : Nat)
    (hfuel : (encode o).1.length ≤ fuel) :
    merge_indexed_journalled_entries_count.run (indices ok nk).1 (indices ok nk).2 (toKeep ok nk d) (ints (encode o).1)
      (ints (encode n).1) fuel = .ok (((column (plan ok nk d) o n).flatten.length : Nat) : Int) := by
  have hplan := (plan_facts d hso hsn).1
  have h := mergeIndexedCount_plan (keyUnion ok nk) (fOld ok) (fNew nk) (gKeep ok nk d) o n
    (fun k _ => hold_fOld o.length ho k) (fun k _ hk => hnew_fNew d n.length hn k hk)
  rw [hplan, ← toKeep_eq_map, ← show (indices ok nk).1 = (keyUnion ok nk).map (fOld ok) from rfl,
    ← show (indices ok nk).2 = (keyUnion ok nk).map (fNew nk) from rfl] at h
  exact merge_indexed_journalled_entries_count_ok _ _ _ _ _ fuel _ hfuel (kept_slots_nonneg ok nk d) h

/-! ## merge_indexed_journalled_entries (offsets written one by one, bytes copied by slice assignment) -/

theorem gen_merge_indexed_entries_ok (om nm : List Int) (tk : List Bool) (oi : List Nat) (ov : List Int) (ni : List Nat)
    (nv : List Int) (capI capV fuel : Nat) (ri : List Nat) (rv : List Int) (hfuel : oi.length ≤ fuel)
    (hnn : ∀ (i : Nat) (n : Int), tk[i]? = some true → nm[i]? = some n → 0 ≤ n)
    (h : mergeIndexedEntries om nm tk oi ov ni nv capI capV = .ok (ri, rv)) :
    merge_indexed_journalled_entries.run om nm tk (ints oi) ov (ints ni) nv (List.replicate capI 0) (List.replicate capV 0) fuel
      = .ok (ints ri, rv) :=
  merge_indexed_journalled_entries_ok om nm tk oi ov ni nv capI capV fuel ri rv hfuel hnn h

/-- the statement of `C17.merge_eq_spec` (indexed string field) for the TRANSLATED `merge_indexed_journalled_entries`: on the
    specified maps and flags, with zero-filled destinations of the sizes `journal_table` allocates (one offset per result row plus
    one; the byte count `merge_indexed_journalled_entries_count` returned), it returns normally and the destinations are the
    (indices, values) encoding of the field read along the specification's plan -/
theorem gen_merge_indexed_entries_spec {ok nk : List Int} (hso : ok.Pairwise (· ≤ ·)) (hsn : nk.Pairwise (· < ·))
    (d : Nat → Nat → Bool) (o n : List (List Int)) (ho : o.length = ok.length) (hn : n.length = nk.length) (fuel : Nat)
    (hfuel : (encode o).1.length ≤ fuel) :
    merge_indexed_journalled_entries.run (indices ok nk).1 (indices ok nk).2 (toKeep ok nk d) (ints (encode o).1) (encode o).2
      (ints (encode n).1) (encode n).2 (List.replicate (ok.length + (toKeep ok nk d).count true + 1) 0)
      (List.replicate (column (plan ok nk d) o n).flatten.length 0) fuel
      = .ok (ints (encode (column (plan ok nk d) o n)).1, (encode (column (plan ok nk d) o n)).2) := by
  have hplan := (plan_facts d hso hsn).1
  have hcnt := mergeIndexedCount_plan (keyUnion ok nk) (fOld ok) (fNew nk) (gKeep ok nk d) o n
    (fun k _ => hold_fOld o.length ho k) (fun k _ hk => hnew_fNew d n.length hn k hk)
  rw [hplan, ← toKeep_eq_map, ← show (indices ok nk).1 = (keyUnion ok nk).map (fOld ok) from rfl,
    ← show (indices ok nk).2 = (keyUnion ok nk).map (fNew nk) from rfl] at hcnt
  have h := C17.merge_eq_spec hso hsn d (Col.str o n) ⟨ho, hn⟩
  simp only [Col.enc, mergeCol, Col.out, hcnt] at h
  cases hm : mergeIndexedEntries (indices ok nk).1 (indices ok nk).2 (toKeep ok nk d) (encode o).1 (encode o).2 (encode n).1
      (encode n).2 (ok.length + (toKeep ok nk d).count true + 1) (column (plan ok nk d) o n).flatten.length with
  | error e => rw [hm] at h; simp at h
  | ok r =>
    obtain ⟨ri, rv⟩ := r
    rw [hm] at h
    simp only [Except.ok.injEq, OutCol.str.injEq] at h
    obtain ⟨h1, h2⟩ := h
    subst h1 h2
    exact merge_indexed_journalled_entries_ok _ _ _ _ _ _ _ _ _ fuel _ _ hfuel (kept_slots_nonneg ok nk d) hm

example : merge_indexed_journalled_entries.run [1, 2, -1] [0, -1, 1] [true, false, true] [0, 1, 2, 2] [1, 2] [0, 1, 2] [3, 4]
    [0, 0, 0, 0, 0, 0] [0, 0, 0, 0] 4 = .ok ([0, 1, 2, 3, 3, 4], [1, 2, 3, 4]) := by rfl

example : merge_journalled_entries.run (indices [4, 4, 6] [4, 8]).1 (indices [4, 4, 6] [4, 8]).2
    (toKeep [4, 4, 6] [4, 8] (fun _ _ => true)) [7, 7, 9] [7, 5] [0, 0, 0, 0, 0] 5 = .ok [7, 7, 7, 9, 5] := by rfl

/-! ### `ordered_generate_journalling_indices` (KT4B) -/

/-- transfer: every `.ok` run of the model `journalIndices` (counting pass + writing pass) is a run of the TRANSLATED
    `ordered_generate_journalling_indices` with the same pair of maps, for any fuel ≥ len(old) + len(new) -/
theorem gen_journal_indices_ok (old new : List Int) (r : List Int × List Int) (fuel : Nat)
    (hfuel : old.length + new.length ≤ fuel) (h : journalIndices old new = .ok r) :
    ordered_generate_journalling_indices.run old new fuel = .ok r :=
  ordered_generate_journalling_indices_ok old new r fuel hfuel h

/-- the translated kernel IS the model on every input (no sortedness, no uniqueness assumed): the model never fails
    (`C17.journal_indices_safe`), so the transfer is an equality -/
theorem gen_journal_indices_eq (old new : List Int) (fuel : Nat) (hfuel : old.length + new.length ≤ fuel) :
    ordered_generate_journalling_indices.run old new fuel = journalIndices old new := by
  obtain ⟨om, nm, h, _⟩ := C17.journal_indices_safe old new
  rw [h]
  exact ordered_generate_journalling_indices_ok old new (om, nm) fuel hfuel h

/-- memory safety and termination of the TRANSLATED kernel on every input: it returns normally (no subscript out of range or
    negative, `joint < total` at every write, no loop out of fuel) and the two maps have the same length -/
theorem gen_journal_indices_safe (old new : List Int) (fuel : Nat) (hfuel : old.length + new.length ≤ fuel) :
    ∃ om nm, ordered_generate_journalling_indices.run old new fuel = .ok (om, nm) ∧ om.length = nm.length := by
  obtain ⟨om, nm, h, hl⟩ := C17.journal_indices_safe old new
  exact ⟨om, nm, ordered_generate_journalling_indices_ok old new (om, nm) fuel hfuel h, hl⟩

/-- the property statement (`C17.journal_indices_spec`) for the translated kernel itself: on old keys sorted ascending and
    strictly ascending snapshot keys it returns the specified maps — one slot per distinct key of old ∪ new in ascending order,
    the old entry the LAST row of the key's run (or -1), the new entry the key's snapshot row (or -1) -/
theorem gen_journal_indices_spec {old new : List Int} (hso : old.Pairwise (· ≤ ·)) (hsn : new.Pairwise (· < ·)) (fuel : Nat)
    (hfuel : old.length + new.length ≤ fuel) :
    ordered_generate_journalling_indices.run old new fuel = .ok (indices old new) :=
  ordered_generate_journalling_indices_ok old new _ fuel hfuel (C17.journal_indices_spec hso hsn)

example : ordered_generate_journalling_indices.run [0, 0, 0, 1, 1, 2, 3, 3, 5, 5, 5] [0, 2, 3, 4, 5, 6] 17 =
    .ok ([2, 4, 5, 7, -1, 10, -1], [0, -1, 1, 2, 3, 4, 5]) := by rfl
example : ([0, 0, 0, 1, 1, 2, 3, 3, 5, 5, 5] : List Int).Pairwise (· ≤ ·) ∧ ([0, 2, 3, 4, 5, 6] : List Int).Pairwise (· < ·) := by
  decide
/-- unsorted, repeated keys: still the model's answer -/
example : ordered_generate_journalling_indices.run [3, 1, 1, 3, 3] [2, 2, 0] 8 = .ok ([-1, -1, -1, 0, 2, 4], [0, 1, 2, -1, -1, -1]) := by
  rfl
/-- too little fuel is reported, never a wrong answer -/
example : ordered_generate_journalling_indices.run [3, 1, 1, 3, 3] [2, 2, 0] 2 = .error .outOfFuel := by rfl

end Exetera.Props.C17Gen
