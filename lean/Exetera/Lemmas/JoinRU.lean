import Exetera.Lemmas.JoinGeneralFinal
/-!
  The right-unique kernels (`generate_ordered_map_to_{left,inner}_right_unique_partial`) and their streamed drivers:
  invariant and one-iteration lemmas. The right column is duplicate-free (strictly sorted), so a left row has at most
  one match; the kernel keeps `j` on that match until the run of equal left keys ends (no block state is needed).
  Left chunks are trimmed (`Boundary`), right chunks are untrimmed (the read window is exactly the logical range).
-/
namespace Exetera.Join.RU
open Exetera Exetera.Spec Exetera.Join

/-- `true` ↦ `left_right_unique`, `false` ↦ `inner_right_unique` -/
def ruvariant (emit : Bool) : Variant := if emit then .leftRU else .innerRU

theorem sorted_of_strict {xs : List Int} (h : xs.Pairwise (· < ·)) : Sorted xs :=
  List.Pairwise.imp (fun h => Int.le_of_lt h) h

theorem strict_get? {xs : List Int} (h : xs.Pairwise (· < ·)) {i j : Nat} {a b : Int} (hij : i < j)
    (ha : xs[i]? = some a) (hb : xs[j]? = some b) : a < b := by
  obtain ⟨hi, rfl⟩ := List.getElem?_eq_some_iff.mp ha
  obtain ⟨hj, rfl⟩ := List.getElem?_eq_some_iff.mp hb
  exact (List.pairwise_iff_getElem.mp h) i j hi hj hij

/-- matched left row against a duplicate-free right column: exactly one output row -/
theorem rest_eq1 {l r : List Int} (hr : r.Pairwise (· < ·)) {I J : Nat} {a : Int}
    (ha : l[I]? = some a) (hb : r[J]? = some a)
    (hlt : ∀ j b, j < J → r[j]? = some b → b < a) :
    rest l r I = (I, some J) :: rest l r (I + 1) := by
  obtain ⟨hI, haL⟩ := List.getElem?_eq_some_iff.mp ha
  obtain ⟨hJ, hbR⟩ := List.getElem?_eq_some_iff.mp hb
  rw [rest_unfold l r hI]
  have : matchRows l[I] r 0 = List.range' J 1 := by
    apply matchRows_sorted (sorted_of_strict hr) (m := 1) (by omega)
    · intro j hj; rw [haL]; exact hlt j _ hj (get?_some_of_lt (by omega))
    · intro t ht
      have : t = 0 := by omega
      subst this
      rw [haL]; exact hbR
    · intro h; rw [haL]; exact strict_get? hr (i := J) (j := J + 1) (by omega) hb (get?_some_of_lt h)
  rw [this]; simp [leftRow]

/-- an untrimmed chunk: the window read is exactly the logical range -/
theorem fetch_untrimmed_ok (xs : List Int) (start cs : Nat) (hcs : 0 < cs) (hs : start ≤ xs.length) :
    ∃ c, fetchChunk false xs start cs = .ok c ∧ c.lo = start ∧ ChunkOK xs c ∧ c.data.length = c.hi - c.lo := by
  obtain ⟨h2, h3⟩ := untrimmed_ok xs start cs hcs hs
  refine ⟨_, by simp [fetchChunk], h2, h3, ?_⟩
  have h4 := h3.hi_le
  have h5 := h3.lo_le
  simp only [getUntrimmedChunk, slice_length] at h4 h5 ⊢
  omega

/-- the left key after the end of a trimmed chunk is strictly larger than the chunk's last key -/
theorem boundary_gt {xs : List Int} (hs : Sorted xs) {c : Chunk} (hb : Boundary xs c) {I : Nat} (hI : I + 1 = c.hi)
    {a a' : Int} (ha : xs[I]? = some a) (ha' : xs[I + 1]? = some a') : a < a' := by
  have hle := Sorted.le_get? hs (i := I) (j := I + 1) (by omega) ha ha'
  rcases hb with hb | hb
  · obtain ⟨h, _⟩ := List.getElem?_eq_some_iff.mp ha'
    omega
  · have e1 : c.hi - 1 = I := by omega
    rw [e1, ← hI, ha, ha'] at hb
    have : a ≠ a' := fun h => hb (by rw [h])
    omega

structure UInv (emit : Bool) (L R : List Int) (cs : Nat) (inv : Int) (d : D) : Prop where
  lok : ChunkOK L d.lch
  rok : ChunkOK R d.rch
  lbd : Boundary L d.lch
  rlen : d.rch.data.length = d.rch.hi - d.rch.lo
  ile : d.k.i ≤ d.lch.hi - d.lch.lo
  jle : d.k.j ≤ d.rch.hi - d.rch.lo
  blen : d.k.lb.length = d.k.rb.length
  bcap : d.k.rb.length ≤ cs
  outL : d.lout ++ d.k.lb ++ encL (sel emit (rest L R d.I)) = encL (sel emit (leftJoin L R))
  outR : d.rout ++ d.k.rb ++ encR inv (sel emit (rest L R d.I)) = encR inv (sel emit (leftJoin L R))
  h1 : ∀ j b a, j < d.J → R[j]? = some b → L[d.I]? = some a → b < a

/-- kernel-local variant -/
def ukmu (d : D) : Nat := (d.lch.hi - d.lch.lo - d.k.i) + (d.rch.hi - d.rch.lo - d.k.j)

/-- global variant: every kernel iteration advances `I` or `J` -/
def ugmu (L R : List Int) (d : D) : Nat := (L.length - d.I) + (R.length - d.J)

section step
variable {emit : Bool} {L R : List Int} {cs : Nat} {inv : Int} {d d' : D}

/-- `left[i] < right[j]`: the unmatched left row is emitted (left join) or skipped (inner join) -/
theorem ru_lt (hL : Sorted L) (hR : Sorted R) (hinv : UInv emit L R cs inv d)
    (hi : d.k.i < d.lch.hi - d.lch.lo)
    (hr : d.k.rb.length < cs) {a b : Int} (ha : L[d.I]? = some a) (hb : R[d.J]? = some b) (hab : a < b)
    (e_lch : d'.lch = d.lch) (e_rch : d'.rch = d.rch) (e_lout : d'.lout = d.lout) (e_rout : d'.rout = d.rout)
    (e_i : d'.k.i = d.k.i + 1) (e_j : d'.k.j = d.k.j)
    (e_lb : d'.k.lb = if emit then d.k.lb ++ [(d.I : Int)] else d.k.lb)
    (e_rb : d'.k.rb = if emit then d.k.rb ++ [inv] else d.k.rb) :
    UInv emit L R cs inv d' ∧ ukmu d' < ukmu d ∧ ugmu L R d' < ugmu L R d := by
  obtain ⟨hIlt, haL⟩ := List.getElem?_eq_some_iff.mp ha
  obtain ⟨hJlt, hbR⟩ := List.getElem?_eq_some_iff.mp hb
  have hI' : d'.I = d.I + 1 := by simp only [D.I, e_lch, e_i]; omega
  have hJ' : d'.J = d.J := by simp only [D.J, e_rch, e_j]
  have hrest : rest L R d.I = (d.I, none) :: rest L R (d.I + 1) := by
    apply rest_lt hR hIlt (J := d.J) (by omega)
    · intro j hjl
      rw [haL]
      exact hinv.h1 j _ a hjl (get?_some_of_lt (by omega)) ha
    · intro _; rw [haL, hbR]; exact hab
  have hoL := hinv.outL
  have hoR := hinv.outR
  rw [hrest, sel_cons_none] at hoL hoR
  have hblen := hinv.blen
  have hbcap := hinv.bcap
  have hile := hinv.ile
  refine ⟨⟨by rw [e_lch]; exact hinv.lok, by rw [e_rch]; exact hinv.rok, by rw [e_lch]; exact hinv.lbd,
      by rw [e_rch]; exact hinv.rlen, by rw [e_lch, e_i]; omega, by rw [e_rch, e_j]; exact hinv.jle, ?_, ?_, ?_, ?_, ?_⟩,
      ?_, ?_⟩
  · rw [e_lb, e_rb]; cases emit <;> simp [hblen]
  · rw [e_rb]; cases emit <;> simp <;> omega
  · rw [hI', e_lout, e_lb, ← hoL]; cases emit <;> simp
  · rw [hI', e_rout, e_rb, ← hoR]; cases emit <;> simp [encCell]
  · intro j b' a' hjl hb' ha'
    rw [hI'] at ha'; rw [hJ'] at hjl
    have := hinv.h1 j b' a hjl hb' ha
    have hle := Sorted.le_get? hL (i := d.I) (j := d.I + 1) (by omega) ha ha'
    omega
  · simp only [ukmu, e_lch, e_rch, e_i, e_j]; omega
  · simp only [ugmu, hI', hJ']; omega

/-- `left[i] > right[j]`: skip the right row -/
theorem ru_gt (hinv : UInv emit L R cs inv d) (hj : d.k.j < d.rch.hi - d.rch.lo)
    {a b : Int} (ha : L[d.I]? = some a) (hb : R[d.J]? = some b) (hab : b < a)
    (e_lch : d'.lch = d.lch) (e_rch : d'.rch = d.rch) (e_lout : d'.lout = d.lout) (e_rout : d'.rout = d.rout)
    (e_i : d'.k.i = d.k.i) (e_j : d'.k.j = d.k.j + 1)
    (e_lb : d'.k.lb = d.k.lb) (e_rb : d'.k.rb = d.k.rb) :
    UInv emit L R cs inv d' ∧ ukmu d' < ukmu d ∧ ugmu L R d' < ugmu L R d := by
  obtain ⟨hJlt, hbR⟩ := List.getElem?_eq_some_iff.mp hb
  have hI' : d'.I = d.I := by simp only [D.I, e_lch, e_i]
  have hJ' : d'.J = d.J + 1 := by simp only [D.J, e_rch, e_j]; omega
  refine ⟨⟨by rw [e_lch]; exact hinv.lok, by rw [e_rch]; exact hinv.rok, by rw [e_lch]; exact hinv.lbd,
      by rw [e_rch]; exact hinv.rlen, by rw [e_lch, e_i]; exact hinv.ile, by rw [e_rch, e_j]; omega,
      by rw [e_lb, e_rb]; exact hinv.blen, by rw [e_rb]; exact hinv.bcap,
      by rw [hI', e_lout, e_lb]; exact hinv.outL, by rw [hI', e_rout, e_rb]; exact hinv.outR, ?_⟩, ?_, ?_⟩
  · intro j b' a' hjl hb' ha'
    rw [hI'] at ha'; rw [hJ'] at hjl
    have e : a' = a := by rw [ha] at ha'; exact (Option.some.inj ha').symm
    subst e
    by_cases hjJ : j < d.J
    · exact hinv.h1 j b' a' hjJ hb' ha
    · have : j = d.J := by omega
      subst this
      rw [hb] at hb'; cases hb'; exact hab
  · simp only [ukmu, e_lch, e_rch, e_i, e_j]; omega
  · simp only [ugmu, hI', hJ']; omega

/-- `left[i] == right[j]`: emit `(I, J)`, `i += 1`; `j` advances only when the run of equal left keys is known to end -/
theorem ru_eq (hL : Sorted L) (hR : R.Pairwise (· < ·)) (hinv : UInv emit L R cs inv d)
    (hi : d.k.i < d.lch.hi - d.lch.lo) (hj : d.k.j < d.rch.hi - d.rch.lo)
    (hr : d.k.rb.length < cs) {a : Int} (ha : L[d.I]? = some a) (hb : R[d.J]? = some a)
    (e_lch : d'.lch = d.lch) (e_rch : d'.rch = d.rch) (e_lout : d'.lout = d.lout) (e_rout : d'.rout = d.rout)
    (e_i : d'.k.i = d.k.i + 1)
    (e_j : d'.k.j = d.k.j ∨ (d'.k.j = d.k.j + 1 ∧ ∀ a', L[d.I + 1]? = some a' → a < a'))
    (e_lb : d'.k.lb = d.k.lb ++ [(d.I : Int)]) (e_rb : d'.k.rb = d.k.rb ++ [(d.J : Int)]) :
    UInv emit L R cs inv d' ∧ ukmu d' < ukmu d ∧ ugmu L R d' < ugmu L R d := by
  obtain ⟨hIlt, haL⟩ := List.getElem?_eq_some_iff.mp ha
  obtain ⟨hJlt, hbR⟩ := List.getElem?_eq_some_iff.mp hb
  have hI' : d'.I = d.I + 1 := by simp only [D.I, e_lch, e_i]; omega
  have hJle : d.J ≤ d'.J ∧ d'.J ≤ d.J + 1 := by
    simp only [D.J, e_rch]; rcases e_j with e | ⟨e, _⟩ <;> omega
  have hjle' : d'.k.j ≤ d.rch.hi - d.rch.lo := by rcases e_j with e | ⟨e, _⟩ <;> omega
  have hrest : rest L R d.I = (d.I, some d.J) :: rest L R (d.I + 1) :=
    rest_eq1 hR ha hb (fun j b hjl hb' => hinv.h1 j b a hjl hb' ha)
  have hoL := hinv.outL
  have hoR := hinv.outR
  rw [hrest, sel_cons_some] at hoL hoR
  have hblen := hinv.blen
  have hile := hinv.ile
  refine ⟨⟨by rw [e_lch]; exact hinv.lok, by rw [e_rch]; exact hinv.rok, by rw [e_lch]; exact hinv.lbd,
      by rw [e_rch]; exact hinv.rlen, by rw [e_lch, e_i]; omega, by rw [e_rch]; exact hjle',
      by rw [e_lb, e_rb]; simp [hblen], by rw [e_rb]; simp; omega,
      by rw [hI', e_lout, e_lb, ← hoL]; simp, by rw [hI', e_rout, e_rb, ← hoR]; simp [encCell], ?_⟩, ?_, ?_⟩
  · intro j b' a' hjl hb' ha'
    rw [hI'] at ha'
    have hle := Sorted.le_get? hL (i := d.I) (j := d.I + 1) (by omega) ha ha'
    by_cases hjJ : j < d.J
    · have := hinv.h1 j b' a hjJ hb' ha; omega
    · rcases e_j with e | ⟨e, hnext⟩
      · have : d'.J = d.J := by simp only [D.J, e_rch, e]
        omega
      · have : j = d.J := by omega
        subst this
        rw [hb] at hb'; cases hb'
        exact hnext a' ha'
  · simp only [ukmu, e_lch, e_rch, e_i]; omega
  · simp only [ugmu, hI']; omega

end step
end Exetera.Join.RU
