/-!
  C10 — DOC Unique
-/
namespace Exetera.KernelPaths

/-- the isin / unique kernels of indexed strings (C14): path condition of every subscript occurrence -/
def uniquePaths : List (String × List (String × List String)) := [
  ("get_indexed_string_unique", [
    ("R indices[i + 1]", ["for i in range(0, len(indices) - 1)"]),
    ("R indices[i]", ["for i in range(0, len(indices) - 1)"]),
    ("R values[indices[i]:indices[i + 1]]", ["for i in range(0, len(indices) - 1)"]),
    ("W unique_counts[j]", ["for i in range(0, len(indices) - 1)", "not (length not in lengths_seen)", "for (j, unique_v) in enumerate(unique_result)", "np.array_equal(v, unique_v)", "unique_counts is not None"])]),
  ("isin_indexed_string_speedup", [
    ("R indices[i + 1]", ["for i in range(len(indices) - 1)"]),
    ("R indices[i]", ["for i in range(len(indices) - 1)"]),
    ("R test_elements[mid]", ["for i in range(len(indices) - 1)", "while start <= end"]),
    ("R values[indices[i]:indices[i + 1]]", ["for i in range(len(indices) - 1)"]),
    ("W result[i]", ["for i in range(len(indices) - 1)"])]),
  ("compare_arrays", [
    ("R a[i]", ["for i in range(min(a.size, b.size))"]),
    ("R a[i]", ["for i in range(min(a.size, b.size))", "not (a[i] < b[i])"]),
    ("R b[i]", ["for i in range(min(a.size, b.size))"]),
    ("R b[i]", ["for i in range(min(a.size, b.size))", "not (a[i] < b[i])"])])
]

end Exetera.KernelPaths
