import Exetera.Props.C19
import Exetera.Props.C10.Basic
import Exetera.Model.KernelSitesJoinFlat
/-!
# C10 — the legacy join helpers behind `Session.ordered_merge_*` (owning property: C19)

Covered by theorems: the six flat kernels and the `Session.ordered_merge_left / right / inner` calls that use them (the
non-streamable configurations, as in C19). Differential only (modelled in `Model/JoinOld.lean`, no owning theorem): the
streamable configurations, i.e. `generate_ordered_map_to_left_right_unique_streamed_old` + `…_partial_old`,
`ordered_map_valid_stream_old` + `ordered_map_valid_partial_old`, `chunks`.
-/
namespace Exetera.Props.C10
open Exetera Exetera.Spec Exetera.Join Exetera.JoinFlat Exetera.JoinOld

theorem access_sites_covered_join_flat : ∀ k ∈ KernelSites.joinFlatSites, lookup k.1 = some k := by decide +kernel

example : KernelSites.joinFlatSites.length = 9 := by decide

/-- `generate_ordered_map_to_left_right_unique`: sorted left keys, duplicate-free right keys, `result` of the left length -/
theorem no_oob_left_right_unique_flat {L R : List Int} (result : List Int) (inv : Int) (hL : Sorted L)
    (hR : R.Pairwise (· < ·)) (hres : result.length = L.length) (site : String) :
    generateLeft false L R result inv ≠ .error (.oob site) := by
  obtain ⟨u, h⟩ := C19.left_right_unique_flat_eq result inv hL hR hres
  exact ne_oob_of_ok h site

/-- `generate_ordered_map_to_left_both_unique` -/
theorem no_oob_left_both_unique_flat {L R : List Int} (result : List Int) (inv : Int) (hL : L.Pairwise (· < ·))
    (hR : R.Pairwise (· < ·)) (hres : result.length = L.length) (site : String) :
    generateLeft true L R result inv ≠ .error (.oob site) := by
  obtain ⟨u, h⟩ := C19.left_both_unique_flat_eq result inv hL hR hres
  exact ne_oob_of_ok h site

/-- `ordered_inner_map` on sorted keys and result arrays with room for the relational inner join — the size that
    `ordered_inner_map_result_size` returns (`no_oob_inner_result_size`): never overrun, whatever the duplication -/
theorem no_oob_inner_map_flat {L R : List Int} (l2i r2i : List Int) (hL : Sorted L) (hR : Sorted R)
    (hl : (innerJoin L R).length ≤ l2i.length) (hr : (innerJoin L R).length ≤ r2i.length) (site : String) :
    orderedInnerMap true true L R l2i r2i ≠ .error (.oob site) :=
  ne_oob_of_ok (C19.inner_map_flat_eq l2i r2i hL hR hl hr) site

/-- `ordered_inner_map_left_unique` -/
theorem no_oob_inner_map_left_unique_flat {L R : List Int} (l2i r2i : List Int) (hL : L.Pairwise (· < ·)) (hR : Sorted R)
    (hl : (innerJoin L R).length ≤ l2i.length) (hr : (innerJoin L R).length ≤ r2i.length) (site : String) :
    orderedInnerMap false true L R l2i r2i ≠ .error (.oob site) :=
  ne_oob_of_ok (C19.inner_map_left_unique_flat_eq l2i r2i hL hR hl hr) site

/-- `ordered_inner_map_both_unique` -/
theorem no_oob_inner_map_both_unique_flat {L R : List Int} (l2i r2i : List Int) (hL : L.Pairwise (· < ·))
    (hR : R.Pairwise (· < ·)) (hl : (innerJoin L R).length ≤ l2i.length) (hr : (innerJoin L R).length ≤ r2i.length)
    (site : String) : orderedInnerMap false false L R l2i r2i ≠ .error (.oob site) :=
  ne_oob_of_ok (C19.inner_map_both_unique_flat_eq l2i r2i hL hR hl hr) site

/-- `ordered_inner_map_result_size` on sorted keys -/
theorem no_oob_inner_result_size {L R : List Int} (hL : Sorted L) (hR : Sorted R) (site : String) :
    innerResultSize L R ≠ .error (.oob site) :=
  ne_oob_of_ok (C19.inner_result_size_eq hL hR) site

/-- the three uniqueness-flag combinations of `Session.ordered_merge_inner`'s map computation (size kernel, allocation,
    map kernel) -/
theorem no_oob_inner_maps (lu ru : Bool) {L R : List Int} (hL : Sorted L) (hR : Sorted R)
    (hlu : lu = true → L.Pairwise (· < ·)) (hru : ru = true → R.Pairwise (· < ·)) (site : String) :
    innerMaps lu ru L R ≠ .error (.oob site) :=
  ne_oob_of_ok (C19.inner_lists_exactly_pairs lu ru hL hR hlu hru) site

/-- `Session.ordered_merge_left` (flat left-map kernel + `map_valid` per payload column) in every non-streamable
    configuration returning arrays or writing to fields. `_partial` as its owner `C19.ordered_merge_left_correct_partial`:
    the full statement also covers `streamable c = true` (the `_old` streamed drivers) and array sinks. -/
theorem no_oob_ordered_merge_left_partial (lu : Bool) {L R : List Int} (xss : List (List Int))
    (hL : Sorted L) (hR : R.Pairwise (· < ·)) (hlu : lu = true → L.Pairwise (· < ·))
    (hne : xss ≠ []) (hlen : ∀ xs ∈ xss, xs.length = R.length) (cs : Nat) (c : Cfg) (hst : streamable c = false)
    (hs : c.sinks = .none ∨ c.sinks = .fields) (site : String) :
    orderedMergeLeft cs c lu true L R (xss.map .numeric) ≠ .error (.oob site) := by
  obtain ⟨cols, _, h⟩ := C19.ordered_merge_left_correct_partial lu xss hL hR hlu hne hlen
  rcases hs with hs | hs
  · exact ne_oob_of_ok ((h cs c hst).1 hs) site
  · exact ne_oob_of_ok ((h cs c hst).2 hs) site

example : Sorted [1, 2, 2, 3, 5, 5, 6, 9] ∧ ([2, 3, 4, 5, 9] : List Int).Pairwise (· < ·) := by simp [Sorted]
example : generateLeft false [1, 2, 2, 3, 5, 5, 6, 9] [2, 3, 4, 5, 9] (List.replicate 8 0) (-1) =
    .ok (true, encR (-1) (leftJoin [1, 2, 2, 3, 5, 5, 6, 9] [2, 3, 4, 5, 9])) := by decide
/-- the error branch is real: result arrays with room for 5 of the 6 joined rows -/
example : orderedInnerMap true true [1, 1, 2, 4, 4, 5] [1, 2, 2, 4, 6] (List.replicate 5 0) (List.replicate 6 0) =
    .error (.oob "left_to_inner[cur_m]") := by decide

end Exetera.Props.C10
