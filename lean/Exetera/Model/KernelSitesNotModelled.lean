/-!
  C10 — compiled kernels of `operations.py` that have NO model: nothing is proved about them, and no property's
  correspondence runs them through a public entry point. None of them is called from the library itself outside
  `operations.py` (`ordered_inner_map_left_unique_partial` only from `ordered_inner_map_left_unique_streamed`, which has no
  caller; the other four have no caller at all — they are reachable as `ops.*` only):

    ordered_left_map_result_size, ordered_outer_map_result_size_both_unique, ordered_inner_map_left_unique_partial,
    ordered_get_last_as_filter, streaming_sort_partial.

  `Props.C10.kernel_inventory_complete` proves that every compiled kernel the translator finds in the CURRENT source is
  either in one of the `KernelSites.*Sites` tables (modelled) or in this list — a compiled kernel added to the source
  breaks the build instead of going unnoticed.
-/
namespace Exetera.KernelSites

/-- not modelled (differential runs only, and only where a harness calls them directly) -/
def notModelled : List String := [
  "ordered_left_map_result_size",
  "ordered_outer_map_result_size_both_unique",
  "ordered_inner_map_left_unique_partial",
  "ordered_get_last_as_filter",
  "streaming_sort_partial"
]

end Exetera.KernelSites
