import Exetera.Model.Concat
import Exetera.Lemmas.ConcatSpec
/-! C16, entry level: the flag scan, the escaped copy and the quoted emission of one source range produce
    `Spec.CsvLine.field`, without leaving the arrays, provided the destination has room. -/
set_option linter.unusedSectionVars false
set_option linter.unusedSimpArgs false
namespace Exetera.Concat

open Exetera Exetera.Spec.CsvLine

variable {α : Type} [DecidableEq α]

theorem getE_append_mid {β} (pre post : List β) (c : β) (site : String) :
    getE (pre ++ c :: post) pre.length site = .ok c := by
  simp [getE]

theorem pushV_ok (cap : Nat) (vb : List α) (x : α) (site : String) (h : vb.length < cap) :
    pushV cap vb x site = .ok (vb ++ [x]) := by
  simp [pushV, h]

theorem scanFlags_step (vals : List α) (sep delim : α) (n i : Nat) (c q : Bool) (y : α)
    (hg : getE vals i "src_values[i_c]" = .ok y) :
    scanFlags vals sep delim (n + 1) i c q =
      if y = sep then scanFlags vals sep delim n (i + 1) true q
      else if y = delim then scanFlags vals sep delim n (i + 1) c true
      else scanFlags vals sep delim n (i + 1) c q := by
  simp [scanFlags, hg]

/-- the flag scan over the range holding `x` computes `needsQuote x` -/
theorem scanFlags_spec (vals : List α) (sep delim : α) (x : List α) :
    ∀ (pre post : List α) (c q : Bool), vals = pre ++ x ++ post →
      ∃ c' q', scanFlags vals sep delim x.length pre.length c q = .ok (c', q') ∧
        (c' || q') = (c || q || needsQuote sep delim x) := by
  induction x with
  | nil => intro pre post c q _; exact ⟨c, q, by simp [scanFlags, needsQuote]⟩
  | cons y x ih =>
    intro pre post c q hv
    have hg : getE vals pre.length "src_values[i_c]" = .ok y := by
      rw [hv]; simpa using getE_append_mid pre (x ++ post) y "src_values[i_c]"
    have hv' : vals = (pre ++ [y]) ++ x ++ post := by simp [hv]
    have hstep := scanFlags_step vals sep delim x.length pre.length c q y hg
    by_cases h1 : y = sep
    · obtain ⟨c', q', he, hf⟩ := ih (pre ++ [y]) post true q hv'
      refine ⟨c', q', ?_, ?_⟩
      · rw [List.length_cons, hstep, if_pos h1]; simpa using he
      · simp [hf, needsQuote, h1]
    · by_cases h2 : y = delim
      · obtain ⟨c', q', he, hf⟩ := ih (pre ++ [y]) post c true hv'
        refine ⟨c', q', ?_, ?_⟩
        · rw [List.length_cons, hstep, if_neg h1, if_pos h2]; simpa using he
        · simp only [hf, needsQuote, List.any_cons, h2]
          cases c <;> cases q <;> simp
      · obtain ⟨c', q', he, hf⟩ := ih (pre ++ [y]) post c q hv'
        refine ⟨c', q', ?_, ?_⟩
        · rw [List.length_cons, hstep, if_neg h1, if_neg h2]; simpa using he
        · simp [hf, needsQuote, h1, h2]

theorem escape_length_ge (delim : α) (x : List α) : x.length ≤ (escape delim x).length := by
  induction x with
  | nil => simp [escape]
  | cons c x ih => by_cases h : c = delim <;> simp [escape, h] <;> omega

/-- the escaped copy of the range holding `x` appends `escape x` -/
theorem copyEsc_spec (vals : List α) (delim : α) (cap : Nat) (x : List α) :
    ∀ (pre post vb : List α), vals = pre ++ x ++ post → vb.length + (escape delim x).length ≤ cap →
      copyEsc vals delim cap x.length pre.length vb = .ok (vb ++ escape delim x) := by
  induction x with
  | nil => intro pre post vb _ _; simp [copyEsc, escape]
  | cons y x ih =>
    intro pre post vb hv hcap
    have hg : getE vals pre.length "src_values[i_c]" = .ok y := by
      rw [hv]; simpa using getE_append_mid pre (x ++ post) y "src_values[i_c]"
    have hv' : vals = (pre ++ [y]) ++ x ++ post := by simp [hv]
    by_cases h : y = delim
    · simp only [escape, h, if_true, List.length_cons] at hcap
      have p1 : pushV cap vb delim "dest_values[esc]" = .ok (vb ++ [delim]) := pushV_ok _ _ _ _ (by omega)
      have p2 : pushV cap (vb ++ [delim]) y "dest_values[copy]" = .ok (vb ++ [delim] ++ [y]) :=
        pushV_ok _ _ _ _ (by simp; omega)
      have h3 := ih (pre ++ [y]) post (vb ++ [delim] ++ [y]) hv' (by simp; omega)
      simp only [List.length_cons, copyEsc, hg]
      rw [if_pos h, p1]
      simp only [p2]
      have h4 : (pre ++ [y]).length = pre.length + 1 := by simp
      rw [← h4, h3]
      simp [escape, h]
    · simp only [escape, h, if_false, List.length_cons] at hcap
      have p1 : pushV cap vb y "dest_values[copy]" = .ok (vb ++ [y]) := pushV_ok _ _ _ _ (by omega)
      have h3 := ih (pre ++ [y]) post (vb ++ [y]) hv' (by simp; omega)
      simp only [List.length_cons, copyEsc, hg]
      rw [if_neg h, p1]
      have h4 : (pre ++ [y]).length = pre.length + 1 := by simp
      simp only []
      rw [← h4, h3]
      simp [escape, h]

/-- opening quote, escaped copy, closing quote = `field x` -/
theorem emitBody_spec (vals : List α) (sep delim : α) (cap : Nat) (x pre post vb : List α) (a b : Nat)
    (hv : vals = pre ++ x ++ post) (ha : a = pre.length) (hb : b = a + x.length)
    (hcap : vb.length + (field sep delim x).length ≤ cap) :
    emitBody vals delim cap (needsQuote sep delim x) a b vb = .ok (vb ++ field sep delim x) := by
  have hn : b - a = x.length := by omega
  subst ha
  unfold emitBody
  cases hq : needsQuote sep delim x with
  | true =>
    simp only [field, hq, if_true, List.length_cons, List.length_append, List.length_nil] at hcap
    have p1 : pushV cap vb delim "dest_values[open]" = .ok (vb ++ [delim]) := pushV_ok _ _ _ _ (by omega)
    have p2 := copyEsc_spec vals delim cap x pre post (vb ++ [delim]) hv (by simp; omega)
    have p3 : pushV cap (vb ++ [delim] ++ escape delim x) delim "dest_values[close]"
        = .ok (vb ++ [delim] ++ escape delim x ++ [delim]) := pushV_ok _ _ _ _ (by simp; omega)
    simp only [if_true, p1, hn, p2, p3, field, hq]
    simp
  | false =>
    have hx : escape delim x = x := by
      apply escape_of_no_delim
      intro c hc
      exact ((needsQuote_false_iff' sep delim x).1 hq c hc).2
    simp only [field, hq, Bool.false_eq_true, if_false] at hcap
    have p2 := copyEsc_spec vals delim cap x pre post vb hv (by rw [hx]; omega)
    simp only [Bool.false_eq_true, if_false, hn, p2, field, hq, hx]

end Exetera.Concat
