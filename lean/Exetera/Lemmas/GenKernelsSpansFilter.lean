import Exetera.Gen.Kernels
import Exetera.Lemmas.GenKernels
import Exetera.Lemmas.GenKernelsSpans
import Exetera.Lemmas.GenKernelsSpansIndex
/-!
  The TRANSLATED `apply_spans_index_of_{first,last,min,max}_filter` kernels (caller-supplied `dest_array` and `filter_array`,
  both really subscripted) refine the hand model `filterLoop g` of `Model/Spans.lean`: same pair of arrays, or the same
  error class, for every span array of naturals and every pair of buffers.
-/
namespace Exetera.GenK

open Exetera Exetera.PyRt Exetera.Spans Exetera.Gen.Kernels

/-- one iteration of `filterLoop` -/
def filterStep (g : Nat → Nat → Except Err Int) (cur next i : Nat) (dest : List Int) (filt : List Bool) :
    Except Err (List Int × List Bool) :=
  if next == cur then
    match setE filt i false "filter_array[i]" with
    | .error e => .error e
    | .ok filt' => .ok (dest, filt')
  else
    match setE filt i true "filter_array[i]" with
    | .error e => .error e
    | .ok filt' =>
      match g cur next with
      | .error e => .error e
      | .ok v =>
        match setE dest i v "dest_array[i]" with
        | .error e => .error e
        | .ok dest' => .ok (dest', filt')

theorem filterLoop_cons (g : Nat → Nat → Except Err Int) (cur next : Nat) (rest : List Nat) (i : Nat) (dest : List Int)
    (filt : List Bool) :
    filterLoop g (cur :: next :: rest) i dest filt =
      match filterStep g cur next i dest filt with
      | .error e => .error e
      | .ok df => filterLoop g (next :: rest) (i + 1) df.1 df.2 := by
  simp only [filterLoop, filterStep]
  by_cases hnc : (next == cur) = true
  · simp only [hnc, if_true]
    cases hs : setE filt i false "filter_array[i]" <;> simp
  · simp only [hnc, Bool.false_eq_true, if_false]
    cases hs : setE filt i true "filter_array[i]" with
    | error e => simp
    | ok f =>
      cases hg : g cur next with
      | error e => simp
      | ok v => cases hd : setE dest i v "dest_array[i]" <;> simp [hd]

/-- simulation of a translated `for i in range(len(spans) - 1)` loop over two caller-supplied buffers by `filterLoop` -/
theorem forRange_filterLoop {σ} (sp : List Nat) (R : List Int → List Bool → σ → Prop) (body : Int → σ → Except Err σ)
    (g : Nat → Nat → Except Err Int)
    (hstep : ∀ (k cur next : Nat) (dest : List Int) (filt : List Bool) (s : σ), sp[k]? = some cur → sp[k + 1]? = some next →
      R dest filt s →
      match filterStep g cur next k dest filt with
      | .ok df => ∃ s', body (k : Int) s = .ok s' ∧ R df.1 df.2 s'
      | .error e => ∃ e', body (k : Int) s = .error e' ∧ e'.tag = e.tag) :
    ∀ (n k : Nat) (dest : List Int) (filt : List Bool) (s : σ), k + n + 1 = sp.length → R dest filt s →
      match filterLoop g (sp.drop k) k dest filt with
      | .ok df => ∃ s', forRangeAux (fun _ => false) body n (k : Int) s = .ok s' ∧ R df.1 df.2 s'
      | .error e => ∃ e', forRangeAux (fun _ => false) body n (k : Int) s = .error e' ∧ e'.tag = e.tag := by
  intro n
  induction n with
  | zero =>
    intro k dest filt s hk hR
    have : sp.drop k = [sp[k]'(by omega)] := by
      rw [List.drop_eq_getElem_cons (by omega)]
      simp [List.drop_eq_nil_of_le (show sp.length ≤ k + 1 by omega)]
    rw [this]
    simp only [filterLoop, forRangeAux]
    exact ⟨s, rfl, hR⟩
  | succ n ih =>
    intro k dest filt s hk hR
    have hk0 : k < sp.length := by omega
    have hk1 : k + 1 < sp.length := by omega
    have hdrop : sp.drop k = sp[k] :: sp[k + 1] :: sp.drop (k + 2) := by
      rw [List.drop_eq_getElem_cons hk0, List.drop_eq_getElem_cons hk1]
    have hdrop1 : sp.drop (k + 1) = sp[k + 1] :: sp.drop (k + 2) := List.drop_eq_getElem_cons hk1
    have hs := hstep k sp[k] sp[k + 1] dest filt s (List.getElem?_eq_getElem hk0) (List.getElem?_eq_getElem hk1) hR
    rw [hdrop, filterLoop_cons]
    simp only [forRangeAux]
    cases hf : filterStep g sp[k] sp[k + 1] k dest filt with
    | error e =>
      rw [hf] at hs
      obtain ⟨e', hb, ht⟩ := hs
      simp only [hb]
      exact ⟨e', rfl, ht⟩
    | ok df =>
      rw [hf] at hs
      obtain ⟨s', hb, hR'⟩ := hs
      simp only [hb, Bool.false_eq_true, if_false]
      have hrec := ih (k + 1) df.1 df.2 s' (by omega) hR'
      rw [hdrop1] at hrec
      have hcast : ((k : Int) + 1) = ((k + 1 : Nat) : Int) := by omega
      rw [hcast]
      exact hrec

/-- the whole loop `for i in range(len(spans) - 1)` -/
theorem forRange_filterLoop_run {σ} (sp : List Nat) (R : List Int → List Bool → σ → Prop) (body : Int → σ → Except Err σ)
    (g : Nat → Nat → Except Err Int)
    (hstep : ∀ (k cur next : Nat) (dest : List Int) (filt : List Bool) (s : σ), sp[k]? = some cur → sp[k + 1]? = some next →
      R dest filt s →
      match filterStep g cur next k dest filt with
      | .ok df => ∃ s', body (k : Int) s = .ok s' ∧ R df.1 df.2 s'
      | .error e => ∃ e', body (k : Int) s = .error e' ∧ e'.tag = e.tag)
    (s : σ) (dest : List Int) (filt : List Bool) (hR : R dest filt s) :
    match filterLoop g sp 0 dest filt with
    | .ok df => ∃ s', forRangeE 0 (pyLen (ints sp) - 1) body s = .ok s' ∧ R df.1 df.2 s'
    | .error e => ∃ e', forRangeE 0 (pyLen (ints sp) - 1) body s = .error e' ∧ e'.tag = e.tag := by
  unfold forRangeE
  cases sp with
  | nil =>
    simp only [filterLoop, pyLen, ints, List.map_nil, List.length_nil]
    exact ⟨s, rfl, hR⟩
  | cons a t =>
    have h := forRange_filterLoop (a :: t) R body g hstep t.length 0 dest filt s (by simp) hR
    have hn : (pyLen (ints (a :: t)) - 1 - 0).toNat = t.length := by simp [pyLen]
    rw [hn]
    simpa using h

/-! ### the four kernels -/

theorem first_filter_step (sp : List Nat) (k cur next : Nat) (dest : List Int) (filt : List Bool)
    (s : apply_spans_index_of_first_filter.St) (hc : sp[k]? = some cur) (hn : sp[k + 1]? = some next)
    (hR : s.p0 = ints sp ∧ s.p1 = dest ∧ s.p2 = filt) :
    match filterStep (fun cur _ => .ok (cur : Int)) cur next k dest filt with
    | .ok df => ∃ s', apply_spans_index_of_first_filter.body_L1 { s with v0 := (k : Int) } = .ok s' ∧
        (s'.p0 = ints sp ∧ s'.p1 = df.1 ∧ s'.p2 = df.2)
    | .error e => ∃ e', apply_spans_index_of_first_filter.body_L1 { s with v0 := (k : Int) } = .error e' ∧ e'.tag = e.tag := by
  obtain ⟨h0, h1, h2⟩ := hR
  have hk1 : ((k : Int) + 1) = ((k + 1 : Nat) : Int) := by omega
  simp only [apply_spans_index_of_first_filter.body_L1, h0, h1, h2, hk1, idxE_nat, getE_ints _ _ _ hc, getE_ints _ _ _ hn,
    bindE_ok, filterStep, setIdxE_nat, setE]
  by_cases hnc : next = cur
  · subst hnc
    simp only [Int.sub_self, beq_self_eq_true, if_true]
    by_cases hf : k < filt.length
    · simp only [hf, if_true, bindE_ok]; exact ⟨_, rfl, rfl, rfl, rfl⟩
    · simp only [hf, if_false, bindE_error]; exact ⟨_, rfl, rfl⟩
  · have h1' : ((next : Int) - (cur : Int) == 0) = false := by rw [beq_eq_false_iff_ne]; omega
    have h2' : (next == cur) = false := by simp [hnc]
    simp only [h1', h2', Bool.false_eq_true, if_false]
    by_cases hf : k < filt.length
    · simp only [hf, if_true, bindE_ok]
      by_cases hd : k < dest.length
      · simp only [hd, if_true, bindE_ok]; exact ⟨_, rfl, rfl, rfl, rfl⟩
      · simp only [hd, if_false, bindE_error]; exact ⟨_, rfl, rfl⟩
    · simp only [hf, if_false, bindE_error]; exact ⟨_, rfl, rfl⟩

theorem last_filter_step (sp : List Nat) (k cur next : Nat) (dest : List Int) (filt : List Bool)
    (s : apply_spans_index_of_last_filter.St) (hc : sp[k]? = some cur) (hn : sp[k + 1]? = some next)
    (hR : s.p0 = ints sp ∧ s.p1 = dest ∧ s.p2 = filt) :
    match filterStep (fun _ next => .ok ((next : Int) - 1)) cur next k dest filt with
    | .ok df => ∃ s', apply_spans_index_of_last_filter.body_L1 { s with v0 := (k : Int) } = .ok s' ∧
        (s'.p0 = ints sp ∧ s'.p1 = df.1 ∧ s'.p2 = df.2)
    | .error e => ∃ e', apply_spans_index_of_last_filter.body_L1 { s with v0 := (k : Int) } = .error e' ∧ e'.tag = e.tag := by
  obtain ⟨h0, h1, h2⟩ := hR
  have hk1 : ((k : Int) + 1) = ((k + 1 : Nat) : Int) := by omega
  simp only [apply_spans_index_of_last_filter.body_L1, h0, h1, h2, hk1, idxE_nat, getE_ints _ _ _ hc, getE_ints _ _ _ hn,
    bindE_ok, filterStep, setIdxE_nat, setE]
  by_cases hnc : next = cur
  · subst hnc
    simp only [Int.sub_self, beq_self_eq_true, if_true]
    by_cases hf : k < filt.length
    · simp only [hf, if_true, bindE_ok]; exact ⟨_, rfl, rfl, rfl, rfl⟩
    · simp only [hf, if_false, bindE_error]; exact ⟨_, rfl, rfl⟩
  · have h1' : ((next : Int) - (cur : Int) == 0) = false := by rw [beq_eq_false_iff_ne]; omega
    have h2' : (next == cur) = false := by simp [hnc]
    simp only [h1', h2', Bool.false_eq_true, if_false]
    by_cases hf : k < filt.length
    · simp only [hf, if_true, bindE_ok]
      by_cases hd : k < dest.length
      · simp only [hd, if_true, bindE_ok]; exact ⟨_, rfl, rfl, rfl, rfl⟩
      · simp only [hd, if_false, bindE_error]; exact ⟨_, rfl, rfl⟩
    · simp only [hf, if_false, bindE_error]; exact ⟨_, rfl, rfl⟩

theorem min_filter_step (sp : List Nat) (src : List Int) (k cur next : Nat) (dest : List Int) (filt : List Bool)
    (s : apply_spans_index_of_min_filter.St) (hc : sp[k]? = some cur) (hn : sp[k + 1]? = some next)
    (hR : s.p0 = ints sp ∧ s.p1 = src ∧ s.p2 = dest ∧ s.p3 = filt) :
    match filterStep (spanIndexOfMin src) cur next k dest filt with
    | .ok df => ∃ s', apply_spans_index_of_min_filter.body_L1 { s with v0 := (k : Int) } = .ok s' ∧
        (s'.p0 = ints sp ∧ s'.p1 = src ∧ s'.p2 = df.1 ∧ s'.p3 = df.2)
    | .error e => ∃ e', apply_spans_index_of_min_filter.body_L1 { s with v0 := (k : Int) } = .error e' ∧ e'.tag = e.tag := by
  obtain ⟨h0, h1, h2, h3⟩ := hR
  have hk1 : ((k : Int) + 1) = ((k + 1 : Nat) : Int) := by omega
  simp only [apply_spans_index_of_min_filter.body_L1, h0, h1, h2, h3, hk1, idxE_nat, getE_ints _ _ _ hc, getE_ints _ _ _ hn,
    bindE_ok, filterStep, setIdxE_nat, setE, spanIndexOfMin, pySlice_nat, argminE_eq]
  by_cases hnc : next = cur
  · subst hnc
    simp only [Int.sub_self, beq_self_eq_true, if_true]
    by_cases hf : k < filt.length
    · simp only [hf, if_true, bindE_ok]; exact ⟨_, rfl, rfl, rfl, rfl, rfl⟩
    · simp only [hf, if_false, bindE_error]; exact ⟨_, rfl, rfl⟩
  · have h1' : ((next : Int) - (cur : Int) == 0) = false := by rw [beq_eq_false_iff_ne]; omega
    have h2' : (next == cur) = false := by simp [hnc]
    simp only [h1', h2', Bool.false_eq_true, if_false]
    by_cases hn1 : next = cur + 1
    · subst hn1
      have h3' : ((((cur + 1 : Nat) : Int) - (cur : Int)) == 1) = true := by rw [beq_iff_eq]; omega
      simp only [h3', if_true, beq_self_eq_true]
      by_cases hf : k < filt.length
      · simp only [hf, if_true, bindE_ok]
        by_cases hd : k < dest.length
        · simp only [hd, if_true, bindE_ok]; exact ⟨_, rfl, rfl, rfl, rfl, rfl⟩
        · simp only [hd, if_false, bindE_error]; exact ⟨_, rfl, rfl⟩
      · simp only [hf, if_false, bindE_error]; exact ⟨_, rfl, rfl⟩
    · have h3' : ((next : Int) - (cur : Int) == 1) = false := by rw [beq_eq_false_iff_ne]; omega
      have h4' : (next == cur + 1) = false := by simp [hn1]
      simp only [h3', h4', Bool.false_eq_true, if_false]
      by_cases hf : k < filt.length
      · simp only [hf, if_true, bindE_ok]
        cases hm : argmin (slice src cur next) with
        | error e => exact ⟨e, rfl, rfl⟩
        | ok m =>
          have hcast : (cur : Int) + (m : Int) = ((cur + m : Nat) : Int) := by omega
          simp only [bindE_ok, hcast]
          by_cases hd : k < dest.length
          · simp only [hd, if_true, bindE_ok]; exact ⟨_, rfl, rfl, rfl, rfl, rfl⟩
          · simp only [hd, if_false, bindE_error]; exact ⟨_, rfl, rfl⟩
      · simp only [hf, if_false, bindE_error]; exact ⟨_, rfl, rfl⟩

theorem max_filter_step (sp : List Nat) (src : List Int) (k cur next : Nat) (dest : List Int) (filt : List Bool)
    (s : apply_spans_index_of_max_filter.St) (hc : sp[k]? = some cur) (hn : sp[k + 1]? = some next)
    (hR : s.p0 = ints sp ∧ s.p1 = src ∧ s.p2 = dest ∧ s.p3 = filt) :
    match filterStep (spanIndexOfMax src) cur next k dest filt with
    | .ok df => ∃ s', apply_spans_index_of_max_filter.body_L1 { s with v0 := (k : Int) } = .ok s' ∧
        (s'.p0 = ints sp ∧ s'.p1 = src ∧ s'.p2 = df.1 ∧ s'.p3 = df.2)
    | .error e => ∃ e', apply_spans_index_of_max_filter.body_L1 { s with v0 := (k : Int) } = .error e' ∧ e'.tag = e.tag := by
  obtain ⟨h0, h1, h2, h3⟩ := hR
  have hk1 : ((k : Int) + 1) = ((k + 1 : Nat) : Int) := by omega
  simp only [apply_spans_index_of_max_filter.body_L1, h0, h1, h2, h3, hk1, idxE_nat, getE_ints _ _ _ hc, getE_ints _ _ _ hn,
    bindE_ok, filterStep, setIdxE_nat, setE, spanIndexOfMax, pySlice_nat, argmaxE_eq]
  by_cases hnc : next = cur
  · subst hnc
    simp only [Int.sub_self, beq_self_eq_true, if_true]
    by_cases hf : k < filt.length
    · simp only [hf, if_true, bindE_ok]; exact ⟨_, rfl, rfl, rfl, rfl, rfl⟩
    · simp only [hf, if_false, bindE_error]; exact ⟨_, rfl, rfl⟩
  · have h1' : ((next : Int) - (cur : Int) == 0) = false := by rw [beq_eq_false_iff_ne]; omega
    have h2' : (next == cur) = false := by simp [hnc]
    simp only [h1', h2', Bool.false_eq_true, if_false]
    by_cases hn1 : next = cur + 1
    · subst hn1
      have h3' : ((((cur + 1 : Nat) : Int) - (cur : Int)) == 1) = true := by rw [beq_iff_eq]; omega
      simp only [h3', if_true, beq_self_eq_true]
      by_cases hf : k < filt.length
      · simp only [hf, if_true, bindE_ok]
        by_cases hd : k < dest.length
        · simp only [hd, if_true, bindE_ok]; exact ⟨_, rfl, rfl, rfl, rfl, rfl⟩
        · simp only [hd, if_false, bindE_error]; exact ⟨_, rfl, rfl⟩
      · simp only [hf, if_false, bindE_error]; exact ⟨_, rfl, rfl⟩
    · have h3' : ((next : Int) - (cur : Int) == 1) = false := by rw [beq_eq_false_iff_ne]; omega
      have h4' : (next == cur + 1) = false := by simp [hn1]
      simp only [h3', h4', Bool.false_eq_true, if_false]
      by_cases hf : k < filt.length
      · simp only [hf, if_true, bindE_ok]
        cases hm : argmax (slice src cur next) with
        | error e => exact ⟨e, rfl, rfl⟩
        | ok m =>
          have hcast : (cur : Int) + (m : Int) = ((cur + m : Nat) : Int) := by omega
          simp only [bindE_ok, hcast]
          by_cases hd : k < dest.length
          · simp only [hd, if_true, bindE_ok]; exact ⟨_, rfl, rfl, rfl, rfl, rfl⟩
          · simp only [hd, if_false, bindE_error]; exact ⟨_, rfl, rfl⟩
      · simp only [hf, if_false, bindE_error]; exact ⟨_, rfl, rfl⟩

theorem apply_spans_index_of_first_filter_refines (sp : List Nat) (dest : List Int) (filt : List Bool) :
    Sim (apply_spans_index_of_first_filter.run (ints sp) dest filt) (applySpansIndexOfFirstFilter sp dest filt) := by
  unfold apply_spans_index_of_first_filter.run applySpansIndexOfFirstFilter
  have h := forRange_filterLoop_run sp
    (fun d f (s : apply_spans_index_of_first_filter.St) => s.p0 = ints sp ∧ s.p1 = d ∧ s.p2 = f)
    (fun k s => apply_spans_index_of_first_filter.body_L1 { s with v0 := k }) (fun cur _ => .ok (cur : Int))
    (fun k cur next d f s hc hn hR => first_filter_step sp k cur next d f s hc hn hR)
    { p0 := ints sp, p1 := dest, p2 := filt, v0 := 0, v1 := 0, v2 := 0 } dest filt ⟨rfl, rfl, rfl⟩
  cases hp : filterLoop (fun cur _ => Except.ok (cur : Int)) sp 0 dest filt with
  | error e =>
    rw [hp] at h
    obtain ⟨e', hrun, ht⟩ := h
    simp only [hrun, bindE_error, Sim, ht]
  | ok df =>
    rw [hp] at h
    obtain ⟨s', hrun, _, h1, h2⟩ := h
    simp only [hrun, bindE_ok, Sim, h1, h2]

theorem apply_spans_index_of_last_filter_refines (sp : List Nat) (dest : List Int) (filt : List Bool) :
    Sim (apply_spans_index_of_last_filter.run (ints sp) dest filt) (applySpansIndexOfLastFilter sp dest filt) := by
  unfold apply_spans_index_of_last_filter.run applySpansIndexOfLastFilter
  have h := forRange_filterLoop_run sp
    (fun d f (s : apply_spans_index_of_last_filter.St) => s.p0 = ints sp ∧ s.p1 = d ∧ s.p2 = f)
    (fun k s => apply_spans_index_of_last_filter.body_L1 { s with v0 := k }) (fun _ next => .ok ((next : Int) - 1))
    (fun k cur next d f s hc hn hR => last_filter_step sp k cur next d f s hc hn hR)
    { p0 := ints sp, p1 := dest, p2 := filt, v0 := 0, v1 := 0, v2 := 0 } dest filt ⟨rfl, rfl, rfl⟩
  cases hp : filterLoop (fun _ next => Except.ok ((next : Int) - 1)) sp 0 dest filt with
  | error e =>
    rw [hp] at h
    obtain ⟨e', hrun, ht⟩ := h
    simp only [hrun, bindE_error, Sim, ht]
  | ok df =>
    rw [hp] at h
    obtain ⟨s', hrun, _, h1, h2⟩ := h
    simp only [hrun, bindE_ok, Sim, h1, h2]

theorem apply_spans_index_of_min_filter_refines (sp : List Nat) (src dest : List Int) (filt : List Bool) :
    Sim (apply_spans_index_of_min_filter.run (ints sp) src dest filt) (applySpansIndexOfMinFilter sp src dest filt) := by
  unfold apply_spans_index_of_min_filter.run applySpansIndexOfMinFilter
  have h := forRange_filterLoop_run sp
    (fun d f (s : apply_spans_index_of_min_filter.St) => s.p0 = ints sp ∧ s.p1 = src ∧ s.p2 = d ∧ s.p3 = f)
    (fun k s => apply_spans_index_of_min_filter.body_L1 { s with v0 := k }) (spanIndexOfMin src)
    (fun k cur next d f s hc hn hR => min_filter_step sp src k cur next d f s hc hn hR)
    { p0 := ints sp, p1 := src, p2 := dest, p3 := filt, v0 := 0, v1 := 0, v2 := 0 } dest filt ⟨rfl, rfl, rfl, rfl⟩
  cases hp : filterLoop (spanIndexOfMin src) sp 0 dest filt with
  | error e =>
    rw [hp] at h
    obtain ⟨e', hrun, ht⟩ := h
    simp only [hrun, bindE_error, Sim, ht]
  | ok df =>
    rw [hp] at h
    obtain ⟨s', hrun, _, _, h1, h2⟩ := h
    simp only [hrun, bindE_ok, Sim, h1, h2]

theorem apply_spans_index_of_max_filter_refines (sp : List Nat) (src dest : List Int) (filt : List Bool) :
    Sim (apply_spans_index_of_max_filter.run (ints sp) src dest filt) (applySpansIndexOfMaxFilter sp src dest filt) := by
  unfold apply_spans_index_of_max_filter.run applySpansIndexOfMaxFilter
  have h := forRange_filterLoop_run sp
    (fun d f (s : apply_spans_index_of_max_filter.St) => s.p0 = ints sp ∧ s.p1 = src ∧ s.p2 = d ∧ s.p3 = f)
    (fun k s => apply_spans_index_of_max_filter.body_L1 { s with v0 := k }) (spanIndexOfMax src)
    (fun k cur next d f s hc hn hR => max_filter_step sp src k cur next d f s hc hn hR)
    { p0 := ints sp, p1 := src, p2 := dest, p3 := filt, v0 := 0, v1 := 0, v2 := 0 } dest filt ⟨rfl, rfl, rfl, rfl⟩
  cases hp : filterLoop (spanIndexOfMax src) sp 0 dest filt with
  | error e =>
    rw [hp] at h
    obtain ⟨e', hrun, ht⟩ := h
    simp only [hrun, bindE_error, Sim, ht]
  | ok df =>
    rw [hp] at h
    obtain ⟨s', hrun, _, _, h1, h2⟩ := h
    simp only [hrun, bindE_ok, Sim, h1, h2]

end Exetera.GenK
