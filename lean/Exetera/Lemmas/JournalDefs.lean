import Exetera.Model.Journal
import Exetera.Spec.Journal
/-! Vocabulary shared by the C17 lemmas and theorems: what "the rows differ", "the result column" and "well-formed table"
    mean for the model's column type `Col` (a compared field: old and new column, numeric or string). -/
namespace Exetera.Journal
open Exetera.Spec.Journal

/-- old row `r` and snapshot row `j` differ in this field -/
def Col.differs : Col → Nat → Nat → Bool
  | .num o n, r, j => o[r]? != n[j]?
  | .str o n, r, j => o[r]? != n[j]?

/-- "differs in any compared field" -/
def differsAny (cols : List Col) (r j : Nat) : Bool := cols.any (fun c => c.differs r j)

/-- the specified result field: the field's two columns read along the plan (an indexed string field in its
    (indices, values) layout) -/
def Col.out (p : List Src) : Col → OutCol
  | .num o n => .num (column p o n)
  | .str o n => .str (encode (column p o n)).1 (encode (column p o n)).2

/-- the field has one cell per row of each table -/
def Col.WF (lo ln : Nat) : Col → Prop
  | .num o n => o.length = lo ∧ n.length = ln
  | .str o n => o.length = lo ∧ n.length = ln

/-- number of rows of a result field -/
def OutCol.rows : OutCol → Nat
  | .num d => d.length
  | .str i _ => i.length - 1

end Exetera.Journal
